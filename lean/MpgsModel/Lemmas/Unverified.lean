import MpgsModel.Lemmas.Quiet
import MpgsModel.Lemmas.Lifecycle
import MpgsModel.Lemmas.Kick
import MpgsModel.Lemmas.RoleOn
import MpgsModel.Props.C02
/-!
# Half-open connections over whole runs of the server loop

Every entry of the half-open pool is *quiet* (`Lemmas/Quiet.lean`) and owes at most one reply; the
sweep over that pool sends to an address at most what its entry owes; a CLIENT_HELLO datagram from
an address is the only thing that raises what the address is owed, by one.  Potential function:
`phip s.temps a` (what `a`'s entry owes, 0 when there is none).
-/
namespace Mpgs.Conn
open Mpgs.Bytes Mpgs.Wire

/-- the server role is the role-with-connect-handler whose handler does nothing -/
theorem serverRole_eq_roleOn (H : Hs) (tok : Nat) (tt : Option Nat) : serverRole H tok tt = serverRoleOn H tok tt id := by
  unfold serverRole serverRoleOn
  congr 1
  funext c t d
  split <;> rfl

/-- a server-side connection without a key is never promoted by a datagram: the only datagram it
does not drop carries exactly one message, a CLIENT_HELLO -/
theorem unkeyed_not_promoted (C : Crypto) (H : Hs) (tok : Nat) (tt : Option Nat) (c : Conn) (t : Int) (h : Header) (d : Bytes)
    (hk : c.key = none) (hs : c.isServer = true) :
    Event.promoted ∉ (recvDatagram C (serverRole H tok tt) c t h d).2.1 := by
  rcases recv_cases C (serverRole H tok tt) c t h d with hd | ⟨pkt, bf, hf, hg, _, _, heq⟩
  · rw [hd]; simp [drop1]
  · rw [heq]
    unfold accept
    simp only [List.mem_append, not_or]
    refine ⟨by unfold handleAckBits; exact handleAckKeys_no_promoted _ _ _ _, ?_⟩
    intro hp
    obtain ⟨m, hm, hty, _⟩ := recvMessages_promoted H tok tt t pkt.msgs _ hp
    -- the gate: one message, typed by the header as CLIENT_HELLO
    simp only [gateUnkeyed, hk, keyed, Option.isNone_none, Bool.true_and, expectedHello, hs, if_true,
      Bool.or_eq_false_iff, bne_eq_false_iff_eq] at hg
    unfold fromBytes at hf
    cases hb : openBody C h c.key d with
    | error e => simp [hb] at hf
    | ok msg =>
      simp only [hb] at hf
      have hh := parseMsgs_hdr h msg pkt hf
      unfold parseMsgs at hf
      have hc1 : h.count = 1 := by rw [← hh.1]; exact hg.1
      simp only [hc1, if_true] at hf
      split at hf
      · simp at hf
      · injection hf with hf
        rw [← hf] at hm hg
        simp only [List.mem_singleton] at hm
        rw [hm] at hty
        simp only at hty hg
        rw [hg.2] at hty
        cases hty

end Mpgs.Conn

namespace Mpgs.Server
open Mpgs.Bytes Mpgs.Wire Mpgs.Conn

/-- every half-open connection in the pool is quiet and owes at most one reply -/
def TQp (p : Pool) : Prop := ∀ a e, pget p a = some e → Quiet e.conn ∧ owe e.conn ≤ 1

/-- what the server still may send to `a` while `a` is half-open -/
def phip (p : Pool) (a : Addr) : Nat := match pget p a with | some e => owe e.conn | none => 0

theorem tqp_pset (p : Pool) (b : Addr) (v : Ent) (h : TQp p) (hv : Quiet v.conn ∧ owe v.conn ≤ 1) : TQp (pset p b v) := by
  intro a e he
  by_cases hab : a = b
  · subst hab; rw [lc_pget_pset_self] at he; injection he with he; subst he; exact hv
  · rw [lc_pget_pset_ne _ _ _ _ hab] at he; exact h a e he

theorem tqp_pdel (p : Pool) (b : Addr) (hk : KN p) (h : TQp p) : TQp (pdel p b) := by
  intro a e he
  have hm := (pdel_mem p b hk a e).mp (pget_some_mem _ _ _ he)
  exact h a e (pget_of_mem p a e hk hm.1)

theorem phip_pset_self (p : Pool) (a : Addr) (v : Ent) : phip (pset p a v) a = owe v.conn := by
  simp [phip, lc_pget_pset_self]

theorem phip_pset_ne (p : Pool) (a b : Addr) (v : Ent) (h : a ≠ b) : phip (pset p b v) a = phip p a := by
  simp [phip, lc_pget_pset_ne _ _ _ _ h]

theorem phip_pdel_ne (p : Pool) (a b : Addr) (h : a ≠ b) : phip (pdel p b) a = phip p a := by
  simp [phip, lc_pget_pdel_ne _ _ _ h]

/-- datagrams handed to the socket for address `a` -/
def nSendTo (a : Addr) : List SEvent → Nat
  | [] => 0
  | .sendTo b _ _ :: t => (if b = a then 1 else 0) + nSendTo a t
  | _ :: t => nSendTo a t

theorem nSendTo_append (a : Addr) (x y : List SEvent) : nSendTo a (x ++ y) = nSendTo a x + nSendTo a y := by
  induction x with
  | nil => simp [nSendTo]
  | cons e t ih => cases e <;> simp [nSendTo, ih, Nat.add_assoc]

theorem nSendTo_zero (a : Addr) (evs : List SEvent) (h : ∀ e ∈ evs, ∀ b hd d, e ≠ SEvent.sendTo b hd d) : nSendTo a evs = 0 := by
  induction evs with
  | nil => rfl
  | cons e t ih =>
    have ht := ih (fun x hx => h x (List.mem_cons_of_mem _ hx))
    have he := h e (List.mem_cons_self ..)
    cases e <;> first | exact absurd rfl (he _ _ _) | simpa [nSendTo] using ht

/-- queued datagrams from `a` whose header says CLIENT_HELLO -/
def nHelloFrom (a : Addr) : List Item → Nat
  | [] => 0
  | it :: t => (if it.addr = a ∧ it.hdr.ptype = .clientHello then 1 else 0) + nHelloFrom a t

structure ItemSpec (s s' : Srv) (a : Addr) (evs : List SEvent) (bonus : Nat) : Prop where
  kn : KN s'.temps
  tq : TQp s'.temps
  nc : pget s'.conns a = none
  ns : nSendTo a evs = 0
  ph : phip s'.temps a ≤ phip s.temps a + bonus

theorem fresh_quiet (ka ot : Int) : Quiet { isServer := true, keepAlive := ka, outgoingTimeout := ot } ∧
    owe { isServer := true, keepAlive := ka, outgoingTimeout := ot } = 1 := by
  refine ⟨⟨rfl, rfl, rfl, by simp [qp], by intro m hm; simp [qp] at hm⟩, rfl⟩


theorem handleItem_unv (sz : Sizes) (C : Crypto) (s : Srv) (t : Int) (it : Item) (acts : List HAct) (a : Addr)
    (hk : KN s.temps) (hq : TQp s.temps) (hc : pget s.conns a = none)
    (hnc : ∀ id tok, SEvent.connect id a tok ∉ (handleItem sz C s t it acts).2.2) :
    ItemSpec s (handleItem sz C s t it acts).1 a (handleItem sz C s t it acts).2.2
      (if it.addr = a ∧ it.hdr.ptype = .clientHello then 1 else 0) := by
  unfold handleItem at hnc ⊢
  cases hci : pget s.conns it.addr with
  | some e =>
    have hne : a ≠ it.addr := by intro h; rw [h] at hc; rw [hc] at hci; cases hci
    simp only
    split
    · exact ⟨hk, hq, by simp only; rw [lc_pget_pset_ne _ _ _ _ hne]; exact hc, by simp [nSendTo], Nat.le_add_right _ _⟩
    · refine ⟨hk, hq, by simp only; rw [lc_pget_pset_ne _ _ _ _ hne]; exact hc, ?_, Nat.le_add_right _ _⟩
      apply nSendTo_zero
      intro x hx b hd d hh
      rcases dispatchMsgs_events sz e.id _ _ acts x hx with ⟨sq, p, h1, _⟩ | ⟨w, h1⟩ <;> (rw [h1] at hh; cases hh)
  | none =>
    rw [hci] at hnc
    simp only at hnc ⊢
    cases ht : pget s.temps it.addr with
    | some e =>
      rw [ht] at hnc
      simp only at hnc ⊢
      by_cases hty : it.hdr.ptype ≠ .challengeResp
      · rw [if_pos hty]
        exact ⟨hk, hq, hc, rfl, Nat.le_add_right _ _⟩
      · rw [if_neg hty] at hnc ⊢
        by_cases hpr : (recvDatagram C (serverRoleOn it.H (tokFor s it) (some e.conn.token) (fun c => actOn sz c (nextAct acts).1)) e.conn t it.hdr it.d).2.1.contains Event.promoted = true
        · -- promoted: the address leaves the half-open pool; it is not `a`
          rw [if_pos hpr] at hnc ⊢
          have hne : a ≠ it.addr := by
            intro h
            apply hnc e.id (recvDatagram C (serverRoleOn it.H (tokFor s it) (some e.conn.token) (fun c => actOn sz c (nextAct acts).1)) e.conn t it.hdr it.d).1.token
            rw [h]
            split <;> simp
          have hsp : ∀ evs : List SEvent, (∀ x ∈ evs, ∀ b hd d, x ≠ SEvent.sendTo b hd d) →
              ItemSpec s { s with temps := pdel s.temps it.addr,
                                  conns := pset s.conns it.addr { e with conn := (recvDatagram C (serverRoleOn it.H (tokFor s it) (some e.conn.token) (fun c => actOn sz c (nextAct acts).1)) e.conn t it.hdr it.d).1 } } a evs
                (if it.addr = a ∧ it.hdr.ptype = .clientHello then 1 else 0) := by
            intro evs hev
            exact ⟨kn_pdel _ _ hk, tqp_pdel _ _ hk hq, by simp only; rw [lc_pget_pset_ne _ _ _ _ hne]; exact hc,
              nSendTo_zero a evs hev, by simp only; rw [phip_pdel_ne _ _ _ hne]; exact Nat.le_add_right _ _⟩
          split
          · apply hsp
            intro x hx b hd d hh
            simp only [List.mem_append, List.mem_singleton] at hx
            rcases hx with (hx | hx) | hx
            · rw [hx] at hh; cases hh
            · split at hx
              · simp at hx; rw [hx] at hh; cases hh
              · simp at hx
            · rw [hx] at hh; cases hh
          · apply hsp
            intro x hx b hd d hh
            simp only [List.mem_append, List.mem_singleton] at hx
            rcases hx with hx | hx
            · rw [hx] at hh; cases hh
            · split at hx
              · simp at hx; rw [hx] at hh; cases hh
              · simp at hx
        · rw [if_neg hpr]
          have hnp : Event.promoted ∉ (recvDatagram C (serverRoleOn it.H (tokFor s it) (some e.conn.token) (fun c => actOn sz c (nextAct acts).1)) e.conn t it.hdr it.d).2.1 := by
            intro h; exact hpr (List.contains_iff_mem.mpr h)
          have he := hq it.addr e ht
          have hr := quiet_recvDatagram C it.H (tokFor s it) (some e.conn.token) (fun c => actOn sz c (nextAct acts).1) e.conn t it.hdr it.d he.1 hnp
          have hsp : ∀ evs : List SEvent, nSendTo a evs = 0 →
              ItemSpec s { s with temps := pset s.temps it.addr { e with conn := (recvDatagram C (serverRoleOn it.H (tokFor s it) (some e.conn.token) (fun c => actOn sz c (nextAct acts).1)) e.conn t it.hdr it.d).1 } } a evs
                (if it.addr = a ∧ it.hdr.ptype = .clientHello then 1 else 0) := by
            intro evs hev
            refine ⟨kn_pset _ _ _ hk, tqp_pset _ _ _ hq ⟨hr.1, Nat.le_trans hr.2 he.2⟩, hc, hev, ?_⟩
            simp only
            by_cases hab : a = it.addr
            · subst hab
              rw [phip_pset_self]
              have : phip s.temps it.addr = owe e.conn := by simp [phip, ht]
              rw [this]; exact Nat.le_trans hr.2 (Nat.le_add_right _ _)
            · rw [phip_pset_ne _ _ _ _ hab]; exact Nat.le_add_right _ _
          split
          · exact hsp _ (by simp [nSendTo])
          · exact hsp _ rfl
    | none =>
      simp only
      by_cases hty : it.hdr.ptype ≠ .clientHello
      · rw [if_pos hty]
        exact ⟨hk, hq, hc, rfl, Nat.le_add_right _ _⟩
      · rw [if_neg hty]
        have hty' : it.hdr.ptype = .clientHello := by
          cases h : it.hdr.ptype <;> simp_all
        have hf := fresh_quiet s.cfg.keepAlive s.cfg.outgoingTimeout
        generalize hc0 : ({ isServer := true, keepAlive := s.cfg.keepAlive, outgoingTimeout := s.cfg.outgoingTimeout } : Conn) = c0 at *
        have hk0 : c0.key = none := by rw [← hc0]
        have hs0 : c0.isServer = true := by rw [← hc0]
        generalize htk : tokFor { s with temps := pset s.temps it.addr ⟨s.born, c0⟩, born := s.born + 1 } it = tk
        have hnp := unkeyed_not_promoted C it.H tk (some 0) c0 t it.hdr it.d hk0 hs0
        rw [serverRole_eq_roleOn] at hnp
        have hr := quiet_recvDatagram C it.H tk (some 0) id c0 t it.hdr it.d hf.1 hnp
        rw [← serverRole_eq_roleOn] at hr
        have hsp : ∀ evs : List SEvent, nSendTo a evs = 0 →
            ItemSpec s { s with temps := pset (pset s.temps it.addr ⟨s.born, c0⟩) it.addr ⟨s.born, (recvDatagram C (serverRole it.H tk (some 0)) c0 t it.hdr it.d).1⟩, born := s.born + 1 } a evs
              (if it.addr = a ∧ it.hdr.ptype = .clientHello then 1 else 0) := by
          intro evs hev
          refine ⟨kn_pset _ _ _ (kn_pset _ _ _ hk), tqp_pset _ _ _ (tqp_pset _ _ _ hq ⟨hf.1, Nat.le_of_eq hf.2⟩) ⟨hr.1, by rw [← hf.2]; exact hr.2⟩, hc, hev, ?_⟩
          simp only
          by_cases hab : a = it.addr
          · subst hab
            rw [phip_pset_self]
            simp only [hty', and_self, if_true]
            have := hr.2; rw [hf.2] at this
            omega
          · rw [phip_pset_ne _ _ _ _ hab, phip_pset_ne _ _ _ _ hab]; exact Nat.le_add_right _ _
        split
        · exact hsp _ (by simp [nSendTo])
        · exact hsp _ rfl



theorem itemSpec_trans (s s1 s2 : Srv) (a : Addr) (e1 e2 : List SEvent) (b1 b2 : Nat)
    (h1 : ItemSpec s s1 a e1 b1) (h2 : ItemSpec s1 s2 a e2 b2) : ItemSpec s s2 a (e1 ++ e2) (b1 + b2) :=
  ⟨h2.kn, h2.tq, h2.nc, by rw [nSendTo_append, h1.ns, h2.ns], by have := h1.ph; have := h2.ph; omega⟩

theorem handleItems_unv (sz : Sizes) (C : Crypto) (t : Int) (s : Srv) (items : List Item) (acts : List HAct) (a : Addr)
    (hk : KN s.temps) (hq : TQp s.temps) (hc : pget s.conns a = none)
    (hnc : ∀ id tok, SEvent.connect id a tok ∉ (handleItems sz C t s items acts).2.2) :
    ItemSpec s (handleItems sz C t s items acts).1 a (handleItems sz C t s items acts).2.2 (nHelloFrom a items) := by
  induction items generalizing s acts with
  | nil => exact ⟨hk, hq, hc, rfl, Nat.le_refl _⟩
  | cons it rest ih =>
    simp only [handleItems] at hnc ⊢
    have h1 := handleItem_unv sz C s t it acts a hk hq hc
    generalize handleItem sz C s t it acts = r1 at *
    obtain ⟨s1, acts1, e1⟩ := r1
    simp only at h1 hnc ⊢
    have h1' := h1 (fun id tok h => hnc id tok (List.mem_append_left _ h))
    have h2 := ih s1 acts1 h1'.kn h1'.tq h1'.nc
    generalize handleItems sz C t s1 rest acts1 = r2 at *
    obtain ⟨s2, acts2, e2⟩ := r2
    simp only at h2 hnc ⊢
    have h2' := h2 (fun id tok h => hnc id tok (List.mem_append_right _ h))
    exact itemSpec_trans s s1 s2 a e1 e2 _ _ h1' h2'

/-- `client.update()` of a quiet connection: at most the datagrams it owes, to its own address only -/
theorem updateOut_quiet (C : Crypto) (sz : Sizes) (addr : Addr) (c : Conn) (t : Int) (hq : Quiet c) :
    Quiet (updateOut C sz addr c t).1 ∧ nSendTo addr (updateOut C sz addr c t).2 + owe (updateOut C sz addr c t).1 ≤ owe c := by
  have h := quiet_serverUpdate sz c t hq
  unfold updateOut
  generalize serverUpdate sz c t = r at *
  obtain ⟨c1, ev, res⟩ := r
  cases res with
  | error x => exact ⟨h.1, by have := h.2; simp only at this ⊢; simp [nSendTo]; exact this⟩
  | ok o =>
    cases o with
    | none => exact ⟨h.1, by have := h.2; simp only at this ⊢; simp [nSendTo]; exact this⟩
    | some pkt =>
      refine ⟨h.1, ?_⟩
      have h2 := h.2
      simp only at h2 ⊢
      have hl : 1 ≤ pkt.msgs.length := by
        cases hm : pkt.msgs with
        | nil => exact absurd hm h2.2.1
        | cons x xs => simp
      split <;> simp [nSendTo] <;> omega

theorem updateOut_other (C : Crypto) (sz : Sizes) (addr a : Addr) (c : Conn) (t : Int) (h : addr ≠ a) :
    nSendTo a (updateOut C sz addr c t).2 = 0 := by
  unfold updateOut
  split
  · split <;> simp [nSendTo, h]
  · rfl
  · simp [nSendTo]

/-- the sweep over the connected pool leaves the half-open pool alone and sends nothing to an
address that is not in the connected pool -/
theorem sweepConns_unv (C : Crypto) (sz : Sizes) (t : Int) (s : Srv) (snap : List (Addr × Ent)) (acts : List HAct) (a : Addr)
    (hc : pget s.conns a = none) :
    (sweepConns C sz t s snap acts).1.temps = s.temps ∧ pget (sweepConns C sz t s snap acts).1.conns a = none ∧
    nSendTo a (sweepConns C sz t s snap acts).2.2 = 0 := by
  induction snap generalizing s acts with
  | nil => exact ⟨rfl, hc, rfl⟩
  | cons x rest ih =>
    obtain ⟨addr, e0⟩ := x
    simp only [sweepConns]
    cases hg : pget s.conns addr with
    | none => exact ih s acts hc
    | some ent =>
      have hne : addr ≠ a := by intro h; rw [h, hc] at hg; cases hg
      have hne' : a ≠ addr := fun h => hne h.symm
      simp only
      generalize (if ent.conn.status = Status.disconnecting then Conn.disconnect ent.conn none else ent.conn) = c1
      by_cases hcond : c1.status = Status.disconnected ∨ timedOut c1 t s.cfg.connTimeout = true
      · simp only [hcond, if_true]
        have h2 := ih { s with conns := pdel s.conns addr } (nextAct acts).2 (by simp only; rw [lc_pget_pdel_ne _ _ _ hne']; exact hc)
        refine ⟨h2.1, h2.2.1, ?_⟩
        simp only [nSendTo_append, h2.2.2, updateOut_other C sz addr a _ t hne]
        have : nSendTo a (if (nextAct acts).1.raises = true then [SEvent.contained "disconnect"] else []) = 0 := by
          split <;> rfl
        simp [nSendTo, this]
      · simp only [hcond, if_false]
        have h2 := ih { s with conns := pset s.conns addr { ent with conn := (updateOut C sz addr c1 t).1 } } acts
          (by simp only; rw [lc_pget_pset_ne _ _ _ _ hne']; exact hc)
        refine ⟨h2.1, h2.2.1, ?_⟩
        simp only [nSendTo_append, h2.2.2, updateOut_other C sz addr a _ t hne]


theorem pget_pdel_self_kn (p : Pool) (a : Addr) (hk : KN p) : pget (pdel p a) a = none := by
  cases h : pget (pdel p a) a with
  | none => rfl
  | some e => exact absurd rfl ((pdel_mem p a hk a e).mp (pget_some_mem _ _ _ h)).2

/-- the sweep over the half-open pool: what goes out to `a` is paid for by what `a`'s entry owed -/
theorem sweepTemps_unv (C : Crypto) (sz : Sizes) (t : Int) (s : Srv) (snap : List (Addr × Ent)) (a : Addr)
    (hk : KN s.temps) (hq : TQp s.temps)
    (hsnap : ∀ x ∈ snap, pget s.temps x.1 = some x.2) (hnd : (snap.map (·.1)).Nodup) :
    KN (sweepTemps C sz t s snap).1.temps ∧ TQp (sweepTemps C sz t s snap).1.temps ∧
    (sweepTemps C sz t s snap).1.conns = s.conns ∧
    nSendTo a (sweepTemps C sz t s snap).2 + phip (sweepTemps C sz t s snap).1.temps a ≤ phip s.temps a := by
  induction snap generalizing s with
  | nil => exact ⟨hk, hq, rfl, by simp [sweepTemps, nSendTo]⟩
  | cons x rest ih =>
    obtain ⟨addr, e⟩ := x
    simp only [List.map_cons, List.nodup_cons] at hnd
    have hne : ∀ y ∈ rest, y.1 ≠ addr := by
      intro y hy heq
      exact hnd.1 (List.mem_map.mpr ⟨y, hy, heq⟩)
    have hcur : pget s.temps addr = some e := hsnap (addr, e) (List.mem_cons_self ..)
    have he := hq addr e hcur
    simp only [sweepTemps]
    split
    · have h2 := ih { s with temps := pdel s.temps addr } (kn_pdel _ _ hk) (tqp_pdel _ _ hk hq)
        (by
          intro y hy
          simp only
          rw [lc_pget_pdel_ne _ _ _ (hne y hy)]
          exact hsnap y (List.mem_cons_of_mem _ hy)) hnd.2
      refine ⟨h2.1, h2.2.1, h2.2.2.1, Nat.le_trans h2.2.2.2 ?_⟩
      simp only
      by_cases hab : a = addr
      · subst hab; simp [phip, pget_pdel_self_kn _ _ hk]
      · rw [phip_pdel_ne _ _ _ hab]; exact Nat.le_refl _
    · have hu := updateOut_quiet C sz addr e.conn t he.1
      have h2 := ih { s with temps := pset s.temps addr { e with conn := (updateOut C sz addr e.conn t).1 } }
        (kn_pset _ _ _ hk) (tqp_pset _ _ _ hq ⟨hu.1, by have := hu.2; have := he.2; show owe (updateOut C sz addr e.conn t).1 ≤ 1; omega⟩)
        (by
          intro y hy
          simp only
          rw [lc_pget_pset_ne _ _ _ _ (hne y hy)]
          exact hsnap y (List.mem_cons_of_mem _ hy)) hnd.2
      generalize sweepTemps C sz t { s with temps := pset s.temps addr { e with conn := (updateOut C sz addr e.conn t).1 } } rest = r2 at h2
      obtain ⟨s2, e2⟩ := r2
      simp only at h2 ⊢
      refine ⟨h2.1, h2.2.1, h2.2.2.1, ?_⟩
      rw [nSendTo_append]
      by_cases hab : a = addr
      · subst hab
        have h3 := h2.2.2.2
        rw [phip_pset_self] at h3
        simp only at h3
        have : phip s.temps a = owe e.conn := by simp [phip, hcur]
        rw [this]
        have := hu.2
        omega
      · have h3 := h2.2.2.2
        rw [phip_pset_ne _ _ _ _ hab] at h3
        rw [updateOut_other C sz addr a _ t (fun h => hab h.symm)]
        omega

theorem maybeKick_temps (s : Srv) (x : HAct) : (if x = HAct.kick then kickAll s else s).temps = s.temps := by
  split <;> rfl

theorem maybeKick_absent (s : Srv) (x : HAct) (a : Addr) (h : pget s.conns a = none) :
    pget (if x = HAct.kick then kickAll s else s).conns a = none := by
  split
  · rw [pget_kickAll, h]; rfl
  · exact h

/-- one iteration of the loop, for an address that is not connected and is not connected in it -/
theorem iter_unv (sz : Sizes) (C : Crypto) (s : Srv) (tq ts : Int) (batch : List Item) (acts : List HAct) (a : Addr)
    (hk : KN s.temps) (hq : TQp s.temps) (hc : pget s.conns a = none)
    (hnc : ∀ id tok, SEvent.connect id a tok ∉ (iter sz C s tq ts batch acts).2) :
    KN (iter sz C s tq ts batch acts).1.temps ∧ TQp (iter sz C s tq ts batch acts).1.temps ∧
    pget (iter sz C s tq ts batch acts).1.conns a = none ∧
    nSendTo a (iter sz C s tq ts batch acts).2 + phip (iter sz C s tq ts batch acts).1.temps a ≤
      phip s.temps a + nHelloFrom a batch := by
  unfold iter at hnc ⊢
  have h1 := handleItems_unv sz C tq s batch acts a hk hq hc
  generalize handleItems sz C tq s batch acts = r1 at *
  obtain ⟨s1, acts1, e1⟩ := r1
  simp only at h1 hnc ⊢
  have h2 := sweepConns_unv C sz ts (if (nextAct acts1).1 = HAct.kick then kickAll s1 else s1)
    (if (nextAct acts1).1 = HAct.kick then kickAll s1 else s1).conns (nextAct acts1).2 a
  generalize sweepConns C sz ts (if (nextAct acts1).1 = HAct.kick then kickAll s1 else s1)
    (if (nextAct acts1).1 = HAct.kick then kickAll s1 else s1).conns (nextAct acts1).2 = r2 at *
  obtain ⟨s2, acts2, e2⟩ := r2
  simp only at h2 hnc ⊢
  have h3 := sweepTemps_unv C sz ts s2 s2.temps a
  generalize sweepTemps C sz ts s2 s2.temps = r3 at *
  obtain ⟨s3, e3⟩ := r3
  simp only at h3 hnc ⊢
  have h1' := h1 (fun id tok h => hnc id tok (by simp only [List.append_assoc]; exact List.mem_append_left _ h))
  have h2' := h2 (maybeKick_absent s1 _ a h1'.nc)
  rw [maybeKick_temps] at h2'
  have hk2 : KN s2.temps := by rw [h2'.1]; exact h1'.kn
  have hq2 : TQp s2.temps := by rw [h2'.1]; exact h1'.tq
  have h3' := h3 hk2 hq2 (fun x hx => pget_of_mem _ _ _ hk2 hx) hk2
  refine ⟨h3'.1, h3'.2.1, by rw [h3'.2.2.1]; exact h2'.2.1, ?_⟩
  have hu : nSendTo a ([SEvent.update] ++ (if (nextAct acts1).1.raises = true then [SEvent.contained "update"] else [])) = 0 := by
    split <;> rfl
  simp only [nSendTo_append, h1'.ns, hu, h2'.2.2]
  have := h3'.2.2.2
  rw [h2'.1] at this
  have := h1'.ph
  omega

/-- **whole runs** -/
theorem runLoop_unv (sz : Sizes) (C : Crypto) (s : Srv) (ins : List IterIn) (a : Addr)
    (hk : KN s.temps) (hq : TQp s.temps) (hc : pget s.conns a = none)
    (hnc : ∀ id tok, SEvent.connect id a tok ∉ (runLoop sz C s ins).2) :
    nSendTo a (runLoop sz C s ins).2 + phip (runLoop sz C s ins).1.temps a ≤
      phip s.temps a + (ins.map (fun i => nHelloFrom a i.batch)).sum := by
  induction ins generalizing s with
  | nil => simp [runLoop, nSendTo]
  | cons i rest ih =>
    simp only [runLoop] at hnc ⊢
    have h1 := iter_unv sz C s i.tq i.ts i.batch i.acts a hk hq hc
      (fun id tok h => hnc id tok (List.mem_append_left _ h))
    have h2 := ih (iter sz C s i.tq i.ts i.batch i.acts).1 h1.1 h1.2.1 h1.2.2.1
      (fun id tok h => hnc id tok (List.mem_append_right _ h))
    simp only [nSendTo_append, List.map_cons, List.sum_cons]
    have := h1.2.2.2
    omega

end Mpgs.Server
