import MpgsModel.Lemmas.Router
/-
C16, top level: from `elems_sound` / `elems_complete` to `reMatch`, `groups`, `parsePattern`,
the route table and `dispatch`.
-/
namespace Mpgs.Router
open Mpgs.Regex

/-! ### captures as `m.groups()` -/

theorem lookup_capsOf : ∀ (b : Spec.Vals) (i : Nat) (c : Caps) (j : Nat),
    (∀ k, i ≤ k → lookup k c = none) →
    lookup j (capsOf i b c) = if j < i then lookup j c else b.getD (j - i) none := by
  intro b
  induction b with
  | nil =>
    intro i c j hc
    by_cases h : j < i
    · simp [capsOf, h]
    · simp [capsOf, h, hc j (by omega)]
  | cons v b ih =>
    intro i c j hc
    cases v with
    | none =>
      have := ih (i + 1) c j (fun k hk => hc k (by omega))
      simp only [capsOf, this]
      by_cases h1 : j < i
      · simp [h1, show j < i + 1 by omega]
      · by_cases h2 : j = i
        · subst h2
          simp [hc j (Nat.le_refl _)]
        · obtain ⟨k, rfl⟩ : ∃ k, j = i + 1 + k := ⟨j - i - 1, by omega⟩
          have e1 : i + 1 + k - i = k + 1 := by omega
          have e2 : i + 1 + k - (i + 1) = k := by omega
          simp [h1, show ¬ (i + 1 + k < i + 1) by omega, e1, e2]
    | some w =>
      have hc' : ∀ k, i + 1 ≤ k → lookup k ((i, w) :: c) = none := by
        intro k hk
        simp only [lookup, show ¬ (i = k) by omega, if_false]
        exact hc k (by omega)
      have := ih (i + 1) ((i, w) :: c) j hc'
      simp only [capsOf, this]
      by_cases h1 : j < i
      · simp [h1, show j < i + 1 by omega, lookup, show ¬ (i = j) by omega]
      · by_cases h2 : j = i
        · subst h2
          simp [lookup]
        · obtain ⟨k, rfl⟩ : ∃ k, j = i + 1 + k := ⟨j - i - 1, by omega⟩
          have e1 : i + 1 + k - i = k + 1 := by omega
          have e2 : i + 1 + k - (i + 1) = k := by omega
          simp [h1, show ¬ (i + 1 + k < i + 1) by omega, e1, e2]

theorem groups_capsOf (b : Spec.Vals) : groups b.length (capsOf 0 b []) = b := by
  unfold groups
  apply List.ext_getElem
  · simp
  · intro j h1 h2
    simp only [List.getElem_map, List.getElem_range]
    rw [lookup_capsOf b 0 [] j (fun _ _ => rfl)]
    simp [List.getD_eq_getElem?_getD, h2]

theorem tokens_lit (x : List Char) (es : List Elem) : tokens (.lit x :: es) = tokens es := by
  simp [tokens, List.filterMap_cons, Elem.token]

theorem segSols_length : ∀ (es : List Elem) (segs : List (List Char)) (b : Spec.Vals),
    b ∈ Spec.segSols es segs → b.length = (tokens es).length := by
  intro es
  induction es with
  | nil =>
    intro segs b hb
    cases segs <;> simp [Spec.segSols] at hb
    subst hb; rfl
  | cons e es ih =>
    intro segs b hb
    cases e with
    | lit x =>
      cases segs with
      | nil => simp [Spec.segSols] at hb
      | cons y ys =>
        simp only [Spec.segSols] at hb
        split at hb
        · rw [tokens_lit]; exact ih _ _ hb
        · simp at hb
    | param nm =>
      cases segs with
      | nil => simp [Spec.segSols] at hb
      | cons y ys =>
        simp only [Spec.segSols] at hb
        split at hb
        · simp at hb
        · obtain ⟨b', hb', rfl⟩ := List.mem_map.mp hb
          have := ih _ _ hb'
          simp only [tokens] at this
          simp [tokens, Elem.token, this]
    | opt nm =>
      simp only [Spec.segSols, List.mem_append] at hb
      have goal : ∀ b' segs', b' ∈ Spec.segSols es segs' → ∀ v : Option (List Char),
          (v :: b').length = (tokens (.opt nm :: es)).length := by
        intro b' segs' hb' v
        have := ih _ _ hb'
        simp only [tokens] at this
        simp [tokens, Elem.token, this]
      rcases hb with hb | hb
      · cases segs with
        | nil => simp at hb
        | cons y ys =>
          obtain ⟨b', hb', rfl⟩ := List.mem_map.mp hb
          exact goal b' _ hb' _
      · obtain ⟨b', hb', rfl⟩ := List.mem_map.mp hb
        exact goal b' _ hb' _
    | plus nm =>
      simp only [Spec.segSols, List.mem_flatMap] at hb
      obtain ⟨p, _, hb⟩ := hb
      split at hb
      · simp at hb
      · obtain ⟨b', hb', rfl⟩ := List.mem_map.mp hb
        have := ih _ _ hb'
        simp only [tokens] at this
        simp [tokens, Elem.token, this]
    | star nm =>
      simp only [Spec.segSols, List.mem_append, List.mem_flatMap] at hb
      rcases hb with ⟨p, _, hb⟩ | hb
      · split at hb
        · simp at hb
        · obtain ⟨b', hb', rfl⟩ := List.mem_map.mp hb
          have := ih _ _ hb'
          simp only [tokens] at this
          simp [tokens, Elem.token, this]
      · obtain ⟨b', hb', rfl⟩ := List.mem_map.mp hb
        have := ih _ _ hb'
        simp only [tokens] at this
        simp [tokens, Elem.token, this]

/-! ### `compile` -/

theorem compile_ok {es : List Elem} {re : Re} {toks : List (List Char)}
    (h : compile es = .ok (re, toks)) :
    ∃ r', compileElems es false 0 = .ok r' ∧ re = .seq .bol r' ∧ toks = tokens es := by
  unfold compile at h
  split at h
  · rename_i r' hr
    cases h
    exact ⟨r', hr, rfl, rfl⟩
  · cases h

/-- a path the theorems talk about: starts with `/`, no newline -/
def PathOK (path : List Char) : Prop := (∃ rest, path = '/' :: rest) ∧ NoNl path

theorem mat_bol_seq (re : Re) (s : List Char) (r : List Char) (x : Caps) :
    MatC s.length (.seq .bol re) s [] r x ↔ MatC s.length re s [] r x := by
  simp only [MatC]
  constructor
  · rintro ⟨m, cm, ⟨rfl, rfl, _⟩, h⟩; exact h
  · intro h; exact ⟨s, [], ⟨rfl, rfl, trivial⟩, h⟩

theorem dropLast_ok {path : List Char} (h : ∃ rest, path = '/' :: rest) :
    path.dropLast = [] ∨ ∃ rest, path.dropLast = '/' :: rest := by
  obtain ⟨rest, rfl⟩ := h
  cases rest with
  | nil => left; rfl
  | cons a t => right; exact ⟨(a :: t).dropLast, by simp [List.dropLast]⟩

theorem eq_dropLast_append {path : List Char} (h : path.getLast? = some '/') :
    path = path.dropLast ++ ['/'] := by
  have hne : path ≠ [] := by
    intro e; subst e; simp at h
  have h2 := List.dropLast_concat_getLast hne
  have h3 : path.getLast hne = '/' := by
    rw [List.getLast?_eq_some_getLast hne] at h
    exact Option.some.inj h
  rw [h3] at h2
  exact h2.symm

/-- every Spec solution comes from a segmentation of the path (or of the path minus its final `/`) -/
theorem sols_iff (es : List Elem) (path : List Char) (hp : ∃ rest, path = '/' :: rest)
    (b : Spec.Vals) :
    b ∈ Spec.sols es path ↔
      ∃ segs, SlashFree segs ∧ (path = joinSegs segs ∨ path = joinSegs segs ++ ['/']) ∧
        b ∈ Spec.segSols es segs := by
  unfold Spec.sols
  rw [List.mem_append]
  constructor
  · rintro (h | h)
    · obtain ⟨h1, h2⟩ := strictSegs_spec path (Or.inr hp)
      exact ⟨_, h1, Or.inl h2.symm, h⟩
    · split at h
      · rename_i hl
        obtain ⟨h1, h2⟩ := strictSegs_spec path.dropLast (dropLast_ok hp)
        refine ⟨_, h1, Or.inr ?_, h⟩
        rw [h2]
        exact eq_dropLast_append hl
      · simp at h
  · rintro ⟨segs, hsf, hj | hj, hb⟩
    · left
      rw [hj, strictSegs_joinSegs segs hsf]
      exact hb
    · right
      have hl : path.getLast? = some '/' := by rw [hj]; simp
      have hd : path.dropLast = joinSegs segs := by rw [hj]; simp
      rw [if_pos hl, hd, strictSegs_joinSegs segs hsf]
      exact hb

/-- the compiled regex, run by `re.match`, and the Spec: same verdict; every reported capture
    tuple is a Spec solution up to absent ≡ empty; every Spec solution is reported by some
    backtracking branch -/
theorem match_spec (es : List Elem) (re : Re) (toks : List (List Char))
    (hc : compile es = .ok (re, toks)) (hwf : ∀ e ∈ es, e.WF) (path : List Char)
    (hp : PathOK path) :
    ((reMatch re path).isSome = Spec.pathMatches es path) ∧
    (∀ caps, reMatch re path = some caps →
      ∃ b ∈ Spec.sols es path, AbsEq (groups toks.length caps) b) := by
  obtain ⟨r', hr', rfl, rfl⟩ := compile_ok hc
  obtain ⟨hp1, hp2⟩ := hp
  have sound : ∀ r x, MatC path.length (.seq .bol r') path [] r x →
      ∃ b ∈ Spec.sols es path, AbsEq (groups (tokens es).length x) b := by
    intro r x hm
    have hm' := (mat_bol_seq r' path r x).mp hm
    obtain ⟨_, segs, b, b0, hsf, hj, hb, hx, habs⟩ :=
      elems_sound path.length es false 0 r' hr' hwf path [] r x hp2 hm'
    refine ⟨b, (sols_iff es path hp1 b).mpr ⟨segs, hsf, hj, hb⟩, ?_⟩
    have hlen : b0.length = (tokens es).length := by
      have h1 : b0.length = b.length := by
        have := congrArg List.length habs
        simpa using this
      rw [h1, segSols_length es segs b hb]
    rw [hx, ← hlen, groups_capsOf]
    exact habs
  constructor
  · rw [Bool.eq_iff_iff, reMatch_isSome_iff]
    constructor
    · rintro ⟨r, x, hm⟩
      obtain ⟨b, hb, _⟩ := sound r x hm
      unfold Spec.pathMatches
      cases hs : Spec.sols es path with
      | nil => rw [hs] at hb; simp at hb
      | cons a t => simp
    · intro h
      unfold Spec.pathMatches at h
      cases hs : Spec.sols es path with
      | nil => rw [hs] at h; simp at h
      | cons b t =>
        have hb : b ∈ Spec.sols es path := by rw [hs]; simp
        obtain ⟨segs, hsf, hj, hb'⟩ := (sols_iff es path hp1 b).mp hb
        have := elems_complete path.length es false 0 r' hr' segs b path [] hsf hp2 hj hb'
        exact ⟨[], _, (mat_bol_seq r' path [] _).mpr this⟩
  · intro caps hcaps
    obtain ⟨r, hm⟩ := reMatch_some_mat hcaps
    exact sound r caps hm

/-! ### `parsePattern` only produces well-formed parts -/

theorem splitSlash_slashFree (u : List Char) : SlashFree (splitSlash u) := by
  obtain ⟨h, t, e, h1, h2, _⟩ := splitSlash_spec u
  rw [e]
  exact slashFree_cons.mpr ⟨h1, h2⟩

theorem classify_wf (part : List Char) (h : '/' ∉ part) : (classify part).WF := by
  unfold classify
  split
  · split <;> trivial
  · exact h

theorem parsePattern_wf (pattern : List Char) : ∀ e ∈ parsePattern pattern, e.WF := by
  intro e he
  unfold parsePattern at he
  obtain ⟨part, hpart, rfl⟩ := List.mem_map.mp he
  have hmem : part ∈ splitSlash pattern := (List.mem_filter.mp hpart).1
  exact classify_wf part (splitSlash_slashFree pattern part hmem)

/-! ### at most one `?`/`+`/`*` parameter -/

def nFinal (es : List Elem) : Nat := (es.filter Elem.isFinal).length

theorem compileElems_isOk : ∀ (es : List Elem) (final : Bool) (i : Nat),
    (∃ re, compileElems es final i = .ok re) ↔ nFinal es + (if final then 1 else 0) ≤ 1 := by
  intro es
  induction es with
  | nil => intro final i; cases final <;> simp [compileElems, nFinal]
  | cons e es ih =>
    intro final i
    have ih' := ih (final || e.isFinal) (i + e.ngroups)
    simp only [compileElems]
    cases hf : e.isFinal <;> cases final
    all_goals simp only [hf, Bool.and_self, Bool.or_self, Bool.or_false, Bool.or_true,
      Bool.and_true, Bool.and_false, Bool.false_eq_true, if_false, if_true] at ih' ⊢
    · -- not final, none seen
      have e1 : nFinal (e :: es) = nFinal es := by simp [nFinal, List.filter, hf]
      rw [e1, ← ih']
      constructor
      · rintro ⟨re, h⟩
        split at h
        · rename_i r hr; exact ⟨r, hr⟩
        · cases h
      · rintro ⟨r, hr⟩; exact ⟨_, by rw [hr]⟩
    · have e1 : nFinal (e :: es) = nFinal es := by simp [nFinal, List.filter, hf]
      rw [e1, ← ih']
      constructor
      · rintro ⟨re, h⟩
        split at h
        · rename_i r hr; exact ⟨r, hr⟩
        · cases h
      · rintro ⟨r, hr⟩; exact ⟨_, by rw [hr]⟩
    · have e1 : nFinal (e :: es) = nFinal es + 1 := by simp [nFinal, List.filter, hf]
      rw [e1]
      have ih'' : (∃ re, compileElems es true (i + e.ngroups) = .ok re) ↔ nFinal es + 1 ≤ 1 := ih'
      constructor
      · rintro ⟨re, h⟩
        split at h
        · rename_i r hr
          have := ih''.mp ⟨r, hr⟩
          omega
        · cases h
      · intro h
        obtain ⟨r, hr⟩ := ih''.mpr (by omega)
        exact ⟨_, by rw [hr]⟩
    · have e1 : nFinal (e :: es) = nFinal es + 1 := by simp [nFinal, List.filter, hf]
      rw [e1]
      constructor
      · rintro ⟨re, h⟩; cases h
      · intro h; omega

theorem compile_isOk (es : List Elem) :
    (∃ re toks, compile es = .ok (re, toks)) ↔ nFinal es ≤ 1 := by
  have := compileElems_isOk es false 0
  simp only [Bool.false_eq_true, if_false, Nat.add_zero] at this
  rw [← this]
  unfold compile
  constructor
  · rintro ⟨re, toks, h⟩
    split at h
    · rename_i r hr; exact ⟨r, hr⟩
    · cases h
  · rintro ⟨r, hr⟩
    exact ⟨_, _, by rw [hr]⟩

end Mpgs.Router
