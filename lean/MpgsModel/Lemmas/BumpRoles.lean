import MpgsModel.Lemmas.Bump
import MpgsModel.Model.Handshake
/-! The handshake handlers of both subclasses do not read `stats.dropped` either. -/
namespace Mpgs.Conn
open Mpgs.Bytes Mpgs.Wire

theorem clientRole_bumps (H : Hs) : (clientRole H).Bumps := by
  refine ⟨fun _ _ _ _ => rfl, ?_, fun _ _ _ _ => rfl⟩
  intro n c t b
  simp only [clientRole, clientServerHello]
  cases H.parseServerHello b with
  | error e => rfl
  | ok r =>
    simp only
    have hk : checkKey (bump n c) r.1 = checkKey c r.1 := rfl
    rw [hk]
    split
    · rfl
    · cases H.parsePayload r.2.1 with
      | error e => rfl
      | ok q => rfl

theorem serverRole_bumps (H : Hs) (tok : Nat) (tt : Option Nat) : (serverRole H tok tt).Bumps := by
  refine ⟨?_, fun _ _ _ _ => rfl, ?_⟩
  · intro n c t b
    simp only [serverRole, serverClientHello]
    have hk : (bump n c).key = c.key := rfl
    rw [hk]
    by_cases hs : c.key.isSome = true
    · rw [if_pos hs, if_pos hs]
    · rw [if_neg hs, if_neg hs]
      cases H.parseClientHello b with
      | error e => rfl
      | ok ver =>
        simp only
        split
        · rfl
        · split <;> rfl
  · intro n c t b
    simp only [serverRole, serverChallenge]
    cases H.parseChallenge b with
    | error e => rfl
    | ok tk =>
      simp only
      split <;> rfl

end Mpgs.Conn
