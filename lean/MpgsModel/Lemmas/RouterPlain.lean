import MpgsModel.Lemmas.RouterUnique
/-
C16: on paths without empty segments `Spec.pathMatches` is the plain reading of the documentation
(`Spec.plainMatches`): the choices `Spec` makes where the documentation is silent are invisible.
-/
namespace Mpgs.Router
open Mpgs.Regex

def CleanSegs (xs : List (List Char)) : Prop := ∀ x ∈ xs, x ≠ []

theorem cleanSegs_cons {x : List Char} {xs : List (List Char)} :
    CleanSegs (x :: xs) ↔ x ≠ [] ∧ CleanSegs xs := by
  simp [CleanSegs]

theorem cleanSegs_of_append {p q : List (List Char)} (h : CleanSegs (p ++ q)) :
    CleanSegs p ∧ CleanSegs q :=
  ⟨fun x hx => h x (List.mem_append_left _ hx), fun x hx => h x (List.mem_append_right _ hx)⟩

theorem joinSlash_eq_nil_of_clean {p : List (List Char)} (h : CleanSegs p) :
    Spec.joinSlash p = [] ↔ p = [] := by
  cases p with
  | nil => simp [Spec.joinSlash]
  | cons x rest =>
    have hx : x ≠ [] := h x (by simp)
    cases rest with
    | nil => simp [Spec.joinSlash, hx]
    | cons y ys => simp [Spec.joinSlash, hx]

/-- on clean segments: the Spec has a solution iff the plain rule accepts -/
theorem segSols_iff_plain : ∀ (pat : List Elem) (xs : List (List Char)), CleanSegs xs →
    ((∃ b, b ∈ Spec.segSols pat xs) ↔ Spec.segPlain pat xs = true) := by
  intro pat
  induction pat with
  | nil =>
    intro xs _
    cases xs <;> simp [Spec.segSols, Spec.segPlain]
  | cons e ps ih =>
    intro xs hx
    cases e with
    | lit s =>
      cases xs with
      | nil => simp [Spec.segSols, Spec.segPlain]
      | cons y ys =>
        have hys := (cleanSegs_cons.mp hx).2
        by_cases hy : y = s
        · simp only [Spec.segSols, Spec.segPlain, hy, if_true, beq_self_eq_true, Bool.true_and]
          exact ih ys hys
        · simp [Spec.segSols, Spec.segPlain, hy]
    | param nm =>
      cases xs with
      | nil => simp [Spec.segSols, Spec.segPlain]
      | cons y ys =>
        have ⟨hy, hys⟩ := cleanSegs_cons.mp hx
        have hy' : y.isEmpty = false := by simpa using hy
        simp only [Spec.segSols, Spec.segPlain, hy', Bool.false_eq_true, if_false, Bool.not_false,
          Bool.true_and, List.mem_map]
        rw [← ih ys hys]
        constructor
        · rintro ⟨b, b', hb', _⟩; exact ⟨b', hb'⟩
        · rintro ⟨b', hb'⟩; exact ⟨_, b', hb', rfl⟩
    | opt nm =>
      simp only [Spec.segSols, Spec.segPlain, List.mem_append, Bool.or_eq_true]
      constructor
      · rintro ⟨b, hb | hb⟩
        · cases xs with
          | nil => simp at hb
          | cons y ys =>
            obtain ⟨b', hb', _⟩ := List.mem_map.mp hb
            exact Or.inr ((ih ys (cleanSegs_cons.mp hx).2).mp ⟨b', hb'⟩)
        · obtain ⟨b', hb', _⟩ := List.mem_map.mp hb
          exact Or.inl ((ih xs hx).mp ⟨b', hb'⟩)
      · rintro (h | h)
        · obtain ⟨b', hb'⟩ := (ih xs hx).mpr h
          exact ⟨_, Or.inr (List.mem_map.mpr ⟨b', hb', rfl⟩)⟩
        · cases xs with
          | nil => simp at h
          | cons y ys =>
            obtain ⟨b', hb'⟩ := (ih ys (cleanSegs_cons.mp hx).2).mpr h
            exact ⟨_, Or.inl (List.mem_map.mpr ⟨b', hb', rfl⟩)⟩
    | plus nm =>
      simp only [Spec.segSols, Spec.segPlain, List.mem_flatMap, List.any_eq_true, Bool.and_eq_true]
      constructor
      · rintro ⟨b, ⟨p, q⟩, hpq, hb⟩
        have e : p ++ q = xs := (mem_splits _ _).mp hpq
        have ⟨hp, hq⟩ := cleanSegs_of_append (e ▸ hx)
        split at hb
        · simp at hb
        · rename_i hj
          obtain ⟨b', hb', _⟩ := List.mem_map.mp hb
          refine ⟨(p, q), hpq, ?_, (ih q hq).mp ⟨b', hb'⟩⟩
          have : p ≠ [] := by
            intro h; subst h; simp [Spec.joinSlash] at hj
          simpa using this
      · rintro ⟨⟨p, q⟩, hpq, hp0, hplain⟩
        have e : p ++ q = xs := (mem_splits _ _).mp hpq
        have ⟨hp, hq⟩ := cleanSegs_of_append (e ▸ hx)
        obtain ⟨b', hb'⟩ := (ih q hq).mpr hplain
        have hp0' : p ≠ [] := by simpa using hp0
        have hj : ¬ ((Spec.joinSlash p).isEmpty = true) := by
          simp only [List.isEmpty_iff]
          intro h; exact hp0' ((joinSlash_eq_nil_of_clean hp).mp h)
        refine ⟨some (Spec.joinSlash p) :: b', (p, q), hpq, ?_⟩
        simp only [hj]
        exact List.mem_map.mpr ⟨b', hb', rfl⟩
    | star nm =>
      simp only [Spec.segSols, Spec.segPlain, List.mem_append, List.mem_flatMap, List.any_eq_true]
      constructor
      · rintro ⟨b, ⟨⟨p, q⟩, hpq, hb⟩ | hb⟩
        · have e : p ++ q = xs := (mem_splits _ _).mp hpq
          have ⟨_, hq⟩ := cleanSegs_of_append (e ▸ hx)
          split at hb
          · simp at hb
          · obtain ⟨b', hb', _⟩ := List.mem_map.mp hb
            exact ⟨(p, q), hpq, (ih q hq).mp ⟨b', hb'⟩⟩
        · obtain ⟨b', hb', _⟩ := List.mem_map.mp hb
          exact ⟨([], xs), (mem_splits _ _).mpr rfl, (ih xs hx).mp ⟨b', hb'⟩⟩
      · rintro ⟨⟨p, q⟩, hpq, hplain⟩
        have e : p ++ q = xs := (mem_splits _ _).mp hpq
        have ⟨_, hq⟩ := cleanSegs_of_append (e ▸ hx)
        obtain ⟨b', hb'⟩ := (ih q hq).mpr hplain
        by_cases hp0 : p = []
        · subst hp0
          simp only [List.nil_append] at e
          subst e
          exact ⟨_, Or.inr (List.mem_map.mpr ⟨b', hb', rfl⟩)⟩
        · refine ⟨some (Spec.joinSlash p) :: b', Or.inl ⟨(p, q), hpq, ?_⟩⟩
          have : ¬ (p.isEmpty = true) := by simpa using hp0
          simp only [this]
          exact List.mem_map.mpr ⟨b', hb', rfl⟩

/-- a solution that absorbs the trailing empty segment has a counterpart without it -/
theorem trailing_exists : ∀ (pat : List Elem) (xs : List (List Char)) (b : Spec.Vals),
    nFinal pat ≤ 1 → (∀ e ∈ pat, e.NE) → CleanSegs xs →
    b ∈ Spec.segSols pat (xs ++ [[]]) → ∃ b', b' ∈ Spec.segSols pat xs := by
  intro pat
  induction pat with
  | nil =>
    intro xs b _ _ _ hb
    cases xs <;> simp [Spec.segSols] at hb
  | cons e ps ih =>
    intro xs b hn hne hx hb
    rw [nFinal_cons] at hn
    have hne' : ∀ e' ∈ ps, e'.NE := fun e' h => hne e' (List.mem_cons_of_mem _ h)
    cases e with
    | lit s =>
      have hs : s ≠ [] := hne (.lit s) (by simp)
      cases xs with
      | nil =>
        simp only [List.nil_append, Spec.segSols] at hb
        split at hb
        · rename_i h; exact (hs h.symm).elim
        · simp at hb
      | cons y ys =>
        simp only [List.cons_append, Spec.segSols] at hb ⊢
        split at hb
        · rename_i hy
          rw [if_pos hy]
          exact ih ys b (by simpa [Elem.isFinal] using hn) hne' (cleanSegs_cons.mp hx).2 hb
        · simp at hb
    | param nm =>
      cases xs with
      | nil => simp [Spec.segSols] at hb
      | cons y ys =>
        simp only [List.cons_append, Spec.segSols] at hb ⊢
        split at hb
        · simp at hb
        · rename_i hy
          rw [if_neg hy]
          obtain ⟨b1, hb1, _⟩ := List.mem_map.mp hb
          obtain ⟨b', hb'⟩ := ih ys b1 (by simpa [Elem.isFinal] using hn) hne' (cleanSegs_cons.mp hx).2 hb1
          exact ⟨_, List.mem_map.mpr ⟨b', hb', rfl⟩⟩
    | opt nm =>
      have hn0 : nFinal ps = 0 := by simp [Elem.isFinal] at hn; omega
      simp only [Spec.segSols, List.mem_append] at hb ⊢
      rcases hb with hb | hb
      · cases xs with
        | nil =>
          simp only [List.nil_append] at hb
          obtain ⟨b1, hb1, _⟩ := List.mem_map.mp hb
          exact ⟨_, Or.inr (List.mem_map.mpr ⟨b1, hb1, rfl⟩)⟩
        | cons y ys =>
          simp only [List.cons_append] at hb
          obtain ⟨b1, hb1, _⟩ := List.mem_map.mp hb
          exact (no_trailing_empty ps ys b1 hn0 hne' hb1).elim
      · obtain ⟨b1, hb1, _⟩ := List.mem_map.mp hb
        exact (no_trailing_empty ps xs b1 hn0 hne' hb1).elim
    | plus nm =>
      have hn0 : nFinal ps = 0 := by simp [Elem.isFinal] at hn; omega
      simp only [Spec.segSols, List.mem_flatMap] at hb ⊢
      obtain ⟨⟨p, q⟩, hpq, hb⟩ := hb
      split at hb
      · simp at hb
      · rename_i hj
        obtain ⟨b1, hb1, _⟩ := List.mem_map.mp hb
        have e1 : p ++ q = xs ++ [[]] := (mem_splits _ _).mp hpq
        rcases suffix_cases e1 with ⟨rfl, rfl⟩ | ⟨q0, rfl, _⟩
        · have hxs : xs ≠ [] := by
            intro h; subst h; simp [Spec.joinSlash] at hj
          have hj' : ¬ ((Spec.joinSlash xs).isEmpty = true) := by
            simp only [List.isEmpty_iff]
            intro h; exact hxs ((joinSlash_eq_nil_of_clean hx).mp h)
          refine ⟨some (Spec.joinSlash xs) :: b1, (xs, []), (mem_splits _ _).mpr (by simp), ?_⟩
          simp only [hj']
          exact List.mem_map.mpr ⟨b1, hb1, rfl⟩
        · exact (no_trailing_empty ps q0 b1 hn0 hne' hb1).elim
    | star nm =>
      have hn0 : nFinal ps = 0 := by simp [Elem.isFinal] at hn; omega
      simp only [Spec.segSols, List.mem_append, List.mem_flatMap] at hb ⊢
      rcases hb with ⟨⟨p, q⟩, hpq, hb⟩ | hb
      · split at hb
        · simp at hb
        · obtain ⟨b1, hb1, _⟩ := List.mem_map.mp hb
          have e1 : p ++ q = xs ++ [[]] := (mem_splits _ _).mp hpq
          rcases suffix_cases e1 with ⟨rfl, rfl⟩ | ⟨q0, rfl, _⟩
          · by_cases hxs : xs = []
            · subst hxs
              exact ⟨_, Or.inr (List.mem_map.mpr ⟨b1, hb1, rfl⟩)⟩
            · refine ⟨some (Spec.joinSlash xs) :: b1,
                Or.inl ⟨(xs, []), (mem_splits _ _).mpr (by simp), ?_⟩⟩
              have : ¬ (xs.isEmpty = true) := by simpa using hxs
              simp only [this]
              exact List.mem_map.mpr ⟨b1, hb1, rfl⟩
          · exact (no_trailing_empty ps q0 b1 hn0 hne' hb1).elim
      · obtain ⟨b1, hb1, _⟩ := List.mem_map.mp hb
        exact (no_trailing_empty ps xs b1 hn0 hne' hb1).elim

theorem pathMatches_eq_plain (pat : List Elem) (path : List Char) (hn : nFinal pat ≤ 1)
    (hne : ∀ e ∈ pat, e.NE) (hp : ∃ rest, path = '/' :: rest) (hc : Spec.clean path = true) :
    Spec.pathMatches pat path = Spec.plainMatches pat path := by
  have hclean : CleanSegs (Spec.plainSegs path) := by
    intro x hx
    unfold Spec.clean at hc
    have := List.all_eq_true.mp hc x hx
    simpa using this
  have key : Spec.pathMatches pat path = true ↔ ∃ b, b ∈ Spec.sols pat path := by
    unfold Spec.pathMatches
    cases hs : Spec.sols pat path with
    | nil => simp
    | cons a t => simp
  rw [Bool.eq_iff_iff, key]
  unfold Spec.plainMatches
  rw [← segSols_iff_plain pat _ hclean]
  unfold Spec.sols Spec.plainSegs at *
  by_cases hl : path.getLast? = some '/'
  · simp only [hl, if_true] at hclean ⊢
    rw [strictSegs_trailing path hp hl]
    constructor
    · rintro ⟨b, hb⟩
      rcases List.mem_append.mp hb with hb | hb
      · exact trailing_exists pat _ b hn hne hclean hb
      · exact ⟨b, hb⟩
    · rintro ⟨b, hb⟩
      exact ⟨b, List.mem_append.mpr (Or.inr hb)⟩
  · simp only [hl, if_false, List.append_nil] at hclean ⊢

theorem plainSegs_snoc (p : List Char) (h : p.getLast? ≠ some '/') :
    Spec.plainSegs (p ++ ['/']) = Spec.plainSegs p := by
  unfold Spec.plainSegs
  simp [h]

theorem pathOK_snoc {p : List Char} (h : PathOK p) : PathOK (p ++ ['/']) := by
  obtain ⟨⟨rest, rfl⟩, h2⟩ := h
  refine ⟨⟨rest ++ ['/'], rfl⟩, ?_⟩
  intro ch hch
  rcases List.mem_append.mp hch with h | h
  · exact h2 ch h
  · simp only [List.mem_singleton] at h
    subst h; decide

end Mpgs.Router
