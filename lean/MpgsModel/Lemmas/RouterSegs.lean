import MpgsModel.Model.Router
/-
Segment bookkeeping for C16: a path `/s1/s2/…/sn` as the concatenation `joinSegs [s1,…,sn]`,
`splitSlash` (Python's `str.split('/')`) as its inverse, and the `splits` enumeration.
-/
namespace Mpgs.Router
open Mpgs.Regex

/-- `/s1/s2/…/sn` -/
def joinSegs : List (List Char) → List Char
  | [] => []
  | x :: xs => '/' :: x ++ joinSegs xs

def SlashFree (segs : List (List Char)) : Prop := ∀ x ∈ segs, '/' ∉ x

theorem joinSegs_append (p q : List (List Char)) : joinSegs (p ++ q) = joinSegs p ++ joinSegs q := by
  induction p with
  | nil => rfl
  | cons x xs ih => simp [joinSegs, ih]

theorem joinSegs_eq_joinSlash : ∀ (p : List (List Char)), p ≠ [] → joinSegs p = '/' :: Spec.joinSlash p
  | [], h => absurd rfl h
  | [x], _ => by simp [joinSegs, Spec.joinSlash]
  | x :: y :: ys, _ => by
    have ih := joinSegs_eq_joinSlash (y :: ys) (by simp)
    simp only [joinSegs] at ih ⊢
    simp [Spec.joinSlash, ih]

theorem slashFree_cons {x : List Char} {xs : List (List Char)} :
    SlashFree (x :: xs) ↔ '/' ∉ x ∧ SlashFree xs := by
  simp [SlashFree]

theorem slashFree_append {p q : List (List Char)} :
    SlashFree (p ++ q) ↔ SlashFree p ∧ SlashFree q := by
  simp only [SlashFree, List.mem_append]
  constructor
  · intro h; exact ⟨fun x hx => h x (Or.inl hx), fun x hx => h x (Or.inr hx)⟩
  · rintro ⟨h1, h2⟩ x (hx | hx)
    · exact h1 x hx
    · exact h2 x hx

theorem splitSlash_slash (cs : List Char) : splitSlash ('/' :: cs) = [] :: splitSlash cs := by
  simp [splitSlash]

/-- `splitSlash` always yields a head piece and a (possibly empty) tail -/
theorem splitSlash_spec (u : List Char) :
    ∃ h t, splitSlash u = h :: t ∧ '/' ∉ h ∧ SlashFree t ∧ u = h ++ joinSegs t := by
  induction u with
  | nil => exact ⟨[], [], rfl, by simp, by simp [SlashFree], rfl⟩
  | cons c cs ih =>
    obtain ⟨h, t, e, h1, h2, h3⟩ := ih
    by_cases hc : c = '/'
    · subst hc
      refine ⟨[], h :: t, by simp [splitSlash, e], by simp, slashFree_cons.mpr ⟨h1, h2⟩, ?_⟩
      simp [joinSegs, h3]
    · refine ⟨c :: h, t, by simp [splitSlash, hc, e], ?_, h2, by simp [h3]⟩
      intro hm
      rcases List.mem_cons.mp hm with h' | h'
      · exact hc h'.symm
      · exact h1 h'

theorem splitSlash_seg_join : ∀ (zs : List (List Char)) (z : List Char), '/' ∉ z → SlashFree zs →
    splitSlash (z ++ joinSegs zs) = z :: zs := by
  intro zs
  induction zs with
  | nil =>
    intro z hz _
    induction z with
    | nil => rfl
    | cons c cs ih =>
      have hc : c ≠ '/' := fun h => hz (by simp [h])
      have hcs : '/' ∉ cs := fun h => hz (List.mem_cons_of_mem _ h)
      have := ih hcs
      simp only [joinSegs, List.append_nil] at this ⊢
      simp [splitSlash, hc, this]
  | cons y ys ihz =>
    intro z hz hzs
    have ⟨hy, hys⟩ := slashFree_cons.mp hzs
    induction z with
    | nil =>
      simp only [List.nil_append, joinSegs, List.cons_append]
      rw [splitSlash_slash, ihz y hy hys]
    | cons c cs ih =>
      have hc : c ≠ '/' := fun h => hz (by simp [h])
      have hcs : '/' ∉ cs := fun h => hz (List.mem_cons_of_mem _ h)
      have := ih hcs
      simp only [List.cons_append] at this ⊢
      simp [splitSlash, hc, this]

/-- the segments of `/s1/…/sn` are `s1 … sn` -/
theorem strictSegs_joinSegs (segs : List (List Char)) (h : SlashFree segs) :
    Spec.strictSegs (joinSegs segs) = segs := by
  cases segs with
  | nil => rfl
  | cons x xs =>
    have ⟨hx, hxs⟩ := slashFree_cons.mp h
    simp only [Spec.strictSegs, joinSegs, List.cons_append]
    rw [splitSlash_slash, splitSlash_seg_join xs x hx hxs]
    rfl

/-- a path that is empty or starts with `/` is the join of its segments -/
theorem strictSegs_spec (p : List Char) (hp : p = [] ∨ ∃ rest, p = '/' :: rest) :
    SlashFree (Spec.strictSegs p) ∧ joinSegs (Spec.strictSegs p) = p := by
  rcases hp with rfl | ⟨rest, rfl⟩
  · exact ⟨by simp [Spec.strictSegs, splitSlash, SlashFree], rfl⟩
  · obtain ⟨h, t, e, h1, h2, h3⟩ := splitSlash_spec rest
    rw [Spec.strictSegs, splitSlash_slash, List.tail_cons, e]
    exact ⟨slashFree_cons.mpr ⟨h1, h2⟩, by simp [joinSegs, h3]⟩

/-- any text after a slash is one or more slash-free segments -/
theorem exists_segs (u : List Char) :
    ∃ p, p ≠ [] ∧ SlashFree p ∧ joinSegs p = '/' :: u ∧ Spec.joinSlash p = u := by
  obtain ⟨h, t, _, h1, h2, h3⟩ := splitSlash_spec u
  have hj : joinSegs (h :: t) = '/' :: u := by simp [joinSegs, h3]
  refine ⟨h :: t, by simp, slashFree_cons.mpr ⟨h1, h2⟩, hj, ?_⟩
  have := joinSegs_eq_joinSlash (h :: t) (by simp)
  rw [hj] at this
  exact (List.cons.inj this).2.symm

theorem mem_splits (xs : List (List Char)) (p : List (List Char) × List (List Char)) :
    p ∈ Spec.splits xs ↔ p.1 ++ p.2 = xs := by
  induction xs generalizing p with
  | nil =>
    obtain ⟨a, b⟩ := p
    simp only [Spec.splits, List.mem_singleton, Prod.mk.injEq, List.append_eq_nil_iff]
  | cons x xs ih =>
    obtain ⟨a, b⟩ := p
    simp only [Spec.splits, List.mem_append, List.mem_map, List.mem_singleton, Prod.mk.injEq]
    constructor
    · rintro (⟨q, hq, rfl, rfl⟩ | ⟨rfl, rfl⟩)
      · simp [(ih q).mp hq]
      · simp
    · intro h
      cases a with
      | nil => right; exact ⟨rfl, by simpa using h⟩
      | cons y a' =>
        left
        simp only [List.cons_append, List.cons.injEq] at h
        obtain ⟨rfl, h⟩ := h
        exact ⟨(a', b), (ih (a', b)).mpr h, rfl, rfl⟩

end Mpgs.Router
