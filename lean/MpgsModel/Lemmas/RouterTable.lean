import MpgsModel.Lemmas.RouterTop
/-
C16, route table: `registerRoutes` keeps the entries of a method in registration order, each with
the regex compiled from its own pattern; `getRoute` returns the first one the Spec accepts.
-/
namespace Mpgs.Router
open Mpgs.Regex

/-- the entry was produced by `patternToRegex` from its route's pattern -/
def EntryOK (e : Entry) : Prop := patternToRegex e.route.pattern = .ok (e.re, e.tokens)

/-- `new` are the entries made from the routes `rs`, in order -/
inductive EntriesOf : List Route → List Entry → Prop
  | nil : EntriesOf [] []
  | cons {r : Route} {e : Entry} {rs : List Route} {new : List Entry} :
      (e.route = r ∧ EntryOK e) → EntriesOf rs new → EntriesOf (r :: rs) (e :: new)

theorem tableGet_append (k m : String) (e : Entry) : ∀ t : Table,
    tableGet m (tableAppend k e t) =
      if k = m then (tableGet m t).map (· ++ [e]) else tableGet m t := by
  intro t
  induction t with
  | nil => by_cases h : k = m <;> simp [tableAppend, tableGet, h]
  | cons kv rest ih =>
    obtain ⟨k', v⟩ := kv
    by_cases h1 : k' = k
    · subst h1
      by_cases h2 : k' = m
      · subst h2; simp [tableAppend, tableGet]
      · simp [tableAppend, tableGet, h2]
    · by_cases h2 : k' = m
      · subst h2
        have h3 : ¬ (k = k') := fun h => h1 h.symm
        simp [tableAppend, tableGet, h1, h3]
      · simp only [tableAppend, h1, if_false, tableGet, h2]
        exact ih

theorem register_ok {t t' : Table} {r : Route} (h : register t r = .ok t') :
    ∃ e, e.route = r ∧ EntryOK e ∧ (tableGet r.method t).isSome = true ∧
      t' = tableAppend r.method e t := by
  unfold register at h
  split at h
  · cases h
  · rename_i re toks hc
    split at h
    · cases h
    · rename_i old hg
      cases h
      exact ⟨⟨re, toks, r⟩, rfl, hc, by simp [hg], rfl⟩

theorem registerRoutes_get : ∀ (rs : List Route) (t t' : Table),
    registerRoutes t rs = (t', none) → ∀ m : String,
    ∃ new, tableGet m t' = (tableGet m t).map (· ++ new) ∧
      EntriesOf (rs.filter (fun r => r.method = m)) new ∧
      (tableGet m t = none → rs.filter (fun r => r.method = m) = []) := by
  intro rs
  induction rs with
  | nil =>
    intro t t' h m
    simp only [registerRoutes, Prod.mk.injEq, and_true] at h
    subst h
    refine ⟨[], ?_, EntriesOf.nil, fun _ => rfl⟩
    cases tableGet m t <;> simp
  | cons r rs ih =>
    intro t t' h m
    simp only [registerRoutes] at h
    split at h
    · simp at h
    · rename_i t1 hreg
      obtain ⟨e, he1, he2, hsome, rfl⟩ := register_ok hreg
      obtain ⟨new', hget, hent, hnone⟩ := ih _ _ h m
      rw [tableGet_append] at hget
      by_cases hm : r.method = m
      · refine ⟨e :: new', ?_, ?_, ?_⟩
        · rw [hget, if_pos hm]
          cases tableGet m t <;> simp
        · simp only [List.filter, hm, decide_true]
          exact EntriesOf.cons ⟨he1, he2⟩ hent
        · intro hn
          rw [hm, hn] at hsome
          simp at hsome
      · refine ⟨new', ?_, ?_, ?_⟩
        · rw [hget, if_neg hm]
        · simp only [List.filter, hm, decide_false]
          exact hent
        · intro hn
          simp only [List.filter, hm, decide_false]
          rw [tableGet_append, if_neg hm] at hnone
          exact hnone hn

theorem tableGet_empty (m : String) (old : List Entry) (h : tableGet m emptyTable = some old) :
    old = [] := by
  simp only [emptyTable, tableGet] at h
  repeat' split at h
  all_goals first | (cases h; rfl) | cases h

/-- the verdict and the values reported for one entry -/
theorem entry_spec (e : Entry) (he : EntryOK e) (path : List Char) (hp : PathOK path) :
    ((reMatch e.re path).isSome = Spec.pathMatches (parsePattern e.route.pattern) path) ∧
    (∀ caps, reMatch e.re path = some caps →
      ∃ b ∈ Spec.sols (parsePattern e.route.pattern) path,
        AbsEq (groups e.tokens.length caps) b) :=
  match_spec (parsePattern e.route.pattern) e.re e.tokens he (parsePattern_wf _) path hp

/-- what `getRoute` reports for a route: the dict of its tokens and values `vals` that are a Spec
    solution up to absent ≡ empty -/
def ReportOK (r : Route) (path : List Char) (b : Bindings) : Prop :=
  ∃ vals v, v ∈ Spec.sols (parsePattern r.pattern) path ∧ AbsEq vals v ∧
    b = mkDict ((tokens (parsePattern r.pattern)).zip vals)

theorem entry_tokens (e : Entry) (he : EntryOK e) : e.tokens = tokens (parsePattern e.route.pattern) := by
  unfold EntryOK patternToRegex at he
  obtain ⟨_, _, _, h⟩ := compile_ok he
  exact h

theorem firstMatch_spec (path : List Char) (hp : PathOK path) :
    ∀ (rs : List Route) (new : List Entry), EntriesOf rs new →
    ((firstMatch path new).map (·.1) =
        rs.find? (fun r => Spec.pathMatches (parsePattern r.pattern) path)) ∧
    (∀ r b, firstMatch path new = some (r, b) → ReportOK r path b) := by
  intro rs new h
  induction h with
  | nil => exact ⟨rfl, fun r b h => by simp [firstMatch] at h⟩
  | @cons r e rs' new' hre _ ih =>
    obtain ⟨rfl, he⟩ := hre
    obtain ⟨h1, h2⟩ := entry_spec e he path hp
    cases hm : reMatch e.re path with
    | none =>
      rw [hm] at h1
      simp only [Option.isSome_none] at h1
      simp only [firstMatch, hm, List.find?, ← h1]
      exact ih
    | some caps =>
      rw [hm] at h1
      simp only [Option.isSome_some] at h1
      simp only [firstMatch, hm, List.find?, ← h1, Option.map_some]
      refine ⟨trivial, ?_⟩
      intro r b hrb
      simp only [Option.some.injEq, Prod.mk.injEq] at hrb
      obtain ⟨rfl, rfl⟩ := hrb
      obtain ⟨v, hv, habs⟩ := h2 caps hm
      exact ⟨_, v, hv, habs, by rw [entry_tokens e he]⟩

theorem getRoute_spec (rs : List Route) (t : Table) (m : String) (path : List Char)
    (hreg : registerRoutes emptyTable rs = (t, none)) (hp : PathOK path) :
    ((getRoute t m path).map (·.1) =
      (rs.filter (fun r => r.method = m)).find?
        (fun r => Spec.pathMatches (parsePattern r.pattern) path)) ∧
    (∀ r b, getRoute t m path = some (r, b) → ReportOK r path b) := by
  obtain ⟨new, hget, hent, hnone⟩ := registerRoutes_get rs emptyTable t hreg m
  unfold getRoute
  cases h0 : tableGet m emptyTable with
  | none =>
    rw [h0] at hget
    simp only [Option.map_none] at hget
    rw [hget, hnone h0]
    exact ⟨rfl, fun r b h => by simp at h⟩
  | some old =>
    have := tableGet_empty m old h0
    subst this
    rw [h0] at hget
    simp only [Option.map_some, List.nil_append] at hget
    rw [hget]
    exact firstMatch_spec path hp _ _ hent

end Mpgs.Router
