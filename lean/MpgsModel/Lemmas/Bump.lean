import MpgsModel.Model.ConnStep
/-!
`stats.dropped` is write-only: no function of the connection model reads it.  Formally, every
operation commutes with `bump n` (adding `n` to the counter).  This is what turns the per-step
theorem of C01 (an unauthentic datagram changes nothing but `dropped`) into a statement about
whole histories.
-/
namespace Mpgs.Conn
open Mpgs.Bytes Mpgs.Wire

def bump (n : Nat) (c : Conn) : Conn := { c with dropped := c.dropped + n }

theorem bump_zero (c : Conn) : bump 0 c = c := rfl

theorem bump_bump (n m : Nat) (c : Conn) : bump n (bump m c) = bump (m + n) c := by
  simp [bump, Nat.add_assoc]

theorem bump_sendType (n : Nat) (c : Conn) (ty : PType) (p : Bytes) (r : Int) (cb : Option Cb) :
    sendType (bump n c) ty p r cb = bump n (sendType c ty p r cb) := by
  unfold sendType bump
  rfl

theorem bump_sendFrags (n : Nat) (c : Conn) (fid fragId count : Nat) (retry : Int) (i : Nat) (fs : List Bytes) :
    sendFrags (bump n c) fid fragId count retry i fs = bump n (sendFrags c fid fragId count retry i fs) := by
  induction fs generalizing c i with
  | nil => rfl
  | cons f fs ih => simp only [sendFrags, bump_sendType, ih]

theorem bump_sendFragmented (n : Nat) (sz : Sizes) (c : Conn) (p : Bytes) (r : Int) (cb : Option Nat) :
    sendFragmented sz (bump n c) p r cb = (bump n (sendFragmented sz c p r cb).1, (sendFragmented sz c p r cb).2) := by
  unfold sendFragmented
  simp only
  split
  · rfl
  · have h := bump_sendFrags n { c with seqFragment := seqInc c.seqFragment, fragObjs := c.fragObjs ++ [⟨seqInc c.seqFragment, r, cb, splitFrags sz.maxPayload sz.maxFragment p.length p, (splitFrags sz.maxPayload sz.maxFragment p.length p).map (fun _ => none)⟩] } c.fragObjs.length (seqInc c.seqFragment) (splitFrags sz.maxPayload sz.maxFragment p.length p).length (if r = -1 then 0 else r) 0 (splitFrags sz.maxPayload sz.maxFragment p.length p)
    simp only [bump] at h ⊢
    rw [h]

theorem bump_send (n : Nat) (sz : Sizes) (c : Conn) (p : Bytes) (r : Int) (cb : Option Nat) :
    send sz (bump n c) p r cb = (bump n (send sz c p r cb).1, (send sz c p r cb).2) := by
  unfold send
  split
  · rfl
  · have hs : (bump n c).status = c.status := rfl
    rw [hs]
    split
    · rfl
    · split
      · exact bump_sendFragmented n sz c p r cb
      · simp only [bump_sendType]

theorem bump_disconnect (n : Nat) (c : Conn) (cb : Option Cb) :
    disconnect (bump n c) cb = bump n (disconnect c cb) := by
  unfold disconnect
  have hs : (bump n c).status = c.status := rfl
  rw [hs]
  split
  · have := bump_sendType n { c with outgoing := [], incoming := [], pendingCbs := [], pendingRetry := [], pendingAcks := [] } .disconnect [] 0 cb
    simp only [bump] at this ⊢
    rw [this]
  · rfl

/-! ### callbacks -/

theorem bump_runLeaf (n : Nat) (c : Conn) (cb : Cb) (v : Bool) :
    runLeaf (bump n c) cb v = (bump n (runLeaf c cb v).1, (runLeaf c cb v).2) := by
  cases cb with
  | user id => rfl
  | retry rid => rfl
  | helloTimeout => rfl
  | challengeTimeout => rfl
  | clientDisconnect => rfl
  | frag fid idx =>
    simp only [runLeaf]
    have hf : (bump n c).fragObjs = c.fragObjs := rfl
    rw [hf]
    cases c.fragObjs[fid]? with
    | none => rfl
    | some obj =>
      simp only
      cases obj.acks[idx]? with
      | none => rfl
      | some a =>
        cases a with
        | some b => rfl
        | none =>
          simp only
          split
          · simp only [bump_sendType]
          · split
            · split <;> rfl
            · rfl

theorem bump_runCb (n : Nat) (c : Conn) (cb : Cb) (v : Bool) :
    runCb (bump n c) cb v = (bump n (runCb c cb v).1, (runCb c cb v).2) := by
  cases cb with
  | user id => simp only [runCb]; exact bump_runLeaf n c _ v
  | frag fid idx => simp only [runCb]; exact bump_runLeaf n c _ v
  | helloTimeout => simp only [runCb]; exact bump_runLeaf n c _ v
  | challengeTimeout => simp only [runCb]; exact bump_runLeaf n c _ v
  | clientDisconnect => simp only [runCb]; exact bump_runLeaf n c _ v
  | retry rid =>
    simp only [runCb]
    have hf : (bump n c).retryObjs = c.retryObjs := rfl
    rw [hf]
    cases c.retryObjs[rid]? with
    | none => rfl
    | some obj =>
      simp only
      split
      · rfl
      · split
        · rfl
        · split
          · have := bump_runLeaf n { c with retryObjs := setObj c.retryObjs rid { obj with done := true } } (by assumption) true
            simp only [bump] at this ⊢
            rw [this]
          · rfl

theorem bump_runCbs (n : Nat) (c : Conn) (cbs : List Cb) (v : Bool) :
    runCbs (bump n c) cbs v = (bump n (runCbs c cbs v).1, (runCbs c cbs v).2) := by
  induction cbs generalizing c with
  | nil => rfl
  | cons cb rest ih =>
    simp only [runCbs, bump_runCb, ih]

theorem bump_resolve (n : Nat) (c : Conn) (s : Nat) (ok : Bool) :
    resolve (bump n c) s ok = (bump n (resolve c s ok).1, (resolve c s ok).2) := by
  unfold resolve
  simp only
  have h0 : (if ok = true then { bump n c with acked := (bump n c).acked + 1 } else { bump n c with timeouts := (bump n c).timeouts + 1 })
      = bump n (if ok = true then { c with acked := c.acked + 1 } else { c with timeouts := c.timeouts + 1 }) := by
    split <;> rfl
  rw [h0]
  generalize (if ok = true then { c with acked := c.acked + 1 } else { c with timeouts := c.timeouts + 1 }) = c0
  have hp : (bump n c0).pendingCbs = c0.pendingCbs := rfl
  rw [hp]
  cases aget c0.pendingCbs s with
  | none =>
    simp only
    have hr : (bump n c0).pendingRetry = c0.pendingRetry := rfl
    rw [hr]
    cases aget c0.pendingRetry s <;> rfl
  | some cbs =>
    simp only [bump_runCbs]
    generalize runCbs c0 cbs ok = r
    obtain ⟨c', ev⟩ := r
    simp only [bump]
    cases aget c'.pendingRetry s <;> rfl

/-! ### time-outs and acknowledgements -/

theorem bump_checkTimeoutKeys (n : Nat) (c : Conn) (t : Int) (ks : List Nat) :
    checkTimeoutKeys (bump n c) t ks = (bump n (checkTimeoutKeys c t ks).1, (checkTimeoutKeys c t ks).2) := by
  induction ks generalizing c with
  | nil => rfl
  | cons s ks ih =>
    simp only [checkTimeoutKeys]
    have h1 : (bump n c).pendingAcks = c.pendingAcks := rfl
    have h2 : (bump n c).outgoingTimeout = c.outgoingTimeout := rfl
    rw [h1, h2]
    cases aget c.pendingAcks s with
    | none => exact ih c
    | some st =>
      simp only
      split
      · simp only [bump_resolve, ih]
      · exact ih c

theorem bump_checkTimeout (n : Nat) (c : Conn) (t : Int) :
    checkTimeout (bump n c) t = (bump n (checkTimeout c t).1, (checkTimeout c t).2) :=
  bump_checkTimeoutKeys n c t _

theorem bump_handleAckKeys (n : Nat) (c : Conn) (a b : Nat) (ks : List Nat) :
    handleAckKeys (bump n c) a b ks = (bump n (handleAckKeys c a b ks).1, (handleAckKeys c a b ks).2) := by
  induction ks generalizing c with
  | nil => rfl
  | cons s ks ih =>
    simp only [handleAckKeys]
    have h1 : (bump n c).pendingAcks = c.pendingAcks := rfl
    have h2 : (bump n c).outgoingTimeout = c.outgoingTimeout := rfl
    have h3 : (bump n c).lastRecv = c.lastRecv := rfl
    rw [h1, h2, h3]
    cases aget c.pendingAcks s with
    | none => exact ih c
    | some st =>
      simp only
      split
      · simp only [bump_resolve, ih]
      · split
        · simp only [bump_resolve, ih]
        · exact ih c

theorem bump_handleAckBits (n : Nat) (c : Conn) (h : Header) :
    handleAckBits (bump n c) h = (bump n (handleAckBits c h).1, (handleAckBits c h).2) :=
  bump_handleAckKeys n c _ _ _

/-! ### building -/

theorem bump_buildPacketImpl (n : Nat) (sz : Sizes) (c : Conn) (t : Int) (ska : Bool) (delay : Int) :
    buildPacketImpl sz (bump n c) t ska delay =
      (bump n (buildPacketImpl sz c t ska delay).1, (buildPacketImpl sz c t ska delay).2) := by
  have hp : packAll sz (bump n c) t delay = packAll sz c t delay := rfl
  have hk : ∀ m, pktType (bump n c) ska m = pktType c ska m := fun _ => rfl
  unfold buildPacketImpl
  simp only [hp, hk]
  split
  · rfl
  · have hh : ∀ ty s, mkHdr (bump n c) t ty s = mkHdr c t ty s := fun _ _ => rfl
    simp only [hh]
    have hr : registerPacket { bump n c with pendingRetryMsg := (packAll sz c t delay).2.1, outgoing := (packAll sz c t delay).2.2 } t (packAll sz c t delay).1.msgs
        = bump n (registerPacket { c with pendingRetryMsg := (packAll sz c t delay).2.1, outgoing := (packAll sz c t delay).2.2 } t (packAll sz c t delay).1.msgs) := rfl
    rw [hr]
    have hs : (bump n (registerPacket { c with pendingRetryMsg := (packAll sz c t delay).2.1, outgoing := (packAll sz c t delay).2.2 } t (packAll sz c t delay).1.msgs)).seqSending
        = (registerPacket { c with pendingRetryMsg := (packAll sz c t delay).2.1, outgoing := (packAll sz c t delay).2.2 } t (packAll sz c t delay).1.msgs).seqSending := rfl
    rw [hs]
    split <;> rfl

theorem bump_buildPacket (n : Nat) (sz : Sizes) (c : Conn) (t : Int) :
    buildPacket sz (bump n c) t = (bump n (buildPacket sz c t).1, (buildPacket sz c t).2) := by
  unfold buildPacket
  have h1 : (bump n c).lastSend = c.lastSend := rfl
  have h2 : (bump n c).sendInterval = c.sendInterval := rfl
  have h3 : (bump n c).lastKeepAlive = c.lastKeepAlive := rfl
  have h4 : (bump n c).keepAlive = c.keepAlive := rfl
  rw [h1, h2, h3, h4]
  split
  · rfl
  · simp only [bump_buildPacketImpl]
    split <;> rfl

/-! ### receiving -/

theorem bump_recvAppFragment (n : Nat) (c : Conn) (t : Int) (m : Nat) (f : Bytes) :
    recvAppFragment (bump n c) t m f = (bump n (recvAppFragment c t m f).1, (recvAppFragment c t m f).2) := by
  unfold recvAppFragment
  split
  · rfl
  · have hu : fragUpdate (bump n c) t m f = fragUpdate c t m f := rfl
    simp only [hu]
    split <;> rfl

/-- handshake handlers that do not read the counter either -/
def Role.Bumps (R : Role) : Prop :=
  (∀ n c t b, R.clientHello (bump n c) t b = (bump n (R.clientHello c t b).1, (R.clientHello c t b).2)) ∧
  (∀ n c t b, R.serverHello (bump n c) t b = (bump n (R.serverHello c t b).1, (R.serverHello c t b).2)) ∧
  (∀ n c t b, R.challengeResp (bump n c) t b = (bump n (R.challengeResp c t b).1, (R.challengeResp c t b).2))

theorem baseRole_bumps : baseRole.Bumps := ⟨fun _ _ _ _ => rfl, fun _ _ _ _ => rfl, fun _ _ _ _ => rfl⟩

theorem bump_recvMessage (n : Nat) (R : Role) (hR : R.Bumps) (c : Conn) (t : Int) (m : WMsg) :
    recvMessage R (bump n c) t m = (bump n (recvMessage R c t m).1, (recvMessage R c t m).2) := by
  unfold recvMessage
  have hb : (bump n c).bfMsg = c.bfMsg := rfl
  rw [hb]
  cases c.bfMsg.insert (m.seq : Int) with
  | error e => rfl
  | ok bf =>
    simp only
    have hbf : ({ bump n c with bfMsg := bf } : Conn) = bump n { c with bfMsg := bf } := rfl
    cases m.ty with
    | clientHello => simp only [hbf]; exact hR.1 _ _ _ _
    | serverHello => simp only [hbf]; exact hR.2.1 _ _ _ _
    | challengeResp => simp only [hbf]; exact hR.2.2 _ _ _ _
    | keepAlive => rfl
    | disconnect => rfl
    | appFragment => simp only [hbf]; exact bump_recvAppFragment n _ t _ _
    | app => rfl
    | unknown => rfl

theorem bump_recvMessages (n : Nat) (R : Role) (hR : R.Bumps) (c : Conn) (t : Int) (ms : List WMsg) :
    recvMessages R (bump n c) t ms = (bump n (recvMessages R c t ms).1, (recvMessages R c t ms).2) := by
  induction ms generalizing c with
  | nil => rfl
  | cons m rest ih =>
    simp only [recvMessages, bump_recvMessage n R hR]
    generalize recvMessage R c t m = r
    obtain ⟨c1, e1, o⟩ := r
    cases o with
    | some err => rfl
    | none => simp only [ih]

theorem bump_recvDatagram (n : Nat) (C : Crypto) (R : Role) (hR : R.Bumps) (c : Conn) (t : Int) (h : Header) (d : Bytes) :
    recvDatagram C R (bump n c) t h d = (bump n (recvDatagram C R c t h d).1, (recvDatagram C R c t h d).2) := by
  unfold recvDatagram
  have hk : (bump n c).key = c.key := rfl
  rw [hk]
  have hdrop : drop1 (bump n c) = (bump n (drop1 c).1, (drop1 c).2) := by
    simp [drop1, bump, Nat.add_right_comm]
  cases fromBytes C h c.key d with
  | error e => exact hdrop
  | ok pkt =>
    simp only
    have hg : gateUnkeyed (bump n c) pkt = gateUnkeyed c pkt := rfl
    have hs : stale (bump n c) pkt.hdr.seq = stale c pkt.hdr.seq := rfl
    have hb : (bump n c).bfPkt = c.bfPkt := rfl
    rw [hg, hs, hb]
    split
    · exact hdrop
    · split
      · exact hdrop
      · cases c.bfPkt.insert (pkt.hdr.seq : Int) with
        | error e => exact hdrop
        | ok bf =>
          simp only [accept]
          have h1 : ({ bump n c with bfPkt := bf, received := (bump n c).received + 1, lastRecv := t } : Conn)
              = bump n { c with bfPkt := bf, received := c.received + 1, lastRecv := t } := rfl
          rw [h1, bump_handleAckBits, bump_recvMessages n R hR]

/-! ### operations and histories -/

theorem bump_step (n : Nat) (E : Env) (hR : E.R.Bumps) (c : Conn) (op : Op) :
    step E (bump n c) op = (bump n (step E c op).1, (step E c op).2) := by
  cases op with
  | send p r cb =>
    simp only [step, bump_send]
    generalize send E.sz c p r cb = x
    obtain ⟨c', o⟩ := x
    cases o <;> rfl
  | build t =>
    simp only [step, bump_buildPacket]
    generalize buildPacket E.sz c t = x
    obtain ⟨c', o⟩ := x
    cases o with
    | error e => rfl
    | ok r =>
      cases r with
      | none => rfl
      | some pkt =>
        simp only
        have hk : (bump n c').key = c'.key := rfl
        rw [hk]
        cases toBytes E.C c'.key pkt <;> rfl
  | recv t h d => simp only [step, bump_recvDatagram n E.C E.R hR]
  | tmo t => simp only [step, bump_checkTimeout]
  | disconnect cb => simp only [step, bump_disconnect]
  | take => rfl

theorem bump_run (n : Nat) (E : Env) (hR : E.R.Bumps) (c : Conn) (ops : List Op) :
    run E (bump n c) ops = (bump n (run E c ops).1, (run E c ops).2) := by
  induction ops generalizing c with
  | nil => rfl
  | cons op ops ih =>
    simp only [run, bump_step n E hR, ih]

end Mpgs.Conn
