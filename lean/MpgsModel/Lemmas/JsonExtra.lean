import MpgsModel.Lemmas.Json
/-!
Lemmas for the error / outside-`WellTyped` branches of the typed-JSON model: what `fromJson` can
and cannot return, used by the "necessity" theorems of `Props/C15.lean`.
-/
namespace Mpgs.Json

theorem fromJsonTuple_length (tbl : Table) (ts : List BTy) : ∀ (xs : List JsonVal) (vs : List Val),
    fromJsonTuple tbl xs ts = .ok vs → vs.length = ts.length := by
  induction ts with
  | nil => intro xs vs h; cases xs <;> simp [fromJsonTuple] at h <;> simp [← h]
  | cons t ts ih =>
    intro xs vs h
    cases xs with
    | nil =>
      simp only [fromJsonTuple, Except.ok.injEq] at h
      simp [← h]
    | cons x xs =>
      simp only [fromJsonTuple] at h
      split at h
      · split at h
        · rename_i rest hrest
          simp only [Except.ok.injEq] at h
          simp [← h, ih xs rest hrest]
        · simp at h
      · simp at h

theorem atomsTuple_length (tbl : Table) (ts : List BTy) : ∀ (as : List Atom) (vs : List Val),
    atomsTuple tbl as ts = .ok vs → vs.length = ts.length := by
  induction ts with
  | nil => intro as vs h; cases as <;> simp [atomsTuple] at h <;> simp [← h]
  | cons t ts ih =>
    intro as vs h
    cases as with
    | nil =>
      simp only [atomsTuple, Except.ok.injEq] at h
      simp [← h]
    | cons a as =>
      simp only [atomsTuple] at h
      split at h
      · split at h
        · rename_i rest hrest
          simp only [Except.ok.injEq] at h
          simp [← h, ih as rest hrest]
        · simp at h
      · simp at h

/-- whatever plain data a Tuple-annotated field is read from, the tuple `fromJson` builds has
exactly the annotated arity -/
theorem fromJsonField_tuple_arity (tbl : Table) (ts : List BTy) (j : JsonVal) (vs : List Val)
    (h : fromJsonField tbl j (.tuple ts) = .ok (.tuple vs)) : vs.length = ts.length := by
  cases j with
  | atom a =>
    cases a with
    | str s =>
      simp only [fromJsonField] at h
      split at h
      · rename_i vs' hvs
        simp only [Except.ok.injEq, Val.tuple.injEq] at h
        subst h
        exact atomsTuple_length tbl ts _ _ hvs
      · simp at h
    | none => simp [fromJsonField] at h
    | bool b => simp [fromJsonField] at h
    | int n => simp [fromJsonField] at h
    | float t => simp [fromJsonField] at h
  | arr xs =>
    simp only [fromJsonField] at h
    split at h
    · rename_i vs' hvs
      simp only [Except.ok.injEq, Val.tuple.injEq] at h
      subst h
      exact fromJsonTuple_length tbl ts _ _ hvs
    · simp at h
  | obj kvs => simp [fromJsonField] at h

/-- a nested Serializable field that holds None: `None.toJson()` -/
theorem toJsonField_none_obj (tbl : Table) (c : Str) :
    toJsonField tbl (.atom .none) (.basic (.obj c)) = .error .attributeError := by
  simp [toJsonField]

/-! ### the side conditions of `hasTy` on sets and dicts, in `Pairwise` form -/


theorem memV_false_iff (x : Val) (acc : List Val) :
    memV x acc = false ↔ ∀ y ∈ acc, pyEq y x = false := by
  induction acc with
  | nil => simp [memV]
  | cons y ys ih => simp [memV, ih]

/-- `nodupAcc xs []` says: no element of the list is `==` to an earlier one -/
theorem nodupAcc_iff (xs : List Val) : ∀ acc, nodupAcc xs acc = true ↔
    ((∀ y ∈ acc, ∀ x ∈ xs, pyEq y x = false) ∧ xs.Pairwise (fun a b => pyEq a b = false)) := by
  induction xs with
  | nil => intro acc; simp [nodupAcc]
  | cons x xs ih =>
    intro acc
    simp only [nodupAcc, Bool.and_eq_true, Bool.not_eq_true', memV_false_iff, ih,
      List.mem_append, List.pairwise_cons, List.mem_cons, List.not_mem_nil, or_false]
    constructor
    · rintro ⟨h1, h2, h3⟩
      refine ⟨?_, ?_, h3⟩
      · intro y hy z hz
        rcases hz with rfl | hz
        · exact h1 y hy
        · exact h2 y (Or.inl hy) z hz
      · intro z hz; exact h2 x (Or.inr rfl) z hz
    · rintro ⟨h1, h2, h3⟩
      refine ⟨fun y hy => h1 y hy x (Or.inl rfl), ?_, h3⟩
      intro y hy z hz
      rcases hy with hy | rfl
      · exact h1 y hy z (Or.inr hz)
      · exact h2 z hz

theorem nodupAcc_nil_iff (xs : List Val) :
    nodupAcc xs [] = true ↔ xs.Pairwise (fun a b => pyEq a b = false) := by
  simp [nodupAcc_iff]

theorem memKey_false_iff (k : Val) (acc : List (Val × Val)) :
    memKey k acc = false ↔ ∀ e ∈ acc, pyEq e.1 k = false := by
  induction acc with
  | nil => simp [memKey]
  | cons y ys ih => obtain ⟨a, b⟩ := y; simp [memKey, ih]

theorem keysNodupAcc_iff (kvs : List (Val × Val)) : ∀ acc, keysNodupAcc kvs acc = true ↔
    ((∀ e ∈ acc, ∀ kv ∈ kvs, pyEq e.1 kv.1 = false) ∧
      kvs.Pairwise (fun a b => pyEq a.1 b.1 = false)) := by
  induction kvs with
  | nil => intro acc; simp [keysNodupAcc]
  | cons kv kvs ih =>
    obtain ⟨k, v⟩ := kv
    intro acc
    simp only [keysNodupAcc, Bool.and_eq_true, Bool.not_eq_true', memKey_false_iff, ih,
      List.mem_append, List.pairwise_cons, List.mem_cons, List.not_mem_nil, or_false]
    constructor
    · rintro ⟨h1, h2, h3⟩
      refine ⟨?_, ?_, h3⟩
      · intro y hy z hz
        rcases hz with rfl | hz
        · exact h1 y hy
        · exact h2 y (Or.inl hy) z hz
      · intro z hz; exact h2 (k, v) (Or.inr rfl) z hz
    · rintro ⟨h1, h2, h3⟩
      refine ⟨fun y hy => h1 y hy (k, v) (Or.inl rfl), ?_, h3⟩
      intro y hy z hz
      rcases hy with hy | rfl
      · exact h1 y hy z (Or.inr hz)
      · exact h2 z hz

theorem keysNodupAcc_nil_iff (kvs : List (Val × Val)) :
    keysNodupAcc kvs [] = true ↔ kvs.Pairwise (fun a b => pyEq a.1 b.1 = false) := by
  simp [keysNodupAcc_iff]


end Mpgs.Json
