import MpgsModel.Lemmas.Serial
/-! Round trip `decode (encode v ++ rest) = (canon v, rest)`: one decoder step per constructor,
then the mutual induction over values / lists / pair lists. -/
namespace Mpgs.Serial

theorem readN_append (s rest : Bytes) : readN (s.length : Int) (s ++ rest) = (s, rest) := by
  unfold readN
  have : ¬ ((s.length : Int) < 0) := by omega
  simp [this]

theorem lenOf_int (i : Int) : lenOf (.int i) = .ok i := rfl

theorem decode_seq_aux (env : Env) (g n : Nat) (l body rest : Bytes) (ys : List Value)
    (hl : encodeInt n = .ok l) (hn : n ≤ MAX_ARRAY_LENGTH)
    (hb : (decodeList env (g + 2) n (body ++ rest)).res = .ok (ys, rest)) :
    (decodeC env (g + 4) (0 :: 16 :: (l ++ (body ++ rest)))).res = .ok (.seq ys, rest) := by
  have h1 := decodeC_int env n l hl g (body ++ rest)
  have h2 : ¬ ((n : Int) > (MAX_ARRAY_LENGTH : Int)) := by omega
  simp [decodeC_cons_res, isBase, decodeBase, h1, lenOf_int, h2, hb]

theorem decode_set_aux (env : Env) (g n : Nat) (l body rest : Bytes) (ys zs : List Value)
    (hl : encodeInt n = .ok l) (hn : n ≤ MAX_ARRAY_LENGTH)
    (hb : (decodeList env (g + 2) n (body ++ rest)).res = .ok (ys, rest))
    (hd : dedupSet ys = .ok zs) :
    (decodeC env (g + 4) (0 :: 18 :: (l ++ (body ++ rest)))).res = .ok (.set zs, rest) := by
  have h1 := decodeC_int env n l hl g (body ++ rest)
  have h2 : ¬ ((n : Int) > (MAX_ARRAY_LENGTH : Int)) := by omega
  simp [decodeC_cons_res, isBase, decodeBase, h1, lenOf_int, h2, hb, hd]

theorem decode_map_aux (env : Env) (g n : Nat) (l body rest : Bytes) (d : List (Value × Value))
    (hl : encodeInt n = .ok l) (hn : n ≤ MAX_ARRAY_LENGTH)
    (hb : (decodePairs env (g + 2) n [] (body ++ rest)).res = .ok (d, rest)) :
    (decodeC env (g + 4) (0 :: 17 :: (l ++ (body ++ rest)))).res = .ok (.map d, rest) := by
  have h1 := decodeC_int env n l hl g (body ++ rest)
  have h2 : ¬ ((n : Int) > (MAX_ARRAY_LENGTH : Int)) := by omega
  simp [decodeC_cons_res, isBase, decodeBase, h1, lenOf_int, h2, hb]

/-- with no more announced fields than the class has, the field loop is the list loop -/
theorem decodeFields_eq_list (env : Env) : ∀ (f n k : Nat) (bs : Bytes), n ≤ k →
    (decodeFields env f n k bs).res = (decodeList env f n bs).res := by
  intro f
  induction f with
  | zero =>
    intro n k bs h
    cases n <;> simp [decodeFields, decodeList]
  | succ f ih =>
    intro n k bs h
    cases n with
    | zero => simp [decodeFields, decodeList]
    | succ n =>
      cases k with
      | zero => omega
      | succ k =>
        simp only [decodeFields, decodeList, R.res_bind]
        congr 1
        funext p
        obtain ⟨x, r1⟩ := p
        simp only []
        rw [ih n k r1 (by omega)]

theorem be2_toNat (tid : Nat) (h : tid < 65536) :
    tid / 256 % 256 * 256 + tid % 256 = tid := by
  omega

theorem decode_object_aux (env : Env) (g tid : Nat) (defaults : List Value) (l body rest : Bytes)
    (ys : List Value) (ht : tid < 65536) (hb0 : isBase tid = false)
    (hr : lookup env.reg tid = some (.object defaults))
    (hl : encodeInt defaults.length = .ok l)
    (hb : (decodeList env (g + 2) defaults.length (body ++ rest)).res = .ok (ys, rest))
    (hlen : ys.length = defaults.length) :
    (decodeC env (g + 4) (be2 tid ++ (l ++ (body ++ rest)))).res = .ok (.object tid ys, rest) := by
  have h1 := decodeC_int env defaults.length l hl g (body ++ rest)
  have h3 := decodeFields_eq_list env (g + 2) defaults.length defaults.length (body ++ rest) (Nat.le_refl _)
  simp [be2, decodeC_cons_res, be2_toNat tid ht, hb0, hr, decodeReg, h1, lenOf_int, h3, hb, hlen]

theorem decode_enum_aux (env : Env) (g tid : Nat) (members : List Value) (body rest : Bytes) (w : Value)
    (ht : tid < 65536) (hb0 : isBase tid = false)
    (hr : lookup env.reg tid = some (.enum members))
    (hb : (decodeC env (g + 1) (body ++ rest)).res = .ok (w, rest)) :
    (decodeC env (g + 3) (be2 tid ++ (body ++ rest))).res = .ok (.enum tid w, rest) := by
  simp [be2, decodeC_cons_res, be2_toNat tid ht, hb0, hr, decodeReg, hb]

theorem decode_str_aux (env : Env) (g : Nat) (l s rest : Bytes) (hl : encodeInt s.length = .ok l)
    (hs : s.length ≤ MAX_BYTES_LENGTH) (hv : validUtf8 s = true) :
    (decodeC env (g + 4) (0 :: 13 :: (l ++ (s ++ rest)))).res = .ok (.str s, rest) := by
  have h1 := decodeC_int env s.length l hl g (s ++ rest)
  have h2 : ¬ ((s.length : Int) > (MAX_BYTES_LENGTH : Int)) := by omega
  simp [decodeC_cons_res, isBase, decodeBase, h1, lenOf_int, h2, readN_append, hv]

theorem decode_bytes_aux (env : Env) (g : Nat) (l s rest : Bytes) (hl : encodeInt s.length = .ok l)
    (hs : s.length ≤ MAX_BYTES_LENGTH) :
    (decodeC env (g + 4) (0 :: 14 :: (l ++ (s ++ rest)))).res = .ok (.bytes s, rest) := by
  have h1 := decodeC_int env s.length l hl g (s ++ rest)
  have h2 : ¬ ((s.length : Int) > (MAX_BYTES_LENGTH : Int)) := by omega
  simp [decodeC_cons_res, isBase, decodeBase, h1, lenOf_int, h2, readN_append]

/-! ### the induction -/

theorem canonList_length : ∀ (xs ys : List Value), canonList xs = .ok ys → ys.length = xs.length
  | [], ys, h => by simp [canonList] at h; subst h; rfl
  | x :: t, ys, h => by
    simp only [canonList, bind_eq_ok] at h
    obtain ⟨y, _, ys', h2, h⟩ := h
    injection h with h; subst h
    simp [canonList_length t ys' h2]

mutual
theorem dec_enc (env : Env) : ∀ (v : Value) (bs : Bytes) (v' : Value), wt false env.reg v = true →
    encode env v = .ok bs → canon v = .ok v' →
    ∀ (f : Nat) (rest : Bytes), bs.length ≤ f → (decodeC env f (bs ++ rest)).res = .ok (v', rest)
  | .null, bs, v', _, he, hc, f, rest, hf => by
    simp [encode] at he; simp [canon] at hc; subst he; subst hc
    obtain ⟨g, rfl⟩ := Nat.exists_eq_add_of_le' (show 2 ≤ f by simpa using hf)
    simp [decodeC_cons_res, isBase, decodeBase]
  | .bool b, bs, v', _, he, hc, f, rest, hf => by
    simp [encode] at he; simp [canon] at hc; subst he; subst hc
    obtain ⟨g, rfl⟩ := Nat.exists_eq_add_of_le' (show 2 ≤ f by simp at hf; omega)
    cases b <;> simp [decodeC_cons_res, isBase, decodeBase, readFixed, beNat]
  | .int i, bs, v', _, he, hc, f, rest, hf => by
    simp [encode] at he; simp [canon] at hc; subst hc
    have := encodeInt_len i bs he
    obtain ⟨g, rfl⟩ := Nat.exists_eq_add_of_le' (show 2 ≤ f by omega)
    exact decodeC_int env i bs he g rest
  | .f32 a b c d, bs, v', _, he, hc, f, rest, hf => by
    simp [encode] at he; simp [canon] at hc; subst he; subst hc
    obtain ⟨g, rfl⟩ := Nat.exists_eq_add_of_le' (show 2 ≤ f by simp at hf; omega)
    simp [decodeC_cons_res, isBase, decodeBase, readF32]
  | .f64 bits, bs, v', _, he, hc, f, rest, hf => by
    simp only [encode] at he; simp only [canon] at hc
    split at he
    · rename_i n hn
      rw [hn] at hc
      injection he with he; injection hc with hc; subst he; subst hc
      obtain ⟨g, rfl⟩ := Nat.exists_eq_add_of_le' (show 2 ≤ f by simp [be4] at hf; omega)
      simp [decodeC_cons_res, isBase, decodeBase, readF32, be4, f32OfNat]
    · simp at he
  | .str s, bs, v', _, he, hc, f, rest, hf => by
    simp only [encode] at he; simp [canon] at hc; subst hc
    split at he
    · simp at he
    · split at he
      · simp at he
      · simp only [bind_eq_ok] at he
        obtain ⟨l, hl, he⟩ := he
        injection he with he; subst he
        have := encodeInt_len _ l hl
        obtain ⟨g, rfl⟩ := Nat.exists_eq_add_of_le' (show 4 ≤ f by simp at hf; omega)
        simp only [List.cons_append, List.nil_append, List.append_assoc]
        exact decode_str_aux env g l s rest hl (by omega) (by simpa using ‹¬(!validUtf8 s) = true›)
  | .bytes s, bs, v', _, he, hc, f, rest, hf => by
    simp only [encode] at he; simp [canon] at hc; subst hc
    obtain ⟨hs, l, hl, rfl⟩ := encodeBytes_ok he
    have := encodeInt_len _ l hl
    obtain ⟨g, rfl⟩ := Nat.exists_eq_add_of_le' (show 4 ≤ f by simp at hf; omega)
    simp only [List.cons_append, List.nil_append, List.append_assoc]
    exact decode_bytes_aux env g l s rest hl hs
  | .seq xs, bs, v', hw, he, hc, f, rest, hf => by
    simp only [encode] at he; simp only [canon, bind_eq_ok] at hc
    obtain ⟨ys, hys, hc⟩ := hc
    injection hc with hc; subst hc
    split at he
    · simp at he
    · simp only [wrapStruct_eq_ok, bind_eq_ok] at he
      obtain ⟨l, hl, body, hbody, he⟩ := he
      injection he with he; subst he
      have := encodeInt_len _ l hl
      obtain ⟨g, rfl⟩ := Nat.exists_eq_add_of_le' (show 4 ≤ f by simp at hf; omega)
      simp only [List.cons_append, List.nil_append, List.append_assoc]
      refine decode_seq_aux env g xs.length l body rest ys hl (by omega) ?_
      exact dec_enc_list env xs body ys (by simpa [wt] using hw) hbody hys (g + 2) rest (by simp at hf; omega)
  | .set xs, bs, v', hw, he, hc, f, rest, hf => by
    simp only [encode] at he; simp only [canon, bind_eq_ok] at hc
    obtain ⟨ys, hys, zs, hzs, hc⟩ := hc
    injection hc with hc; subst hc
    split at he
    · simp at he
    · simp only [wrapStruct_eq_ok, bind_eq_ok] at he
      obtain ⟨l, hl, body, hbody, he⟩ := he
      injection he with he; subst he
      have := encodeInt_len _ l hl
      obtain ⟨g, rfl⟩ := Nat.exists_eq_add_of_le' (show 4 ≤ f by simp at hf; omega)
      simp only [List.cons_append, List.nil_append, List.append_assoc]
      refine decode_set_aux env g xs.length l body rest ys zs hl (by omega) ?_ hzs
      exact dec_enc_list env xs body ys (by simpa [wt] using hw) hbody hys (g + 2) rest (by simp at hf; omega)
  | .map kvs, bs, v', hw, he, hc, f, rest, hf => by
    simp only [encode] at he; simp only [canon, bind_eq_ok] at hc
    obtain ⟨ps, hps, d, hd, hc⟩ := hc
    injection hc with hc; subst hc
    split at he
    · simp at he
    · simp only [wrapStruct_eq_ok, bind_eq_ok] at he
      obtain ⟨l, hl, body, hbody, he⟩ := he
      injection he with he; subst he
      have := encodeInt_len _ l hl
      obtain ⟨g, rfl⟩ := Nat.exists_eq_add_of_le' (show 4 ≤ f by simp at hf; omega)
      simp only [List.cons_append, List.nil_append, List.append_assoc]
      refine decode_map_aux env g kvs.length l body rest d hl (by omega) ?_
      exact dec_enc_pairs env kvs body ps (by simpa [wt] using hw) hbody hps [] d hd (g + 2) rest (by simp at hf; omega)
  | .object tid fs, bs, v', hw, he, hc, f, rest, hf => by
    simp only [encode, bind_eq_ok] at he; simp only [canon, bind_eq_ok] at hc
    obtain ⟨ys, hys, hc⟩ := hc
    injection hc with hc; subst hc
    obtain ⟨hd, hh, l, hl, body, hbody, he⟩ := he
    injection he with he; subst he
    obtain ⟨rfl, htid⟩ := packH_len tid hd hh
    have := encodeInt_len _ l hl
    simp only [wt, Bool.and_eq_true, Bool.not_eq_true'] at hw
    obtain ⟨⟨hb0, hreg⟩, hwl⟩ := hw
    split at hreg
    · rename_i defaults hlook
      have hdl : defaults.length = fs.length := by simpa using hreg
      obtain ⟨g, rfl⟩ := Nat.exists_eq_add_of_le' (show 4 ≤ f by simp [be2] at hf; omega)
      simp only [List.append_assoc]
      rw [← hdl] at hl
      refine decode_object_aux env g tid defaults l body rest ys htid hb0 hlook hl ?_ ?_
      · rw [hdl]
        exact dec_enc_list env fs body ys hwl hbody hys (g + 2) rest (by simp [be2] at hf; omega)
      · rw [canonList_length fs ys hys, hdl]
    · simp at hreg
  | .enum tid v, bs, v', hw, he, hc, f, rest, hf => by
    simp only [encode, bind_eq_ok] at he; simp only [canon, bind_eq_ok] at hc
    obtain ⟨w, hw', hc⟩ := hc
    injection hc with hc; subst hc
    obtain ⟨hd, hh, he⟩ := he
    obtain ⟨rfl, htid⟩ := packH_len tid hd hh
    simp only [wt, Bool.and_eq_true, Bool.not_eq_true'] at hw
    obtain ⟨⟨hb0, _⟩, hwv⟩ := hw
    split at he
    · rename_i members hlook
      split at he
      · simp at he
      · simp at he
      · simp only [bind_eq_ok] at he
        obtain ⟨body, hbody, he⟩ := he
        injection he with he; subst he
        have := encode_len_ge env v body hbody
        obtain ⟨g, rfl⟩ := Nat.exists_eq_add_of_le' (show 3 ≤ f by simp [be2] at hf; omega)
        refine decode_enum_aux env g tid members body rest w htid hb0 hlook ?_
        exact dec_enc env v body w hwv hbody hw' (g + 1) rest (by simp [be2] at hf; omega)
    · simp at he
  | .clientHello _ _ _, _, _, hw, _, _, _, _, _ => by simp [wt] at hw
  | .serverHello _ _ _ _ _, _, _, hw, _, _, _, _, _ => by simp [wt] at hw
  | .unsupported, _, _, hw, _, _, _, _, _ => by simp [wt] at hw
theorem dec_enc_list (env : Env) : ∀ (xs : List Value) (bs : Bytes) (ys : List Value),
    wtList false env.reg xs = true → encodeList env xs = .ok bs → canonList xs = .ok ys →
    ∀ (f : Nat) (rest : Bytes), bs.length + 2 ≤ f →
      (decodeList env f xs.length (bs ++ rest)).res = .ok (ys, rest)
  | [], bs, ys, _, he, hc, f, rest, _ => by
    simp [encodeList] at he; simp [canonList] at hc; subst he; subst hc
    simp [decodeList]
  | x :: t, bs, ys, hw, he, hc, f, rest, hf => by
    simp only [encodeList, bind_eq_ok] at he; simp only [canonList, bind_eq_ok] at hc
    obtain ⟨a, ha, b, hb, he⟩ := he
    obtain ⟨y, hy, ys', hys', hc⟩ := hc
    injection he with he; injection hc with hc; subst he; subst hc
    simp only [wtList, Bool.and_eq_true] at hw
    have := encode_len_ge env x a ha
    obtain ⟨g, rfl⟩ := Nat.exists_eq_add_of_le' (show 1 ≤ f by omega)
    have h1 := dec_enc env x a y hw.1 ha hy g (b ++ rest) (by simp at hf; omega)
    have h2 := dec_enc_list env t b ys' hw.2 hb hys' g rest (by simp at hf; omega)
    simp [decodeList, h1, h2]
theorem dec_enc_pairs (env : Env) : ∀ (kvs : List (Value × Value)) (bs : Bytes) (ps : List (Value × Value)),
    wtPairs false env.reg kvs = true → encodePairs env kvs = .ok bs → canonPairs kvs = .ok ps →
    ∀ (acc d : List (Value × Value)), buildDict acc ps = .ok d →
    ∀ (f : Nat) (rest : Bytes), bs.length + 2 ≤ f →
      (decodePairs env f kvs.length acc (bs ++ rest)).res = .ok (d, rest)
  | [], bs, ps, _, he, hc, acc, d, hd, f, rest, _ => by
    simp [encodePairs] at he; simp [canonPairs] at hc; subst he; subst hc
    simp [buildDict] at hd; subst hd
    simp [decodePairs]
  | (k, v) :: t, bs, ps, hw, he, hc, acc, d, hd, f, rest, hf => by
    simp only [encodePairs, bind_eq_ok] at he; simp only [canonPairs, bind_eq_ok] at hc
    obtain ⟨a, ha, b, hb, c, hcc, he⟩ := he
    obtain ⟨k', hk', v', hv', ps', hps', hc⟩ := hc
    injection he with he; injection hc with hc; subst he; subst hc
    simp only [wtPairs, Bool.and_eq_true] at hw
    have := encode_len_ge env k a ha
    have := encode_len_ge env v b hb
    obtain ⟨g, rfl⟩ := Nat.exists_eq_add_of_le' (show 1 ≤ f by omega)
    have h1 := dec_enc env k a k' hw.1.1 ha hk' g (b ++ (c ++ rest)) (by simp at hf; omega)
    have h2 := dec_enc env v b v' hw.1.2 hb hv' g (c ++ rest) (by simp at hf; omega)
    simp only [buildDict] at hd
    split at hd
    · simp at hd
    · rename_i acc' hacc
      have h3 := dec_enc_pairs env t c ps' hw.2 hcc hps' acc' d hd g rest (by simp at hf; omega)
      simp [decodePairs, h1, h2, hacc, h3]
end

end Mpgs.Serial
