import MpgsModel.Lemmas.SerialSafe
/-! Totality of the decoder: with budget `input length + 1` the recursion budget is never
exhausted and every error is one of the ordinary exception classes. -/
namespace Mpgs.Serial

/-- the exception classes `deserialize_value` can raise (all ordinary Python exceptions);
    excludes the model's `fuel` marker and the encoder-only classes -/
def ordinary : Err → Bool
  | .headerError | .serializableError | .structError | .typeError | .valueError
  | .unicodeDecodeError | .indexError | .attributeError | .keyError
  | .invalidSignature | .unsupportedAlgorithm => true
  | _ => false

/-- the crypto oracles raise ordinary exceptions only -/
def OracleOrdinary (env : Env) : Prop :=
  (∀ d e, env.parseKey d = .error e → ordinary e = true) ∧
  (∀ k s p e, env.verify k s p = .error e → ordinary e = true)

theorem bind_eq_error {ε α β : Type} {x : Except ε α} {f : α → Except ε β} {e : ε} :
    (x >>= f) = .error e ↔ x = .error e ∨ ∃ a, x = .ok a ∧ f a = .error e := by
  cases x <;> simp

theorem wrapHdrE_ordinary {α : Type} {x : Except Err α} {e : Err}
    (hx : ∀ e', x = .error e' → ordinary e' = true) (h : wrapHdrE x = .error e) : ordinary e = true := by
  unfold wrapHdrE at h
  split at h
  · injection h with h; subst h; rfl
  · exact hx e h

theorem keyOf_err {v : Value} {e : Err} (h : keyOf v = .error e) : e = .typeError := by
  induction v using Value.rec (motive_2 := fun _ => True) (motive_3 := fun _ => True) (motive_4 := fun _ => True) with
  | enum tid v ih =>
    simp only [keyOf] at h
    split at h
    · simp at h
    · rename_i e' he'
      injection h with h; subst h
      exact ih he'
  | _ => first | (simp [keyOf] at h; try exact h.symm) | trivial


theorem keyEq_err {a b : Nat × Key} {e : Err} (h : keyEq a b = .error e) : e = .attributeError := by
  unfold keyEq at h
  repeat' split at h
  all_goals first | (injection h with h; exact h.symm) | simp at h

theorem keyMem_err {k : Nat × Key} : ∀ {l : List (Nat × Key)} {e : Err}, keyMem k l = .error e → e = .attributeError
  | [], e, h => by simp [keyMem] at h
  | x :: t, e, h => by
    simp only [keyMem] at h
    split at h
    · rename_i e' he'
      injection h with h; subst h
      exact keyEq_err he'
    · simp at h
    · exact keyMem_err h

theorem dedupSetAux_err : ∀ {xs : List Value} {seen : List (Nat × Key)} {e : Err},
    dedupSetAux xs seen = .error e → ordinary e = true
  | [], seen, e, h => by simp [dedupSetAux] at h
  | x :: t, seen, e, h => by
    simp only [dedupSetAux] at h
    split at h
    · rename_i e' he'
      injection h with h; subst h
      rw [keyOf_err he']; rfl
    · split at h
      · rename_i e' he'
        injection h with h; subst h
        rw [keyMem_err he']; rfl
      · exact dedupSetAux_err h
      · split at h
        · rename_i e' he'
          injection h with h; subst h
          exact dedupSetAux_err he'
        · simp at h

theorem dictReplace_err {k : Nat × Key} {v : Value} : ∀ {d : List (Value × Value)} {e : Err},
    dictReplace k v d = .error e → ordinary e = true
  | [], e, h => by simp [dictReplace] at h
  | (k0, v0) :: t, e, h => by
    simp only [dictReplace] at h
    split at h
    · rename_i e' he'
      injection h with h; subst h
      rw [keyOf_err he']; rfl
    · split at h
      · rename_i e' he'
        injection h with h; subst h
        rw [keyEq_err he']; rfl
      · simp at h
      · split at h
        · rename_i e' he'
          injection h with h; subst h
          exact dictReplace_err he'
        · simp at h
        · simp at h

theorem dictInsert_err {d : List (Value × Value)} {k v : Value} {e : Err}
    (h : dictInsert d k v = .error e) : ordinary e = true := by
  unfold dictInsert at h
  split at h
  · rename_i e' he'
    injection h with h; subst h
    rw [keyOf_err he']; rfl
  · split at h
    · rename_i e' he'
      injection h with h; subst h
      exact dictReplace_err he'
    · simp at h
    · simp at h

theorem lenOf_err {v : Value} {e : Err} (h : lenOf v = .error e) : ordinary e = true := by
  cases v <;> simp [lenOf] at h <;> (subst h; rfl)

theorem asKeyBytes_err {env : Env} (ho : OracleOrdinary env) {v : Value} {e : Err}
    (h : asKeyBytes env v = .error e) : ordinary e = true := by
  cases v <;> simp [asKeyBytes] at h
  case bytes d => exact ho.1 d e h
  all_goals (subst h; rfl)

theorem readFixed_err {w : Nat} {bs : Bytes} {e : Err} (h : (readFixed w bs).res = .error e) :
    ordinary e = true := by
  unfold readFixed at h
  split at h
  · simp at h
  · simp at h; subst h; rfl

theorem readF32_err {bs : Bytes} {e : Err} (h : (readF32 bs).res = .error e) : ordinary e = true := by
  unfold readF32 at h
  split at h
  · simp at h
  · simp at h; subst h; rfl


structure TotInv (env : Env) (f : Nat) : Prop where
  c : ∀ bs e, bs.length + 1 ≤ f → (decodeC env f bs).res = .error e → ordinary e = true
  b : ∀ tid r e, r.length + 2 ≤ f → (decodeBase env f tid r).res = .error e → ordinary e = true
  g : ∀ tid k r e, r.length + 2 ≤ f → (decodeReg env f tid k r).res = .error e → ordinary e = true
  l : ∀ n bs e, bs.length + 2 ≤ f → (decodeList env f n bs).res = .error e → ordinary e = true
  p : ∀ n acc bs e, bs.length + 2 ≤ f → (decodePairs env f n acc bs).res = .error e → ordinary e = true
  fl : ∀ n k bs e, bs.length + 2 ≤ f → (decodeFields env f n k bs).res = .error e → ordinary e = true

theorem totInv_zero (env : Env) : TotInv env 0 where
  c := by intro bs e hf; omega
  b := by intro tid r e hf; omega
  g := by intro tid k r e hf; omega
  l := by intro n bs e hf; omega
  p := by intro n acc bs e hf; omega
  fl := by intro n k bs e hf; omega

theorem totInv_c (env : Env) (f : Nat) (ih : TotInv env f) :
    ∀ bs e, bs.length + 1 ≤ f + 1 → (decodeC env (f + 1) bs).res = .error e → ordinary e = true := by
  intro bs e hf h
  match bs with
  | [] => simp [decodeC] at h; subst h; rfl
  | [_] => simp [decodeC] at h; subst h; rfl
  | t0 :: t1 :: r =>
    rw [decodeC_cons_res] at h
    simp only [List.length_cons] at hf
    split at h
    · exact wrapHdrE_ordinary (fun e' he' => ih.b _ _ _ (by omega) he') h
    · split at h
      · exact wrapHdrE_ordinary (fun e' he' => ih.g _ _ _ _ (by omega) he') h
      · injection h with h; subst h; rfl

macro "fixed_err" h:ident : tactic => `(tactic| (
  simp only [R.res_bind, bind_eq_error] at $h:ident
  rcases $h:ident with h' | ⟨⟨d, r'⟩, _, h'⟩
  · exact readFixed_err h'
  · simp at h'))

/-- the length-prefixed readers share their first steps -/
theorem len_prefix_err (env : Env) (f : Nat) (ih : TotInv env f) (r : Bytes) (hf : r.length + 1 ≤ f) (e : Err)
    {α : Type} (k : Value × Bytes → Except Err α)
    (h : ((decodeC env f r).res >>= k) = .error e)
    (hk : ∀ lv r1, (decodeC env f r).res = .ok (lv, r1) → k (lv, r1) = .error e → ordinary e = true) :
    ordinary e = true := by
  rw [bind_eq_error] at h
  rcases h with h | ⟨⟨lv, r1⟩, h1, h⟩
  · exact ih.c _ _ hf h
  · exact hk lv r1 h1 h


theorem totInv_b (env : Env) (f : Nat) (ih : TotInv env f) :
    ∀ tid r e, r.length + 2 ≤ f + 1 → (decodeBase env (f + 1) tid r).res = .error e → ordinary e = true := by
  intro tid r e hf h
  have ok := okInv env f
  rw [decodeBase] at h
  by_cases c1 : tid = 1
  · rw [if_pos c1] at h
    fixed_err h
  rw [if_neg c1] at h
  by_cases c3 : tid = 3
  · rw [if_pos c3] at h
    fixed_err h
  rw [if_neg c3] at h
  by_cases c4 : tid = 4
  · rw [if_pos c4] at h
    fixed_err h
  rw [if_neg c4] at h
  by_cases c5 : tid = 5
  · rw [if_pos c5] at h
    fixed_err h
  rw [if_neg c5] at h
  by_cases c6 : tid = 6
  · rw [if_pos c6] at h
    fixed_err h
  rw [if_neg c6] at h
  by_cases c8 : tid = 8
  · rw [if_pos c8] at h
    fixed_err h
  rw [if_neg c8] at h
  by_cases c9 : tid = 9
  · rw [if_pos c9] at h
    fixed_err h
  rw [if_neg c9] at h
  by_cases c10 : tid = 10
  · rw [if_pos c10] at h
    fixed_err h
  rw [if_neg c10] at h
  by_cases c11 : tid = 11
  · rw [if_pos c11] at h
    exact readF32_err h
  rw [if_neg c11] at h
  by_cases c12 : tid = 12
  · rw [if_pos c12] at h
    fixed_err h
  rw [if_neg c12] at h
  by_cases c15 : tid = 15
  · rw [if_pos c15] at h
    simp at h
  rw [if_neg c15] at h
  by_cases c13 : tid = 13
  · rw [if_pos c13] at h
    simp only [R.res_bind, R.res_lift] at h
    refine len_prefix_err env f ih r (by omega) e _ h ?_
    intro lv r1 h1 h
    simp only [bind_eq_error] at h
    rcases h with h | ⟨n, _, h⟩
    · exact lenOf_err h
    · split at h
      · simp at h; subst h; rfl
      · revert h
        generalize readN n r1 = p
        obtain ⟨d, r2⟩ := p
        intro h
        simp only [R.res_bind, R.res_tick, ok_bind] at h
        split at h
        · simp at h
        · simp at h; subst h; rfl
  rw [if_neg c13] at h
  by_cases c14 : tid = 14
  · rw [if_pos c14] at h
    simp only [R.res_bind, R.res_lift] at h
    refine len_prefix_err env f ih r (by omega) e _ h ?_
    intro lv r1 h1 h
    simp only [bind_eq_error] at h
    rcases h with h | ⟨n, _, h⟩
    · exact lenOf_err h
    · split at h
      · simp at h; subst h; rfl
      · revert h
        generalize readN n r1 = p
        obtain ⟨d, r2⟩ := p
        intro h
        simp at h
  rw [if_neg c14] at h
  by_cases c16 : tid = 16
  · rw [if_pos c16] at h
    simp only [R.res_bind, R.res_lift] at h
    refine len_prefix_err env f ih r (by omega) e _ h ?_
    intro lv r1 h1 h
    obtain ⟨_, l1, _⟩ := ok.c _ _ _ h1
    simp only [bind_eq_error] at h
    rcases h with h | ⟨n, _, h⟩
    · exact lenOf_err h
    · split at h
      · simp at h; subst h; rfl
      · simp only [R.res_bind, bind_eq_error] at h
        rcases h with h | ⟨⟨xs, r2⟩, _, h⟩
        · exact ih.l _ _ _ (by omega) h
        · simp at h
  rw [if_neg c16] at h
  by_cases c17 : tid = 17
  · rw [if_pos c17] at h
    simp only [R.res_bind, R.res_lift] at h
    refine len_prefix_err env f ih r (by omega) e _ h ?_
    intro lv r1 h1 h
    obtain ⟨_, l1, _⟩ := ok.c _ _ _ h1
    simp only [bind_eq_error] at h
    rcases h with h | ⟨n, _, h⟩
    · exact lenOf_err h
    · split at h
      · simp at h; subst h; rfl
      · simp only [R.res_bind, bind_eq_error] at h
        rcases h with h | ⟨⟨xs, r2⟩, _, h⟩
        · exact ih.p _ _ _ _ (by omega) h
        · simp at h
  rw [if_neg c17] at h
  by_cases c18 : tid = 18
  · rw [if_pos c18] at h
    simp only [R.res_bind, R.res_lift] at h
    refine len_prefix_err env f ih r (by omega) e _ h ?_
    intro lv r1 h1 h
    obtain ⟨_, l1, _⟩ := ok.c _ _ _ h1
    simp only [bind_eq_error] at h
    rcases h with h | ⟨n, _, h⟩
    · exact lenOf_err h
    · split at h
      · simp at h; subst h; rfl
      · simp only [R.res_bind, bind_eq_error, R.res_lift] at h
        rcases h with h | ⟨⟨xs, r2⟩, _, h⟩
        · exact ih.l _ _ _ (by omega) h
        · rcases h with h | ⟨ys, _, h⟩
          · exact dedupSetAux_err h
          · simp at h
  rw [if_neg c18] at h
  simp at h; subst h; rfl


theorem totInv_g (env : Env) (ho : OracleOrdinary env) (f : Nat) (ih : TotInv env f) :
    ∀ tid k r e, r.length + 2 ≤ f + 1 → (decodeReg env (f + 1) tid k r).res = .error e → ordinary e = true := by
  intro tid k r e hf h
  have ok := okInv env f
  cases k with
  | object defaults =>
    rw [decodeReg] at h
    simp only [R.res_bind, R.res_lift, R.res_tick, ok_bind] at h
    refine len_prefix_err env f ih r (by omega) e _ h ?_
    intro nv r1 h1 h
    obtain ⟨_, l1, _⟩ := ok.c _ _ _ h1
    simp only [bind_eq_error] at h
    rcases h with h | ⟨n, _, h⟩
    · exact lenOf_err h
    · rcases h with h | ⟨⟨vals, r2⟩, _, h⟩
      · try dsimp only at h
        exact ih.fl _ _ _ _ (by omega) h
      · simp at h
  | enum members =>
    rw [decodeReg] at h
    simp only [R.res_bind] at h
    refine len_prefix_err env f ih r (by omega) e _ h ?_
    intro v r1 h1 h
    simp at h
  | clientHello =>
    rw [decodeReg] at h
    simp only [R.res_bind, R.res_lift, R.res_tick, ok_bind] at h
    refine len_prefix_err env f ih r (by omega) e _ h ?_
    intro der r1 h1 h
    obtain ⟨s1, _, _⟩ := ok.c _ _ _ h1
    have := s1.length_le
    simp only [bind_eq_error] at h
    rcases h with h | ⟨key, _, h⟩
    · exact asKeyBytes_err ho h
    · rcases h with h | ⟨⟨ver, r2⟩, _, h⟩
      · try dsimp only at h
        exact ih.c _ _ (by omega) h
      · try dsimp only at h
        revert h
        generalize readN (env.padTarget - ((r.length - r2.length : Nat) : Int)) r2 = p
        obtain ⟨pad, r3⟩ := p
        intro h
        simp only at h
        split at h
        · simp at h; subst h; rfl
        · simp at h
  | serverHello =>
    rw [decodeReg] at h
    simp only [R.res_bind, R.res_lift, R.res_tick, ok_bind] at h
    refine len_prefix_err env f ih r (by omega) e _ h ?_
    intro rootV r1 h1 h
    obtain ⟨s1, _, _⟩ := ok.c _ _ _ h1
    have := s1.length_le
    simp only [bind_eq_error] at h
    rcases h with h | ⟨root, _, h⟩
    · exact asKeyBytes_err ho h
    · rcases h with h | ⟨⟨payload, r2⟩, h2, h⟩
      · try dsimp only at h
        exact ih.c _ _ (by omega) h
      · try dsimp only at h
        obtain ⟨s2, l2, _⟩ := ok.c _ _ _ h2
        have := s2.length_le
        rcases h with h | ⟨⟨sig, r3⟩, h3, h⟩
        · try dsimp only at h
          try dsimp only at h
          exact ih.c _ _ (by omega) h
        · rcases h with h | ⟨key, _, h⟩
          · split at h
            · simp at h; subst h; rfl
            · simp at h
            · simp at h
          · try dsimp only at h
            split at h
            · rename_i s p
              simp only [blen] at l2
              simp only [R.res_bind, R.res_lift, bind_eq_error, R.res_reparse] at h
              rcases h with h | ⟨_, _, h⟩
              · exact ho.2 _ _ _ _ h
              · rcases h with h | ⟨_, _, h⟩
                · simp at h
                rcases h with h | ⟨⟨der, t1⟩, h4, h⟩
                · try dsimp only at h
                  exact ih.c _ _ (by omega) h
                · try dsimp only at h
                  obtain ⟨s4, _, _⟩ := ok.c _ _ _ h4
                  have := s4.length_le
                  rcases h with h | ⟨k, _, h⟩
                  · exact asKeyBytes_err ho h
                  · rcases h with h | ⟨⟨salt, t2⟩, h5, h⟩
                    · try dsimp only at h
                      exact ih.c _ _ (by omega) h
                    · try dsimp only at h
                      obtain ⟨s5, _, _⟩ := ok.c _ _ _ h5
                      have := s5.length_le
                      rcases h with h | ⟨⟨token, t3⟩, _, h⟩
                      · try dsimp only at h
                        try dsimp only at h
                        exact ih.c _ _ (by omega) h
                      · simp at h
            · simp at h; subst h; rfl

theorem totInv_l (env : Env) (f : Nat) (ih : TotInv env f) :
    ∀ n bs e, bs.length + 2 ≤ f + 1 → (decodeList env (f + 1) n bs).res = .error e → ordinary e = true := by
  intro n bs e hf h
  have ok := okInv env f
  cases n with
  | zero => simp [decodeList] at h
  | succ n =>
    simp only [decodeList, R.res_bind, bind_eq_error] at h
    rcases h with h | ⟨⟨x, r1⟩, h1, h⟩
    · try dsimp only at h
      exact ih.c _ _ (by omega) h
    · obtain ⟨_, l1, _⟩ := ok.c _ _ _ h1
      rcases h with h | ⟨⟨xs, r2⟩, _, h⟩
      · try dsimp only at h
        exact ih.l _ _ _ (by omega) h
      · simp at h

theorem totInv_fl (env : Env) (f : Nat) (ih : TotInv env f) :
    ∀ n k bs e, bs.length + 2 ≤ f + 1 → (decodeFields env (f + 1) n k bs).res = .error e → ordinary e = true := by
  intro n k bs e hf h
  have ok := okInv env f
  cases n with
  | zero => simp [decodeFields] at h
  | succ n =>
    cases k with
    | zero => simp [decodeFields] at h; subst h; rfl
    | succ k =>
      simp only [decodeFields, R.res_bind, bind_eq_error] at h
      rcases h with h | ⟨⟨x, r1⟩, h1, h⟩
      · try dsimp only at h
        exact ih.c _ _ (by omega) h
      · obtain ⟨_, l1, _⟩ := ok.c _ _ _ h1
        rcases h with h | ⟨⟨xs, r2⟩, _, h⟩
        · try dsimp only at h
          exact ih.fl _ _ _ _ (by omega) h
        · simp at h

theorem totInv_p (env : Env) (f : Nat) (ih : TotInv env f) :
    ∀ n acc bs e, bs.length + 2 ≤ f + 1 → (decodePairs env (f + 1) n acc bs).res = .error e → ordinary e = true := by
  intro n acc bs e hf h
  have ok := okInv env f
  cases n with
  | zero => simp [decodePairs] at h
  | succ n =>
    simp only [decodePairs, R.res_bind, bind_eq_error, R.res_lift] at h
    rcases h with h | ⟨⟨k, r1⟩, h1, h⟩
    · try dsimp only at h
      exact ih.c _ _ (by omega) h
    · obtain ⟨_, l1, _⟩ := ok.c _ _ _ h1
      rcases h with h | ⟨⟨v, r2⟩, h2, h⟩
      · try dsimp only at h
        exact ih.c _ _ (by omega) h
      · dsimp only at h2
        obtain ⟨_, l2, _⟩ := ok.c _ _ _ h2
        rcases h with h | ⟨acc', _, h⟩
        · exact dictInsert_err h
        · try dsimp only at h
          exact ih.p _ _ _ _ (by omega) h

theorem totInv (env : Env) (ho : OracleOrdinary env) : ∀ f, TotInv env f
  | 0 => totInv_zero env
  | f + 1 =>
    have ih := totInv env ho f
    ⟨totInv_c env f ih, totInv_b env f ih, totInv_g env ho f ih, totInv_l env f ih, totInv_p env f ih,
     totInv_fl env f ih⟩

end Mpgs.Serial
