import MpgsModel.Lemmas.RouterTop
/-
C16, uniqueness of the Spec's value tuples: for an accepted pattern (at most one `?`/`+`/`*`
parameter, literal parts non-empty) any two elements of `Spec.sols pat path` agree up to the stated
normalisation — absent ≡ empty, and one trailing `/` on the multi-segment value.  Hence "the
spec's bindings" is well defined and `C16_bindings_are_spec` pins the reported values to it.
-/
namespace Mpgs.Router
open Mpgs.Regex

/-- two reported values agree up to: absent ≡ empty, one trailing `/` -/
def ValEq (v w : Option (List Char)) : Prop :=
  v.getD [] = w.getD [] ∨ v.getD [] = w.getD [] ++ ['/'] ∨ w.getD [] = v.getD [] ++ ['/']

def ValsEq : Spec.Vals → Spec.Vals → Prop
  | [], [] => True
  | v :: vs, w :: ws => ValEq v w ∧ ValsEq vs ws
  | _, _ => False

theorem valEq_refl (v : Option (List Char)) : ValEq v v := Or.inl rfl
theorem valEq_symm {v w : Option (List Char)} (h : ValEq v w) : ValEq w v := by
  rcases h with h | h | h
  · exact Or.inl h.symm
  · exact Or.inr (Or.inr h)
  · exact Or.inr (Or.inl h)

theorem valsEq_refl : ∀ b : Spec.Vals, ValsEq b b
  | [] => trivial
  | v :: vs => ⟨valEq_refl v, valsEq_refl vs⟩

theorem valsEq_symm : ∀ {a b : Spec.Vals}, ValsEq a b → ValsEq b a
  | [], [], _ => trivial
  | _ :: _, _ :: _, ⟨h1, h2⟩ => ⟨valEq_symm h1, valsEq_symm h2⟩
  | [], _ :: _, h => h.elim
  | _ :: _, [], h => h.elim

/-- literal parts are non-empty (`parts = [part for part in … if part]`) -/
def Elem.NE : Elem → Prop
  | .lit s => s ≠ []
  | _ => True

theorem nFinal_cons (e : Elem) (es : List Elem) :
    nFinal (e :: es) = nFinal es + (if e.isFinal then 1 else 0) := by
  cases h : e.isFinal <;> simp [nFinal, List.filter, h]

/-- without a multi-segment parameter a pattern consumes exactly one segment per part -/
theorem fixed_length : ∀ (ps : List Elem) (xs : List (List Char)) (b : Spec.Vals),
    nFinal ps = 0 → b ∈ Spec.segSols ps xs → xs.length = ps.length := by
  intro ps
  induction ps with
  | nil =>
    intro xs b _ hb
    cases xs with
    | nil => rfl
    | cons y ys => simp [Spec.segSols] at hb
  | cons e ps ih =>
    intro xs b hn hb
    rw [nFinal_cons] at hn
    cases e with
    | lit s =>
      cases xs with
      | nil => simp [Spec.segSols] at hb
      | cons y ys =>
        simp only [Spec.segSols] at hb
        split at hb
        · simp [ih ys b (by omega) hb]
        · simp at hb
    | param nm =>
      cases xs with
      | nil => simp [Spec.segSols] at hb
      | cons y ys =>
        simp only [Spec.segSols] at hb
        split at hb
        · simp at hb
        · obtain ⟨b', hb', _⟩ := List.mem_map.mp hb
          simp [ih ys b' (by omega) hb']
    | opt nm => simp [Elem.isFinal] at hn
    | plus nm => simp [Elem.isFinal] at hn
    | star nm => simp [Elem.isFinal] at hn

theorem split_unique {p q p' q' : List (List Char)} (h : p ++ q = p' ++ q')
    (hl : q.length = q'.length) : p = p' ∧ q = q' := by
  apply List.append_inj h
  have := congrArg List.length h
  simp only [List.length_append] at this
  omega

/-- on one segmentation the Spec's value tuple is unique -/
theorem segSols_unique : ∀ (pat : List Elem) (xs : List (List Char)) (b b' : Spec.Vals),
    nFinal pat ≤ 1 → b ∈ Spec.segSols pat xs → b' ∈ Spec.segSols pat xs → b = b' := by
  intro pat
  induction pat with
  | nil =>
    intro xs b b' _ hb hb'
    cases xs with
    | nil =>
      simp [Spec.segSols] at hb hb'
      rw [hb, hb']
    | cons y ys => simp [Spec.segSols] at hb
  | cons e ps ih =>
    intro xs b b' hn hb hb'
    rw [nFinal_cons] at hn
    cases e with
    | lit s =>
      cases xs with
      | nil => simp [Spec.segSols] at hb
      | cons y ys =>
        simp only [Spec.segSols] at hb hb'
        split at hb
        · rename_i hy
          rw [if_pos hy] at hb'
          exact ih ys b b' (by simpa [Elem.isFinal] using hn) hb hb'
        · simp at hb
    | param nm =>
      cases xs with
      | nil => simp [Spec.segSols] at hb
      | cons y ys =>
        simp only [Spec.segSols] at hb hb'
        split at hb
        · simp at hb
        · rename_i hy
          rw [if_neg hy] at hb'
          obtain ⟨b1, hb1, rfl⟩ := List.mem_map.mp hb
          obtain ⟨b1', hb1', rfl⟩ := List.mem_map.mp hb'
          rw [ih ys b1 b1' (by simpa [Elem.isFinal] using hn) hb1 hb1']
    | opt nm =>
      have hn0 : nFinal ps = 0 := by simp [Elem.isFinal] at hn; omega
      simp only [Spec.segSols, List.mem_append] at hb hb'
      rcases hb with hb | hb <;> rcases hb' with hb' | hb'
      · cases xs with
        | nil => simp at hb
        | cons y ys =>
          obtain ⟨b1, hb1, rfl⟩ := List.mem_map.mp hb
          obtain ⟨b1', hb1', rfl⟩ := List.mem_map.mp hb'
          rw [ih ys b1 b1' (by omega) hb1 hb1']
      · cases xs with
        | nil => simp at hb
        | cons y ys =>
          obtain ⟨b1, hb1, rfl⟩ := List.mem_map.mp hb
          obtain ⟨b1', hb1', rfl⟩ := List.mem_map.mp hb'
          have l1 := fixed_length ps ys b1 hn0 hb1
          have l2 := fixed_length ps (y :: ys) b1' hn0 hb1'
          simp only [List.length_cons] at l2
          omega
      · cases xs with
        | nil => simp at hb'
        | cons y ys =>
          obtain ⟨b1, hb1, rfl⟩ := List.mem_map.mp hb
          obtain ⟨b1', hb1', rfl⟩ := List.mem_map.mp hb'
          have l1 := fixed_length ps ys b1' hn0 hb1'
          have l2 := fixed_length ps (y :: ys) b1 hn0 hb1
          simp only [List.length_cons] at l2
          omega
      · obtain ⟨b1, hb1, rfl⟩ := List.mem_map.mp hb
        obtain ⟨b1', hb1', rfl⟩ := List.mem_map.mp hb'
        rw [ih xs b1 b1' (by omega) hb1 hb1']
    | plus nm =>
      have hn0 : nFinal ps = 0 := by simp [Elem.isFinal] at hn; omega
      simp only [Spec.segSols, List.mem_flatMap] at hb hb'
      obtain ⟨⟨p, q⟩, hpq, hb⟩ := hb
      obtain ⟨⟨p', q'⟩, hpq', hb'⟩ := hb'
      split at hb
      · simp at hb
      · split at hb'
        · simp at hb'
        · obtain ⟨b1, hb1, rfl⟩ := List.mem_map.mp hb
          obtain ⟨b1', hb1', rfl⟩ := List.mem_map.mp hb'
          have e1 : p ++ q = xs := (mem_splits _ _).mp hpq
          have e2 : p' ++ q' = xs := (mem_splits _ _).mp hpq'
          have l1 := fixed_length ps q b1 hn0 hb1
          have l2 := fixed_length ps q' b1' hn0 hb1'
          obtain ⟨rfl, rfl⟩ := split_unique (e1.trans e2.symm) (by omega)
          rw [ih q b1 b1' (by omega) hb1 hb1']
    | star nm =>
      have hn0 : nFinal ps = 0 := by simp [Elem.isFinal] at hn; omega
      simp only [Spec.segSols, List.mem_append, List.mem_flatMap] at hb hb'
      rcases hb with ⟨⟨p, q⟩, hpq, hb⟩ | hb <;> rcases hb' with ⟨⟨p', q'⟩, hpq', hb'⟩ | hb'
      · split at hb
        · simp at hb
        · split at hb'
          · simp at hb'
          · obtain ⟨b1, hb1, rfl⟩ := List.mem_map.mp hb
            obtain ⟨b1', hb1', rfl⟩ := List.mem_map.mp hb'
            have e1 : p ++ q = xs := (mem_splits _ _).mp hpq
            have e2 : p' ++ q' = xs := (mem_splits _ _).mp hpq'
            have l1 := fixed_length ps q b1 hn0 hb1
            have l2 := fixed_length ps q' b1' hn0 hb1'
            obtain ⟨rfl, rfl⟩ := split_unique (e1.trans e2.symm) (by omega)
            rw [ih q b1 b1' (by omega) hb1 hb1']
      · split at hb
        · simp at hb
        · rename_i hp
          obtain ⟨b1, hb1, rfl⟩ := List.mem_map.mp hb
          obtain ⟨b1', hb1', rfl⟩ := List.mem_map.mp hb'
          have e1 : p ++ q = xs := (mem_splits _ _).mp hpq
          have l1 := fixed_length ps q b1 hn0 hb1
          have l2 := fixed_length ps xs b1' hn0 hb1'
          have := congrArg List.length e1
          simp only [List.length_append] at this
          have hp0 : p = [] := List.eq_nil_of_length_eq_zero (by omega)
          subst hp0
          simp at hp
      · split at hb'
        · simp at hb'
        · rename_i hp
          obtain ⟨b1, hb1, rfl⟩ := List.mem_map.mp hb
          obtain ⟨b1', hb1', rfl⟩ := List.mem_map.mp hb'
          have e1 : p' ++ q' = xs := (mem_splits _ _).mp hpq'
          have l1 := fixed_length ps q' b1' hn0 hb1'
          have l2 := fixed_length ps xs b1 hn0 hb1
          have := congrArg List.length e1
          simp only [List.length_append] at this
          have hp0 : p' = [] := List.eq_nil_of_length_eq_zero (by omega)
          subst hp0
          simp at hp
      · obtain ⟨b1, hb1, rfl⟩ := List.mem_map.mp hb
        obtain ⟨b1', hb1', rfl⟩ := List.mem_map.mp hb'
        rw [ih xs b1 b1' (by omega) hb1 hb1']

/-- a pattern of literal / `:n` parts cannot end on an empty segment -/
theorem no_trailing_empty : ∀ (ps : List Elem) (zs : List (List Char)) (b : Spec.Vals),
    nFinal ps = 0 → (∀ e ∈ ps, e.NE) → b ∈ Spec.segSols ps (zs ++ [[]]) → False := by
  intro ps
  induction ps with
  | nil =>
    intro zs b _ _ hb
    cases zs <;> simp [Spec.segSols] at hb
  | cons e ps ih =>
    intro zs b hn hne hb
    rw [nFinal_cons] at hn
    have hne' : ∀ e' ∈ ps, e'.NE := fun e' h => hne e' (List.mem_cons_of_mem _ h)
    cases e with
    | lit s =>
      have hs : s ≠ [] := hne (.lit s) (by simp)
      cases zs with
      | nil =>
        simp only [List.nil_append, Spec.segSols] at hb
        split at hb
        · rename_i h; exact hs h.symm
        · simp at hb
      | cons y ys =>
        simp only [List.cons_append, Spec.segSols] at hb
        split at hb
        · exact ih ys b (by omega) hne' hb
        · simp at hb
    | param nm =>
      cases zs with
      | nil => simp [Spec.segSols] at hb
      | cons y ys =>
        simp only [List.cons_append, Spec.segSols] at hb
        split at hb
        · simp at hb
        · obtain ⟨b1, hb1, _⟩ := List.mem_map.mp hb
          exact ih ys b1 (by omega) hne' hb1
    | opt nm => simp [Elem.isFinal] at hn
    | plus nm => simp [Elem.isFinal] at hn
    | star nm => simp [Elem.isFinal] at hn

theorem joinSlash_snoc_empty : ∀ (xs : List (List Char)), xs ≠ [] →
    Spec.joinSlash (xs ++ [[]]) = Spec.joinSlash xs ++ ['/']
  | [], h => absurd rfl h
  | [x], _ => by simp [Spec.joinSlash]
  | x :: y :: ys, _ => by
    have ih := joinSlash_snoc_empty (y :: ys) (by simp)
    simp only [List.cons_append] at ih ⊢
    simp only [Spec.joinSlash, ih]
    simp

theorem suffix_cases {p q xs : List (List Char)} (h : p ++ q = xs ++ [[]]) :
    (q = [] ∧ p = xs ++ [[]]) ∨ ∃ q0, q = q0 ++ [[]] ∧ p ++ q0 = xs := by
  rcases List.eq_nil_or_concat q with rfl | ⟨q0, a, rfl⟩
  · left; exact ⟨rfl, by simpa using h⟩
  · right
    rw [List.concat_eq_append, ← List.append_assoc] at h
    have := List.append_inj' h (by simp)
    obtain ⟨h1, h2⟩ := this
    simp only [List.cons.injEq, and_true] at h2
    subst h2
    exact ⟨q0, by simp, h1⟩

/-- with and without the tolerated trailing slash the value tuples agree up to the normalisation -/
theorem segSols_trailing : ∀ (pat : List Elem) (xs : List (List Char)) (b b' : Spec.Vals),
    nFinal pat ≤ 1 → (∀ e ∈ pat, e.NE) →
    b ∈ Spec.segSols pat (xs ++ [[]]) → b' ∈ Spec.segSols pat xs → ValsEq b b' := by
  intro pat
  induction pat with
  | nil =>
    intro xs b b' _ _ hb _
    cases xs <;> simp [Spec.segSols] at hb
  | cons e ps ih =>
    intro xs b b' hn hne hb hb'
    rw [nFinal_cons] at hn
    have hne' : ∀ e' ∈ ps, e'.NE := fun e' h => hne e' (List.mem_cons_of_mem _ h)
    cases e with
    | lit s =>
      cases xs with
      | nil => simp [Spec.segSols] at hb'
      | cons y ys =>
        simp only [List.cons_append, Spec.segSols] at hb hb'
        split at hb
        · rename_i hy
          rw [if_pos hy] at hb'
          exact ih ys b b' (by simpa [Elem.isFinal] using hn) hne' hb hb'
        · simp at hb
    | param nm =>
      cases xs with
      | nil => simp [Spec.segSols] at hb'
      | cons y ys =>
        simp only [List.cons_append, Spec.segSols] at hb hb'
        split at hb
        · simp at hb
        · rename_i hy
          rw [if_neg hy] at hb'
          obtain ⟨b1, hb1, rfl⟩ := List.mem_map.mp hb
          obtain ⟨b1', hb1', rfl⟩ := List.mem_map.mp hb'
          exact ⟨valEq_refl _, ih ys b1 b1' (by simpa [Elem.isFinal] using hn) hne' hb1 hb1'⟩
    | opt nm =>
      have hn0 : nFinal ps = 0 := by simp [Elem.isFinal] at hn; omega
      simp only [Spec.segSols, List.mem_append] at hb hb'
      rcases hb with hb | hb
      · cases xs with
        | nil =>
          simp only [List.nil_append] at hb
          obtain ⟨b1, hb1, rfl⟩ := List.mem_map.mp hb
          rcases hb' with hb' | hb'
          · simp at hb'
          · obtain ⟨b1', hb1', rfl⟩ := List.mem_map.mp hb'
            have := segSols_unique ps [] b1 b1' (by omega) hb1 hb1'
            subst this
            exact ⟨Or.inl rfl, valsEq_refl _⟩
        | cons y ys =>
          simp only [List.cons_append] at hb
          obtain ⟨b1, hb1, _⟩ := List.mem_map.mp hb
          exact (no_trailing_empty ps ys b1 hn0 hne' hb1).elim
      · obtain ⟨b1, hb1, _⟩ := List.mem_map.mp hb
        exact (no_trailing_empty ps xs b1 hn0 hne' hb1).elim
    | plus nm =>
      have hn0 : nFinal ps = 0 := by simp [Elem.isFinal] at hn; omega
      simp only [Spec.segSols, List.mem_flatMap] at hb hb'
      obtain ⟨⟨p, q⟩, hpq, hb⟩ := hb
      obtain ⟨⟨p', q'⟩, hpq', hb'⟩ := hb'
      split at hb
      · simp at hb
      · split at hb'
        · simp at hb'
        · rename_i hj'
          obtain ⟨b1, hb1, rfl⟩ := List.mem_map.mp hb
          obtain ⟨b1', hb1', rfl⟩ := List.mem_map.mp hb'
          have e1 : p ++ q = xs ++ [[]] := (mem_splits _ _).mp hpq
          have e2 : p' ++ q' = xs := (mem_splits _ _).mp hpq'
          rcases suffix_cases e1 with ⟨rfl, rfl⟩ | ⟨q0, rfl, _⟩
          · have l2 := fixed_length ps q' b1' hn0 hb1'
            have l1 := fixed_length ps [] b1 hn0 hb1
            have hq' : q' = [] := List.eq_nil_of_length_eq_zero (by simp at l1; omega)
            subst hq'
            simp only [List.append_nil] at e2
            subst e2
            have := segSols_unique ps [] b1 b1' (by omega) hb1 hb1'
            subst this
            have hx : p' ≠ [] := by
              intro h; subst h; simp [Spec.joinSlash] at hj'
            refine ⟨Or.inr (Or.inl ?_), valsEq_refl _⟩
            simp [joinSlash_snoc_empty p' hx]
          · exact (no_trailing_empty ps q0 b1 hn0 hne' hb1).elim
    | star nm =>
      have hn0 : nFinal ps = 0 := by simp [Elem.isFinal] at hn; omega
      simp only [Spec.segSols, List.mem_append, List.mem_flatMap] at hb hb'
      rcases hb with ⟨⟨p, q⟩, hpq, hb⟩ | hb
      · split at hb
        · simp at hb
        · obtain ⟨b1, hb1, rfl⟩ := List.mem_map.mp hb
          have e1 : p ++ q = xs ++ [[]] := (mem_splits _ _).mp hpq
          rcases suffix_cases e1 with ⟨rfl, rfl⟩ | ⟨q0, rfl, _⟩
          · have l1 := fixed_length ps [] b1 hn0 hb1
            rcases hb' with ⟨⟨p', q'⟩, hpq', hb'⟩ | hb'
            · split at hb'
              · simp at hb'
              · rename_i hp'
                obtain ⟨b1', hb1', rfl⟩ := List.mem_map.mp hb'
                have e2 : p' ++ q' = xs := (mem_splits _ _).mp hpq'
                have l2 := fixed_length ps q' b1' hn0 hb1'
                have hq' : q' = [] := List.eq_nil_of_length_eq_zero (by simp at l1; omega)
                subst hq'
                simp only [List.append_nil] at e2
                subst e2
                have := segSols_unique ps [] b1 b1' (by omega) hb1 hb1'
                subst this
                have hx : p' ≠ [] := by simpa using hp'
                refine ⟨Or.inr (Or.inl ?_), valsEq_refl _⟩
                simp [joinSlash_snoc_empty p' hx]
            · obtain ⟨b1', hb1', rfl⟩ := List.mem_map.mp hb'
              have l2 := fixed_length ps xs b1' hn0 hb1'
              have hxs : xs = [] := List.eq_nil_of_length_eq_zero (by simp at l1; omega)
              subst hxs
              have := segSols_unique ps [] b1 b1' (by omega) hb1 hb1'
              subst this
              exact ⟨Or.inl (by simp [Spec.joinSlash]), valsEq_refl _⟩
          · exact (no_trailing_empty ps q0 b1 hn0 hne' hb1).elim
      · obtain ⟨b1, hb1, _⟩ := List.mem_map.mp hb
        exact (no_trailing_empty ps xs b1 hn0 hne' hb1).elim

theorem strictSegs_trailing (path : List Char) (hp : ∃ rest, path = '/' :: rest)
    (hl : path.getLast? = some '/') :
    Spec.strictSegs path = Spec.strictSegs path.dropLast ++ [[]] := by
  obtain ⟨h1, h2⟩ := strictSegs_spec path.dropLast (dropLast_ok hp)
  have e : path = joinSegs (Spec.strictSegs path.dropLast ++ [[]]) := by
    rw [joinSegs_append, h2]
    simpa [joinSegs] using eq_dropLast_append hl
  have hsf : SlashFree (Spec.strictSegs path.dropLast ++ [[]]) :=
    slashFree_append.mpr ⟨h1, by simp [SlashFree]⟩
  conv => lhs; rw [e]
  exact strictSegs_joinSegs _ hsf

/-- all Spec value tuples for a pattern and a path agree up to the normalisation -/
theorem sols_unique (pat : List Elem) (path : List Char) (hn : nFinal pat ≤ 1)
    (hne : ∀ e ∈ pat, e.NE) (hp : ∃ rest, path = '/' :: rest) (b b' : Spec.Vals)
    (hb : b ∈ Spec.sols pat path) (hb' : b' ∈ Spec.sols pat path) : ValsEq b b' := by
  unfold Spec.sols at hb hb'
  rw [List.mem_append] at hb hb'
  by_cases hl : path.getLast? = some '/'
  · simp only [hl, if_true] at hb hb'
    rw [strictSegs_trailing path hp hl] at hb hb'
    rcases hb with hb | hb <;> rcases hb' with hb' | hb'
    · rw [segSols_unique pat _ b b' hn hb hb']; exact valsEq_refl _
    · exact segSols_trailing pat _ b b' hn hne hb hb'
    · exact valsEq_symm (segSols_trailing pat _ b' b hn hne hb' hb)
    · rw [segSols_unique pat _ b b' hn hb hb']; exact valsEq_refl _
  · simp only [hl, if_false, List.not_mem_nil, or_false] at hb hb'
    rw [segSols_unique pat _ b b' hn hb hb']; exact valsEq_refl _

theorem classify_ne (part : List Char) (h : part ≠ []) : (classify part).NE := by
  unfold classify
  split
  · split <;> trivial
  · exact h

theorem parsePattern_ne (pattern : List Char) : ∀ e ∈ parsePattern pattern, e.NE := by
  intro e he
  unfold parsePattern at he
  obtain ⟨part, hpart, rfl⟩ := List.mem_map.mp he
  have h := (List.mem_filter.mp hpart).2
  exact classify_ne part (by
    intro e; subst e; simp at h)

theorem valsEq_of_absEq : ∀ (a b c : Spec.Vals), AbsEq a b → ValsEq b c → ValsEq a c := by
  intro a
  induction a with
  | nil =>
    intro b c h1 h2
    cases b with
    | nil => exact h2
    | cons y b => simp [AbsEq] at h1
  | cons x a ih =>
    intro b c h1 h2
    cases b with
    | nil => simp [AbsEq] at h1
    | cons y b =>
      cases c with
      | nil => exact h2.elim
      | cons z c =>
        simp only [AbsEq, List.map_cons, List.cons.injEq] at h1
        obtain ⟨h3, h4⟩ := h2
        refine ⟨?_, ih b c h1.2 h4⟩
        unfold ValEq at h3 ⊢
        rw [h1.1]
        exact h3

/-- the reported values against *the* Spec bindings (`Spec.bindings` = first of `Spec.sols`) -/
theorem groups_eq_bindings (pat : List Elem) (re : Re) (toks : List (List Char))
    (hc : compile pat = .ok (re, toks)) (hwf : ∀ e ∈ pat, e.WF) (hne : ∀ e ∈ pat, e.NE)
    (path : List Char) (hp : PathOK path) (caps : Caps) (hm : reMatch re path = some caps) :
    ∃ v, Spec.bindings pat path = some v ∧ ValsEq (groups toks.length caps) v := by
  obtain ⟨b, hb, habs⟩ := (match_spec pat re toks hc hwf path hp).2 caps hm
  have hn : nFinal pat ≤ 1 := (compile_isOk pat).mp ⟨re, toks, hc⟩
  unfold Spec.bindings
  cases hs : Spec.sols pat path with
  | nil => rw [hs] at hb; simp at hb
  | cons v t =>
    refine ⟨v, rfl, ?_⟩
    have hv : v ∈ Spec.sols pat path := by rw [hs]; simp
    exact valsEq_of_absEq _ b v habs (sols_unique pat path hn hne hp.1 b v hb hv)

end Mpgs.Router
