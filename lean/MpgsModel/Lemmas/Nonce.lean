import MpgsModel.Lemmas.ConnFrame
import MpgsModel.Lemmas.SeqNum
import MpgsModel.Lemmas.Wire
/-! Nonce lemmas: the emission log of a connection is a chain (seq advances by one on the ring,
time advances by at least the send interval), and a chain never repeats a (seq, second) pair. -/
namespace Mpgs.Conn
open Mpgs.Bytes Mpgs.Wire Mpgs.Seq

theorem add_one (s : Nat) (h : s ≤ 65535) :
    Seq.add (s : Int) 1 = .ok (if s = 65535 then 1 else (s : Int) + 1) := by
  simp only [Seq.add, Seq.mk, Seq.wrap, Seq.M]
  split <;> split <;> (try split) <;> (try split) <;> (try split) <;> first | omega | rfl | (congr 1; omega)

theorem seqInc_val (s : Nat) (h : s ≤ 65535) : seqInc s = if s = 65535 then 1 else s + 1 := by
  unfold seqInc
  rw [add_one s h]
  simp only
  split <;> omega

theorem seqInc_eq (s : Nat) (h : s ≤ 65535) :
    (seqInc s : Int) = ring ((s : Int) + 1) ∧ 1 ≤ seqInc s ∧ seqInc s ≤ 65535 := by
  rw [seqInc_val s h]
  simp only [ring, M]
  split <;> omega

/-- consecutive emissions: next seq on the ring, at least `si` ticks later -/
def Chain (si : Int) : List (Nat × Int) → Prop
  | [] => True
  | [_] => True
  | a :: b :: rest => b.1 = seqInc a.1 ∧ b.2 ≥ a.2 + si ∧ Chain si (b :: rest)

theorem chain_tail (si : Int) (a : Nat × Int) (l : List (Nat × Int)) (h : Chain si (a :: l)) : Chain si l := by
  cases l with
  | nil => trivial
  | cons b rest => exact h.2.2

/-- the k-th successor of the head of a chain -/
theorem chain_later (si : Int) (a : Nat × Int) (l : List (Nat × Int)) (ha : a.1 ≤ 65535)
    (h : Chain si (a :: l)) :
    ∀ (k : Nat) (e : Nat × Int), l[k]? = some e → (e.1 : Int) = ring ((a.1 : Int) + (k : Int) + 1) ∧ e.2 ≥ a.2 + ((k : Int) + 1) * si ∧ e.1 ≤ 65535 := by
  induction l generalizing a with
  | nil => intro k e hk; simp at hk
  | cons b rest ih =>
    obtain ⟨h1, h2, h3⟩ := h
    have hb := seqInc_eq a.1 ha
    intro k e hk
    cases k with
    | zero =>
      simp only [List.getElem?_cons_zero, Option.some.injEq] at hk
      subst hk
      rw [h1]
      refine ⟨by simpa using hb.1, by omega, hb.2.2⟩
    | succ k =>
      simp only [List.getElem?_cons_succ] at hk
      have hble : b.1 ≤ 65535 := by rw [h1]; exact hb.2.2
      have := ih b hble h3 k e hk
      refine ⟨?_, ?_, this.2.2⟩
      · rw [this.1, h1, hb.1]
        obtain ⟨q1, e1, _, _⟩ := ring_spec ((a.1 : Int) + 1)
        simp only [ring, M] at *
        omega
      · have hk' : ((k + 1 : Nat) : Int) = (k : Int) + 1 := by omega
        rw [hk']
        have e3 : ((k : Int) + 1 + 1) * si = ((k : Int) + 1) * si + si := by
          rw [Int.add_mul, Int.one_mul]
        omega

/-- a chain whose heads are valid sequence numbers never repeats a (seq, whole second) pair,
provided a full wrap of the 16-bit counter takes at least one second -/
theorem chain_no_repeat (si : Int) (hsi : 65535 * si ≥ 1024) (a : Nat × Int) (l : List (Nat × Int))
    (ha : a.1 ≤ 65535) (h : Chain si (a :: l)) (k : Nat) (e : Nat × Int)
    (hk : l[k]? = some e) : ¬ (e.1 = a.1 ∧ e.2 / 1024 = a.2 / 1024) := by
  obtain ⟨h1, h2, _⟩ := chain_later si a l ha h k e hk
  intro ⟨e1, e2⟩
  rw [e1] at h1
  -- ring (a + k + 1) = a with 1 ≤ a ≤ 65535 forces 65535 | k + 1
  obtain ⟨q, hq, _, _⟩ := ring_spec ((a.1 : Int) + (k : Int) + 1)
  rw [← h1] at hq
  have hq1 : (k : Int) + 1 = 65535 * q := by omega
  have hqpos : q ≥ 1 := by omega
  have hsipos : si ≥ 1 := by omega
  have hmul : ((k : Int) + 1) * si = 65535 * si * q := by
    rw [hq1, Int.mul_assoc, Int.mul_comm q si, ← Int.mul_assoc]
  have : 65535 * si * q ≥ 1024 := by
    have h3 : 65535 * si * q ≥ 65535 * si * 1 := Int.mul_le_mul_of_nonneg_left hqpos (by omega)
    omega
  omega

end Mpgs.Conn
