import MpgsModel.Model.ConnStep
/-!
Safety half of guaranteed delivery (C05): a message sent with RETRY_ON_TIMEOUT is never dropped by
its sender.  `Alive rid c` says where the `RetrySender` object `rid` is held: queued in `outgoing`,
parked under a datagram that still awaits its acknowledgement (and therefore its time-out), or
done.  Every operation except `disconnect` preserves it.
-/
namespace Mpgs.Conn
open Mpgs.Bytes Mpgs.Wire

/-! ### association lists -/

theorem aget_adel_ne {α : Type} (l : List (Nat × α)) (k x : Nat) (h : x ≠ k) :
    aget (adel l k) x = aget l x := by
  induction l with
  | nil => rfl
  | cons p t ih =>
    obtain ⟨a, v⟩ := p
    simp only [adel, aget]
    by_cases hak : a = k
    · subst hak
      simp only [if_true]
      have : ¬ a = x := fun e => h e.symm
      simp [this]
    · simp only [hak, if_false, aget]
      by_cases hax : a = x
      · simp [hax]
      · simp [hax, ih]

theorem aget_aset_eq {α : Type} (l : List (Nat × α)) (k : Nat) (v : α) :
    aget (aset l k v) k = some v := by
  induction l with
  | nil => simp [aset, aget]
  | cons p t ih =>
    obtain ⟨a, w⟩ := p
    simp only [aset]
    by_cases hak : a = k
    · simp [hak, aget]
    · simp [hak, aget, ih]

theorem aget_aset_ne {α : Type} (l : List (Nat × α)) (k x : Nat) (v : α) (h : x ≠ k) :
    aget (aset l k v) x = aget l x := by
  induction l with
  | nil =>
    have : ¬ k = x := fun e => h e.symm
    simp [aset, aget, this]
  | cons p t ih =>
    obtain ⟨a, w⟩ := p
    simp only [aset]
    by_cases hak : a = k
    · subst hak
      have : ¬ a = x := fun e => h e.symm
      simp [aget, this]
    · simp only [hak, if_false, aget]
      by_cases hax : a = x
      · simp [hax]
      · simp [hax, ih]

/-! ### object tables -/

theorem getElem?_setObj {α : Type} (l : List α) (i j : Nat) (v : α) :
    (setObj l i v)[j]? = if j = i then (l[j]?).map (fun _ => v) else l[j]? := by
  induction l generalizing i j with
  | nil => simp [setObj]
  | cons a t ih =>
    cases i with
    | zero =>
      cases j with
      | zero => simp [setObj]
      | succ j => simp [setObj]
    | succ i =>
      cases j with
      | zero => simp [setObj]
      | succ j => simp [setObj, ih]

/-! ### what callbacks may do: extend -/

/-- the effect callbacks have on the fields guaranteed delivery depends on: the queue only grows,
the parked callbacks and pending acks are untouched, sender objects stay and stay done -/
structure Ext (c c' : Conn) : Prop where
  out : ∀ m, m ∈ c.outgoing → m ∈ c'.outgoing
  cbs : c'.pendingCbs = c.pendingCbs
  acks : c'.pendingAcks = c.pendingAcks
  objs : ∀ (rid : Nat) (o : RetrySender), c.retryObjs[rid]? = some o →
    ∃ o' : RetrySender, c'.retryObjs[rid]? = some o' ∧ (o.done = true → o'.done = true)

theorem Ext.refl (c : Conn) : Ext c c := ⟨fun _ h => h, rfl, rfl, fun _ o h => ⟨o, h, id⟩⟩

theorem Ext.trans {a b c : Conn} (h1 : Ext a b) (h2 : Ext b c) : Ext a c := by
  refine ⟨fun m h => h2.out m (h1.out m h), by rw [h2.cbs, h1.cbs], by rw [h2.acks, h1.acks], ?_⟩
  intro rid o h
  obtain ⟨o1, ho1, hd1⟩ := h1.objs rid o h
  obtain ⟨o2, ho2, hd2⟩ := h2.objs rid o1 ho1
  exact ⟨o2, ho2, fun hd => hd2 (hd1 hd)⟩

theorem ext_sendType (c : Conn) (ty : PType) (p : Bytes) (r : Int) (cb : Option Cb) :
    Ext c (sendType c ty p r cb) := by
  refine ⟨?_, rfl, rfl, ?_⟩
  · intro m hm
    simp only [sendType]
    exact List.mem_append_left _ hm
  · intro rid o h
    refine ⟨o, ?_, id⟩
    simp only [sendType]
    split
    · simp only
      have hlt : rid < c.retryObjs.length := (List.getElem?_eq_some_iff.mp h).1
      rw [List.getElem?_append_left hlt]; exact h
    · exact h

theorem ext_runLeaf (c : Conn) (cb : Cb) (v : Bool) : Ext c (runLeaf c cb v).1 := by
  unfold runLeaf
  split
  · exact Ext.refl c
  · split
    · exact Ext.refl c
    · split
      · exact Ext.refl c
      · exact Ext.refl c
      · split
        · exact ext_sendType _ _ _ _ _
        · simp only
          split
          · split <;> exact ⟨fun _ h => h, rfl, rfl, fun _ o h => ⟨o, h, id⟩⟩
          · exact ⟨fun _ h => h, rfl, rfl, fun _ o h => ⟨o, h, id⟩⟩
  · exact Ext.refl c
  · exact Ext.refl c
  · exact Ext.refl c
  · exact Ext.refl c

/-- marking object `rid` done -/
theorem ext_markDone (c : Conn) (rid : Nat) (obj : RetrySender) (ho : c.retryObjs[rid]? = some obj) :
    Ext c { c with retryObjs := setObj c.retryObjs rid { obj with done := true } } := by
  refine ⟨fun _ h => h, rfl, rfl, ?_⟩
  intro r o h
  simp only [getElem?_setObj]
  by_cases hr : r = rid
  · subst hr
    simp [h]
  · simp [hr, h]

theorem ext_runCb (c : Conn) (cb : Cb) (v : Bool) : Ext c (runCb c cb v).1 := by
  cases cb with
  | retry rid =>
    simp only [runCb]
    cases ho : c.retryObjs[rid]? with
    | none => exact Ext.refl c
    | some obj =>
      simp only
      split
      · exact Ext.refl c
      · split
        · refine ⟨fun m h => ?_, rfl, rfl, fun _ o h => ⟨o, h, id⟩⟩
          simp only
          exact List.mem_append_left _ h
        · split
          · exact (ext_markDone c rid obj ho).trans (ext_runLeaf _ _ _)
          · exact ext_markDone c rid obj ho
  | user id => exact ext_runLeaf _ _ _
  | frag fid idx => exact ext_runLeaf _ _ _
  | helloTimeout => exact ext_runLeaf _ _ _
  | challengeTimeout => exact ext_runLeaf _ _ _
  | clientDisconnect => exact ext_runLeaf _ _ _

theorem ext_runCbs (c : Conn) (cbs : List Cb) (v : Bool) : Ext c (runCbs c cbs v).1 := by
  induction cbs generalizing c with
  | nil => exact Ext.refl c
  | cons cb cbs ih =>
    simp only [runCbs]
    exact (ext_runCb c cb v).trans (ih _)

/-! ### where a guaranteed message is held -/

/-- queued, or reported delivered -/
def Held (rid : Nat) (c : Conn) : Prop :=
  (∃ m, m ∈ c.outgoing ∧ m.cb = some (.retry rid)) ∨
  (∃ o, c.retryObjs[rid]? = some o ∧ o.done = true)

/-- parked under a datagram that is still awaiting its acknowledgement or time-out -/
def Parked (rid : Nat) (c : Conn) : Prop :=
  ∃ s cbs, aget c.pendingCbs s = some cbs ∧ Cb.retry rid ∈ cbs ∧ (aget c.pendingAcks s).isSome = true

def Valid (rid : Nat) (c : Conn) : Prop := ∃ o, c.retryObjs[rid]? = some o

/-- the guaranteed message with sender object `rid` has not been lost by its sender -/
def Alive (rid : Nat) (c : Conn) : Prop := Valid rid c ∧ (Held rid c ∨ Parked rid c)

theorem valid_ext {rid : Nat} {c c' : Conn} (h : Ext c c') (hv : Valid rid c) : Valid rid c' := by
  obtain ⟨o, ho⟩ := hv
  obtain ⟨o', ho', _⟩ := h.objs rid o ho
  exact ⟨o', ho'⟩

theorem held_ext {rid : Nat} {c c' : Conn} (h : Ext c c') (hh : Held rid c) : Held rid c' := by
  rcases hh with ⟨m, hm, hcb⟩ | ⟨o, ho, hd⟩
  · exact Or.inl ⟨m, h.out m hm, hcb⟩
  · obtain ⟨o', ho', hd'⟩ := h.objs rid o ho
    exact Or.inr ⟨o', ho', hd' hd⟩

theorem parked_ext {rid : Nat} {c c' : Conn} (h : Ext c c') (hp : Parked rid c) : Parked rid c' := by
  obtain ⟨s, cbs, h1, h2, h3⟩ := hp
  exact ⟨s, cbs, by rw [h.cbs]; exact h1, h2, by rw [h.acks]; exact h3⟩

theorem alive_ext {rid : Nat} {c c' : Conn} (h : Ext c c') (hl : Alive rid c) : Alive rid c' :=
  ⟨valid_ext h hl.1, hl.2.elim (fun x => Or.inl (held_ext h x)) (fun x => Or.inr (parked_ext h x))⟩

/-- running the `RetrySender` itself: re-queued (failure), done (success), or already done -/
theorem held_runCb_retry (c : Conn) (rid : Nat) (v : Bool) (hv : Valid rid c) :
    Held rid (runCb c (.retry rid) v).1 := by
  obtain ⟨obj, ho⟩ := hv
  simp only [runCb, ho]
  by_cases hd : obj.done = true
  · simp only [hd, if_true]
    exact Or.inr ⟨obj, ho, hd⟩
  · simp only [hd, if_false]
    cases v with
    | false =>
      simp only [Bool.not_false, if_true]
      refine Or.inl ⟨⟨obj.mseq, obj.ty, obj.payload, some (.retry rid), -1, 0⟩, ?_, rfl⟩
      simp
    | true =>
      simp only [Bool.not_true, if_false]
      have hdone : ∀ o' : RetrySender, o'.done = true →
          Held rid { c with retryObjs := setObj c.retryObjs rid o' } := by
        intro o' hd'
        refine Or.inr ⟨o', ?_, hd'⟩
        simp [getElem?_setObj, ho]
      cases hi : obj.inner with
      | none => exact hdone _ rfl
      | some inner =>
        simp only
        exact held_ext (ext_runLeaf _ _ _) (hdone _ rfl)

theorem held_runCbs (c : Conn) (rid : Nat) (cbs : List Cb) (v : Bool) (hv : Valid rid c)
    (hm : Cb.retry rid ∈ cbs) : Held rid (runCbs c cbs v).1 := by
  induction cbs generalizing c with
  | nil => cases hm
  | cons cb rest ih =>
    simp only [runCbs]
    by_cases hcb : cb = .retry rid
    · subst hcb
      exact held_ext (ext_runCbs _ _ _) (held_runCb_retry c rid v hv)
    · have hm' : Cb.retry rid ∈ rest := by
        rcases List.mem_cons.mp hm with h | h
        · exact absurd h.symm hcb
        · exact h
      exact ih _ (valid_ext (ext_runCb c cb v) hv) hm'

/-! ### `resolve` and the loops over it -/

/-- a state that agrees on the four fields `Alive` reads -/
theorem alive_congr {rid : Nat} {c c' : Conn} (h1 : c'.outgoing = c.outgoing)
    (h2 : c'.retryObjs = c.retryObjs) (h3 : c'.pendingCbs = c.pendingCbs)
    (h4 : c'.pendingAcks = c.pendingAcks) (hl : Alive rid c) : Alive rid c' := by
  unfold Alive Valid Held Parked at *
  rw [h1, h2, h3, h4]; exact hl

theorem alive_resolve (rid : Nat) (c : Conn) (s : Nat) (ok : Bool) (hl : Alive rid c) :
    Alive rid (resolve c s ok).1 := by
  unfold resolve
  simp only
  have h0 : Alive rid (if ok = true then { c with acked := c.acked + 1 } else { c with timeouts := c.timeouts + 1 }) := by
    split <;> exact alive_congr rfl rfl rfl rfl hl
  generalize (if ok = true then { c with acked := c.acked + 1 } else { c with timeouts := c.timeouts + 1 }) = c0 at *
  -- the state after the callbacks ran and the entry for `s` was removed from both maps
  have key : ∀ c' : Conn, Ext c0 c' →
      (∀ cbs, aget c0.pendingCbs s = some cbs → Cb.retry rid ∈ cbs → Held rid c') →
      ∀ cf : Conn, cf.outgoing = c'.outgoing → cf.retryObjs = c'.retryObjs →
        cf.pendingCbs = adel c'.pendingCbs s → cf.pendingAcks = adel c'.pendingAcks s → Alive rid cf := by
    intro c' hext hrun cf e1 e2 e3 e4
    have hv' : Valid rid cf := by
      obtain ⟨o, ho⟩ := valid_ext hext h0.1
      exact ⟨o, by rw [e2]; exact ho⟩
    have heldcf : Held rid c' → Held rid cf := by
      intro hh
      unfold Held at *
      rw [e1, e2]; exact hh
    refine ⟨hv', ?_⟩
    rcases h0.2 with hh | ⟨s', cbs, p1, p2, p3⟩
    · exact Or.inl (heldcf (held_ext hext hh))
    · by_cases hs : s' = s
      · subst hs
        exact Or.inl (heldcf (hrun cbs p1 p2))
      · refine Or.inr ⟨s', cbs, ?_, p2, ?_⟩
        · rw [e3, aget_adel_ne _ _ _ hs, hext.cbs]; exact p1
        · rw [e4, aget_adel_ne _ _ _ hs, hext.acks]; exact p3
  cases hcb : aget c0.pendingCbs s with
  | none =>
    simp only
    have hk := key c0 (Ext.refl c0) (fun cbs h => by rw [hcb] at h; cases h)
    -- `adel` of an absent key in pendingCbs: the entry is simply not there
    have hadel : ∀ cf : Conn, cf.outgoing = c0.outgoing → cf.retryObjs = c0.retryObjs →
        cf.pendingCbs = c0.pendingCbs → cf.pendingAcks = adel c0.pendingAcks s → Alive rid cf := by
      intro cf e1 e2 e3 e4
      have hv' : Valid rid cf := by
        obtain ⟨o, ho⟩ := h0.1
        exact ⟨o, by rw [e2]; exact ho⟩
      refine ⟨hv', ?_⟩
      rcases h0.2 with hh | ⟨s', cbs, p1, p2, p3⟩
      · left; unfold Held at *; rw [e1, e2]; exact hh
      · have hs : s' ≠ s := by
          intro e; subst e; rw [hcb] at p1; cases p1
        exact Or.inr ⟨s', cbs, by rw [e3]; exact p1, p2, by rw [e4, aget_adel_ne _ _ _ hs]; exact p3⟩
    cases hr : aget c0.pendingRetry s <;> exact hadel _ rfl rfl rfl rfl
  | some cbs =>
    simp only
    have hext := ext_runCbs c0 cbs ok
    have hrun : ∀ cbs', aget c0.pendingCbs s = some cbs' → Cb.retry rid ∈ cbs' → Held rid (runCbs c0 cbs ok).1 := by
      intro cbs' h1 h2
      rw [hcb] at h1
      cases h1
      exact held_runCbs c0 rid cbs ok h0.1 h2
    have hk := key (runCbs c0 cbs ok).1 hext hrun
    generalize runCbs c0 cbs ok = r at *
    obtain ⟨c', ev⟩ := r
    simp only at hk ⊢
    cases hr : aget c'.pendingRetry s <;> exact hk _ rfl rfl rfl rfl

theorem alive_checkTimeoutKeys (rid : Nat) (c : Conn) (t : Int) (ks : List Nat) (hl : Alive rid c) :
    Alive rid (checkTimeoutKeys c t ks).1 := by
  induction ks generalizing c with
  | nil => exact hl
  | cons s ks ih =>
    simp only [checkTimeoutKeys]
    split
    · exact ih c hl
    · split
      · simp only; exact ih _ (alive_resolve rid c s false hl)
      · exact ih c hl

theorem alive_checkTimeout (rid : Nat) (c : Conn) (t : Int) (hl : Alive rid c) :
    Alive rid (checkTimeout c t).1 := alive_checkTimeoutKeys rid c t _ hl

theorem alive_checkTimeoutStrictKeys (rid : Nat) (c : Conn) (t : Int) (ks : List Nat) (hl : Alive rid c) :
    Alive rid (checkTimeoutStrictKeys c t ks).1 := by
  induction ks generalizing c with
  | nil => exact hl
  | cons s ks ih =>
    simp only [checkTimeoutStrictKeys]
    split
    · exact ih c hl
    · split
      · simp only; exact ih _ (alive_resolve rid c s false hl)
      · exact ih c hl

theorem alive_handleAckKeys (rid : Nat) (c : Conn) (a b : Nat) (ks : List Nat) (hl : Alive rid c) :
    Alive rid (handleAckKeys c a b ks).1 := by
  induction ks generalizing c with
  | nil => exact hl
  | cons s ks ih =>
    simp only [handleAckKeys]
    split
    · exact ih c hl
    · split
      · simp only; exact ih _ (alive_resolve rid c s true hl)
      · split
        · simp only; exact ih _ (alive_resolve rid c s false hl)
        · exact ih c hl

theorem alive_handleAckBits (rid : Nat) (c : Conn) (h : Header) (hl : Alive rid c) :
    Alive rid (handleAckBits c h).1 := alive_handleAckKeys rid c _ _ _ hl

end Mpgs.Conn
