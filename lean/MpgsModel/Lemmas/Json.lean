/-
Helper lemmas for C15 (typed-JSON round trip) over the model in `MpgsModel.Model.Json`.
Core Lean only.

Architecture: `Good tbl x t` is the combined invariant for a value `x` held by a field annotated
`t` (toJson succeeds, its output is plain, survives `json.dumps`/`loads`, and both the direct and
the key-stringified output convert back to `x`).  List-level lemmas (elements, tuples, fields,
dict items) are proved by plain list induction *assuming* `Good` of the members; the induction
over the nested inductive `Val` (`Val.ind`) then only has to glue them together (`good_of_hasTy`).
-/
import MpgsModel.Model.Json
import MpgsModel.Lemmas.JsonDec
namespace Mpgs.Json

/-! ### induction principle for the nested inductive `Val` -/

theorem Val.ind {P : Val → Prop}
    (atom : ∀ a, P (.atom a)) (enum : ∀ e v, P (.enum e v))
    (obj : ∀ c vs, (∀ v ∈ vs, P v) → P (.obj c vs))
    (list : ∀ xs, (∀ v ∈ xs, P v) → P (.list xs))
    (set : ∀ xs, (∀ v ∈ xs, P v) → P (.set xs))
    (tuple : ∀ xs, (∀ v ∈ xs, P v) → P (.tuple xs))
    (dict : ∀ kvs, (∀ kv ∈ kvs, P kv.1 ∧ P kv.2) → P (.dict kvs)) : ∀ x, P x := by
  intro x
  refine Val.rec (motive_1 := P) (motive_2 := fun xs => ∀ v ∈ xs, P v)
    (motive_3 := fun kvs => ∀ kv ∈ kvs, P kv.1 ∧ P kv.2) (motive_4 := fun kv => P kv.1 ∧ P kv.2)
    atom enum obj list set tuple dict ?_ ?_ ?_ ?_ ?_ x
  · intro v h; cases h
  · intro h t ih1 ih2 v hv
    cases hv with
    | head => exact ih1
    | tail _ hm => exact ih2 v hm
  · intro v h; cases h
  · intro h t ih1 ih2 v hv
    cases hv with
    | head => exact ih1
    | tail _ hm => exact ih2 v hm
  · intro a b ha hb; exact ⟨ha, hb⟩

/-! ### association lists, enum tables -/

theorem assoc_mem {α : Type} (l : List (Str × α)) (k : Str) (a : α) (h : assoc l k = some a) :
    (k, a) ∈ l := by
  induction l with
  | nil => simp [assoc] at h
  | cons p t ih =>
    obtain ⟨k0, a0⟩ := p
    simp only [assoc] at h
    by_cases e : k0 = k
    · simp only [e, if_true, Option.some.injEq] at h
      subst e; subst h; simp
    · simp only [e, if_false] at h
      exact List.mem_cons_of_mem _ (ih h)

theorem value2name_mem (ms : List (Str × Int)) (v : Int) (n : Str) (h : value2name ms v = some n) :
    (n, v) ∈ ms := by
  induction ms with
  | nil => simp [value2name] at h
  | cons p rest ih =>
    obtain ⟨n0, x0⟩ := p
    simp only [value2name] at h
    cases hr : value2name rest v with
    | some n' =>
      simp only [hr, Option.some.injEq] at h
      subst h
      exact List.mem_cons_of_mem _ (ih hr)
    | none =>
      simp only [hr] at h
      by_cases e : x0 = v
      · simp only [e, if_true, Option.some.injEq] at h
        subst e; subst h; simp
      · simp [e] at h

theorem value2name_of_isMember (ms : List (Str × Int)) (v : Int) (h : isMember ms v = true) :
    ∃ n, value2name ms v = some n := by
  induction ms with
  | nil => simp [isMember] at h
  | cons p rest ih =>
    obtain ⟨n0, x0⟩ := p
    simp only [value2name]
    cases hr : value2name rest v with
    | some n' => exact ⟨n', rfl⟩
    | none =>
      by_cases e : x0 = v
      · exact ⟨n0, by simp [e]⟩
      · have : isMember rest v = true := by
          simp only [isMember, List.any_cons, Bool.or_eq_true, decide_eq_true_eq] at h
          rcases h with h | h
          · exact absurd h e
          · simpa [isMember] using h
        obtain ⟨n, hn⟩ := ih this
        rw [hr] at hn; cases hn

theorem name2value_none (ms : List (Str × Int)) (n : Str)
    (h : ms.any (fun m => m.1 = n) = false) : name2value ms n = none := by
  induction ms with
  | nil => rfl
  | cons p rest ih =>
    obtain ⟨n0, x0⟩ := p
    simp only [List.any_cons, Bool.or_eq_false_iff, decide_eq_false_iff_not] at h
    simp [name2value, ih h.2, h.1]

theorem name2value_of_mem (ms : List (Str × Int)) (n : Str) (v : Int)
    (hnd : namesNodup ms = true) (h : (n, v) ∈ ms) : name2value ms n = some v := by
  induction ms with
  | nil => cases h
  | cons p rest ih =>
    obtain ⟨n0, x0⟩ := p
    simp only [namesNodup, Bool.and_eq_true, Bool.not_eq_true'] at hnd
    simp only [name2value]
    cases h with
    | head => rw [name2value_none rest n hnd.1]; simp
    | tail _ hm => rw [ih hnd.2 hm]

/-- with distinct names, one name has one value -/
theorem namesNodup_unique (ms : List (Str × Int)) (n : Str) (v w : Int)
    (hnd : namesNodup ms = true) (h1 : (n, v) ∈ ms) (h2 : (n, w) ∈ ms) : v = w := by
  have a := name2value_of_mem ms n v hnd h1
  have b := name2value_of_mem ms n w hnd h2
  rw [a] at b; exact Option.some.inj b

/-- what `tableOK` says about one enum class -/
theorem tableOK_enum (tbl : Table) (hT : tableOK tbl = true) (e : Str) (ms : List (Str × Int))
    (h : assoc tbl.enums e = some ms) :
    namesNodup ms = true ∧ ∀ m ∈ ms, pyUpper m.1 = m.1 := by
  have hm := assoc_mem _ _ _ h
  simp only [tableOK, Bool.and_eq_true, List.all_eq_true, decide_eq_true_eq] at hT
  have := hT.1 _ hm
  exact ⟨this.1, fun m hm => this.2 m hm⟩

/-- what `tableOK` says about one Serializable class -/
theorem tableOK_class (tbl : Table) (hT : tableOK tbl = true) (c : Str) (fs : List Field)
    (h : assoc tbl.classes c = some fs) :
    fieldNamesNodup fs = true ∧ ∀ f ∈ fs, tyOK f.ty = true := by
  have hm := assoc_mem _ _ _ h
  simp only [tableOK, Bool.and_eq_true, List.all_eq_true, decide_eq_true_eq] at hT
  have := hT.2 _ hm
  exact ⟨this.1, fun m hm => this.2 m hm⟩

/-- enum member: name exists, and the name maps back to the value -/
theorem enum_roundtrip (tbl : Table) (hT : tableOK tbl = true) (e : Str) (ms : List (Str × Int))
    (h : assoc tbl.enums e = some ms) (v : Int) (hv : isMember ms v = true) :
    ∃ n, value2name ms v = some n ∧ name2value ms (pyUpper n) = some v := by
  obtain ⟨n, hn⟩ := value2name_of_isMember ms v hv
  obtain ⟨hnd, hup⟩ := tableOK_enum tbl hT e ms h
  have hm := value2name_mem ms v n hn
  refine ⟨n, hn, ?_⟩
  rw [hup _ hm]
  exact name2value_of_mem ms n v hnd hm

/-! ### `set(lst)`, `map[k] = v` when nothing repeats -/

theorem pySetAux_nodup (xs : List Val) : ∀ acc, nodupAcc xs acc = true → pySetAux xs acc = acc ++ xs := by
  induction xs with
  | nil => intro acc _; simp [pySetAux]
  | cons x xs ih =>
    intro acc h
    simp only [nodupAcc, Bool.and_eq_true, Bool.not_eq_true'] at h
    simp only [pySetAux, h.1, Bool.false_eq_true, if_false]
    rw [ih _ h.2]; simp

theorem pySet_nodup (xs : List Val) (h : nodupAcc xs [] = true) : pySet xs = xs := by
  simpa [pySet] using pySetAux_nodup xs [] h

theorem dictSetV_fresh (acc : List (Val × Val)) (k v : Val) (h : memKey k acc = false) :
    dictSetV acc k v = acc ++ [(k, v)] := by
  induction acc with
  | nil => rfl
  | cons p rest ih =>
    obtain ⟨k0, v0⟩ := p
    simp only [memKey, Bool.or_eq_false_iff] at h
    simp [dictSetV, h.1, ih h.2]

theorem dictSetJ_fresh (acc : List (Atom × JsonVal)) (k : Atom) (v : JsonVal)
    (h : ∀ e ∈ acc, e.1 ≠ k) : dictSetJ acc k v = acc ++ [(k, v)] := by
  induction acc with
  | nil => rfl
  | cons p rest ih =>
    obtain ⟨k0, v0⟩ := p
    have h0 : k0 ≠ k := h (k0, v0) (by simp)
    simp only [dictSetJ, h0, if_false, List.cons_append]
    rw [ih (fun e he => h e (List.mem_cons_of_mem _ he))]

/-! ### `json.dumps`/`loads` on an object whose key texts are pairwise distinct -/

/-- pointwise: key replaced by its text, value by its stringified form -/
inductive StrRel : List (Atom × JsonVal) → List (Atom × JsonVal) → Prop
  | nil : StrRel [] []
  | cons {k : Atom} {s : Str} {v v' : JsonVal} {m m' : List (Atom × JsonVal)} :
      keyStr k = .ok s → stringifyKeys v = .ok v' → StrRel m m' →
      StrRel ((k, v) :: m) ((.str s, v') :: m')

theorem stringifyObj_of_strRel {m m' : List (Atom × JsonVal)} (h : StrRel m m') :
    ∀ acc : List (Atom × JsonVal), ((acc ++ m').map (·.1)).Nodup →
      stringifyObj m acc = .ok (acc ++ m') := by
  induction h with
  | nil => intro acc _; simp [stringifyObj]
  | @cons k s v v' m m' hk hv _ ih =>
    intro acc hnd
    have hfresh : ∀ e ∈ acc, e.1 ≠ Atom.str s := by
      intro e he heq
      simp only [List.map_append, List.map_cons] at hnd
      have := (List.nodup_append.1 hnd).2.2 e.1 (List.mem_map_of_mem he) (.str s) (by simp)
      exact this heq
    rw [stringifyObj]
    simp only [hk, hv]
    rw [dictSetJ_fresh acc _ _ hfresh, ih (acc ++ [(Atom.str s, v')]) (by simpa using hnd)]
    simp

/-! ### the invariant -/

/-- the value `x` of a field annotated `t` serialises, the output is plain and survives
`json.dumps`/`loads`, and both the direct and the key-stringified output convert back to `x` -/
def Good (tbl : Table) (x : Val) (t : Ty) : Prop :=
  ∃ j j', toJsonField tbl x t = .ok j ∧ stringifyKeys j = .ok j' ∧
    fromJsonField tbl j t = .ok x ∧ fromJsonField tbl j' t = .ok x ∧ j.plain = true

/-- members of a well-typed value are `Good` at every type they have (induction hypothesis shape) -/
def GoodAt (tbl : Table) (x : Val) : Prop :=
  ∀ t, tyOK t = true → hasTy tbl x t = true → Good tbl x t

/-! ### List / Set elements -/

theorem elems_good (tbl : Table) (t : BTy) (xs : List Val)
    (hty : hasTyElems tbl xs t = true) (ih : ∀ x ∈ xs, GoodAt tbl x) :
    ∃ js js', toJsonElems tbl xs t = .ok js ∧ stringifyList js = .ok js' ∧
      fromJsonElems tbl js t = .ok xs ∧ fromJsonElems tbl js' t = .ok xs ∧ plainList js = true := by
  induction xs with
  | nil => exact ⟨[], [], by simp [toJsonElems], by simp [stringifyList], by simp [fromJsonElems],
      by simp [fromJsonElems], by simp [plainList]⟩
  | cons x xs ihx =>
    simp only [hasTyElems, Bool.and_eq_true] at hty
    obtain ⟨j, j', h1, h2, h3, h4, h5⟩ := ih x (by simp) (.basic t) rfl hty.1
    obtain ⟨js, js', g1, g2, g3, g4, g5⟩ := ihx hty.2 (fun y hy => ih y (List.mem_cons_of_mem _ hy))
    refine ⟨j :: js, j' :: js', ?_, ?_, ?_, ?_, ?_⟩
    · simp [toJsonElems, h1, g1]
    · simp [stringifyList, h2, g2]
    · simp [fromJsonElems, h3, g3]
    · simp [fromJsonElems, h4, g4]
    · simp [plainList, h5, g5]

/-! ### Tuples -/

theorem tuple_good (tbl : Table) (xs : List Val) : ∀ (ts : List BTy),
    hasTyTuple tbl xs ts = true → (∀ x ∈ xs, GoodAt tbl x) →
    ∃ js js', toJsonTuple tbl xs ts = .ok js ∧ stringifyList js = .ok js' ∧
      fromJsonTuple tbl js ts = .ok xs ∧ fromJsonTuple tbl js' ts = .ok xs ∧ plainList js = true := by
  induction xs with
  | nil =>
    intro ts hty _
    cases ts with
    | nil => exact ⟨[], [], by simp [toJsonTuple], by simp [stringifyList], by simp [fromJsonTuple],
        by simp [fromJsonTuple], by simp [plainList]⟩
    | cons t ts => simp [hasTyTuple] at hty
  | cons x xs ihx =>
    intro ts hty ih
    cases ts with
    | nil => simp [hasTyTuple] at hty
    | cons t ts =>
      simp only [hasTyTuple, Bool.and_eq_true] at hty
      obtain ⟨j, j', h1, h2, h3, h4, h5⟩ := ih x (by simp) (.basic t) rfl hty.1
      obtain ⟨js, js', g1, g2, g3, g4, g5⟩ :=
        ihx ts hty.2 (fun y hy => ih y (List.mem_cons_of_mem _ hy))
      refine ⟨j :: js, j' :: js', ?_, ?_, ?_, ?_, ?_⟩
      · simp [toJsonTuple, h1, g1]
      · simp [stringifyList, h2, g2]
      · simp [fromJsonTuple, h3, g3]
      · simp [fromJsonTuple, h4, g4]
      · simp [plainList, h5, g5]

/-! ### Serializable objects: the `_fields` loop -/

/-- pointwise: entry `i` of the record is `(name of field i, j_i)` and `j_i` converts back to `v_i` -/
inductive FieldsBack (tbl : Table) : List Val → List Field → List (Atom × JsonVal) → Prop
  | nil : FieldsBack tbl [] [] []
  | cons {v : Val} {f : Field} {j : JsonVal} {vs : List Val} {fs : List Field}
      {kvs : List (Atom × JsonVal)} :
      fromJsonField tbl j f.ty = .ok v → FieldsBack tbl vs fs kvs →
      FieldsBack tbl (v :: vs) (f :: fs) ((Atom.str f.name, j) :: kvs)

theorem lookConv_skip (tbl : Table) (n : Str) (ty : Ty) (rest : List (Atom × JsonVal)) :
    ∀ pre : List (Atom × JsonVal), (∀ e ∈ pre, e.1 ≠ Atom.str n) →
      lookConv tbl (pre ++ rest) n ty = lookConv tbl rest n ty := by
  intro pre
  induction pre with
  | nil => intro _; rfl
  | cons p pre ih =>
    intro h
    obtain ⟨k, v⟩ := p
    have hk : k ≠ Atom.str n := h (k, v) (by simp)
    rw [List.cons_append, lookConv]
    simp only [hk, if_false]
    exact ih (fun e he => h e (List.mem_cons_of_mem _ he))

theorem fieldsLoop_of_back {tbl : Table} {vs : List Val} {fs : List Field}
    {kvs : List (Atom × JsonVal)} (h : FieldsBack tbl vs fs kvs) :
    fieldNamesNodup fs = true →
    ∀ pre : List (Atom × JsonVal), (∀ f ∈ fs, ∀ e ∈ pre, e.1 ≠ Atom.str f.name) →
      fieldsLoop (fun n ty => lookConv tbl (pre ++ kvs) n ty) fs = .ok vs := by
  induction h with
  | nil => intro _ pre _; simp [fieldsLoop]
  | @cons v f j vs fs kvs hj _ ih =>
    intro hnd pre hpre
    simp only [fieldNamesNodup, Bool.and_eq_true, Bool.not_eq_true', List.any_eq_false,
      decide_eq_true_eq] at hnd
    have hlook : lookConv tbl (pre ++ (Atom.str f.name, j) :: kvs) f.name f.ty = some (.ok v) := by
      rw [lookConv_skip tbl f.name f.ty _ pre (hpre f (by simp)), lookConv]
      simp [hj]
    have hrest := ih hnd.2 (pre ++ [(Atom.str f.name, j)]) (by
      intro f' hf' e he
      rcases List.mem_append.1 he with he | he
      · exact hpre f' (List.mem_cons_of_mem _ hf') e he
      · simp only [List.mem_singleton] at he
        subst he
        intro heq
        exact hnd.1 f' hf' (by simpa using heq.symm))
    simp only [List.append_assoc, List.singleton_append] at hrest
    simp only [fieldsLoop, hlook, hrest]

theorem fieldNames_nodup (fs : List Field) (h : fieldNamesNodup fs = true) :
    (fs.map (fun f => Atom.str f.name)).Nodup := by
  induction fs with
  | nil => simp
  | cons f fs ih =>
    simp only [fieldNamesNodup, Bool.and_eq_true, Bool.not_eq_true', List.any_eq_false,
      decide_eq_true_eq] at h
    simp only [List.map_cons, List.nodup_cons, List.mem_map, not_exists, not_and]
    refine ⟨?_, ih h.2⟩
    intro g hg heq
    exact h.1 g hg (by simpa using heq)

theorem fields_good (tbl : Table) (vs : List Val) : ∀ (fs : List Field),
    hasTyFields tbl vs fs = true → (∀ f ∈ fs, tyOK f.ty = true) → (∀ v ∈ vs, GoodAt tbl v) →
    ∃ kvs kvs', toJsonFields tbl vs fs = .ok kvs ∧ StrRel kvs kvs' ∧
      FieldsBack tbl vs fs kvs ∧ FieldsBack tbl vs fs kvs' ∧ plainObj kvs = true ∧
      kvs'.map (·.1) = fs.map (fun f => Atom.str f.name) := by
  induction vs with
  | nil =>
    intro fs hty _ _
    cases fs with
    | nil => exact ⟨[], [], by simp [toJsonFields], .nil, .nil, .nil, by simp [plainObj], rfl⟩
    | cons f fs => simp [hasTyFields] at hty
  | cons v vs ihv =>
    intro fs hty hok ih
    cases fs with
    | nil => simp [hasTyFields] at hty
    | cons f fs =>
      simp only [hasTyFields, Bool.and_eq_true] at hty
      obtain ⟨j, j', h1, h2, h3, h4, h5⟩ := ih v (by simp) f.ty (hok f (by simp)) hty.1
      obtain ⟨kvs, kvs', g1, g2, g3, g4, g5, g6⟩ :=
        ihv fs hty.2 (fun g hg => hok g (List.mem_cons_of_mem _ hg))
          (fun y hy => ih y (List.mem_cons_of_mem _ hy))
      refine ⟨(Atom.str f.name, j) :: kvs, (Atom.str f.name, j') :: kvs', ?_, ?_, ?_, ?_, ?_, ?_⟩
      · simp [toJsonFields, h1, g1]
      · exact .cons rfl h2 g2
      · exact .cons h3 g3
      · exact .cons h4 g4
      · simp [plainObj, keyPlain, h5, g5]
      · simp [g6]

/-- a well-typed instance of a class of the table (`fs` its fields) -/
theorem obj_good (tbl : Table) (vs : List Val) (fs : List Field)
    (hnd : fieldNamesNodup fs = true) (hty : hasTyFields tbl vs fs = true)
    (hok : ∀ f ∈ fs, tyOK f.ty = true) (ih : ∀ v ∈ vs, GoodAt tbl v) :
    ∃ kvs kvs', toJsonFields tbl vs fs = .ok kvs ∧ stringifyObj kvs [] = .ok kvs' ∧
      fieldsLoop (fun n ty => lookConv tbl kvs n ty) fs = .ok vs ∧
      fieldsLoop (fun n ty => lookConv tbl kvs' n ty) fs = .ok vs ∧ plainObj kvs = true := by
  obtain ⟨kvs, kvs', g1, g2, g3, g4, g5, g6⟩ := fields_good tbl vs fs hty hok ih
  refine ⟨kvs, kvs', g1, ?_, ?_, ?_, g5⟩
  · have := stringifyObj_of_strRel g2 [] (by
      simp only [List.nil_append]; rw [g6]; exact fieldNames_nodup fs hnd)
    simpa using this
  · simpa using fieldsLoop_of_back g3 hnd [] (by simp)
  · simpa using fieldsLoop_of_back g4 hnd [] (by simp)

/-! ### dictionary keys (int / str / enum) -/

def keyTy : BTy → Bool
  | .int => true
  | .str => true
  | .enum _ => true
  | _ => false

/-- the text `json.dumps` writes for the key `k` of a Dict field -/
def keyText (tbl : Table) : Val → Str
  | .atom (.int n) => toDecimal n
  | .atom (.str s) => s
  | .enum e v => match enumName tbl e v with | .ok n => n | .error _ => []
  | _ => []

theorem key_good (tbl : Table) (hT : tableOK tbl = true) (kt : BTy) (hk : keyTy kt = true)
    (k : Val) (h : hasTy tbl k (.basic kt) = true) :
    ∃ a, toJsonField tbl k (.basic kt) = .ok (.atom a) ∧ keyPlain a = true ∧
      keyStr a = .ok (keyText tbl k) ∧ atomConv tbl kt a = .ok k ∧
      atomConv tbl kt (.str (keyText tbl k)) = .ok k := by
  cases kt with
  | int =>
    cases k with
    | atom a =>
      cases a <;> simp [hasTy] at h
      rename_i n
      exact ⟨.int n, by simp [toJsonField], rfl, rfl, by simp [atomConv, plainFromAtom, pyInt],
        by simp [atomConv, plainFromAtom, pyInt, keyText, pyParseInt_toDecimal]⟩
    | _ => simp [hasTy] at h
  | str =>
    cases k with
    | atom a =>
      cases a <;> simp [hasTy] at h
      rename_i s
      exact ⟨.str s, by simp [toJsonField], rfl, rfl, by simp [atomConv, plainFromAtom, pyStr],
        by simp [atomConv, plainFromAtom, pyStr, keyText]⟩
    | _ => simp [hasTy] at h
  | enum e =>
    cases k with
    | enum e' v =>
      simp only [hasTy, Bool.and_eq_true, decide_eq_true_eq] at h
      obtain ⟨he, hm⟩ := h
      subst he
      cases hms : assoc tbl.enums e' with
      | none => simp [hms] at hm
      | some ms =>
        simp only [hms] at hm
        obtain ⟨n, hn1, hn2⟩ := enum_roundtrip tbl hT e' ms hms v hm
        refine ⟨.str n, ?_, rfl, ?_, ?_, ?_⟩
        · simp [toJsonField, enumCast, enumName, hms, hn1]
        · simp [keyStr, keyText, enumName, hms, hn1]
        · simp [atomConv, enumFromAtom, hms, hn2]
        · simp [atomConv, enumFromAtom, keyText, enumName, hms, hn1, hn2]
    | _ => simp [hasTy] at h
  | float => simp [keyTy] at hk
  | bool => simp [keyTy] at hk
  | obj c => simp [keyTy] at hk

/-- distinct keys (Python `==`) have distinct texts -/
theorem keyText_inj (tbl : Table) (hT : tableOK tbl = true) (kt : BTy) (hk : keyTy kt = true)
    (k1 k2 : Val) (h1 : hasTy tbl k1 (.basic kt) = true) (h2 : hasTy tbl k2 (.basic kt) = true)
    (heq : keyText tbl k1 = keyText tbl k2) : pyEq k1 k2 = true := by
  cases kt with
  | int =>
    cases k1 with
    | atom a =>
      cases a <;> simp [hasTy] at h1
      cases k2 with
      | atom b =>
        cases b <;> simp [hasTy] at h2
        simp only [keyText] at heq
        simp [pyEq, atomEq, toDecimal_injective _ _ heq]
      | _ => simp [hasTy] at h2
    | _ => simp [hasTy] at h1
  | str =>
    cases k1 with
    | atom a =>
      cases a <;> simp [hasTy] at h1
      cases k2 with
      | atom b =>
        cases b <;> simp [hasTy] at h2
        simp only [keyText] at heq
        simp [pyEq, atomEq, heq]
      | _ => simp [hasTy] at h2
    | _ => simp [hasTy] at h1
  | enum e =>
    cases k1 with
    | enum e1 v =>
      cases k2 with
      | enum e2 w =>
        simp only [hasTy, Bool.and_eq_true, decide_eq_true_eq] at h1 h2
        obtain ⟨he1, hm1⟩ := h1
        obtain ⟨he2, hm2⟩ := h2
        subst he1; subst he2
        cases hms : assoc tbl.enums e2 with
        | none => simp [hms] at hm1
        | some ms =>
          simp only [hms] at hm1 hm2
          obtain ⟨n1, hn1⟩ := value2name_of_isMember ms v hm1
          obtain ⟨n2, hn2⟩ := value2name_of_isMember ms w hm2
          simp only [keyText, enumName, hms, hn1, hn2] at heq
          subst heq
          have := namesNodup_unique ms n1 v w (tableOK_enum tbl hT e2 ms hms).1
            (value2name_mem ms v n1 hn1) (value2name_mem ms w n1 hn2)
          simp [pyEq, this]
      | _ => simp [hasTy] at h2
    | _ => simp [hasTy] at h1
  | float => simp [keyTy] at hk
  | bool => simp [keyTy] at hk
  | obj c => simp [keyTy] at hk

/-! ### dictionaries -/

/-- pointwise: the JSON key converts back to the key, the JSON value to the value -/
inductive DictBack (tbl : Table) (kt vt : BTy) : List (Val × Val) → List (Atom × JsonVal) → Prop
  | nil : DictBack tbl kt vt [] []
  | cons {k v : Val} {a : Atom} {j : JsonVal} {kvs : List (Val × Val)} {m : List (Atom × JsonVal)} :
      atomConv tbl kt a = .ok k → fromJsonField tbl j (.basic vt) = .ok v → DictBack tbl kt vt kvs m →
      DictBack tbl kt vt ((k, v) :: kvs) ((a, j) :: m)

theorem fromJsonDict_of_back {tbl : Table} {kt vt : BTy} {kvs : List (Val × Val)}
    {m : List (Atom × JsonVal)} (h : DictBack tbl kt vt kvs m) :
    ∀ acc, keysNodupAcc kvs acc = true → fromJsonDict tbl m kt vt acc = .ok (acc ++ kvs) := by
  induction h with
  | nil => intro acc _; simp [fromJsonDict]
  | @cons k v a j kvs m hk hv _ ih =>
    intro acc hnd
    simp only [keysNodupAcc, Bool.and_eq_true, Bool.not_eq_true'] at hnd
    rw [fromJsonDict]
    simp only [hk, hv]
    rw [dictSetV_fresh acc k v hnd.1, ih _ hnd.2]
    simp

theorem memKey_false (k : Val) (acc : List (Val × Val)) (h : memKey k acc = false) :
    ∀ a ∈ acc, pyEq a.1 k = false := by
  induction acc with
  | nil => intro a ha; cases ha
  | cons p rest ih =>
    obtain ⟨k0, v0⟩ := p
    simp only [memKey, Bool.or_eq_false_iff] at h
    intro a ha
    cases ha with
    | head => exact h.1
    | tail _ hm => exact ih h.2 a hm

theorem keysNodupAcc_pairwise (kvs : List (Val × Val)) : ∀ acc, keysNodupAcc kvs acc = true →
    (∀ a ∈ acc, ∀ b ∈ kvs, pyEq a.1 b.1 = false) ∧
    kvs.Pairwise (fun a b => pyEq a.1 b.1 = false) := by
  induction kvs with
  | nil => intro acc _; exact ⟨fun _ _ b hb => (nomatch hb), List.Pairwise.nil⟩
  | cons p rest ih =>
    intro acc h
    obtain ⟨k, v⟩ := p
    simp only [keysNodupAcc, Bool.and_eq_true, Bool.not_eq_true'] at h
    obtain ⟨h1, h2⟩ := ih _ h.2
    constructor
    · intro a ha b hb
      cases hb with
      | head => exact memKey_false k acc h.1 a ha
      | tail _ hm => exact h1 a (List.mem_append_left _ ha) b hm
    · exact List.Pairwise.cons (fun b hb => h1 (k, v) (by simp) b hb) h2

theorem hasTyDict_mem (tbl : Table) (kt vt : BTy) (kvs : List (Val × Val))
    (h : hasTyDict tbl kvs kt vt = true) :
    ∀ kv ∈ kvs, hasTy tbl kv.1 (.basic kt) = true ∧ hasTy tbl kv.2 (.basic vt) = true := by
  induction kvs with
  | nil => intro kv hkv; cases hkv
  | cons p rest ih =>
    obtain ⟨k, v⟩ := p
    simp only [hasTyDict, Bool.and_eq_true] at h
    intro kv hkv
    cases hkv with
    | head => exact ⟨h.1.1, h.1.2⟩
    | tail _ hm => exact ih h.2 kv hm

theorem keyTexts_nodup (tbl : Table) (hT : tableOK tbl = true) (kt : BTy) (hk : keyTy kt = true)
    (kvs : List (Val × Val)) (hty : ∀ kv ∈ kvs, hasTy tbl kv.1 (.basic kt) = true)
    (hp : kvs.Pairwise (fun a b => pyEq a.1 b.1 = false)) :
    (kvs.map (fun kv => Atom.str (keyText tbl kv.1))).Nodup := by
  induction kvs with
  | nil => simp
  | cons p rest ih =>
    rw [List.pairwise_cons] at hp
    simp only [List.map_cons, List.nodup_cons, List.mem_map, not_exists, not_and]
    refine ⟨?_, ih (fun kv hkv => hty kv (List.mem_cons_of_mem _ hkv)) hp.2⟩
    intro q hq heq
    have h1 := keyText_inj tbl hT kt hk p.1 q.1 (hty p (by simp))
      (hty q (List.mem_cons_of_mem _ hq)) (by simpa using heq.symm)
    rw [hp.1 q hq] at h1
    cases h1

theorem dict_items_good (tbl : Table) (hT : tableOK tbl = true) (kt vt : BTy)
    (hk : keyTy kt = true) (kvs : List (Val × Val))
    (hty : hasTyDict tbl kvs kt vt = true) (ih : ∀ kv ∈ kvs, GoodAt tbl kv.1 ∧ GoodAt tbl kv.2) :
    ∃ m m', toJsonDict tbl kvs kt vt = .ok m ∧ StrRel m m' ∧
      DictBack tbl kt vt kvs m ∧ DictBack tbl kt vt kvs m' ∧ plainObj m = true ∧
      m'.map (·.1) = kvs.map (fun kv => Atom.str (keyText tbl kv.1)) := by
  induction kvs with
  | nil => exact ⟨[], [], by simp [toJsonDict], .nil, .nil, .nil, by simp [plainObj], rfl⟩
  | cons p rest ihr =>
    obtain ⟨k, v⟩ := p
    simp only [hasTyDict, Bool.and_eq_true] at hty
    obtain ⟨a, k1, k2, k3, k4, k5⟩ := key_good tbl hT kt hk k hty.1.1
    obtain ⟨j, j', h1, h2, h3, h4, h5⟩ := (ih (k, v) (by simp)).2 (.basic vt) rfl hty.1.2
    obtain ⟨m, m', g1, g2, g3, g4, g5, g6⟩ :=
      ihr hty.2 (fun y hy => ih y (List.mem_cons_of_mem _ hy))
    refine ⟨(a, j) :: m, (Atom.str (keyText tbl k), j') :: m', ?_, ?_, ?_, ?_, ?_, ?_⟩
    · simp [toJsonDict, k1, h1, g1]
    · exact .cons k3 h2 g2
    · exact .cons k4 h3 g3
    · exact .cons k5 h4 g4
    · simp [plainObj, k2, h5, g5]
    · simp [g6]

/-- a well-typed dict held by a `Dict[kt, vt]` field -/
theorem dict_good (tbl : Table) (hT : tableOK tbl = true) (kt vt : BTy)
    (hk : keyTy kt = true) (kvs : List (Val × Val))
    (hty : hasTyDict tbl kvs kt vt = true) (hnd : keysNodupAcc kvs [] = true)
    (ih : ∀ kv ∈ kvs, GoodAt tbl kv.1 ∧ GoodAt tbl kv.2) :
    ∃ m m', toJsonDict tbl kvs kt vt = .ok m ∧ stringifyObj m [] = .ok m' ∧
      fromJsonDict tbl m kt vt [] = .ok kvs ∧ fromJsonDict tbl m' kt vt [] = .ok kvs ∧
      plainObj m = true := by
  obtain ⟨m, m', g1, g2, g3, g4, g5, g6⟩ := dict_items_good tbl hT kt vt hk kvs hty ih
  refine ⟨m, m', g1, ?_, ?_, ?_, g5⟩
  · have := stringifyObj_of_strRel g2 [] (by
      simp only [List.nil_append]; rw [g6]
      exact keyTexts_nodup tbl hT kt hk kvs (fun kv hkv => (hasTyDict_mem tbl kt vt kvs hty kv hkv).1)
        (keysNodupAcc_pairwise kvs [] hnd).2)
    simpa using this
  · simpa using fromJsonDict_of_back g3 [] hnd
  · simpa using fromJsonDict_of_back g4 [] hnd

/-! ### the induction over `Val` -/

theorem keyTy_of_tyOK (kt vt : BTy) (h : tyOK (.dict kt vt) = true) : keyTy kt = true := by
  cases kt <;> simp [tyOK, keyTy] at *

theorem good_none (tbl : Table) (t : Ty) (ht : ∀ b, t ≠ .basic b) : Good tbl (.atom .none) t := by
  cases t with
  | basic b => exact absurd rfl (ht b)
  | _ => exact ⟨.atom .none, .atom .none, by simp [toJsonField], by simp [stringifyKeys],
      by simp [fromJsonField], by simp [fromJsonField], by simp [JsonVal.plain]⟩

theorem good_atom_self (tbl : Table) (a : Atom) (t : Ty)
    (h1 : toJsonField tbl (.atom a) t = .ok (.atom a))
    (h2 : fromJsonField tbl (.atom a) t = .ok (.atom a)) : Good tbl (.atom a) t :=
  ⟨.atom a, .atom a, h1, by simp [stringifyKeys], h2, h2, by simp [JsonVal.plain]⟩

theorem good_atom (tbl : Table) (a : Atom) : GoodAt tbl (.atom a) := by
  intro t _ h
  cases t with
  | basic b =>
    cases b <;> cases a <;> simp [hasTy] at h <;>
    exact good_atom_self tbl _ _ (by simp [toJsonField])
      (by simp [fromJsonField, atomConv, plainFromAtom, pyInt, pyFloat, pyStr, pyBool])
  | list t' => cases a <;> simp [hasTy] at h; exact good_none tbl _ (by simp)
  | set t' => cases a <;> simp [hasTy] at h; exact good_none tbl _ (by simp)
  | dict kt vt => cases a <;> simp [hasTy] at h; exact good_none tbl _ (by simp)
  | tuple ts => cases a <;> simp [hasTy] at h; exact good_none tbl _ (by simp)

theorem good_enum (tbl : Table) (hT : tableOK tbl = true) (e : Str) (v : Int) :
    GoodAt tbl (.enum e v) := by
  intro t _ h
  cases t with
  | basic b =>
    cases b with
    | enum e' =>
      obtain ⟨a, k1, _, _, k4, _⟩ := key_good tbl hT (.enum e') rfl (.enum e v) h
      exact ⟨.atom a, .atom a, k1, by simp [stringifyKeys], by simp [fromJsonField, k4],
        by simp [fromJsonField, k4], by simp [JsonVal.plain]⟩
    | _ => simp [hasTy] at h
  | _ => simp [hasTy] at h

theorem good_obj (tbl : Table) (hT : tableOK tbl = true) (c : Str) (vs : List Val)
    (ih : ∀ v ∈ vs, GoodAt tbl v) : GoodAt tbl (.obj c vs) := by
  intro t _ h
  cases t with
  | basic b =>
    cases b with
    | obj c' =>
      simp only [hasTy, Bool.and_eq_true, decide_eq_true_eq] at h
      obtain ⟨hc, hf⟩ := h
      subst hc
      cases hfs : assoc tbl.classes c with
      | none => simp [hfs] at hf
      | some fs =>
        simp only [hfs] at hf
        obtain ⟨hnd, hok⟩ := tableOK_class tbl hT c fs hfs
        obtain ⟨kvs, kvs', g1, g2, g3, g4, g5⟩ := obj_good tbl vs fs hnd hf hok ih
        exact ⟨.obj kvs, .obj kvs', by simp [toJsonField, hfs, g1], by simp [stringifyKeys, g2],
          by simp [fromJsonField, hfs, g3], by simp [fromJsonField, hfs, g4],
          by simp [JsonVal.plain, g5]⟩
    | _ => simp [hasTy] at h
  | _ => simp [hasTy] at h

theorem good_list (tbl : Table) (xs : List Val) (ih : ∀ v ∈ xs, GoodAt tbl v) :
    GoodAt tbl (.list xs) := by
  intro t _ h
  cases t with
  | list t' =>
    simp only [hasTy] at h
    obtain ⟨js, js', g1, g2, g3, g4, g5⟩ := elems_good tbl t' xs h ih
    exact ⟨.arr js, .arr js', by simp [toJsonField, g1], by simp [stringifyKeys, g2],
      by simp [fromJsonField, g3], by simp [fromJsonField, g4], by simp [JsonVal.plain, g5]⟩
  | basic b => cases b <;> simp [hasTy] at h
  | _ => simp [hasTy] at h

theorem good_set (tbl : Table) (xs : List Val) (ih : ∀ v ∈ xs, GoodAt tbl v) :
    GoodAt tbl (.set xs) := by
  intro t _ h
  cases t with
  | set t' =>
    simp only [hasTy, Bool.and_eq_true] at h
    obtain ⟨js, js', g1, g2, g3, g4, g5⟩ := elems_good tbl t' xs h.1 ih
    have hs := pySet_nodup xs h.2
    exact ⟨.arr js, .arr js', by simp [toJsonField, g1], by simp [stringifyKeys, g2],
      by simp [fromJsonField, g3, hs], by simp [fromJsonField, g4, hs], by simp [JsonVal.plain, g5]⟩
  | basic b => cases b <;> simp [hasTy] at h
  | _ => simp [hasTy] at h

theorem good_tuple (tbl : Table) (xs : List Val) (ih : ∀ v ∈ xs, GoodAt tbl v) :
    GoodAt tbl (.tuple xs) := by
  intro t _ h
  cases t with
  | tuple ts =>
    simp only [hasTy] at h
    obtain ⟨js, js', g1, g2, g3, g4, g5⟩ := tuple_good tbl xs ts h ih
    exact ⟨.arr js, .arr js', by simp [toJsonField, g1], by simp [stringifyKeys, g2],
      by simp [fromJsonField, g3], by simp [fromJsonField, g4], by simp [JsonVal.plain, g5]⟩
  | basic b => cases b <;> simp [hasTy] at h
  | _ => simp [hasTy] at h

theorem good_dict (tbl : Table) (hT : tableOK tbl = true) (kvs : List (Val × Val))
    (ih : ∀ kv ∈ kvs, GoodAt tbl kv.1 ∧ GoodAt tbl kv.2) : GoodAt tbl (.dict kvs) := by
  intro t ht h
  cases t with
  | dict kt vt =>
    simp only [hasTy, Bool.and_eq_true] at h
    obtain ⟨m, m', g1, g2, g3, g4, g5⟩ :=
      dict_good tbl hT kt vt (keyTy_of_tyOK kt vt ht) kvs h.1 h.2 ih
    exact ⟨.obj m, .obj m', by simp [toJsonField, g1], by simp [stringifyKeys, g2],
      by simp [fromJsonField, g3], by simp [fromJsonField, g4], by simp [JsonVal.plain, g5]⟩
  | basic b => cases b <;> simp [hasTy] at h
  | _ => simp [hasTy] at h

/-- every value is `Good` at every documented type it has -/
theorem good_of_hasTy (tbl : Table) (hT : tableOK tbl = true) (x : Val) : GoodAt tbl x := by
  induction x using Val.ind with
  | atom a => exact good_atom tbl a
  | enum e v => exact good_enum tbl hT e v
  | obj c vs ih => exact good_obj tbl hT c vs ih
  | list xs ih => exact good_list tbl xs ih
  | set xs ih => exact good_set tbl xs ih
  | tuple xs ih => exact good_tuple tbl xs ih
  | dict kvs ih => exact good_dict tbl hT kvs ih

/-- at top level `fromJson` differs from the nested conversion only on None, which never
converts to an instance -/
theorem fromJson_of_field (tbl : Table) (c c' : Str) (vs : List Val) (j : JsonVal)
    (h : fromJsonField tbl j (.basic (.obj c)) = .ok (.obj c' vs)) :
    fromJson tbl c j = .ok (.obj c' vs) := by
  cases j with
  | atom a =>
    cases a with
    | none =>
      simp only [fromJsonField, atomConv] at h
      split at h <;> simp at h
    | _ => simpa [fromJson] using h
  | _ => simpa [fromJson] using h

/-- the top-level statement: a well-typed instance `x` of class `c` -/
theorem wellTyped_good (tbl : Table) (c : Str) (x : Val) (h : WellTyped tbl c x) :
    ∃ j j', toJson tbl x = .ok j ∧ stringifyKeys j = .ok j' ∧
      fromJson tbl c j = .ok x ∧ fromJson tbl c j' = .ok x ∧ j.plain = true := by
  simp only [WellTyped, wellTyped, Bool.and_eq_true] at h
  obtain ⟨hT, hty⟩ := h
  obtain ⟨j, j', h1, h2, h3, h4, h5⟩ := good_of_hasTy tbl hT x (.basic (.obj c)) rfl hty
  cases x with
  | obj c' vs =>
    have hc : c' = c := by
      simp only [hasTy, Bool.and_eq_true, decide_eq_true_eq] at hty; exact hty.1
    subst hc
    exact ⟨j, j', by simpa [toJson] using h1, h2, fromJson_of_field tbl c' c' vs j h3,
      fromJson_of_field tbl c' c' vs j' h4, h5⟩
  | _ => simp [hasTy] at hty

end Mpgs.Json
