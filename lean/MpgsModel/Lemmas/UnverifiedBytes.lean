import MpgsModel.Lemmas.Unverified
/-! Bytes: what a quiet connection has queued, weighed as the datagrams that would carry the
messages one by one (26 bytes of framing each), is paid for by the hello it answered. -/
namespace Mpgs.Conn
open Mpgs.Bytes Mpgs.Wire

def wt (ms : List PMsg) : Nat := (ms.map (fun m => 26 + m.payload.length)).sum
def wtW (ms : List WMsg) : Nat := (ms.map (fun m => 26 + m.payload.length)).sum
/-- bytes still owed: the queued replies in datagrams of their own -/
def psi (c : Conn) : Nat := wt c.outgoing

theorem psi_of_qp (c c' : Conn) (h : qp c' = qp c) : psi c' = psi c := by
  have h2 : c'.outgoing = c.outgoing := congrArg QP.outgoing h
  simp [psi, h2]

theorem key_of_qp (c c' : Conn) (h : qp c' = qp c) : c'.key = c.key := congrArg QP.key h

theorem wt_append (a b : List PMsg) : wt (a ++ b) = wt a + wt b := by simp [wt]

theorem wt_perm (a b : List PMsg) (h : a.Perm b) : wt a = wt b := by
  unfold wt; exact (h.map _).sum_nat

/-- the hello handler, in bytes: a reply is queued only by a connection without a key, it weighs no
more than the hello, and the connection has a key afterwards; with a key nothing changes -/
theorem bytes_serverClientHello (H : Hs) (tok : Nat) (c : Conn) (t : Int) (data : Bytes) :
    psi (serverClientHello H tok c t data).1 ≤ psi c + (if c.key.isSome then 0 else 26 + data.length) ∧
    (c.key.isSome = true → (serverClientHello H tok c t data).1.key.isSome = true) := by
  unfold serverClientHello
  by_cases hk : c.key.isSome = true
  · rw [if_pos hk]; exact ⟨Nat.le_add_right _ _, fun _ => hk⟩
  · rw [if_neg hk]
    refine ⟨?_, fun h => absurd h hk⟩
    have hkf : c.key.isSome = false := by simpa using hk
    rw [hkf]
    simp only [Bool.false_eq_true, if_false]
    cases hp : H.parseClientHello data with
    | error e => exact Nat.le_add_right _ _
    | ok v =>
      simp only
      split
      · exact Nat.le_add_right _ _
      · split
        · exact Nat.le_add_right _ _
        · rename_i hlen
          have hne : ¬ ((0 : Int) = -1) := by decide
          simp only [psi, sendType, hne, if_false, wt_append]
          simp only [wt, List.map_cons, List.map_nil, List.sum_cons, List.sum_nil]
          omega


theorem bytes_recvMessage (H : Hs) (tok : Nat) (tt : Option Nat) (f : Conn → Conn) (c : Conn) (t : Int) (m : WMsg)
    (hnp : Event.promoted ∉ (recvMessage (serverRoleOn H tok tt f) c t m).2.1) :
    psi (recvMessage (serverRoleOn H tok tt f) c t m).1 ≤ psi c + (if c.key.isSome then 0 else 26 + m.payload.length) ∧
    (c.key.isSome = true → (recvMessage (serverRoleOn H tok tt f) c t m).1.key.isSome = true) := by
  have same : ∀ c' : Conn, qp c' = qp c →
      psi c' ≤ psi c + (if c.key.isSome then 0 else 26 + m.payload.length) ∧ (c.key.isSome = true → c'.key.isSome = true) := by
    intro c' e
    exact ⟨by rw [psi_of_qp _ _ e]; exact Nat.le_add_right _ _, fun h => by rw [key_of_qp _ _ e]; exact h⟩
  cases hins : c.bfMsg.insert (m.seq : Int) with
  | error e => simp only [recvMessage, hins]; exact same c rfl
  | ok bf =>
    cases hty : m.ty with
    | clientHello =>
      simp only [recvMessage, hins, hty, serverRoleOn]
      exact bytes_serverClientHello H tok { c with bfMsg := bf } t m.payload
    | serverHello =>
      simp only [recvMessage, hins, hty, serverRoleOn]
      exact same _ rfl
    | challengeResp =>
      simp only [recvMessage, hins, hty, serverRoleOn] at hnp ⊢
      by_cases hpr : (serverChallenge H tt { c with bfMsg := bf } t m.payload).2.1.contains Event.promoted = true
      · rw [if_pos hpr] at hnp
        simp only [List.contains_iff_mem] at hpr
        exact absurd hpr hnp
      · rw [if_neg hpr] at hnp
        rw [if_neg hpr, quiet_serverChallenge H tt _ t m.payload hnp]
        exact same _ rfl
    | keepAlive =>
      simp only [recvMessage, hins, hty]
      exact same _ rfl
    | disconnect =>
      simp only [recvMessage, hins, hty]
      exact ⟨Nat.le_add_right _ _, fun h => h⟩
    | appFragment =>
      simp only [recvMessage, hins, hty]
      exact same _ ((qp_recvAppFragment { c with bfMsg := bf } t m.seq m.payload).1.trans rfl)
    | app =>
      simp only [recvMessage, hins, hty]
      exact ⟨Nat.le_add_right _ _, fun h => h⟩
    | unknown =>
      simp only [recvMessage, hins, hty]
      exact same _ rfl

theorem bytes_recvMessages (H : Hs) (tok : Nat) (tt : Option Nat) (f : Conn → Conn) (c : Conn) (t : Int) (ms : List WMsg)
    (hnp : Event.promoted ∉ (recvMessages (serverRoleOn H tok tt f) c t ms).2.1) :
    psi (recvMessages (serverRoleOn H tok tt f) c t ms).1 ≤ psi c + (if c.key.isSome then 0 else wtW ms) ∧
    (c.key.isSome = true → (recvMessages (serverRoleOn H tok tt f) c t ms).1.key.isSome = true) := by
  induction ms generalizing c with
  | nil => exact ⟨Nat.le_add_right _ _, fun h => h⟩
  | cons m ms ih =>
    simp only [recvMessages] at hnp ⊢
    have h1 := bytes_recvMessage H tok tt f c t m
    generalize recvMessage (serverRoleOn H tok tt f) c t m = r at *
    obtain ⟨c1, e1, err⟩ := r
    have hw : wtW (m :: ms) = 26 + m.payload.length + wtW ms := by simp [wtW]
    cases err with
    | some e =>
      simp only at hnp ⊢
      have h1' := h1 hnp
      refine ⟨Nat.le_trans h1'.1 ?_, h1'.2⟩
      rw [hw]; split <;> omega
    | none =>
      simp only at hnp ⊢
      have hn1 : Event.promoted ∉ e1 := fun h => hnp (List.mem_append_left _ h)
      have hn2 : Event.promoted ∉ (recvMessages (serverRoleOn H tok tt f) c1 t ms).2.1 :=
        fun h => hnp (List.mem_append_right _ h)
      have h1' := h1 hn1
      have h2 := ih c1 hn2
      refine ⟨?_, fun h => h2.2 (h1'.2 h)⟩
      rw [hw]
      by_cases hk : c.key.isSome = true
      · have hk1 := h1'.2 hk
        have a1 := h1'.1; have a2 := h2.1
        simp only [hk, hk1, if_true] at a1 a2 ⊢
        omega
      · have a1 := h1'.1; have a2 := h2.1
        have hkf : c.key.isSome = false := by simpa using hk
        simp only [hkf, Bool.false_eq_true, if_false] at a1 ⊢
        have : (if c1.key.isSome = true then 0 else wtW ms) ≤ wtW ms := by split <;> omega
        omega

/-- an unkeyed endpoint accepts one message per datagram, and the datagram is 24 bytes longer -/
theorem unkeyed_weight (C : Crypto) (c : Conn) (h : Header) (d : Bytes) (pkt : Packet) (hk : c.key = none)
    (hf : fromBytes C h c.key d = .ok pkt) (hg : gateUnkeyed c pkt = false) : wtW pkt.msgs ≤ d.length := by
  simp only [gateUnkeyed, hk, keyed, Option.isNone_none, Bool.true_and, Bool.or_eq_false_iff, bne_eq_false_iff_eq] at hg
  unfold fromBytes at hf
  cases hb : openBody C h c.key d with
  | error e => simp [hb] at hf
  | ok msg =>
    simp only [hb] at hf
    have hh := parseMsgs_hdr h msg pkt hf
    have hc1 : h.count = 1 := by rw [← hh.1]; exact hg.1
    -- the body of a CRC datagram
    have hml : 20 + msg.length + 4 ≤ d.length := by
      unfold openBody at hb
      simp only [hk, keyed] at hb
      split at hb
      · simp at hb
      · split at hb
        · simp at hb
        · rename_i hlen
          split at hb
          · simp at hb
          · injection hb with hb
            have hl : 20 + h.length + 4 = d.length := by
              apply Classical.byContradiction; intro x; exact hlen x
            rw [← hb]
            simp only [drop, take, List.length_drop, List.length_take]
            omega
    unfold parseMsgs at hf
    simp only [hc1, if_true] at hf
    split at hf
    · simp at hf
    · rename_i h2
      injection hf with hf
      rw [← hf]
      simp only [wtW, List.map_cons, List.map_nil, List.sum_cons, List.sum_nil, drop, List.length_drop]
      simp only [take, List.length_take] at h2
      omega


/-- **bytes in**: a datagram that does not promote a quiet connection adds to what the connection
owes at most its own length - and nothing at all once the connection has a session key -/
theorem bytes_recvDatagram (C : Crypto) (H : Hs) (tok : Nat) (tt : Option Nat) (f : Conn → Conn) (c : Conn) (t : Int)
    (h : Header) (d : Bytes) (hq : Quiet c)
    (hnp : Event.promoted ∉ (recvDatagram C (serverRoleOn H tok tt f) c t h d).2.1) :
    psi (recvDatagram C (serverRoleOn H tok tt f) c t h d).1 ≤ psi c + (if c.key.isSome then 0 else d.length) := by
  have hd : psi (drop1 c).1 ≤ psi c + (if c.key.isSome then 0 else d.length) := by
    rw [psi_of_qp _ c rfl]; exact Nat.le_add_right _ _
  unfold recvDatagram at hnp ⊢
  cases hfb : fromBytes C h c.key d with
  | error e => simp only; exact hd
  | ok pkt =>
    simp only [hfb] at hnp ⊢
    by_cases hg : gateUnkeyed c pkt = true
    · rw [if_pos hg]; exact hd
    · rw [if_neg hg] at hnp ⊢
      by_cases hs : stale c pkt.hdr.seq = true
      · rw [if_pos hs]; exact hd
      · rw [if_neg hs] at hnp ⊢
        cases hi : c.bfPkt.insert (pkt.hdr.seq : Int) with
        | error e => simp only; exact hd
        | ok bf =>
          simp only [hi] at hnp ⊢
          unfold accept at hnp ⊢
          simp only at hnp ⊢
          have e : qp { c with bfPkt := bf, received := c.received + 1, lastRecv := t } = qp c := rfl
          have hq1 := quiet_of_qp _ _ e hq
          have ha := qp_handleAckKeys { c with bfPkt := bf, received := c.received + 1, lastRecv := t } h.ack h.ackBits
            (({ c with bfPkt := bf, received := c.received + 1, lastRecv := t } : Conn).pendingAcks.map (·.1)) hq1
          have hn2 : Event.promoted ∉ (recvMessages (serverRoleOn H tok tt f)
              (handleAckBits { c with bfPkt := bf, received := c.received + 1, lastRecv := t } h).1 t pkt.msgs).2.1 :=
            fun hh => hnp (List.mem_append_right _ hh)
          have h3 := (bytes_recvMessages H tok tt f _ t pkt.msgs hn2).1
          have hp : psi (handleAckBits { c with bfPkt := bf, received := c.received + 1, lastRecv := t } h).1 = psi c :=
            (psi_of_qp _ _ ha.1).trans (psi_of_qp _ _ e)
          have hkk : (handleAckBits { c with bfPkt := bf, received := c.received + 1, lastRecv := t } h).1.key = c.key :=
            (key_of_qp _ _ ha.1).trans (key_of_qp _ _ e)
          rw [hp, hkk] at h3
          refine Nat.le_trans h3 ?_
          by_cases hk : c.key.isSome = true
          · simp [hk]
          · have hkf : c.key.isSome = false := by simpa using hk
            have hkn : c.key = none := by
              cases hkk' : c.key with
              | none => rfl
              | some k => rw [hkk'] at hk; exact absurd rfl hk
            have hgf : gateUnkeyed c pkt = false := by simpa using hg
            have := unkeyed_weight C c h d pkt hkn hfb hgf
            simp only [hkf, Bool.false_eq_true, if_false]
            omega

/-! ### bytes out -/

theorem overhead_le (n : Nat) (hn : 1 ≤ n) : 24 + overhead n ≤ 26 * n := by
  unfold overhead; split <;> (try split) <;> omega

theorem wt_eq (ms : List PMsg) : wt ms = 26 * ms.length + sumLen ms := by
  induction ms with
  | nil => rfl
  | cons m ms ih => simp only [wt, List.map_cons, List.sum_cons, List.length_cons, sumLen] at ih ⊢; omega

/-- a SERVER_HELLO packet travels in CRC form whatever the key: header, body, four bytes -/
theorem toBytes_serverHello_len (C : Crypto) (key : Option Bytes) (p : Packet) (d : Bytes)
    (hty : p.hdr.ptype = .serverHello) (h : toBytes C key p = .ok d) : d.length = 20 + p.msg.length + 4 := by
  unfold toBytes at h
  cases he : encodeHdr p.hdr with
  | error e => simp [he] at h
  | ok hb =>
    have hl := encodeHdr_length p.hdr hb he
    simp only [he, hty] at h
    split at h
    · simp only [bne_self_eq_false, Bool.false_eq_true, if_false] at h
      injection h with h; rw [← h]; simp [hl]; omega
    · injection h with h; rw [← h]; simp [hl]; omega


theorem create_ptype (h : Header) (ws : List WMsg) (p : Packet) (hc : create h ws = .ok p) : p.hdr.ptype = h.ptype := by
  unfold create at hc
  split at hc
  · injection hc with hc; subst hc; rfl
  · split at hc
    · injection hc with hc; subst hc; rfl
    · simp at hc
  · split at hc
    · injection hc with hc; subst hc; rfl
    · simp at hc

/-- the shape of what a sending step reports, in bytes -/
def SendBytes (c c' : Conn) (r : Except Err (Option Packet)) : Prop :=
  match r with
  | .ok (some pkt) => psi c' ≤ psi c ∧
      ∀ (C : Crypto) (key : Option Bytes) (d : Bytes), toBytes C key pkt = .ok d → d.length + psi c' ≤ psi c
  | _ => psi c' ≤ psi c

theorem sendBytes_of_qp (c c1 c' : Conn) (r : Except Err (Option Packet)) (h : SendBytes c c1 r) (e : qp c' = qp c1) :
    SendBytes c c' r := by
  have ho := psi_of_qp _ _ e
  cases r with
  | error x => simp only [SendBytes] at h ⊢; omega
  | ok o =>
    cases o with
    | none => simp only [SendBytes] at h ⊢; omega
    | some pkt => simp only [SendBytes] at h ⊢; exact ⟨by omega, fun C key d hd => by have := h.2 C key d hd; omega⟩

theorem bytes_buildPacketImpl (sz : Sizes) (c : Conn) (t : Int) (ska : Bool) (delay : Int) (hq : Quiet c) :
    SendBytes c (buildPacketImpl sz c t ska delay).1 (buildPacketImpl sz c t ska delay).2 := by
  have hprm : c.pendingRetryMsg = [] := hq.prm
  obtain ⟨taken, htk, hperm⟩ := packNew_perm sz c.outgoing {}
  have hwt : wt taken + wt (packNew sz c.outgoing {}).2 = wt c.outgoing := by
    rw [← wt_append]; exact wt_perm _ _ hperm
  have hmem : ∀ m, m ∈ taken ∨ m ∈ (packNew sz c.outgoing {}).2 → m ∈ c.outgoing := by
    intro m hm; exact hperm.subset (List.mem_append.mpr hm)
  have hpk : packAll sz c t delay = ((packNew sz c.outgoing {}).1, [], (packNew sz c.outgoing {}).2) := by
    simp [packAll, hprm, sortBySeq, packResend]
  have hmsgs : (packNew sz c.outgoing {}).1.msgs = taken := by simpa using htk
  unfold buildPacketImpl
  simp only [hpk, hmsgs]
  cases htaken : taken with
  | nil =>
    have hnc : c.status ≠ .connected := hq.nc
    have hty : pktType c ska [] = .unknown := by simp [pktType, hnc]
    simp only [hty, if_true, SendBytes]
    rw [htaken] at hwt
    simp only [psi]; simp [wt] at hwt ⊢; omega
  | cons m0 rest =>
    have hm0 : m0.ty = .serverHello := (hq.out m0 (hmem m0 (Or.inl (by rw [htaken]; exact List.mem_cons_self ..)))).1
    have hty : pktType c ska (m0 :: rest) = .serverHello := by simp [pktType, hm0]
    have hne : ¬ (PType.serverHello = PType.unknown) := by decide
    simp only [hty, hne, if_false]
    have hall : ∀ m ∈ m0 :: rest, m.ty = .serverHello ∧ m.retry = 0 ∧ m.cb = none := by
      intro m hm; exact hq.out m (hmem m (Or.inl (by rw [htaken]; exact hm)))
    have hreg := registerMsgs_plain t (m0 :: rest) [] [] [] hall
    have ho2 : psi (registerPacket { c with pendingRetryMsg := [], outgoing := (packNew sz c.outgoing {}).2 } t (m0 :: rest))
        = wt (packNew sz c.outgoing {}).2 := by
      unfold registerPacket
      simp only [hreg]
      rfl
    rw [htaken] at hwt
    cases hcr : create (mkHdr c t PType.serverHello (registerPacket { c with pendingRetryMsg := [], outgoing := (packNew sz c.outgoing {}).2 } t (m0 :: rest)).seqSending) ((m0 :: rest).map toWMsg) with
    | error e =>
      simp only [SendBytes]
      rw [ho2]; simp only [psi]; omega
    | ok pkt =>
      simp only [SendBytes]
      refine ⟨by rw [ho2]; simp only [psi]; omega, ?_⟩
      intro C key d hd
      have hpt : pkt.hdr.ptype = .serverHello := by rw [create_ptype _ _ _ hcr]; rfl
      have hl := toBytes_serverHello_len C key pkt d hpt hd
      have hcl := (create_len _ (m0 :: rest) pkt hcr).1
      have hov := overhead_le (m0 :: rest).length (by simp)
      have hw := wt_eq (m0 :: rest)
      rw [ho2]; simp only [psi]
      omega

theorem bytes_buildPacket (sz : Sizes) (c : Conn) (t : Int) (hq : Quiet c) :
    SendBytes c (buildPacket sz c t).1 (buildPacket sz c t).2 := by
  unfold buildPacket
  split
  · simp [SendBytes]
  · have h := bytes_buildPacketImpl sz c t (decide (t - c.lastKeepAlive > c.keepAlive)) c.keepAlive hq
    generalize buildPacketImpl sz c t (decide (t - c.lastKeepAlive > c.keepAlive)) c.keepAlive = r at *
    obtain ⟨c1, res⟩ := r
    cases res with
    | error x => exact h
    | ok o =>
      cases o with
      | none => exact h
      | some pkt => exact sendBytes_of_qp c c1 (finishBuild c1 t) (.ok (some pkt)) h rfl

/-- **bytes out**: the datagram `update()` of a quiet connection emits, encoded under any key, is paid
for by what leaves the queue -/
theorem bytes_serverUpdate (sz : Sizes) (c : Conn) (t : Int) (hq : Quiet c) :
    SendBytes c (serverUpdate sz c t).1 (serverUpdate sz c t).2.2 := by
  unfold serverUpdate
  split
  · have h := bytes_buildPacket sz c t hq
    have hq' := (quiet_buildPacket sz c t hq).1
    generalize buildPacket sz c t = r at *
    obtain ⟨c1, res⟩ := r
    cases res with
    | error x => exact h
    | ok o =>
      simp only
      exact sendBytes_of_qp c c1 _ (.ok o) h (qp_checkTimeoutStrictKeys c1 t _ hq')
  · simp [SendBytes]

end Mpgs.Conn

namespace Mpgs.Server
open Mpgs.Bytes Mpgs.Wire Mpgs.Conn

/-- bytes the server still may send to `a` while `a` is half-open -/
def psip (p : Pool) (a : Addr) : Nat := match pget p a with | some e => psi e.conn | none => 0

theorem psip_pset_self (p : Pool) (a : Addr) (v : Ent) : psip (pset p a v) a = psi v.conn := by
  simp [psip, lc_pget_pset_self]

theorem psip_pset_ne (p : Pool) (a b : Addr) (v : Ent) (h : a ≠ b) : psip (pset p b v) a = psip p a := by
  simp [psip, lc_pget_pset_ne _ _ _ _ h]

theorem psip_pdel_ne (p : Pool) (a b : Addr) (h : a ≠ b) : psip (pdel p b) a = psip p a := by
  simp [psip, lc_pget_pdel_ne _ _ _ h]

/-- bytes handed to the socket for address `a` -/
def bytesTo (a : Addr) : List SEvent → Nat
  | [] => 0
  | .sendTo b _ d :: t => (if b = a then d.length else 0) + bytesTo a t
  | _ :: t => bytesTo a t

theorem bytesTo_append (a : Addr) (x y : List SEvent) : bytesTo a (x ++ y) = bytesTo a x + bytesTo a y := by
  induction x with
  | nil => simp [bytesTo]
  | cons e t ih => cases e <;> simp [bytesTo, ih, Nat.add_assoc]

theorem bytesTo_zero (a : Addr) (evs : List SEvent) (h : nSendTo a evs = 0) : bytesTo a evs = 0 := by
  induction evs with
  | nil => rfl
  | cons e t ih =>
    cases e with
    | sendTo b hd d =>
      simp only [nSendTo] at h
      by_cases hb : b = a
      · simp [hb] at h
      · simp only [hb, if_false, Nat.zero_add] at h
        simp [bytesTo, hb, ih h]
    | _ => simp only [nSendTo] at h; simpa [bytesTo] using ih h

/-- bytes of the queued datagrams that came from `a` -/
def bytesFrom (a : Addr) : List Item → Nat
  | [] => 0
  | it :: t => (if it.addr = a then it.d.length else 0) + bytesFrom a t

theorem psi_fresh (ka ot : Int) : psi { isServer := true, keepAlive := ka, outgoingTimeout := ot } = 0 := rfl

theorem handleItem_bytes (sz : Sizes) (C : Crypto) (s : Srv) (t : Int) (it : Item) (acts : List HAct) (a : Addr)
    (hq : TQp s.temps)
    (hnc : ∀ id tok, SEvent.connect id a tok ∉ (handleItem sz C s t it acts).2.2) :
    psip (handleItem sz C s t it acts).1.temps a ≤ psip s.temps a + (if it.addr = a then it.d.length else 0) := by
  unfold handleItem at hnc ⊢
  cases hci : pget s.conns it.addr with
  | some e =>
    simp only
    split <;> exact Nat.le_add_right _ _
  | none =>
    rw [hci] at hnc
    simp only at hnc ⊢
    cases ht : pget s.temps it.addr with
    | some e =>
      rw [ht] at hnc
      simp only at hnc ⊢
      by_cases hty : it.hdr.ptype ≠ .challengeResp
      · rw [if_pos hty]; exact Nat.le_add_right _ _
      · rw [if_neg hty] at hnc ⊢
        by_cases hpr : (recvDatagram C (serverRoleOn it.H (tokFor s it) (some e.conn.token) (fun c => actOn sz c (nextAct acts).1)) e.conn t it.hdr it.d).2.1.contains Event.promoted = true
        · rw [if_pos hpr] at hnc ⊢
          have hne : a ≠ it.addr := by
            intro h
            apply hnc e.id (recvDatagram C (serverRoleOn it.H (tokFor s it) (some e.conn.token) (fun c => actOn sz c (nextAct acts).1)) e.conn t it.hdr it.d).1.token
            rw [h]
            split <;> simp
          split <;> (simp only; rw [psip_pdel_ne _ _ _ hne]; exact Nat.le_add_right _ _)
        · rw [if_neg hpr]
          have hnp : Event.promoted ∉ (recvDatagram C (serverRoleOn it.H (tokFor s it) (some e.conn.token) (fun c => actOn sz c (nextAct acts).1)) e.conn t it.hdr it.d).2.1 := by
            intro h; exact hpr (List.contains_iff_mem.mpr h)
          have he := hq it.addr e ht
          have hr := bytes_recvDatagram C it.H (tokFor s it) (some e.conn.token) (fun c => actOn sz c (nextAct acts).1) e.conn t it.hdr it.d he.1 hnp
          have hle : (if e.conn.key.isSome = true then 0 else it.d.length) ≤ it.d.length := by split <;> omega
          have hsp : psip (pset s.temps it.addr { e with conn := (recvDatagram C (serverRoleOn it.H (tokFor s it) (some e.conn.token) (fun c => actOn sz c (nextAct acts).1)) e.conn t it.hdr it.d).1 }) a
              ≤ psip s.temps a + (if it.addr = a then it.d.length else 0) := by
            by_cases hab : a = it.addr
            · subst hab
              rw [psip_pset_self]
              have : psip s.temps it.addr = psi e.conn := by simp [psip, ht]
              rw [this]; simp only [if_true]; omega
            · rw [psip_pset_ne _ _ _ _ hab]; exact Nat.le_add_right _ _
          split <;> exact hsp
    | none =>
      simp only
      by_cases hty : it.hdr.ptype ≠ .clientHello
      · rw [if_pos hty]; exact Nat.le_add_right _ _
      · rw [if_neg hty]
        have hf := fresh_quiet s.cfg.keepAlive s.cfg.outgoingTimeout
        have hp0 := psi_fresh s.cfg.keepAlive s.cfg.outgoingTimeout
        generalize hc0 : ({ isServer := true, keepAlive := s.cfg.keepAlive, outgoingTimeout := s.cfg.outgoingTimeout } : Conn) = c0 at *
        have hk0 : c0.key = none := by rw [← hc0]
        have hs0 : c0.isServer = true := by rw [← hc0]
        generalize htk : tokFor { s with temps := pset s.temps it.addr ⟨s.born, c0⟩, born := s.born + 1 } it = tk
        have hnp := unkeyed_not_promoted C it.H tk (some 0) c0 t it.hdr it.d hk0 hs0
        rw [serverRole_eq_roleOn] at hnp
        have hr := bytes_recvDatagram C it.H tk (some 0) id c0 t it.hdr it.d hf.1 hnp
        rw [← serverRole_eq_roleOn] at hr
        have hsp : psip (pset (pset s.temps it.addr ⟨s.born, c0⟩) it.addr ⟨s.born, (recvDatagram C (serverRole it.H tk (some 0)) c0 t it.hdr it.d).1⟩) a
            ≤ psip s.temps a + (if it.addr = a then it.d.length else 0) := by
          by_cases hab : a = it.addr
          · subst hab
            rw [psip_pset_self]
            simp only [if_true]
            have : (if c0.key.isSome = true then 0 else it.d.length) ≤ it.d.length := by split <;> omega
            omega
          · rw [psip_pset_ne _ _ _ _ hab, psip_pset_ne _ _ _ _ hab]; exact Nat.le_add_right _ _
        split <;> exact hsp


theorem handleItems_bytes (sz : Sizes) (C : Crypto) (t : Int) (s : Srv) (items : List Item) (acts : List HAct) (a : Addr)
    (hk : KN s.temps) (hq : TQp s.temps) (hc : pget s.conns a = none)
    (hnc : ∀ id tok, SEvent.connect id a tok ∉ (handleItems sz C t s items acts).2.2) :
    psip (handleItems sz C t s items acts).1.temps a ≤ psip s.temps a + bytesFrom a items := by
  induction items generalizing s acts with
  | nil => exact Nat.le_add_right _ _
  | cons it rest ih =>
    simp only [handleItems] at hnc ⊢
    have h1 := handleItem_unv sz C s t it acts a hk hq hc
    have b1 := handleItem_bytes sz C s t it acts a hq
    generalize handleItem sz C s t it acts = r1 at *
    obtain ⟨s1, acts1, e1⟩ := r1
    simp only at h1 b1 hnc ⊢
    have hn1 : ∀ id tok, SEvent.connect id a tok ∉ e1 := fun id tok h => hnc id tok (List.mem_append_left _ h)
    have h1' := h1 hn1
    have b1' := b1 hn1
    have h2 := ih s1 acts1 h1'.kn h1'.tq h1'.nc
    generalize handleItems sz C t s1 rest acts1 = r2 at *
    obtain ⟨s2, acts2, e2⟩ := r2
    simp only at h2 hnc ⊢
    have h2' := h2 (fun id tok h => hnc id tok (List.mem_append_right _ h))
    simp only [bytesFrom]
    omega

theorem updateOut_bytes (C : Crypto) (sz : Sizes) (addr : Addr) (c : Conn) (t : Int) (hq : Quiet c) :
    bytesTo addr (updateOut C sz addr c t).2 + psi (updateOut C sz addr c t).1 ≤ psi c := by
  have h := bytes_serverUpdate sz c t hq
  unfold updateOut
  generalize serverUpdate sz c t = r at *
  obtain ⟨c1, ev, res⟩ := r
  cases res with
  | error x => simp only [SendBytes] at h ⊢; simp [bytesTo]; exact h
  | ok o =>
    cases o with
    | none => simp only [SendBytes] at h ⊢; simp [bytesTo]; exact h
    | some pkt =>
      simp only [SendBytes] at h ⊢
      cases hd : toBytes C c1.key pkt with
      | error e => simp [bytesTo]; exact h.1
      | ok d => have := h.2 C c1.key d hd; simp [bytesTo]; omega


theorem sweepTemps_bytes (C : Crypto) (sz : Sizes) (t : Int) (s : Srv) (snap : List (Addr × Ent)) (a : Addr)
    (hk : KN s.temps) (hq : TQp s.temps)
    (hsnap : ∀ x ∈ snap, pget s.temps x.1 = some x.2) (hnd : (snap.map (·.1)).Nodup) :
    bytesTo a (sweepTemps C sz t s snap).2 + psip (sweepTemps C sz t s snap).1.temps a ≤ psip s.temps a := by
  induction snap generalizing s with
  | nil => simp [sweepTemps, bytesTo]
  | cons x rest ih =>
    obtain ⟨addr, e⟩ := x
    simp only [List.map_cons, List.nodup_cons] at hnd
    have hne : ∀ y ∈ rest, y.1 ≠ addr := by
      intro y hy heq
      exact hnd.1 (List.mem_map.mpr ⟨y, hy, heq⟩)
    have hcur : pget s.temps addr = some e := hsnap (addr, e) (List.mem_cons_self ..)
    have he := hq addr e hcur
    simp only [sweepTemps]
    split
    · have h2 := ih { s with temps := pdel s.temps addr } (kn_pdel _ _ hk) (tqp_pdel _ _ hk hq)
        (by
          intro y hy
          simp only
          rw [lc_pget_pdel_ne _ _ _ (hne y hy)]
          exact hsnap y (List.mem_cons_of_mem _ hy)) hnd.2
      refine Nat.le_trans h2 ?_
      simp only
      by_cases hab : a = addr
      · subst hab; simp [psip, pget_pdel_self_kn _ _ hk]
      · rw [psip_pdel_ne _ _ _ hab]; exact Nat.le_refl _
    · have hu := updateOut_quiet C sz addr e.conn t he.1
      have hb := updateOut_bytes C sz addr e.conn t he.1
      have h2 := ih { s with temps := pset s.temps addr { e with conn := (updateOut C sz addr e.conn t).1 } }
        (kn_pset _ _ _ hk) (tqp_pset _ _ _ hq ⟨hu.1, by have := hu.2; have := he.2; show owe (updateOut C sz addr e.conn t).1 ≤ 1; omega⟩)
        (by
          intro y hy
          simp only
          rw [lc_pget_pset_ne _ _ _ _ (hne y hy)]
          exact hsnap y (List.mem_cons_of_mem _ hy)) hnd.2
      generalize sweepTemps C sz t { s with temps := pset s.temps addr { e with conn := (updateOut C sz addr e.conn t).1 } } rest = r2 at h2
      obtain ⟨s2, e2⟩ := r2
      simp only at h2 ⊢
      rw [bytesTo_append]
      by_cases hab : a = addr
      · subst hab
        rw [psip_pset_self] at h2
        simp only at h2
        have : psip s.temps a = psi e.conn := by simp [psip, hcur]
        rw [this]
        omega
      · rw [psip_pset_ne _ _ _ _ hab] at h2
        rw [bytesTo_zero a _ (updateOut_other C sz addr a _ t (fun h => hab h.symm))]
        omega

theorem iter_bytes (sz : Sizes) (C : Crypto) (s : Srv) (tq ts : Int) (batch : List Item) (acts : List HAct) (a : Addr)
    (hk : KN s.temps) (hq : TQp s.temps) (hc : pget s.conns a = none)
    (hnc : ∀ id tok, SEvent.connect id a tok ∉ (iter sz C s tq ts batch acts).2) :
    bytesTo a (iter sz C s tq ts batch acts).2 + psip (iter sz C s tq ts batch acts).1.temps a ≤
      psip s.temps a + bytesFrom a batch := by
  unfold iter at hnc ⊢
  have h1 := handleItems_unv sz C tq s batch acts a hk hq hc
  have b1 := handleItems_bytes sz C tq s batch acts a hk hq hc
  generalize handleItems sz C tq s batch acts = r1 at *
  obtain ⟨s1, acts1, e1⟩ := r1
  simp only at h1 b1 hnc ⊢
  have h2 := sweepConns_unv C sz ts (if (nextAct acts1).1 = HAct.kick then kickAll s1 else s1)
    (if (nextAct acts1).1 = HAct.kick then kickAll s1 else s1).conns (nextAct acts1).2 a
  generalize sweepConns C sz ts (if (nextAct acts1).1 = HAct.kick then kickAll s1 else s1)
    (if (nextAct acts1).1 = HAct.kick then kickAll s1 else s1).conns (nextAct acts1).2 = r2 at *
  obtain ⟨s2, acts2, e2⟩ := r2
  simp only at h2 hnc ⊢
  have h3 := sweepTemps_bytes C sz ts s2 s2.temps a
  generalize sweepTemps C sz ts s2 s2.temps = r3 at *
  obtain ⟨s3, e3⟩ := r3
  simp only at h3 hnc ⊢
  have hn1 : ∀ id tok, SEvent.connect id a tok ∉ e1 :=
    fun id tok h => hnc id tok (by simp only [List.append_assoc]; exact List.mem_append_left _ h)
  have h1' := h1 hn1
  have b1' := b1 hn1
  have h2' := h2 (maybeKick_absent s1 _ a h1'.nc)
  rw [maybeKick_temps] at h2'
  have hk2 : KN s2.temps := by rw [h2'.1]; exact h1'.kn
  have hq2 : TQp s2.temps := by rw [h2'.1]; exact h1'.tq
  have h3' := h3 hk2 hq2 (fun x hx => pget_of_mem _ _ _ hk2 hx) hk2
  have hu : bytesTo a ([SEvent.update] ++ (if (nextAct acts1).1.raises = true then [SEvent.contained "update"] else [])) = 0 := by
    split <;> rfl
  simp only [bytesTo_append, bytesTo_zero a e1 h1'.ns, hu, bytesTo_zero a e2 h2'.2.2]
  rw [h2'.1] at h3'
  omega

theorem runLoop_bytes (sz : Sizes) (C : Crypto) (s : Srv) (ins : List IterIn) (a : Addr)
    (hk : KN s.temps) (hq : TQp s.temps) (hc : pget s.conns a = none)
    (hnc : ∀ id tok, SEvent.connect id a tok ∉ (runLoop sz C s ins).2) :
    bytesTo a (runLoop sz C s ins).2 + psip (runLoop sz C s ins).1.temps a ≤
      psip s.temps a + (ins.map (fun i => bytesFrom a i.batch)).sum := by
  induction ins generalizing s with
  | nil => simp [runLoop, bytesTo]
  | cons i rest ih =>
    simp only [runLoop] at hnc ⊢
    have hn1 : ∀ id tok, SEvent.connect id a tok ∉ (iter sz C s i.tq i.ts i.batch i.acts).2 :=
      fun id tok h => hnc id tok (List.mem_append_left _ h)
    have h1 := iter_unv sz C s i.tq i.ts i.batch i.acts a hk hq hc hn1
    have b1 := iter_bytes sz C s i.tq i.ts i.batch i.acts a hk hq hc hn1
    have h2 := ih (iter sz C s i.tq i.ts i.batch i.acts).1 h1.1 h1.2.1 h1.2.2.1
      (fun id tok h => hnc id tok (List.mem_append_right _ h))
    simp only [bytesTo_append, List.map_cons, List.sum_cons]
    omega

end Mpgs.Server
