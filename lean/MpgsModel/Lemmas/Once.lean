import MpgsModel.Lemmas.SeqNum
import MpgsModel.Lemmas.FramePw
/-! At-most-once acceptance: the abstract window accepts every absolute position at most once as
long as arrivals are not older than the window (strict receivers enforce that themselves). -/
namespace Mpgs.Seq

/-- well-formed abstract window: accepted positions are distinct and none is ahead of the newest -/
def Abs.Wf (a : Abs) : Prop :=
  a.acc.Nodup ∧ (∀ c, a.cur = some c → ∀ q ∈ a.acc, q ≤ c) ∧ (a.cur = none → a.acc = [])

theorem Abs.wf_init : (⟨none, []⟩ : Abs).Wf := by simp [Abs.Wf]

/-- an accepted position was not accepted before, provided it is not older than the window -/
theorem Abs.insert_fresh (nbits : Nat) (a a' : Abs) (p : Int) (hw : a.Wf)
    (hwin : ∀ c, a.cur = some c → c - p ≤ nbits) (hi : a.insert nbits p = .ok a') :
    p ∉ a.acc ∧ a'.acc = p :: a.acc ∧ a'.Wf := by
  obtain ⟨hnd, hle, hnone⟩ := hw
  unfold Abs.insert at hi
  cases hc : a.cur with
  | none =>
    simp only [hc] at hi
    injection hi with hi; subst hi
    have := hnone hc
    refine ⟨by simp [this], by simp [this], ?_⟩
    simp [Abs.Wf]
  | some c =>
    simp only [hc] at hi
    have hlec := hle c hc
    have hw' := hwin c hc
    split at hi
    · rename_i hgt
      injection hi with hi; subst hi
      have hnot : p ∉ a.acc := fun hin => by have := hlec p hin; omega
      refine ⟨hnot, rfl, ?_⟩
      refine ⟨List.nodup_cons.mpr ⟨hnot, hnd⟩, ?_, by simp⟩
      intro c' hc' q hq
      simp only [Option.some.injEq] at hc'
      subst hc'
      simp only [List.mem_cons] at hq
      rcases hq with rfl | hq
      · omega
      · have := hlec q hq; omega
    · split at hi
      · simp at hi
      · split at hi
        · simp at hi
        · rename_i hgt hne hdup
          injection hi with hi; subst hi
          have hnot : p ∉ a.acc := fun hin => hdup ⟨hw', hin⟩
          refine ⟨hnot, rfl, ?_⟩
          refine ⟨List.nodup_cons.mpr ⟨hnot, hnd⟩, ?_, by simp⟩
          intro c' hc' q hq
          simp only [Option.some.injEq] at hc'
          subst hc'
          simp only [List.mem_cons] at hq
          rcases hq with rfl | hq
          · omega
          · exact hlec q hq

end Mpgs.Seq
