import MpgsModel.Model.Handshake
import MpgsModel.Lemmas.Pack
/-! A server-side connection that has not been promoted is *quiet*: it holds no callbacks, no resend
state, and nothing in its queue but the SERVER_HELLO it owes. -/
namespace Mpgs.Conn
open Mpgs.Bytes Mpgs.Wire

/-- the part of the state the argument is about -/
structure QP where
  key : Option Bytes
  outgoing : List PMsg
  pendingCbs : List (Nat × List Cb)
  pendingRetry : List (Nat × List Nat)
  pendingRetryMsg : List (Nat × PMsg)
  status : Status

def qp (c : Conn) : QP := ⟨c.key, c.outgoing, c.pendingCbs, c.pendingRetry, c.pendingRetryMsg, c.status⟩

structure QP.Quiet (x : QP) : Prop where
  cbs : x.pendingCbs = []
  rty : x.pendingRetry = []
  prm : x.pendingRetryMsg = []
  nc : x.status ≠ .connected
  out : ∀ m ∈ x.outgoing, m.ty = .serverHello ∧ m.retry = 0 ∧ m.cb = none

def Quiet (c : Conn) : Prop := (qp c).Quiet

/-- what the connection still may send: the queued replies, plus one if it has not answered a hello yet -/
def owe (c : Conn) : Nat := c.outgoing.length + (if c.key.isSome then 0 else 1)

theorem owe_of_qp (c c' : Conn) (h : qp c' = qp c) : owe c' = owe c := by
  have h1 : c'.key = c.key := congrArg QP.key h
  have h2 : c'.outgoing = c.outgoing := congrArg QP.outgoing h
  simp [owe, h1, h2]

theorem quiet_of_qp (c c' : Conn) (h : qp c' = qp c) (hq : Quiet c) : Quiet c' := by
  unfold Quiet; rw [h]; exact hq

theorem qp_resolve (c : Conn) (s : Nat) (ok : Bool) (hq : Quiet c) :
    qp (resolve c s ok).1 = qp c ∧ (resolve c s ok).2 = [.resolved s ok] := by
  have hc : c.pendingCbs = [] := hq.cbs
  have hr : c.pendingRetry = [] := hq.rty
  unfold resolve
  cases ok <;> simp [hc, hr, aget, qp]

theorem qp_handleAckKeys (c : Conn) (a b : Nat) (ks : List Nat) (hq : Quiet c) :
    qp (handleAckKeys c a b ks).1 = qp c ∧ Event.promoted ∉ (handleAckKeys c a b ks).2 := by
  induction ks generalizing c with
  | nil => exact ⟨rfl, by simp [handleAckKeys]⟩
  | cons s ks ih =>
    simp only [handleAckKeys]
    split
    · exact ih c hq
    · split
      · have h1 := qp_resolve c s true hq
        have h2 := ih _ (quiet_of_qp _ _ h1.1 hq)
        simp only
        refine ⟨h2.1.trans h1.1, ?_⟩
        rw [h1.2]; simp [h2.2]
      · split
        · have h1 := qp_resolve c s false hq
          have h2 := ih _ (quiet_of_qp _ _ h1.1 hq)
          simp only
          refine ⟨h2.1.trans h1.1, ?_⟩
          rw [h1.2]; simp [h2.2]
        · exact ih c hq

theorem qp_checkTimeoutStrictKeys (c : Conn) (t : Int) (ks : List Nat) (hq : Quiet c) :
    qp (checkTimeoutStrictKeys c t ks).1 = qp c := by
  induction ks generalizing c with
  | nil => rfl
  | cons s ks ih =>
    simp only [checkTimeoutStrictKeys]
    split
    · exact ih c hq
    · split
      · have h1 := qp_resolve c s false hq
        have h2 := ih _ (quiet_of_qp _ _ h1.1 hq)
        simp only
        exact h2.trans h1.1
      · exact ih c hq

theorem qp_recvAppFragment (c : Conn) (t : Int) (m : Nat) (f : Bytes) :
    qp (recvAppFragment c t m f).1 = qp c ∧ Event.promoted ∉ (recvAppFragment c t m f).2.1 := by
  unfold recvAppFragment
  split
  · exact ⟨rfl, by simp⟩
  · simp only
    split
    · exact ⟨rfl, by simp⟩
    · exact ⟨rfl, by simp⟩


theorem quiet_serverClientHello (H : Hs) (tok : Nat) (c : Conn) (t : Int) (data : Bytes) (hq : Quiet c) :
    Quiet (serverClientHello H tok c t data).1 ∧ owe (serverClientHello H tok c t data).1 ≤ owe c ∧
    (serverClientHello H tok c t data).2.1 = [] := by
  unfold serverClientHello
  by_cases hk : c.key.isSome = true
  · rw [if_pos hk]; exact ⟨hq, Nat.le_refl _, rfl⟩
  · rw [if_neg hk]
    have hkn : c.key = none := by
      cases hkk : c.key with
      | none => rfl
      | some k => rw [hkk] at hk; exact absurd rfl hk
    cases hp : H.parseClientHello data with
    | error e => exact ⟨hq, Nat.le_refl _, rfl⟩
    | ok v =>
      simp only
      split
      · exact ⟨hq, Nat.le_refl _, rfl⟩
      · split
        · have e : qp { c with token := 0, key := none } = qp c := by simp [qp, hkn]
          exact ⟨quiet_of_qp _ _ e hq, Nat.le_of_eq (owe_of_qp _ _ e), rfl⟩
        · refine ⟨?_, ?_, rfl⟩
          · have hne : ¬ ((0 : Int) = -1) := by decide
            constructor
            · simpa [sendType, qp, hne] using hq.cbs
            · simpa [sendType, qp, hne] using hq.rty
            · simpa [sendType, qp, hne] using hq.prm
            · simp [sendType, qp, hne]
            · intro m hm
              simp only [sendType, qp, hne, if_false, List.mem_append, List.mem_singleton] at hm
              rcases hm with hm | hm
              · exact hq.out m hm
              · subst hm; exact ⟨rfl, rfl, rfl⟩
          · have hne : ¬ ((0 : Int) = -1) := by decide
            simp [owe, sendType, hne, hkn]

theorem quiet_serverChallenge (H : Hs) (tt : Option Nat) (c : Conn) (t : Int) (data : Bytes)
    (hnp : Event.promoted ∉ (serverChallenge H tt c t data).2.1) :
    (serverChallenge H tt c t data).1 = c := by
  unfold serverChallenge at hnp ⊢
  cases hp : H.parseChallenge data with
  | error e => rfl
  | ok tk =>
    rw [hp] at hnp
    simp only at hnp ⊢
    split
    · rename_i h; simp [h] at hnp
    · rfl

theorem quiet_recvMessage (H : Hs) (tok : Nat) (tt : Option Nat) (f : Conn → Conn) (c : Conn) (t : Int) (m : WMsg)
    (hq : Quiet c) (hnp : Event.promoted ∉ (recvMessage (serverRoleOn H tok tt f) c t m).2.1) :
    Quiet (recvMessage (serverRoleOn H tok tt f) c t m).1 ∧
    owe (recvMessage (serverRoleOn H tok tt f) c t m).1 ≤ owe c := by
  cases hins : c.bfMsg.insert (m.seq : Int) with
  | error e => simp only [recvMessage, hins]; exact ⟨hq, Nat.le_refl _⟩
  | ok bf =>
    have e : qp { c with bfMsg := bf } = qp c := rfl
    have hq1 : Quiet { c with bfMsg := bf } := quiet_of_qp _ _ e hq
    have ho1 : owe { c with bfMsg := bf } = owe c := owe_of_qp _ _ e
    cases hty : m.ty with
    | clientHello =>
      simp only [recvMessage, hins, hty, serverRoleOn]
      have := quiet_serverClientHello H tok { c with bfMsg := bf } t m.payload hq1
      exact ⟨this.1, ho1 ▸ this.2.1⟩
    | serverHello =>
      simp only [recvMessage, hins, hty, serverRoleOn]
      exact ⟨hq1, Nat.le_of_eq ho1⟩
    | challengeResp =>
      simp only [recvMessage, hins, hty, serverRoleOn] at hnp ⊢
      by_cases hpr : (serverChallenge H tt { c with bfMsg := bf } t m.payload).2.1.contains Event.promoted = true
      · rw [if_pos hpr] at hnp
        simp only [List.contains_iff_mem] at hpr
        exact absurd hpr hnp
      · rw [if_neg hpr] at hnp
        rw [if_neg hpr, quiet_serverChallenge H tt _ t m.payload hnp]
        exact ⟨hq1, Nat.le_of_eq ho1⟩
    | keepAlive =>
      simp only [recvMessage, hins, hty]
      exact ⟨hq1, Nat.le_of_eq ho1⟩
    | disconnect =>
      simp only [recvMessage, hins, hty]
      refine ⟨?_, ?_⟩
      · exact ⟨hq.cbs, hq.rty, hq.prm, by simp [qp], hq.out⟩
      · simp [owe]
    | appFragment =>
      simp only [recvMessage, hins, hty]
      have := qp_recvAppFragment { c with bfMsg := bf } t m.seq m.payload
      exact ⟨quiet_of_qp _ _ this.1 hq1, Nat.le_of_eq ((owe_of_qp _ _ this.1).trans ho1)⟩
    | app =>
      simp only [recvMessage, hins, hty]
      exact ⟨⟨hq.cbs, hq.rty, hq.prm, hq.nc, hq.out⟩, by simp [owe]⟩
    | unknown =>
      simp only [recvMessage, hins, hty]
      exact ⟨hq1, Nat.le_of_eq ho1⟩


theorem quiet_recvMessages (H : Hs) (tok : Nat) (tt : Option Nat) (f : Conn → Conn) (c : Conn) (t : Int) (ms : List WMsg)
    (hq : Quiet c) (hnp : Event.promoted ∉ (recvMessages (serverRoleOn H tok tt f) c t ms).2.1) :
    Quiet (recvMessages (serverRoleOn H tok tt f) c t ms).1 ∧
    owe (recvMessages (serverRoleOn H tok tt f) c t ms).1 ≤ owe c := by
  induction ms generalizing c with
  | nil => exact ⟨hq, Nat.le_refl _⟩
  | cons m ms ih =>
    simp only [recvMessages] at hnp ⊢
    have h1 := quiet_recvMessage H tok tt f c t m hq
    generalize recvMessage (serverRoleOn H tok tt f) c t m = r at *
    obtain ⟨c1, e1, err⟩ := r
    cases err with
    | some e => simp only at hnp ⊢; exact h1 hnp
    | none =>
      simp only at hnp ⊢
      have hn1 : Event.promoted ∉ e1 := fun h => hnp (List.mem_append_left _ h)
      have hn2 : Event.promoted ∉ (recvMessages (serverRoleOn H tok tt f) c1 t ms).2.1 :=
        fun h => hnp (List.mem_append_right _ h)
      have h1' := h1 hn1
      have h2 := ih c1 h1'.1 hn2
      exact ⟨h2.1, Nat.le_trans h2.2 h1'.2⟩

theorem quiet_accept (H : Hs) (tok : Nat) (tt : Option Nat) (f : Conn → Conn) (c : Conn) (t : Int) (h : Header)
    (pkt : Packet) (bf : Seq.BitField) (hq : Quiet c)
    (hnp : Event.promoted ∉ (accept (serverRoleOn H tok tt f) c t h pkt bf).2.1) :
    Quiet (accept (serverRoleOn H tok tt f) c t h pkt bf).1 ∧
    owe (accept (serverRoleOn H tok tt f) c t h pkt bf).1 ≤ owe c := by
  unfold accept at hnp ⊢
  simp only at hnp ⊢
  have e : qp { c with bfPkt := bf, received := c.received + 1, lastRecv := t } = qp c := rfl
  have hq1 := quiet_of_qp _ _ e hq
  have ha := qp_handleAckKeys { c with bfPkt := bf, received := c.received + 1, lastRecv := t } h.ack h.ackBits
    (({ c with bfPkt := bf, received := c.received + 1, lastRecv := t } : Conn).pendingAcks.map (·.1)) hq1
  have hq2 := quiet_of_qp _ _ ha.1 hq1
  have hn2 : Event.promoted ∉ (recvMessages (serverRoleOn H tok tt f)
      (handleAckBits { c with bfPkt := bf, received := c.received + 1, lastRecv := t } h).1 t pkt.msgs).2.1 :=
    fun hh => hnp (List.mem_append_right _ hh)
  have h3 := quiet_recvMessages H tok tt f _ t pkt.msgs hq2 hn2
  refine ⟨h3.1, Nat.le_trans h3.2 (Nat.le_of_eq ?_)⟩
  exact (owe_of_qp _ _ ha.1).trans (owe_of_qp _ _ e)

/-- **a quiet connection stays quiet** whatever datagram it is handed, as long as that datagram does
not promote it, and what it owes does not grow -/
theorem quiet_recvDatagram (C : Crypto) (H : Hs) (tok : Nat) (tt : Option Nat) (f : Conn → Conn) (c : Conn) (t : Int)
    (h : Header) (d : Bytes) (hq : Quiet c)
    (hnp : Event.promoted ∉ (recvDatagram C (serverRoleOn H tok tt f) c t h d).2.1) :
    Quiet (recvDatagram C (serverRoleOn H tok tt f) c t h d).1 ∧
    owe (recvDatagram C (serverRoleOn H tok tt f) c t h d).1 ≤ owe c := by
  have hd : Quiet (drop1 c).1 ∧ owe (drop1 c).1 ≤ owe c :=
    ⟨quiet_of_qp _ c rfl hq, Nat.le_of_eq (owe_of_qp _ c rfl)⟩
  unfold recvDatagram at hnp ⊢
  cases hfb : fromBytes C h c.key d with
  | error e => simp only; exact hd
  | ok pkt =>
    simp only [hfb] at hnp ⊢
    by_cases hg : gateUnkeyed c pkt = true
    · rw [if_pos hg]; exact hd
    · rw [if_neg hg] at hnp ⊢
      by_cases hs : stale c pkt.hdr.seq = true
      · rw [if_pos hs]; exact hd
      · rw [if_neg hs] at hnp ⊢
        cases hi : c.bfPkt.insert (pkt.hdr.seq : Int) with
        | error e => simp only; exact hd
        | ok bf =>
          simp only [hi] at hnp ⊢
          exact quiet_accept H tok tt f c t h pkt bf hq hnp


/-! ### the sending side -/

theorem create_msgs (h : Header) (ws : List WMsg) (p : Packet) (hc : create h ws = .ok p) : p.msgs = ws := by
  unfold create at hc
  split at hc
  · injection hc with hc; subst hc; rfl
  · split at hc
    · injection hc with hc; subst hc; rfl
    · simp at hc
  · split at hc
    · injection hc with hc; subst hc; rfl
    · simp at hc

theorem registerMsgs_plain (t : Int) (ms : List PMsg) (prm : List (Nat × PMsg)) (cbs : List Cb) (rts : List Nat)
    (h : ∀ m ∈ ms, m.ty = .serverHello ∧ m.retry = 0 ∧ m.cb = none) :
    registerMsgs t ms prm cbs rts = (prm, cbs, rts) := by
  induction ms generalizing prm cbs rts with
  | nil => rfl
  | cons m ms ih =>
    have hm := h m (List.mem_cons_self ..)
    simp only [registerMsgs, hm.2.1, hm.2.2, ne_eq, not_true_eq_false, if_false]
    exact ih prm cbs rts (fun x hx => h x (List.mem_cons_of_mem _ hx))

/-- what `_build_packet_impl` does to a quiet connection: nothing is sent unless a reply is queued;
a datagram that is sent carries queued replies only, and they leave the queue -/
theorem quiet_buildPacketImpl (sz : Sizes) (c : Conn) (t : Int) (ska : Bool) (delay : Int) (hq : Quiet c) :
    Quiet (buildPacketImpl sz c t ska delay).1 ∧
    match (buildPacketImpl sz c t ska delay).2 with
    | .ok (some pkt) => pkt.msgs.length + owe (buildPacketImpl sz c t ska delay).1 = owe c ∧ pkt.msgs ≠ [] ∧
        ∀ m ∈ pkt.msgs, m.ty = .serverHello
    | _ => owe (buildPacketImpl sz c t ska delay).1 ≤ owe c := by
  have hprm : c.pendingRetryMsg = [] := hq.prm
  obtain ⟨taken, htk, hperm⟩ := packNew_perm sz c.outgoing {}
  have hlen : taken.length + (packNew sz c.outgoing {}).2.length = c.outgoing.length := by
    have := hperm.length_eq; simpa using this
  have hmem : ∀ m, m ∈ taken ∨ m ∈ (packNew sz c.outgoing {}).2 → m ∈ c.outgoing := by
    intro m hm; exact hperm.subset (List.mem_append.mpr hm)
  have hpk : packAll sz c t delay = ((packNew sz c.outgoing {}).1, [], (packNew sz c.outgoing {}).2) := by
    simp [packAll, hprm, sortBySeq, packResend]
  have hmsgs : (packNew sz c.outgoing {}).1.msgs = taken := by simpa using htk
  unfold buildPacketImpl
  simp only [hpk, hmsgs]
  -- the connection after the two packing loops
  have hq1 : Quiet { c with pendingRetryMsg := [], outgoing := (packNew sz c.outgoing {}).2 } :=
    ⟨hq.cbs, hq.rty, rfl, hq.nc, fun m hm => hq.out m (hmem m (Or.inr hm))⟩
  cases htaken : taken with
  | nil =>
    have hnc : c.status ≠ .connected := hq.nc
    have hty : pktType c ska [] = .unknown := by simp [pktType, hnc]
    simp only [hty, if_true]
    refine ⟨hq1, ?_⟩
    rw [htaken] at hlen
    simp only [owe]; simp at hlen; omega
  | cons m0 rest =>
    have hm0 : m0.ty = .serverHello := (hq.out m0 (hmem m0 (Or.inl (by rw [htaken]; exact List.mem_cons_self ..)))).1
    have hty : pktType c ska (m0 :: rest) = .serverHello := by simp [pktType, hm0]
    have hne : ¬ (PType.serverHello = PType.unknown) := by decide
    simp only [hty, hne, if_false]
    have hall : ∀ m ∈ m0 :: rest, m.ty = .serverHello ∧ m.retry = 0 ∧ m.cb = none := by
      intro m hm; exact hq.out m (hmem m (Or.inl (by rw [htaken]; exact hm)))
    have hreg := registerMsgs_plain t (m0 :: rest) [] [] [] hall
    have hq2 : Quiet (registerPacket { c with pendingRetryMsg := [], outgoing := (packNew sz c.outgoing {}).2 } t (m0 :: rest)) := by
      unfold registerPacket
      simp only [hreg]
      exact ⟨hq.cbs, hq.rty, rfl, hq.nc, hq1.out⟩
    have ho2 : owe (registerPacket { c with pendingRetryMsg := [], outgoing := (packNew sz c.outgoing {}).2 } t (m0 :: rest))
        = (packNew sz c.outgoing {}).2.length + (if c.key.isSome then 0 else 1) := by
      unfold registerPacket
      simp only [hreg]
      rfl
    cases hcr : create (mkHdr c t PType.serverHello (registerPacket { c with pendingRetryMsg := [], outgoing := (packNew sz c.outgoing {}).2 } t (m0 :: rest)).seqSending) ((m0 :: rest).map toWMsg) with
    | error e =>
      simp only
      refine ⟨hq2, ?_⟩
      rw [ho2]; simp only [owe]; omega
    | ok pkt =>
      simp only
      have hpm := create_msgs _ _ _ hcr
      refine ⟨hq2, ?_, ?_, ?_⟩
      · rw [ho2, hpm]; simp only [owe, List.length_map]; rw [htaken] at hlen; omega
      · rw [hpm]; simp
      · intro m hm
        rw [hpm] at hm
        obtain ⟨x, hx, rfl⟩ := List.mem_map.mp hm
        exact (hall x hx).1


/-- the shape of what a sending step reports about a quiet connection -/
def SendSpec (c c' : Conn) (r : Except Err (Option Packet)) : Prop :=
  Quiet c' ∧
  match r with
  | .ok (some pkt) => pkt.msgs.length + owe c' = owe c ∧ pkt.msgs ≠ [] ∧ ∀ m ∈ pkt.msgs, m.ty = .serverHello
  | _ => owe c' ≤ owe c

theorem sendSpec_of_qp (c c1 c' : Conn) (r : Except Err (Option Packet)) (h : SendSpec c c1 r) (e : qp c' = qp c1) :
    SendSpec c c' r := by
  refine ⟨quiet_of_qp _ _ e h.1, ?_⟩
  have ho := owe_of_qp _ _ e
  have h2 := h.2
  cases r with
  | error x => simp only at h2 ⊢; omega
  | ok o =>
    cases o with
    | none => simp only at h2 ⊢; omega
    | some pkt => simp only at h2 ⊢; exact ⟨by omega, h2.2⟩

theorem quiet_buildPacket (sz : Sizes) (c : Conn) (t : Int) (hq : Quiet c) :
    SendSpec c (buildPacket sz c t).1 (buildPacket sz c t).2 := by
  unfold buildPacket
  split
  · exact ⟨hq, Nat.le_refl _⟩
  · have h := quiet_buildPacketImpl sz c t (decide (t - c.lastKeepAlive > c.keepAlive)) c.keepAlive hq
    generalize buildPacketImpl sz c t (decide (t - c.lastKeepAlive > c.keepAlive)) c.keepAlive = r at *
    obtain ⟨c1, res⟩ := r
    cases res with
    | error x => exact h
    | ok o =>
      cases o with
      | none => exact h
      | some pkt => exact sendSpec_of_qp c c1 (finishBuild c1 t) (.ok (some pkt)) h rfl

/-- **`ServerClientConnection.update()` on a quiet connection** -/
theorem quiet_serverUpdate (sz : Sizes) (c : Conn) (t : Int) (hq : Quiet c) :
    SendSpec c (serverUpdate sz c t).1 (serverUpdate sz c t).2.2 := by
  unfold serverUpdate
  split
  · have h := quiet_buildPacket sz c t hq
    generalize buildPacket sz c t = r at *
    obtain ⟨c1, res⟩ := r
    cases res with
    | error x => exact h
    | ok o =>
      simp only
      exact sendSpec_of_qp c c1 _ (.ok o) h (qp_checkTimeoutStrictKeys c1 t _ h.1)
  · exact ⟨hq, Nat.le_refl _⟩

end Mpgs.Conn
