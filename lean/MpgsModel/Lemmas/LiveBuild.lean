import MpgsModel.Lemmas.Live
import MpgsModel.Lemmas.C12Typed
import MpgsModel.Lemmas.Pack
/-!
`Alive` (Lemmas/Alive.lean) through sending, building a packet, receiving a datagram and every
operation history without `disconnect`.
-/
namespace Mpgs.Conn
open Mpgs.Bytes Mpgs.Wire

/-! ### sending -/

theorem ext_of_fields {c c' : Conn} (h1 : c'.outgoing = c.outgoing) (h2 : c'.retryObjs = c.retryObjs)
    (h3 : c'.pendingCbs = c.pendingCbs) (h4 : c'.pendingAcks = c.pendingAcks) : Ext c c' :=
  ⟨fun m h => by rw [h1]; exact h, h3, h4, fun _ o h => ⟨o, by rw [h2]; exact h, id⟩⟩

theorem ext_sendFrags (c : Conn) (fid fragId count : Nat) (retry : Int) (i : Nat) (fs : List Bytes) :
    Ext c (sendFrags c fid fragId count retry i fs) := by
  induction fs generalizing c i with
  | nil => exact Ext.refl c
  | cons f fs ih =>
    simp only [sendFrags]
    exact (ext_sendType _ _ _ _ _).trans (ih _ _)

theorem ext_sendFragmented (sz : Sizes) (c : Conn) (p : Bytes) (r : Int) (cb : Option Nat) :
    Ext c (sendFragmented sz c p r cb).1 := by
  unfold sendFragmented
  simp only
  split
  · exact ext_of_fields rfl rfl rfl rfl
  · refine Ext.trans (b := { c with seqFragment := seqInc c.seqFragment, fragObjs := c.fragObjs ++ [⟨seqInc c.seqFragment, r, cb, splitFrags sz.maxPayload sz.maxFragment p.length p, (splitFrags sz.maxPayload sz.maxFragment p.length p).map (fun _ => none)⟩] })
      (ext_of_fields rfl rfl rfl rfl) ?_
    exact (ext_sendFrags _ _ _ _ _ _ _).trans (ext_of_fields rfl rfl rfl rfl)

theorem ext_send (sz : Sizes) (c : Conn) (p : Bytes) (r : Int) (cb : Option Nat) :
    Ext c (send sz c p r cb).1 := by
  unfold send
  split
  · exact Ext.refl c
  · split
    · exact Ext.refl c
    · split
      · exact ext_sendFragmented sz c p r cb
      · exact ext_sendType _ _ _ _ _

/-- a guaranteed single-datagram send creates a live sender object -/
theorem alive_send_new (sz : Sizes) (c : Conn) (p : Bytes) (cb : Option Nat)
    (hs : c.status = .connected) (hp : p.length ≤ sz.maxPayload) :
    Alive c.retryObjs.length (send sz c p (-1) cb).1 := by
  have h1 : ¬ ((-1 : Int) ≠ 0 ∧ (-1 : Int) ≠ 1 ∧ (-1 : Int) ≠ -1) := by decide
  have h2 : ¬ p.length > sz.maxPayload := by omega
  simp only [send, h1, if_false, hs, ne_eq, not_true_eq_false, h2]
  simp only [sendType, if_true]
  refine ⟨⟨⟨seqInc c.seqMessage, .app, p, cb.map Cb.user, false⟩, by simp⟩, Or.inl (Or.inl ?_)⟩
  exact ⟨⟨seqInc c.seqMessage, .app, p, some (.retry c.retryObjs.length), -1, 0⟩, by simp, rfl⟩

/-! ### building a packet -/

theorem mem_packNew (sz : Sizes) (q : List PMsg) (p : Pack) (m : PMsg) (h : m ∈ q) :
    m ∈ (packNew sz q p).2 ∨ m ∈ (packNew sz q p).1.msgs := by
  obtain ⟨tk, h1, h2⟩ := packNew_perm sz q p
  have : m ∈ tk ++ (packNew sz q p).2 := h2.mem_iff.mpr h
  rcases List.mem_append.mp this with h | h
  · right; rw [h1]; exact List.mem_append_right _ h
  · left; exact h

theorem registerMsgs_cbs (t : Int) (msgs : List PMsg) (prm : List (Nat × PMsg)) (cbs : List Cb) (rts : List Nat) :
    (∀ cb ∈ cbs, cb ∈ (registerMsgs t msgs prm cbs rts).2.1) ∧
    (∀ m ∈ msgs, ∀ cb, m.cb = some cb → cb ∈ (registerMsgs t msgs prm cbs rts).2.1) := by
  induction msgs generalizing prm cbs rts with
  | nil => exact ⟨fun cb h => h, fun m h => by cases h⟩
  | cons m rest ih =>
    simp only [registerMsgs]
    have hsub : ∀ cb ∈ cbs, cb ∈ (match m.cb with | some cb => cbs ++ [cb] | none => cbs) := by
      intro cb h
      cases m.cb with
      | none => exact h
      | some x => exact List.mem_append_left _ h
    have hown : ∀ cb, m.cb = some cb → cb ∈ (match m.cb with | some cb => cbs ++ [cb] | none => cbs) := by
      intro cb h
      rw [h]; simp
    split
    · have := ih (aset prm m.seq { m with assembled := t }) (match m.cb with | some cb => cbs ++ [cb] | none => cbs) (rts ++ [m.seq])
      refine ⟨fun cb h => this.1 cb (hsub cb h), ?_⟩
      intro m' hm' cb hcb
      rcases List.mem_cons.mp hm' with e | e
      · subst e; exact this.1 cb (hown cb hcb)
      · exact this.2 m' e cb hcb
    · have := ih prm (match m.cb with | some cb => cbs ++ [cb] | none => cbs) rts
      refine ⟨fun cb h => this.1 cb (hsub cb h), ?_⟩
      intro m' hm' cb hcb
      rcases List.mem_cons.mp hm' with e | e
      · subst e; exact this.1 cb (hown cb hcb)
      · exact this.2 m' e cb hcb

theorem pktType_typed (c : Conn) (ska : Bool) (msgs : List PMsg) (m : PMsg) (hm : m ∈ msgs)
    (ht : ∀ x ∈ msgs, x.ty ≠ .unknown) : pktType c ska msgs ≠ .unknown := by
  cases msgs with
  | nil => cases hm
  | cons a rest => exact ht a (List.mem_cons_self ..)

/-- the datagram number about to be used is not the key of a parked callback list (it is, unless
65535 datagrams are unresolved at once; the real dict assignment would overwrite the entry too) -/
def FreshSeq (c : Conn) : Prop := aget c.pendingCbs (seqInc c.seqSending) = none

theorem alive_buildPacketImpl (rid : Nat) (sz : Sizes) (c : Conn) (t delay : Int) (ska : Bool)
    (ht : Typed c) (hf : FreshSeq c) (hl : Alive rid c) :
    Alive rid (buildPacketImpl sz c t ska delay).1 := by
  have hp := packAll_typed sz c t delay ht
  obtain ⟨hv, hh⟩ := hl
  have hmem : ∀ m, m ∈ c.outgoing → m ∈ (packAll sz c t delay).2.2 ∨ m ∈ (packAll sz c t delay).1.msgs := by
    intro m hm
    unfold packAll
    exact mem_packNew sz c.outgoing _ m hm
  unfold buildPacketImpl
  simp only
  -- the state when nothing is sent: only the two queues changed
  have hnone : (∀ m, m ∈ c.outgoing → m.cb = some (.retry rid) → m ∈ (packAll sz c t delay).2.2) →
      Alive rid { c with pendingRetryMsg := (packAll sz c t delay).2.1, outgoing := (packAll sz c t delay).2.2 } := by
    intro hk
    refine ⟨hv, ?_⟩
    rcases hh with (⟨m, hm, hcb⟩ | hd) | hpk
    · exact Or.inl (Or.inl ⟨m, hk m hm hcb, hcb⟩)
    · exact Or.inl (Or.inr hd)
    · exact Or.inr hpk
  -- the state when a packet is registered
  have hreg : Alive rid (registerPacket { c with pendingRetryMsg := (packAll sz c t delay).2.1, outgoing := (packAll sz c t delay).2.2 } t (packAll sz c t delay).1.msgs) := by
    unfold registerPacket
    simp only
    have hcbs := registerMsgs_cbs t (packAll sz c t delay).1.msgs (packAll sz c t delay).2.1 [] []
    refine ⟨hv, ?_⟩
    rcases hh with (⟨m, hm, hcb⟩ | hd) | ⟨s', cbs, p1, p2, p3⟩
    · rcases hmem m hm with hk | htk
      · exact Or.inl (Or.inl ⟨m, hk, hcb⟩)
      · have hin := hcbs.2 m htk _ hcb
        have hne : (registerMsgs t (packAll sz c t delay).1.msgs (packAll sz c t delay).2.1 [] []).2.1.isEmpty = false := by
          cases hx : (registerMsgs t (packAll sz c t delay).1.msgs (packAll sz c t delay).2.1 [] []).2.1 with
          | nil => rw [hx] at hin; cases hin
          | cons a b => rfl
        refine Or.inr ⟨seqInc c.seqSending, _, ?_, hin, ?_⟩
        · simp only [hne]
          exact aget_aset_eq _ _ _
        · simp only [aget_aset_eq]; rfl
    · exact Or.inl (Or.inr hd)
    · have hs : s' ≠ seqInc c.seqSending := by
        intro e; subst e
        unfold FreshSeq at hf
        rw [hf] at p1; cases p1
      refine Or.inr ⟨s', cbs, ?_, p2, ?_⟩
      · simp only
        split
        · exact p1
        · rw [aget_aset_ne _ _ _ _ hs]; exact p1
      · simp only
        rw [aget_aset_ne _ _ _ _ hs]; exact p3
  split
  · rename_i hty
    apply hnone
    intro m hm hcb
    rcases hmem m hm with hk | htk
    · exact hk
    · exact absurd hty (pktType_typed c ska _ m htk hp.1)
  · split
    · exact hreg
    · exact hreg

theorem alive_buildPacket (rid : Nat) (sz : Sizes) (c : Conn) (t : Int)
    (ht : Typed c) (hf : FreshSeq c) (hl : Alive rid c) : Alive rid (buildPacket sz c t).1 := by
  unfold buildPacket
  split
  · exact hl
  · have := alive_buildPacketImpl rid sz c t c.keepAlive (decide (t - c.lastKeepAlive > c.keepAlive)) ht hf hl
    split
    · exact alive_congr rfl rfl rfl rfl this
    · exact this

/-! ### receiving -/

theorem alive_recvAppFragment (rid : Nat) (c : Conn) (t : Int) (m : Nat) (f : Bytes) (hl : Alive rid c) :
    Alive rid (recvAppFragment c t m f).1 := by
  unfold recvAppFragment
  split
  · exact hl
  · simp only
    split
    · exact alive_congr rfl rfl rfl rfl hl
    · exact alive_congr rfl rfl rfl rfl hl

/-- handshake handlers that do not lose a guaranteed message -/
def Role.KeepsAlive (R : Role) : Prop :=
  (∀ rid c t b, Alive rid c → Alive rid (R.clientHello c t b).1) ∧
  (∀ rid c t b, Alive rid c → Alive rid (R.serverHello c t b).1) ∧
  (∀ rid c t b, Alive rid c → Alive rid (R.challengeResp c t b).1)

theorem baseRole_keepsAlive : baseRole.KeepsAlive :=
  ⟨fun _ _ _ _ h => h, fun _ _ _ _ h => h, fun _ _ _ _ h => h⟩

theorem alive_recvMessage (rid : Nat) (R : Role) (hR : R.KeepsAlive) (c : Conn) (t : Int) (m : WMsg)
    (hl : Alive rid c) : Alive rid (recvMessage R c t m).1 := by
  unfold recvMessage
  split
  · exact hl
  · rename_i bf _
    have h1 : Alive rid { c with bfMsg := bf } := alive_congr rfl rfl rfl rfl hl
    simp only
    split
    · exact hR.1 _ _ _ _ h1
    · exact hR.2.1 _ _ _ _ h1
    · exact hR.2.2 _ _ _ _ h1
    · exact h1
    · exact alive_congr rfl rfl rfl rfl hl
    · exact alive_recvAppFragment rid _ t _ _ h1
    · exact alive_congr rfl rfl rfl rfl hl
    · exact h1

theorem alive_recvMessages (rid : Nat) (R : Role) (hR : R.KeepsAlive) (c : Conn) (t : Int) (ms : List WMsg)
    (hl : Alive rid c) : Alive rid (recvMessages R c t ms).1 := by
  induction ms generalizing c with
  | nil => exact hl
  | cons m rest ih =>
    simp only [recvMessages]
    have h1 := alive_recvMessage rid R hR c t m hl
    generalize recvMessage R c t m = r at *
    obtain ⟨c1, e1, o⟩ := r
    cases o with
    | some err => exact h1
    | none => exact ih c1 h1

theorem alive_recvDatagram (rid : Nat) (C : Crypto) (R : Role) (hR : R.KeepsAlive) (c : Conn) (t : Int)
    (h : Header) (d : Bytes) (hl : Alive rid c) : Alive rid (recvDatagram C R c t h d).1 := by
  have hdrop : Alive rid (drop1 c).1 := alive_congr rfl rfl rfl rfl hl
  unfold recvDatagram
  split
  · exact hdrop
  · split
    · exact hdrop
    · split
      · exact hdrop
      · split
        · exact hdrop
        · unfold accept
          simp only
          apply alive_recvMessages rid R hR
          apply alive_handleAckBits
          exact alive_congr rfl rfl rfl rfl hl

end Mpgs.Conn
