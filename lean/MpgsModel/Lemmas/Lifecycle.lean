import MpgsModel.Lemmas.Pool
import MpgsModel.Lemmas.Kick
import MpgsModel.Props.C10
/-!
Lifecycle of server-side connections over whole runs (C10).

`Legal (live, used) events`: reading the handler events in order, a `connect` is only ever seen for
an identity never seen before, `message` and `disconnect` only for an identity that is live
(connected and not yet disconnected), and a `disconnect` ends liveness.  `Inv s (live, used)` ties
the server's pools to that reading; every piece of the main loop preserves it.
-/
namespace Mpgs.Server
open Mpgs.Bytes Mpgs.Wire Mpgs.Conn

abbrev LState := List Nat × List Nat

def after : LState → List SEvent → LState
  | st, [] => st
  | st, .connect id _ _ :: t => after (id :: st.1, id :: st.2) t
  | st, .disconnect id :: t => after (st.1.filter (· ≠ id), st.2) t
  | st, .message _ _ _ :: t => after st t
  | st, .update :: t => after st t
  | st, .shutdown :: t => after st t
  | st, .sendTo _ _ _ :: t => after st t
  | st, .dropEntry _ :: t => after st t
  | st, .contained _ :: t => after st t

def Legal : LState → List SEvent → Prop
  | _, [] => True
  | st, .connect id _ _ :: t => id ∉ st.2 ∧ Legal (id :: st.1, id :: st.2) t
  | st, .message id _ _ :: t => id ∈ st.1 ∧ Legal st t
  | st, .disconnect id :: t => id ∈ st.1 ∧ Legal (st.1.filter (· ≠ id), st.2) t
  | st, .update :: t => Legal st t
  | st, .shutdown :: t => Legal st t
  | st, .sendTo _ _ _ :: t => Legal st t
  | st, .dropEntry _ :: t => Legal st t
  | st, .contained _ :: t => Legal st t

theorem after_append (st : LState) (a b : List SEvent) : after st (a ++ b) = after (after st a) b := by
  induction a generalizing st with
  | nil => rfl
  | cons e t ih => cases e <;> simp only [List.cons_append, after, ih]

theorem legal_append (st : LState) (a b : List SEvent) :
    Legal st (a ++ b) ↔ Legal st a ∧ Legal (after st a) b := by
  induction a generalizing st with
  | nil => simp [Legal, after]
  | cons e t ih =>
    cases e <;> simp only [List.cons_append, Legal, after, ih, and_assoc]

/-- events that concern no connection identity -/
def Neutral : SEvent → Prop
  | .connect _ _ _ => False
  | .message _ _ _ => False
  | .disconnect _ => False
  | _ => True

theorem neutral_cons (st : LState) (e : SEvent) (t : List SEvent) (he : Neutral e) :
    (Legal st (e :: t) ↔ Legal st t) ∧ after st (e :: t) = after st t := by
  cases e with
  | connect a b c => exact he.elim
  | message a b c => exact he.elim
  | disconnect a => exact he.elim
  | update => exact ⟨Iff.rfl, rfl⟩
  | shutdown => exact ⟨Iff.rfl, rfl⟩
  | sendTo a b c => exact ⟨Iff.rfl, rfl⟩
  | dropEntry a => exact ⟨Iff.rfl, rfl⟩
  | contained a => exact ⟨Iff.rfl, rfl⟩

theorem legal_neutral (st : LState) (evs : List SEvent) (h : ∀ e ∈ evs, Neutral e) :
    Legal st evs ∧ after st evs = st := by
  induction evs with
  | nil => exact ⟨trivial, rfl⟩
  | cons e t ih =>
    have ht := ih (fun x hx => h x (List.mem_cons_of_mem _ hx))
    have hc := neutral_cons st e t (h e (List.mem_cons_self ..))
    exact ⟨hc.1.mpr ht.1, by rw [hc.2]; exact ht.2⟩

/-- events that are messages of one live identity, or neutral -/
theorem legal_messages (st : LState) (id : Nat) (hid : id ∈ st.1) (evs : List SEvent)
    (h : ∀ e ∈ evs, (∃ sq p, e = SEvent.message id sq p) ∨ Neutral e) :
    Legal st evs ∧ after st evs = st := by
  induction evs with
  | nil => exact ⟨trivial, rfl⟩
  | cons e t ih =>
    have ht := ih (fun x hx => h x (List.mem_cons_of_mem _ hx))
    rcases h e (List.mem_cons_self ..) with ⟨sq, p, he⟩ | he
    · subst he
      exact ⟨⟨hid, ht.1⟩, ht.2⟩
    · have hc := neutral_cons st e t he
      exact ⟨hc.1.mpr ht.1, by rw [hc.2]; exact ht.2⟩

structure Inv (s : Srv) (st : LState) : Prop where
  knc : KN s.conns
  knt : KN s.temps
  lv : ∀ id, id ∈ st.1 ↔ ∃ a e, (a, e) ∈ s.conns ∧ e.id = id
  uc : ∀ a e a' e', (a, e) ∈ s.conns → (a', e') ∈ s.conns → e.id = e'.id → a = a'
  ut : ∀ a e a' e', (a, e) ∈ s.temps → (a', e') ∈ s.temps → e.id = e'.id → a = a'
  tu : ∀ a e, (a, e) ∈ s.temps → e.id ∉ st.2 ∧ e.id < s.born
  lu : ∀ id, id ∈ st.1 → id ∈ st.2
  ub : ∀ id, id ∈ st.2 → id < s.born

theorem inv_init (cfg : SCfg) : Inv { cfg := cfg } ([], []) where
  knc := kn_nil
  knt := kn_nil
  lv := by intro id; simp
  uc := by intro a e a' e' h; simp at h
  ut := by intro a e a' e' h; simp at h
  tu := by intro a e h; simp at h
  lu := by intro id h; simp at h
  ub := by intro id h; simp at h

/-- (A) the connection object of a connected client is replaced by a newer version of itself -/
theorem inv_conn_update (s : Srv) (st : LState) (a : Addr) (e : Ent) (c : Conn) (hi : Inv s st)
    (hg : pget s.conns a = some e) : Inv { s with conns := pset s.conns a { e with conn := c } } st := by
  have hm := pget_some_mem _ _ _ hg
  have key : ∀ k w, (k, w) ∈ pset s.conns a { e with conn := c } → ∃ w0, (k, w0) ∈ s.conns ∧ w0.id = w.id := by
    intro k w h
    rcases (pset_mem s.conns a _ hi.knc k w).mp h with ⟨h1, _⟩ | ⟨h1, h2⟩
    · exact ⟨w, h1, rfl⟩
    · subst h1; subst h2; exact ⟨e, hm, rfl⟩
  refine ⟨kn_pset _ _ _ hi.knc, hi.knt, ?_, ?_, hi.ut, hi.tu, hi.lu, hi.ub⟩
  · intro id
    rw [hi.lv id]
    constructor
    · rintro ⟨k, w, hw, hid⟩
      by_cases hk : k = a
      · subst hk
        have : w = e := by
          have := pget_of_mem _ _ _ hi.knc hw
          rw [hg] at this; injection this with this; exact this.symm
        subst this
        exact ⟨k, { w with conn := c }, (pset_mem _ _ _ hi.knc _ _).mpr (Or.inr ⟨rfl, rfl⟩), hid⟩
      · exact ⟨k, w, (pset_mem _ _ _ hi.knc _ _).mpr (Or.inl ⟨hw, hk⟩), hid⟩
    · rintro ⟨k, w, hw, hid⟩
      obtain ⟨w0, h0, h1⟩ := key k w hw
      exact ⟨k, w0, h0, by rw [h1]; exact hid⟩
  · intro k w k' w' h h' hid
    obtain ⟨w0, h0, h1⟩ := key k w h
    obtain ⟨w0', h0', h1'⟩ := key k' w' h'
    exact hi.uc k w0 k' w0' h0 h0' (by rw [h1, h1']; exact hid)

/-- (B) the same for a client that is still in the handshake pool -/
theorem inv_temp_update (s : Srv) (st : LState) (a : Addr) (e : Ent) (c : Conn) (hi : Inv s st)
    (hg : pget s.temps a = some e) : Inv { s with temps := pset s.temps a { e with conn := c } } st := by
  have hm := pget_some_mem _ _ _ hg
  have key : ∀ k w, (k, w) ∈ pset s.temps a { e with conn := c } → ∃ w0, (k, w0) ∈ s.temps ∧ w0.id = w.id := by
    intro k w h
    rcases (pset_mem s.temps a _ hi.knt k w).mp h with ⟨h1, _⟩ | ⟨h1, h2⟩
    · exact ⟨w, h1, rfl⟩
    · subst h1; subst h2; exact ⟨e, hm, rfl⟩
  refine ⟨hi.knc, kn_pset _ _ _ hi.knt, hi.lv, hi.uc, ?_, ?_, hi.lu, hi.ub⟩
  · intro k w k' w' h h' hid
    obtain ⟨w0, h0, h1⟩ := key k w h
    obtain ⟨w0', h0', h1'⟩ := key k' w' h'
    exact hi.ut k w0 k' w0' h0 h0' (by rw [h1, h1']; exact hid)
  · intro k w h
    obtain ⟨w0, h0, h1⟩ := key k w h
    have := hi.tu k w0 h0
    rw [h1] at this; exact this

/-- (F) an entry leaves the handshake pool -/
theorem inv_temp_remove (s : Srv) (st : LState) (a : Addr) (hi : Inv s st) :
    Inv { s with temps := pdel s.temps a } st := by
  have sub : ∀ k w, (k, w) ∈ pdel s.temps a → (k, w) ∈ s.temps := fun k w h => ((pdel_mem _ _ hi.knt k w).mp h).1
  exact ⟨hi.knc, kn_pdel _ _ hi.knt, hi.lv, hi.uc,
    fun k w k' w' h h' => hi.ut k w k' w' (sub k w h) (sub k' w' h'),
    fun k w h => hi.tu k w (sub k w h), hi.lu, hi.ub⟩

/-- (D) a new client: a fresh identity enters the handshake pool -/
theorem inv_new (s : Srv) (st : LState) (a : Addr) (c : Conn) (hi : Inv s st) (hg : pget s.temps a = none) :
    Inv { s with temps := pset s.temps a ⟨s.born, c⟩, born := s.born + 1 } st := by
  have hnot := pget_none_not_mem _ _ hg
  have key : ∀ k w, (k, w) ∈ pset s.temps a ⟨s.born, c⟩ → (k, w) ∈ s.temps ∨ (k = a ∧ w = ⟨s.born, c⟩) := by
    intro k w h
    rcases (pset_mem s.temps a _ hi.knt k w).mp h with ⟨h1, _⟩ | h1
    · exact Or.inl h1
    · exact Or.inr h1
  refine ⟨hi.knc, kn_pset _ _ _ hi.knt, hi.lv, hi.uc, ?_, ?_, hi.lu, fun id h => Nat.lt_succ_of_lt (hi.ub id h)⟩
  · intro k w k' w' h h' hid
    rcases key k w h with h1 | ⟨h1, h2⟩ <;> rcases key k' w' h' with h1' | ⟨h1', h2'⟩
    · exact hi.ut k w k' w' h1 h1' hid
    · subst h2'
      have := (hi.tu k w h1).2
      simp only at hid
      omega
    · subst h2
      have := (hi.tu k' w' h1').2
      simp only at hid
      omega
    · rw [h1, h1']
  · intro k w h
    rcases key k w h with h1 | ⟨h1, h2⟩
    · exact ⟨(hi.tu k w h1).1, Nat.lt_succ_of_lt (hi.tu k w h1).2⟩
    · subst h2
      exact ⟨fun hu => Nat.lt_irrefl _ (hi.ub _ hu), Nat.lt_succ_self _⟩

/-- (C) promotion: the entry moves from the handshake pool to the connected pool -/
theorem inv_promote (s : Srv) (st : LState) (a : Addr) (e : Ent) (c : Conn) (hi : Inv s st)
    (hc : pget s.conns a = none) (ht : pget s.temps a = some e) :
    Inv { s with temps := pdel s.temps a, conns := pset s.conns a { e with conn := c } } (e.id :: st.1, e.id :: st.2) := by
  have hm := pget_some_mem _ _ _ ht
  have hnot := pget_none_not_mem _ _ hc
  have hfresh := (hi.tu a e hm).1
  have keyc : ∀ k w, (k, w) ∈ pset s.conns a { e with conn := c } ↔ (k, w) ∈ s.conns ∨ (k = a ∧ w = { e with conn := c }) := by
    intro k w
    rw [pset_mem s.conns a _ hi.knc k w]
    constructor
    · rintro (⟨h1, _⟩ | h1)
      · exact Or.inl h1
      · exact Or.inr h1
    · rintro (h1 | h1)
      · left; refine ⟨h1, ?_⟩; intro hk; subst hk; exact hnot w h1
      · exact Or.inr h1
  have keyt : ∀ k w, (k, w) ∈ pdel s.temps a ↔ (k, w) ∈ s.temps ∧ k ≠ a := pdel_mem _ _ hi.knt
  refine ⟨kn_pset _ _ _ hi.knc, kn_pdel _ _ hi.knt, ?_, ?_, ?_, ?_, ?_, ?_⟩
  · intro id
    simp only [List.mem_cons]
    constructor
    · rintro (h | h)
      · exact ⟨a, { e with conn := c }, (keyc _ _).mpr (Or.inr ⟨rfl, rfl⟩), h.symm⟩
      · obtain ⟨k, w, hw, hid⟩ := (hi.lv id).mp h
        exact ⟨k, w, (keyc _ _).mpr (Or.inl hw), hid⟩
    · rintro ⟨k, w, hw, hid⟩
      rcases (keyc k w).mp hw with h1 | ⟨_, h2⟩
      · exact Or.inr ((hi.lv id).mpr ⟨k, w, h1, hid⟩)
      · subst h2; exact Or.inl hid.symm
  · intro k w k' w' h h' hid
    rcases (keyc k w).mp h with h1 | ⟨h1, h2⟩ <;> rcases (keyc k' w').mp h' with h1' | ⟨h1', h2'⟩
    · exact hi.uc k w k' w' h1 h1' hid
    · subst h2'
      exfalso; apply hfresh
      exact hi.lu _ ((hi.lv _).mpr ⟨k, w, h1, hid⟩)
    · subst h2
      exfalso; apply hfresh
      exact hi.lu _ ((hi.lv _).mpr ⟨k', w', h1', hid.symm⟩)
    · rw [h1, h1']
  · intro k w k' w' h h' hid
    exact hi.ut k w k' w' ((keyt k w).mp h).1 ((keyt k' w').mp h').1 hid
  · intro k w h
    have h1 := (keyt k w).mp h
    have := hi.tu k w h1.1
    refine ⟨?_, this.2⟩
    simp only [List.mem_cons, not_or]
    refine ⟨?_, this.1⟩
    intro hid
    exact h1.2 (hi.ut k w a e h1.1 hm hid)
  · intro id h
    simp only [List.mem_cons] at h ⊢
    rcases h with h | h
    · exact Or.inl h
    · exact Or.inr (hi.lu id h)
  · intro id h
    simp only [List.mem_cons] at h
    rcases h with h | h
    · rw [h]; exact (hi.tu a e hm).2
    · exact hi.ub id h

/-- (E) a connected client is removed: its identity stops being live -/
theorem inv_disconnect (s : Srv) (st : LState) (a : Addr) (e : Ent) (hi : Inv s st) (hg : pget s.conns a = some e) :
    Inv { s with conns := pdel s.conns a } (st.1.filter (· ≠ e.id), st.2) := by
  have hm := pget_some_mem _ _ _ hg
  have key : ∀ k w, (k, w) ∈ pdel s.conns a ↔ (k, w) ∈ s.conns ∧ k ≠ a := pdel_mem _ _ hi.knc
  refine ⟨kn_pdel _ _ hi.knc, hi.knt, ?_, ?_, hi.ut, hi.tu, ?_, hi.ub⟩
  · intro id
    simp only [List.mem_filter, decide_eq_true_eq]
    constructor
    · rintro ⟨h, hne⟩
      obtain ⟨k, w, hw, hid⟩ := (hi.lv id).mp h
      refine ⟨k, w, (key k w).mpr ⟨hw, ?_⟩, hid⟩
      intro hk; subst hk
      have : w = e := by
        have := pget_of_mem _ _ _ hi.knc hw
        rw [hg] at this; injection this with this; exact this.symm
      subst this
      exact hne hid.symm
    · rintro ⟨k, w, hw, hid⟩
      have h1 := (key k w).mp hw
      refine ⟨(hi.lv id).mpr ⟨k, w, h1.1, hid⟩, ?_⟩
      intro hne
      exact h1.2 (hi.uc k w a e h1.1 hm (by rw [hid, hne]))
  · intro k w k' w' h h' hid
    exact hi.uc k w k' w' ((key k w).mp h).1 ((key k' w').mp h').1 hid
  · intro id h
    simp only [List.mem_filter] at h
    exact hi.lu id h.1

/-! ### the pieces of the main loop -/

theorem lc_pget_pset_self (p : Pool) (a : Addr) (v : Ent) : pget (pset p a v) a = some v := by
  induction p with
  | nil => simp [pset, pget]
  | cons x t ih =>
    obtain ⟨k, w⟩ := x
    simp only [pset]
    by_cases h : k = a
    · simp [h, pget]
    · simp [h, pget, ih]

theorem contained_neutral (w : String) : Neutral (SEvent.contained w) := trivial

theorem handleItem_step (sz : Sizes) (C : Crypto) (s : Srv) (t : Int) (it : Item) (acts : List HAct) (st : LState)
    (hi : Inv s st) :
    Legal st (handleItem sz C s t it acts).2.2 ∧
    Inv (handleItem sz C s t it acts).1 (after st (handleItem sz C s t it acts).2.2) := by
  unfold handleItem
  cases hc : pget s.conns it.addr with
  | some e =>
    simp only
    have hlive : e.id ∈ st.1 := (hi.lv e.id).mpr ⟨it.addr, e, pget_some_mem _ _ _ hc, rfl⟩
    split
    · have hn := legal_neutral st [SEvent.contained "datagram"] (by intro x hx; simp at hx; subst hx; trivial)
      exact ⟨hn.1, by rw [hn.2]; exact inv_conn_update s st it.addr e _ hi hc⟩
    · have hev := dispatchMsgs_events sz e.id
        (recvDatagram C (serverRole it.H (tokFor s it) ((pget s.temps it.addr).map (·.conn.token))) e.conn t it.hdr it.d).1.incoming
        (recvDatagram C (serverRole it.H (tokFor s it) ((pget s.temps it.addr).map (·.conn.token))) e.conn t it.hdr it.d).1 acts
      have hm := legal_messages st e.id hlive _ (by
        intro x hx
        rcases hev x hx with ⟨sq, p, h1, _⟩ | ⟨w, h1⟩
        · exact Or.inl ⟨sq, p, h1⟩
        · right; rw [h1]; trivial)
      exact ⟨hm.1, by rw [hm.2]; exact inv_conn_update s st it.addr e _ hi hc⟩
  | none =>
    simp only
    cases ht : pget s.temps it.addr with
    | some e =>
      simp only
      split
      · exact ⟨trivial, hi⟩
      · split
        · -- promoted
          have hfresh := (hi.tu it.addr e (pget_some_mem _ _ _ ht)).1
          have hinv := inv_promote s st it.addr e
            (recvDatagram C (serverRoleOn it.H (tokFor s it) (some e.conn.token) (fun c => actOn sz c (nextAct acts).1)) e.conn t it.hdr it.d).1 hi hc ht
          have hrest : ∀ (tail : List SEvent), (∀ x ∈ tail, Neutral x) → ∀ tk,
              Legal st ([SEvent.connect e.id it.addr tk] ++ tail) ∧
              after st ([SEvent.connect e.id it.addr tk] ++ tail) = (e.id :: st.1, e.id :: st.2) := by
            intro tail hn tk
            have h2 := legal_neutral (e.id :: st.1, e.id :: st.2) tail hn
            exact ⟨⟨hfresh, h2.1⟩, h2.2⟩
          split
          · have := hrest ((if (nextAct acts).1.raises = true then [SEvent.contained "connect"] else []) ++ [SEvent.contained "datagram"])
              (by
                intro x hx
                rcases List.mem_append.mp hx with h | h
                · split at h
                  · simp at h; subst h; trivial
                  · simp at h
                · simp at h; subst h; trivial) (recvDatagram C (serverRoleOn it.H (tokFor s it) (some e.conn.token) (fun c => actOn sz c (nextAct acts).1)) e.conn t it.hdr it.d).1.token
            simp only [List.append_assoc] at this ⊢
            exact ⟨this.1, by rw [this.2]; exact hinv⟩
          · have := hrest (if (nextAct acts).1.raises = true then [SEvent.contained "connect"] else [])
              (by
                intro x hx
                split at hx
                · simp at hx; subst hx; trivial
                · simp at hx) (recvDatagram C (serverRoleOn it.H (tokFor s it) (some e.conn.token) (fun c => actOn sz c (nextAct acts).1)) e.conn t it.hdr it.d).1.token
            exact ⟨this.1, by rw [this.2]; exact hinv⟩
        · split
          · have hn := legal_neutral st [SEvent.contained "datagram"] (by intro x hx; simp at hx; subst hx; trivial)
            exact ⟨hn.1, by rw [hn.2]; exact inv_temp_update s st it.addr e _ hi ht⟩
          · exact ⟨trivial, inv_temp_update s st it.addr e _ hi ht⟩
    | none =>
      simp only
      split
      · exact ⟨trivial, hi⟩
      · have h0 := inv_new s st it.addr { isServer := true, keepAlive := s.cfg.keepAlive, outgoingTimeout := s.cfg.outgoingTimeout } hi ht
        have hg : pget (pset s.temps it.addr ⟨s.born, { isServer := true, keepAlive := s.cfg.keepAlive, outgoingTimeout := s.cfg.outgoingTimeout }⟩) it.addr
            = some ⟨s.born, { isServer := true, keepAlive := s.cfg.keepAlive, outgoingTimeout := s.cfg.outgoingTimeout }⟩ := lc_pget_pset_self _ _ _
        have h1 := fun c => inv_temp_update { s with temps := pset s.temps it.addr ⟨s.born, { isServer := true, keepAlive := s.cfg.keepAlive, outgoingTimeout := s.cfg.outgoingTimeout }⟩, born := s.born + 1 } st it.addr
          ⟨s.born, { isServer := true, keepAlive := s.cfg.keepAlive, outgoingTimeout := s.cfg.outgoingTimeout }⟩ c h0 hg
        split
        · have hn := legal_neutral st [SEvent.contained "datagram"] (by intro x hx; simp at hx; subst hx; trivial)
          exact ⟨hn.1, by rw [hn.2]; exact h1 _⟩
        · exact ⟨trivial, h1 _⟩

theorem handleItems_step (sz : Sizes) (C : Crypto) (t : Int) (s : Srv) (items : List Item) (acts : List HAct) (st : LState)
    (hi : Inv s st) :
    Legal st (handleItems sz C t s items acts).2.2 ∧
    Inv (handleItems sz C t s items acts).1 (after st (handleItems sz C t s items acts).2.2) := by
  induction items generalizing s acts st with
  | nil => exact ⟨trivial, hi⟩
  | cons it rest ih =>
    simp only [handleItems]
    have h1 := handleItem_step sz C s t it acts st hi
    generalize handleItem sz C s t it acts = r1 at h1
    obtain ⟨s1, acts1, e1⟩ := r1
    simp only at h1 ⊢
    have h2 := ih s1 acts1 (after st e1) h1.2
    generalize handleItems sz C t s1 rest acts1 = r2 at h2
    obtain ⟨s2, acts2, e2⟩ := r2
    simp only at h2 ⊢
    exact ⟨(legal_append st e1 e2).mpr ⟨h1.1, h2.1⟩, by rw [after_append]; exact h2.2⟩

theorem updateOut_neutral (C : Crypto) (sz : Sizes) (addr : Addr) (c : Conn) (t : Int) :
    ∀ x ∈ (updateOut C sz addr c t).2, Neutral x := by
  unfold updateOut
  intro x hx
  split at hx
  · split at hx <;> (simp at hx; subst hx; trivial)
  · simp at hx
  · simp at hx; subst hx; trivial

theorem sweepConns_step (C : Crypto) (sz : Sizes) (t : Int) (s : Srv) (snap : List (Addr × Ent)) (acts : List HAct)
    (st : LState) (hi : Inv s st) :
    Legal st (sweepConns C sz t s snap acts).2.2 ∧
    Inv (sweepConns C sz t s snap acts).1 (after st (sweepConns C sz t s snap acts).2.2) ∧
    (sweepConns C sz t s snap acts).1.temps = s.temps ∧ (sweepConns C sz t s snap acts).1.born = s.born := by
  induction snap generalizing s acts st with
  | nil => exact ⟨trivial, hi, rfl, rfl⟩
  | cons x rest ih =>
    obtain ⟨addr, e0⟩ := x
    simp only [sweepConns]
    cases hc : pget s.conns addr with
    | none => exact ih s acts st hi
    | some e =>
      simp only
      have hlive : e.id ∈ st.1 := (hi.lv e.id).mpr ⟨addr, e, pget_some_mem _ _ _ hc, rfl⟩
      generalize (if e.conn.status = Status.disconnecting then Conn.disconnect e.conn none else e.conn) = c1
      by_cases hcond : c1.status = Status.disconnected ∨ timedOut c1 t s.cfg.connTimeout = true
      · -- removed: disconnect event
        simp only [hcond, if_true]
        have hinv := inv_disconnect s st addr e hi hc
        have hout := updateOut_neutral C sz addr (actOn sz c1 (nextAct acts).1) t
        have h2 := ih { s with conns := pdel s.conns addr } (nextAct acts).2 (st.1.filter (· ≠ e.id), st.2) hinv
        generalize sweepConns C sz t { s with conns := pdel s.conns addr } rest (nextAct acts).2 = r2 at h2
        obtain ⟨s2, acts2, e2⟩ := r2
        simp only at h2 ⊢
        have hmid : ∀ x ∈ (if (nextAct acts).1.raises = true then [SEvent.contained "disconnect"] else []) ++
            (updateOut C sz addr (actOn sz c1 (nextAct acts).1) t).2, Neutral x := by
          intro x hx
          rcases List.mem_append.mp hx with h | h
          · split at h
            · simp at h; subst h; trivial
            · simp at h
          · exact hout x h
        have hn := legal_neutral (st.1.filter (· ≠ e.id), st.2) _ hmid
        refine ⟨?_, ?_, h2.2.2.1, h2.2.2.2⟩
        · simp only [List.append_assoc, List.cons_append, List.nil_append, Legal]
          refine ⟨hlive, ?_⟩
          rw [← List.append_assoc]
          exact (legal_append _ _ _).mpr ⟨hn.1, by rw [hn.2]; exact h2.1⟩
        · simp only [List.append_assoc, List.cons_append, List.nil_append, after]
          rw [← List.append_assoc, after_append, hn.2]
          exact h2.2.1
      · -- kept: the connection object is updated
        simp only [hcond, if_false]
        have hinv := inv_conn_update s st addr e (updateOut C sz addr c1 t).1 hi hc
        have hout := updateOut_neutral C sz addr c1 t
        have h2 := ih { s with conns := pset s.conns addr { e with conn := (updateOut C sz addr c1 t).1 } } acts st hinv
        generalize sweepConns C sz t { s with conns := pset s.conns addr { e with conn := (updateOut C sz addr c1 t).1 } } rest acts = r2 at h2
        obtain ⟨s2, acts2, e2⟩ := r2
        simp only at h2 ⊢
        have hn := legal_neutral st _ hout
        exact ⟨(legal_append _ _ _).mpr ⟨hn.1, by rw [hn.2]; exact h2.1⟩, by rw [after_append, hn.2]; exact h2.2.1, h2.2.2.1, h2.2.2.2⟩

theorem lc_pget_pset_ne (p : Pool) (a b : Addr) (v : Ent) (h : b ≠ a) : pget (pset p a v) b = pget p b := by
  induction p with
  | nil =>
    have : ¬ a = b := fun e => h e.symm
    simp [pset, pget, this]
  | cons x t ih =>
    obtain ⟨k, w⟩ := x
    simp only [pset]
    by_cases hk : k = a
    · subst hk
      have : ¬ k = b := fun e => h e.symm
      simp [pget, this]
    · simp only [hk, if_false, pget]
      by_cases hb : k = b
      · simp [hb]
      · simp [hb, ih]

theorem lc_pget_pdel_ne (p : Pool) (a b : Addr) (h : b ≠ a) : pget (pdel p a) b = pget p b := by
  induction p with
  | nil => rfl
  | cons x t ih =>
    obtain ⟨k, w⟩ := x
    simp only [pdel]
    by_cases hk : k = a
    · subst hk
      have : ¬ k = b := fun e => h e.symm
      simp [pget, this]
    · simp only [hk, if_false, pget]
      by_cases hb : k = b
      · simp [hb]
      · simp [hb, ih]

theorem sweepTemps_step (C : Crypto) (sz : Sizes) (t : Int) (s : Srv) (snap : List (Addr × Ent)) (st : LState)
    (hi : Inv s st) (hsnap : ∀ x ∈ snap, pget s.temps x.1 = some x.2) (hnd : (snap.map (·.1)).Nodup) :
    Legal st (sweepTemps C sz t s snap).2 ∧
    Inv (sweepTemps C sz t s snap).1 (after st (sweepTemps C sz t s snap).2) := by
  induction snap generalizing s st with
  | nil => exact ⟨trivial, hi⟩
  | cons x rest ih =>
    obtain ⟨addr, e⟩ := x
    simp only [List.map_cons, List.nodup_cons] at hnd
    have hne : ∀ y ∈ rest, y.1 ≠ addr := by
      intro y hy heq
      exact hnd.1 (List.mem_map.mpr ⟨y, hy, heq⟩)
    have hcur : pget s.temps addr = some e := hsnap (addr, e) (List.mem_cons_self ..)
    simp only [sweepTemps]
    split
    · apply ih _ st (inv_temp_remove s st addr hi) _ hnd.2
      intro y hy
      simp only
      rw [lc_pget_pdel_ne _ _ _ (hne y hy)]
      exact hsnap y (List.mem_cons_of_mem _ hy)
    · have hinv := inv_temp_update s st addr e (updateOut C sz addr e.conn t).1 hi hcur
      have hout := updateOut_neutral C sz addr e.conn t
      have h2 := ih { s with temps := pset s.temps addr { e with conn := (updateOut C sz addr e.conn t).1 } } st hinv
        (by
          intro y hy
          simp only
          rw [lc_pget_pset_ne _ _ _ _ (hne y hy)]
          exact hsnap y (List.mem_cons_of_mem _ hy)) hnd.2
      generalize sweepTemps C sz t { s with temps := pset s.temps addr { e with conn := (updateOut C sz addr e.conn t).1 } } rest = r2 at h2
      obtain ⟨s2, e2⟩ := r2
      simp only at h2 ⊢
      have hn := legal_neutral st _ hout
      exact ⟨(legal_append _ _ _).mpr ⟨hn.1, by rw [hn.2]; exact h2.1⟩, by rw [after_append, hn.2]; exact h2.2⟩

/-- the update handler disconnecting everybody changes no address and no identity -/
theorem inv_kickAll (s : Srv) (st : LState) (hi : Inv s st) : Inv (kickAll s) st where
  knc := by unfold KN; rw [kickAll_keys]; exact hi.knc
  knt := hi.knt
  lv := by
    intro id
    rw [hi.lv id]
    constructor
    · rintro ⟨a, e, hm, hid⟩
      exact ⟨a, kickEnt e, (kickAll_mem s a _).mpr ⟨e, hm, rfl⟩, hid⟩
    · rintro ⟨a, e, hm, hid⟩
      obtain ⟨e0, hm0, rfl⟩ := (kickAll_mem s a e).mp hm
      exact ⟨a, e0, hm0, hid⟩
  uc := by
    intro a e a' e' h1 h2 hid
    obtain ⟨e0, hm0, rfl⟩ := (kickAll_mem s a e).mp h1
    obtain ⟨e0', hm0', rfl⟩ := (kickAll_mem s a' e').mp h2
    exact hi.uc a e0 a' e0' hm0 hm0' hid
  ut := hi.ut
  tu := hi.tu
  lu := hi.lu
  ub := hi.ub

theorem inv_maybeKick (s : Srv) (st : LState) (a : HAct) (hi : Inv s st) :
    Inv (if a = HAct.kick then kickAll s else s) st := by
  split
  · exact inv_kickAll s st hi
  · exact hi

theorem iter_step (sz : Sizes) (C : Crypto) (s : Srv) (tq ts : Int) (batch : List Item) (acts : List HAct) (st : LState)
    (hi : Inv s st) :
    Legal st (iter sz C s tq ts batch acts).2 ∧ Inv (iter sz C s tq ts batch acts).1 (after st (iter sz C s tq ts batch acts).2) := by
  unfold iter
  have h1 := handleItems_step sz C tq s batch acts st hi
  generalize handleItems sz C tq s batch acts = r1 at h1
  obtain ⟨s1, acts1, e1⟩ := r1
  simp only at h1 ⊢
  have hu : ∀ x ∈ [SEvent.update] ++ (if (nextAct acts1).1.raises = true then [SEvent.contained "update"] else []), Neutral x := by
    intro x hx
    rcases List.mem_append.mp hx with h | h
    · simp at h; subst h; trivial
    · split at h
      · simp at h; subst h; trivial
      · simp at h
  have hn := legal_neutral (after st e1) _ hu
  have h2 := sweepConns_step C sz ts (if (nextAct acts1).1 = HAct.kick then kickAll s1 else s1)
    (if (nextAct acts1).1 = HAct.kick then kickAll s1 else s1).conns (nextAct acts1).2 (after st e1)
    (inv_maybeKick s1 (after st e1) (nextAct acts1).1 h1.2)
  generalize sweepConns C sz ts (if (nextAct acts1).1 = HAct.kick then kickAll s1 else s1)
    (if (nextAct acts1).1 = HAct.kick then kickAll s1 else s1).conns (nextAct acts1).2 = r2 at h2
  obtain ⟨s2, acts2, e2⟩ := r2
  simp only at h2 ⊢
  have h3 := sweepTemps_step C sz ts s2 s2.temps (after (after st e1) e2) h2.2.1
    (fun x hx => pget_of_mem _ _ _ h2.2.1.knt hx) h2.2.1.knt
  generalize sweepTemps C sz ts s2 s2.temps = r3 at h3
  obtain ⟨s3, e3⟩ := r3
  simp only at h3 ⊢
  constructor
  · rw [List.append_assoc, List.append_assoc]
    refine (legal_append _ _ _).mpr ⟨h1.1, ?_⟩
    refine (legal_append _ _ _).mpr ⟨hn.1, ?_⟩
    rw [hn.2]
    exact (legal_append _ _ _).mpr ⟨h2.1, h3.1⟩
  · rw [List.append_assoc, List.append_assoc, after_append, after_append, hn.2, after_append]
    exact h3.2

/-! ### whole runs -/

structure IterIn where
  tq : Int
  ts : Int
  batch : List Item
  acts : List HAct

/-- the main loop over any number of iterations -/
def runLoop (sz : Sizes) (C : Crypto) : Srv → List IterIn → Srv × List SEvent
  | s, [] => (s, [])
  | s, i :: rest =>
    let r1 := iter sz C s i.tq i.ts i.batch i.acts
    let r2 := runLoop sz C r1.1 rest
    (r2.1, r1.2 ++ r2.2)

theorem runLoop_step (sz : Sizes) (C : Crypto) (s : Srv) (ins : List IterIn) (st : LState) (hi : Inv s st) :
    Legal st (runLoop sz C s ins).2 ∧ Inv (runLoop sz C s ins).1 (after st (runLoop sz C s ins).2) := by
  induction ins generalizing s st with
  | nil => exact ⟨trivial, hi⟩
  | cons i rest ih =>
    simp only [runLoop]
    have h1 := iter_step sz C s i.tq i.ts i.batch i.acts st hi
    have h2 := ih _ _ h1.2
    exact ⟨(legal_append _ _ _).mpr ⟨h1.1, h2.1⟩, by rw [after_append]; exact h2.2⟩

/-- the shutdown sweep over a pool whose identities are live and pairwise distinct -/
theorem shutdown_step (pool : Pool) (acts : List HAct) (st : LState)
    (hl : ∀ x ∈ pool, x.2.id ∈ st.1) (hnd : (pool.map (·.2.id)).Nodup) :
    Legal st (shutdownSweep pool acts) ∧
    (after st (shutdownSweep pool acts)).1 = st.1.filter (fun id => id ∉ pool.map (·.2.id)) := by
  induction pool generalizing acts st with
  | nil =>
    refine ⟨trivial, ?_⟩
    simp only [shutdownSweep, after, List.map_nil, List.not_mem_nil, not_false_eq_true, decide_true]
    induction st.1 with
    | nil => rfl
    | cons a t ih => simp only [List.filter]; rw [← ih]
  | cons x rest ih =>
    obtain ⟨a, e⟩ := x
    simp only [List.map_cons, List.nodup_cons] at hnd
    simp only [shutdownSweep]
    have hmid : ∀ y ∈ (if (nextAct acts).1.raises = true then [SEvent.contained "disconnect"] else []), Neutral y := by
      intro y hy
      split at hy
      · simp at hy; subst hy; trivial
      · simp at hy
    have hn := legal_neutral (st.1.filter (· ≠ e.id), st.2) _ hmid
    have hl' : ∀ y ∈ rest, y.2.id ∈ (st.1.filter (· ≠ e.id), st.2).1 := by
      intro y hy
      simp only [List.mem_filter, decide_eq_true_eq]
      refine ⟨hl y (List.mem_cons_of_mem _ hy), ?_⟩
      intro heq
      exact hnd.1 (List.mem_map.mpr ⟨y, hy, heq⟩)
    have h2 := ih (nextAct acts).2 (st.1.filter (· ≠ e.id), st.2) hl' hnd.2
    constructor
    · simp only [List.append_assoc, List.cons_append, List.nil_append, Legal]
      exact ⟨hl (a, e) (List.mem_cons_self ..), (legal_append _ _ _).mpr ⟨hn.1, by rw [hn.2]; exact h2.1⟩⟩
    · simp only [List.append_assoc, List.cons_append, List.nil_append, after]
      rw [after_append, hn.2, h2.2]
      simp only [List.filter_filter, List.map_cons, List.mem_cons, not_or]
      congr 1
      funext id
      by_cases h1 : id = e.id <;> simp [h1]

theorem inv_ids_nodup (s : Srv) (st : LState) (hi : Inv s st) : (s.conns.map (·.2.id)).Nodup := by
  have hk := hi.knc
  have hu := hi.uc
  generalize s.conns = p at hk hu
  induction p with
  | nil => simp
  | cons x t ih =>
    obtain ⟨a, e⟩ := x
    simp only [KN, List.map_cons, List.nodup_cons] at hk
    simp only [List.map_cons, List.nodup_cons]
    refine ⟨?_, ih hk.2 (fun a1 e1 a2 e2 h1 h2 => hu a1 e1 a2 e2 (List.mem_cons_of_mem _ h1) (List.mem_cons_of_mem _ h2))⟩
    intro hmem
    obtain ⟨y, hy, hid⟩ := List.mem_map.mp hmem
    have := hu y.1 y.2 a e (List.mem_cons_of_mem _ hy) (List.mem_cons_self ..) hid
    exact hk.1 (List.mem_map.mpr ⟨y, hy, this⟩)

end Mpgs.Server
