import MpgsModel.Lemmas.C12Step
/-! Invariant for C12: every message a connection holds for sending (queued, awaiting resend, inside a
`RetrySender`) carries a real packet type.  `_send_type` is only ever called with one, so the
invariant holds from a fresh connection on; with it `_build_packet_impl` can only answer "nothing to
send" when it packed no message. -/
namespace Mpgs.Conn
open Mpgs.Bytes Mpgs.Wire

def Typed (c : Conn) : Prop :=
  (∀ m ∈ c.outgoing, m.ty ≠ .unknown) ∧ (∀ p ∈ c.pendingRetryMsg, p.2.ty ≠ .unknown) ∧
  (∀ r ∈ c.retryObjs, r.ty ≠ .unknown)

/-- the invariant only reads three fields -/
theorem Typed.of_eq (a b : Conn) (h1 : a.outgoing = b.outgoing) (h2 : a.pendingRetryMsg = b.pendingRetryMsg)
    (h3 : a.retryObjs = b.retryObjs) (h : Typed b) : Typed a := by
  unfold Typed at *
  rw [h1, h2, h3]; exact h

/-! ### membership in the list helpers -/

theorem t_mem_aset {α : Type} (l : List (Nat × α)) (k : Nat) (v : α) (x : Nat × α) (h : x ∈ aset l k v) :
    x ∈ l ∨ x = (k, v) := by
  induction l with
  | nil => simp [aset] at h; exact Or.inr h
  | cons a l ih =>
    obtain ⟨ka, va⟩ := a
    simp only [aset] at h
    split at h
    · rename_i hk
      simp only [List.mem_cons] at h ⊢
      rcases h with h | h
      · right; rw [h, hk]
      · left; right; exact h
    · simp only [List.mem_cons] at h ⊢
      rcases h with h | h
      · left; left; exact h
      · rcases ih h with h | h
        · left; right; exact h
        · right; exact h

theorem t_mem_adel {α : Type} (l : List (Nat × α)) (k : Nat) (x : Nat × α) (h : x ∈ adel l k) : x ∈ l := by
  induction l with
  | nil => simp [adel] at h
  | cons a l ih =>
    obtain ⟨ka, va⟩ := a
    simp only [adel] at h
    split at h
    · exact List.mem_cons_of_mem _ h
    · simp only [List.mem_cons] at h ⊢
      rcases h with h | h
      · left; exact h
      · right; exact ih h

theorem t_mem_setObj {α : Type} (l : List α) (i : Nat) (v x : α) (h : x ∈ setObj l i v) : x ∈ l ∨ x = v := by
  induction l generalizing i with
  | nil => simp [setObj] at h
  | cons a l ih =>
    cases i with
    | zero =>
      simp only [setObj, List.mem_cons] at h ⊢
      rcases h with h | h
      · right; exact h
      · left; right; exact h
    | succ n =>
      simp only [setObj, List.mem_cons] at h ⊢
      rcases h with h | h
      · left; left; exact h
      · rcases ih n h with h | h
        · left; right; exact h
        · right; exact h

theorem t_mem_clearRetry (prm : List (Nat × PMsg)) (ks : List Nat) (x : Nat × PMsg) (h : x ∈ clearRetry prm ks) :
    x ∈ prm := by
  induction ks generalizing prm with
  | nil => exact h
  | cons k ks ih => exact t_mem_adel prm k x (ih _ h)

theorem t_mem_insertBySeq (x : Nat × PMsg) (l : List (Nat × PMsg)) (y : Nat × PMsg) (h : y ∈ insertBySeq x l) :
    y = x ∨ y ∈ l := by
  induction l with
  | nil => simp [insertBySeq] at h; exact Or.inl h
  | cons a l ih =>
    simp only [insertBySeq] at h
    split at h
    · simp only [List.mem_cons] at h ⊢
      rcases h with h | h | h
      · left; exact h
      · right; left; exact h
      · right; right; exact h
    · simp only [List.mem_cons] at h ⊢
      rcases h with h | h
      · right; left; exact h
      · rcases ih h with h | h
        · left; exact h
        · right; right; exact h

theorem t_mem_sortBySeq (l : List (Nat × PMsg)) (y : Nat × PMsg) (h : y ∈ sortBySeq l) : y ∈ l := by
  induction l with
  | nil => simp [sortBySeq] at h
  | cons a l ih =>
    simp only [sortBySeq, List.foldr] at h
    rcases t_mem_insertBySeq a _ y h with h | h
    · rw [h]; exact List.mem_cons_self ..
    · exact List.mem_cons_of_mem _ (ih h)

/-! ### what the packing loops take -/

theorem packResend_typed (sz : Sizes) (t delay : Int) (items : List (Nat × PMsg)) (p : Pack) (prm : List (Nat × PMsg))
    (hi : ∀ x ∈ items, x.2.ty ≠ .unknown) (hp : ∀ m ∈ p.msgs, m.ty ≠ .unknown) (hprm : ∀ x ∈ prm, x.2.ty ≠ .unknown) :
    (∀ m ∈ (packResend sz t delay items p prm).1.msgs, m.ty ≠ .unknown) ∧
    (∀ x ∈ (packResend sz t delay items p prm).2, x.2.ty ≠ .unknown) := by
  induction items generalizing p prm with
  | nil => exact ⟨hp, hprm⟩
  | cons a items ih =>
    obtain ⟨ms, m⟩ := a
    have hi' : ∀ x ∈ items, x.2.ty ≠ .unknown := fun x hx => hi x (List.mem_cons_of_mem _ hx)
    simp only [packResend]
    split
    · exact ih p prm hi' hp hprm
    · split
      · apply ih _ _ hi'
        · intro m' hm'
          simp only [Pack.add, List.mem_append, List.mem_singleton] at hm'
          rcases hm' with h | h
          · exact hp m' h
          · rw [h]; exact hi (ms, m) (List.mem_cons_self ..)
        · intro x hx; exact hprm x (t_mem_adel prm ms x hx)
      · exact ih p prm hi' hp hprm

theorem packNew_typed (sz : Sizes) (q : List PMsg) (p : Pack) (hq : ∀ m ∈ q, m.ty ≠ .unknown)
    (hp : ∀ m ∈ p.msgs, m.ty ≠ .unknown) :
    (∀ m ∈ (packNew sz q p).1.msgs, m.ty ≠ .unknown) ∧ (∀ m ∈ (packNew sz q p).2, m.ty ≠ .unknown) := by
  induction q generalizing p with
  | nil => exact ⟨hp, by intro m h; simp [packNew] at h⟩
  | cons a q ih =>
    have hq' : ∀ m ∈ q, m.ty ≠ .unknown := fun m hm => hq m (List.mem_cons_of_mem _ hm)
    simp only [packNew]
    split
    · apply ih _ hq'
      intro m' hm'
      simp only [Pack.add, List.mem_append, List.mem_singleton] at hm'
      rcases hm' with h | h
      · exact hp m' h
      · rw [h]; exact hq a (List.mem_cons_self ..)
    · have := ih p hq' hp
      refine ⟨this.1, ?_⟩
      intro m hm
      simp only [List.mem_cons] at hm
      rcases hm with h | h
      · rw [h]; exact hq a (List.mem_cons_self ..)
      · exact this.2 m h

/-- everything `_build_packet_impl` packs, keeps for resending or leaves queued is typed -/
theorem packAll_typed (sz : Sizes) (c : Conn) (t delay : Int) (h : Typed c) :
    (∀ m ∈ (packAll sz c t delay).1.msgs, m.ty ≠ .unknown) ∧
    (∀ x ∈ (packAll sz c t delay).2.1, x.2.ty ≠ .unknown) ∧
    (∀ m ∈ (packAll sz c t delay).2.2, m.ty ≠ .unknown) := by
  obtain ⟨h1, h2, _⟩ := h
  unfold packAll
  simp only
  have hr := packResend_typed sz t delay (sortBySeq c.pendingRetryMsg) {} c.pendingRetryMsg
    (fun x hx => h2 x (t_mem_sortBySeq _ x hx)) (by intro m hm; simp at hm) h2
  have hn := packNew_typed sz c.outgoing _ h1 hr.1
  exact ⟨hn.1, hr.2, hn.2⟩

theorem registerMsgs_typed (t : Int) (msgs : List PMsg) (prm : List (Nat × PMsg)) (cbs : List Cb) (rts : List Nat)
    (hm : ∀ m ∈ msgs, m.ty ≠ .unknown) (hp : ∀ x ∈ prm, x.2.ty ≠ .unknown) :
    ∀ x ∈ (registerMsgs t msgs prm cbs rts).1, x.2.ty ≠ .unknown := by
  induction msgs generalizing prm cbs rts with
  | nil => exact hp
  | cons m msgs ih =>
    have hm' : ∀ m ∈ msgs, m.ty ≠ .unknown := fun x hx => hm x (List.mem_cons_of_mem _ hx)
    simp only [registerMsgs]
    split
    · apply ih _ _ _ hm'
      intro x hx
      rcases t_mem_aset prm m.seq _ x hx with h | h
      · exact hp x h
      · rw [h]; exact hm m (List.mem_cons_self ..)
    · exact ih _ _ _ hm' hp

/-! ### every function of the connection keeps the invariant -/

theorem typed_sendType (c : Conn) (ty : PType) (p : Bytes) (r : Int) (cb : Option Cb) (hty : ty ≠ .unknown)
    (h : Typed c) : Typed (sendType c ty p r cb) := by
  obtain ⟨h1, h2, h3⟩ := h
  unfold sendType
  split
  · refine ⟨?_, h2, ?_⟩
    · intro m hm
      simp only [List.mem_append, List.mem_singleton] at hm
      rcases hm with hm | hm
      · exact h1 m hm
      · rw [hm]; exact hty
    · intro x hx
      simp only [List.mem_append, List.mem_singleton] at hx
      rcases hx with hx | hx
      · exact h3 x hx
      · rw [hx]; exact hty
  · refine ⟨?_, h2, h3⟩
    intro m hm
    simp only [List.mem_append, List.mem_singleton] at hm
    rcases hm with hm | hm
    · exact h1 m hm
    · rw [hm]; exact hty

theorem typed_sendFrags (c : Conn) (fid fragId count : Nat) (retry : Int) (i : Nat) (fs : List Bytes) (h : Typed c) :
    Typed (sendFrags c fid fragId count retry i fs) := by
  induction fs generalizing c i with
  | nil => exact h
  | cons f fs ih => simp only [sendFrags]; exact ih _ _ (typed_sendType _ _ _ _ _ (by decide) h)

theorem typed_sendFragmented (sz : Sizes) (c : Conn) (p : Bytes) (r : Int) (cb : Option Nat) (h : Typed c) :
    Typed (sendFragmented sz c p r cb).1 := by
  unfold sendFragmented
  simp only
  split
  · exact h
  · exact Typed.of_eq _ _ rfl rfl rfl (typed_sendFrags _ _ _ _ _ _ _ (Typed.of_eq _ c rfl rfl rfl h))

theorem typed_send (sz : Sizes) (c : Conn) (p : Bytes) (r : Int) (cb : Option Nat) (h : Typed c) :
    Typed (send sz c p r cb).1 := by
  unfold send
  split
  · exact h
  · split
    · exact h
    · split
      · exact typed_sendFragmented sz c p r cb h
      · exact typed_sendType c .app p r _ (by decide) h

theorem typed_disconnect (c : Conn) (cb : Option Cb) (h : Typed c) : Typed (disconnect c cb) := by
  unfold disconnect
  split
  · have h0 : Typed { c with outgoing := [], incoming := [], pendingCbs := [], pendingRetry := [], pendingAcks := [] } :=
      ⟨by intro m hm; simp at hm, h.2.1, h.2.2⟩
    exact typed_sendType _ .disconnect [] 0 cb (by decide) h0
  · exact h

theorem typed_runLeaf (c : Conn) (cb : Cb) (v : Bool) (h : Typed c) : Typed (runLeaf c cb v).1 := by
  unfold runLeaf
  split
  · exact h
  · split
    · exact h
    · split
      · exact h
      · exact h
      · split
        · exact typed_sendType _ _ _ _ _ (by decide) h
        · simp only
          split
          · split <;> exact h
          · exact h
  · exact h
  · exact h
  · exact h
  · exact h

theorem typed_runCb (c : Conn) (cb : Cb) (v : Bool) (h : Typed c) : Typed (runCb c cb v).1 := by
  unfold runCb
  split
  · rename_i rid
    split
    · exact h
    · rename_i obj hobj
      have hmem : obj ∈ c.retryObjs := List.mem_of_getElem? hobj
      have hoty : obj.ty ≠ .unknown := h.2.2 obj hmem
      split
      · exact h
      · split
        · refine ⟨?_, h.2.1, h.2.2⟩
          intro m hm
          simp only [List.mem_append, List.mem_singleton] at hm
          rcases hm with hm | hm
          · exact h.1 m hm
          · rw [hm]; exact hoty
        · have h1 : Typed { c with retryObjs := setObj c.retryObjs rid { obj with done := true } } := by
            refine ⟨h.1, h.2.1, ?_⟩
            intro x hx
            rcases t_mem_setObj _ _ _ x hx with hx | hx
            · exact h.2.2 x hx
            · rw [hx]; exact hoty
          simp only
          split
          · exact typed_runLeaf _ _ _ h1
          · exact h1
  · exact typed_runLeaf _ _ _ h

theorem typed_runCbs (c : Conn) (cbs : List Cb) (v : Bool) (h : Typed c) : Typed (runCbs c cbs v).1 := by
  induction cbs generalizing c with
  | nil => exact h
  | cons cb cbs ih =>
    simp only [runCbs]
    exact ih _ (typed_runCb c cb v h)

theorem typed_resolve (c : Conn) (s : Nat) (ok : Bool) (h : Typed c) : Typed (resolve c s ok).1 := by
  unfold resolve
  simp only
  have h0 : Typed (if ok = true then { c with acked := c.acked + 1 } else { c with timeouts := c.timeouts + 1 }) := by
    split <;> exact h
  generalize (if ok = true then { c with acked := c.acked + 1 } else { c with timeouts := c.timeouts + 1 }) = c0 at *
  have key : ∀ c1 : Conn, Typed c1 →
      Typed (match aget c1.pendingRetry s with
        | some mseqs => { c1 with pendingRetryMsg := clearRetry c1.pendingRetryMsg mseqs, pendingRetry := adel c1.pendingRetry s }
        | none => c1) := by
    intro c1 h1
    split
    · exact ⟨h1.1, fun x hx => h1.2.1 x (t_mem_clearRetry _ _ x hx), h1.2.2⟩
    · exact h1
  cases hcb : aget c0.pendingCbs s with
  | none =>
    simp only
    have := key c0 h0
    exact ⟨this.1, this.2.1, this.2.2⟩
  | some cbs =>
    simp only
    have h1 := typed_runCbs c0 cbs ok h0
    generalize runCbs c0 cbs ok = r at *
    obtain ⟨c', ev⟩ := r
    simp only at h1 ⊢
    have := key { c' with pendingCbs := adel c'.pendingCbs s } ⟨h1.1, h1.2.1, h1.2.2⟩
    exact ⟨this.1, this.2.1, this.2.2⟩

theorem typed_checkTimeoutKeys (c : Conn) (t : Int) (ks : List Nat) (h : Typed c) :
    Typed (checkTimeoutKeys c t ks).1 := by
  induction ks generalizing c with
  | nil => exact h
  | cons s ks ih =>
    simp only [checkTimeoutKeys]
    split
    · exact ih c h
    · split
      · simp only; exact ih _ (typed_resolve c s false h)
      · exact ih c h

theorem typed_checkTimeoutStrictKeys (c : Conn) (t : Int) (ks : List Nat) (h : Typed c) :
    Typed (checkTimeoutStrictKeys c t ks).1 := by
  induction ks generalizing c with
  | nil => exact h
  | cons s ks ih =>
    simp only [checkTimeoutStrictKeys]
    split
    · exact ih c h
    · split
      · simp only; exact ih _ (typed_resolve c s false h)
      · exact ih c h

theorem typed_handleAckKeys (c : Conn) (a b : Nat) (ks : List Nat) (h : Typed c) :
    Typed (handleAckKeys c a b ks).1 := by
  induction ks generalizing c with
  | nil => exact h
  | cons s ks ih =>
    simp only [handleAckKeys]
    split
    · exact ih c h
    · split
      · simp only; exact ih _ (typed_resolve c s true h)
      · split
        · simp only; exact ih _ (typed_resolve c s false h)
        · exact ih c h

theorem typed_recvAppFragment (c : Conn) (t : Int) (m : Nat) (f : Bytes) (h : Typed c) :
    Typed (recvAppFragment c t m f).1 := by
  unfold recvAppFragment
  split
  · exact h
  · simp only
    split <;> exact h

/-- the handshake handlers of a role keep the invariant -/
def Role.KeepsTyped (R : Role) : Prop :=
  (∀ c t p, Typed c → Typed (R.clientHello c t p).1) ∧ (∀ c t p, Typed c → Typed (R.serverHello c t p).1) ∧
  (∀ c t p, Typed c → Typed (R.challengeResp c t p).1)

theorem baseRole_keepsTyped : baseRole.KeepsTyped := ⟨fun _ _ _ h => h, fun _ _ _ h => h, fun _ _ _ h => h⟩

theorem clientRole_keepsTyped (H : Hs) : (clientRole H).KeepsTyped := by
  refine ⟨fun _ _ _ h => h, ?_, fun _ _ _ h => h⟩
  intro c t p h
  show Typed (clientServerHello H c t p).1
  unfold clientServerHello
  split
  · exact h
  · split
    · exact h
    · split
      · exact h
      · simp only [adopt]
        exact Typed.of_eq _ _ rfl rfl rfl (typed_sendType _ .challengeResp _ 0 (some .challengeTimeout) (by decide)
          (Typed.of_eq _ c rfl rfl rfl h))

theorem serverRole_keepsTyped (H : Hs) (tok : Nat) (tt : Option Nat) : (serverRole H tok tt).KeepsTyped := by
  refine ⟨?_, fun _ _ _ h => h, ?_⟩
  · intro c t p h
    show Typed (serverClientHello H tok c t p).1
    unfold serverClientHello
    split
    · exact h
    · split
      · exact h
      · split
        · exact h
        · split
          · exact ⟨h.1, h.2.1, h.2.2⟩
          · simp only
            exact typed_sendType _ .serverHello _ 0 none (by decide) ⟨h.1, h.2.1, h.2.2⟩
  · intro c t p h
    show Typed (serverChallenge H tt c t p).1
    unfold serverChallenge
    split
    · exact h
    · split
      · exact h
      · exact h

theorem typed_recvMessage (R : Role) (hR : R.KeepsTyped) (c : Conn) (t : Int) (m : WMsg) (h : Typed c) :
    Typed (recvMessage R c t m).1 := by
  unfold recvMessage
  split
  · exact h
  · rename_i bf _
    have e : Typed { c with bfMsg := bf } := ⟨h.1, h.2.1, h.2.2⟩
    split
    · exact hR.1 _ t _ e
    · exact hR.2.1 _ t _ e
    · exact hR.2.2 _ t _ e
    · exact e
    · exact e
    · exact typed_recvAppFragment _ t _ _ e
    · exact e
    · exact e

theorem typed_recvMessages (R : Role) (hR : R.KeepsTyped) (c : Conn) (t : Int) (ms : List WMsg) (h : Typed c) :
    Typed (recvMessages R c t ms).1 := by
  induction ms generalizing c with
  | nil => exact h
  | cons m ms ih =>
    simp only [recvMessages]
    have h1 := typed_recvMessage R hR c t m h
    generalize recvMessage R c t m = r at *
    obtain ⟨c1, e1, err⟩ := r
    cases err with
    | some e => exact h1
    | none => simp only; exact ih c1 h1

theorem typed_recvDatagram (C : Crypto) (R : Role) (hR : R.KeepsTyped) (c : Conn) (t : Int) (h : Header) (d : Bytes)
    (ht : Typed c) : Typed (recvDatagram C R c t h d).1 := by
  unfold recvDatagram
  split
  · exact ht
  · split
    · exact ht
    · split
      · exact ht
      · split
        · exact ht
        · rename_i pkt _ _ _ _ bf _
          unfold accept
          simp only
          apply typed_recvMessages R hR
          unfold handleAckBits
          exact typed_handleAckKeys _ _ _ _ ⟨ht.1, ht.2.1, ht.2.2⟩

theorem typed_buildPacketImpl (sz : Sizes) (c : Conn) (t delay : Int) (ska : Bool) (h : Typed c) :
    Typed (buildPacketImpl sz c t ska delay).1 := by
  have hp := packAll_typed sz c t delay h
  have hreg : ∀ x ∈ (registerMsgs t (packAll sz c t delay).1.msgs (packAll sz c t delay).2.1 [] []).1, x.2.ty ≠ .unknown :=
    registerMsgs_typed t _ _ [] [] hp.1 hp.2.1
  unfold buildPacketImpl
  simp only
  split
  · exact ⟨hp.2.2, hp.2.1, h.2.2⟩
  · split
    · exact ⟨hp.2.2, hreg, h.2.2⟩
    · exact ⟨hp.2.2, hreg, h.2.2⟩

theorem typed_buildPacket (sz : Sizes) (c : Conn) (t : Int) (h : Typed c) : Typed (buildPacket sz c t).1 := by
  unfold buildPacket
  split
  · exact h
  · have := typed_buildPacketImpl sz c t c.keepAlive (decide (t - c.lastKeepAlive > c.keepAlive)) h
    split
    · exact ⟨this.1, this.2.1, this.2.2⟩
    · exact this

theorem typed_clientUpdate (c : Conn) (t : Int) (h : Typed c) : Typed (clientUpdate c t).1 := by
  unfold clientUpdate
  simp only
  split <;> split <;> exact ⟨h.1, h.2.1, h.2.2⟩

theorem typed_serverUpdate (sz : Sizes) (c : Conn) (t : Int) (h : Typed c) : Typed (serverUpdate sz c t).1 := by
  unfold serverUpdate
  split
  · have hb := typed_buildPacket sz c t h
    split
    · rename_i c1 e hbp; rw [hbp] at hb; exact hb
    · rename_i c1 r hbp; rw [hbp] at hb; exact typed_checkTimeoutStrictKeys c1 t _ hb
  · exact h

theorem typed_clientSend (sz : Sizes) (c : Conn) (t : Int) (h : Typed c) : Typed (clientSend sz c t).1 := by
  unfold clientSend
  split
  · have hb := typed_buildPacket sz c t h
    split
    · rename_i c1 e hbp; rw [hbp] at hb; exact hb
    · rename_i c1 r hbp; rw [hbp] at hb; exact typed_checkTimeoutKeys c1 t _ hb
  · exact h

/-- **every operation keeps the invariant** -/
theorem xstep_typed (E : Env) (hR : E.R.KeepsTyped) (c : Conn) (op : XOp) (h : Typed c) : Typed (xstep E c op).1 := by
  cases op with
  | base op =>
    cases op with
    | send p r cb =>
      simp only [xstep, step]
      have := typed_send E.sz c p r cb h
      split <;> simp_all
    | build t => simp only [xstep, step_build_fst]; exact typed_buildPacket E.sz c t h
    | recv t hd d => exact typed_recvDatagram E.C E.R hR c t hd d h
    | tmo t => exact typed_checkTimeoutKeys c t _ h
    | disconnect cb => exact typed_disconnect c cb h
    | take => exact ⟨h.1, h.2.1, h.2.2⟩
  | cupd t => exact typed_clientUpdate c t h
  | supd t => simp only [xstep, emitOuts_fst]; exact typed_serverUpdate E.sz c t h
  | csend t => simp only [xstep, emitOuts_fst]; exact typed_clientSend E.sz c t h

/-- a fresh connection (and the one `connect` / the server loop create) satisfies the invariant -/
theorem typed_fresh (c : Conn) (h1 : c.outgoing = []) (h2 : c.pendingRetryMsg = []) (h3 : c.retryObjs = []) : Typed c := by
  refine ⟨?_, ?_, ?_⟩
  · rw [h1]; intro m hm; simp at hm
  · rw [h2]; intro m hm; simp at hm
  · rw [h3]; intro m hm; simp at hm

end Mpgs.Conn
