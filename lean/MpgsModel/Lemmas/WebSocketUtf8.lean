import MpgsModel.Model.WebSocket
/-!
`validUtf8` (the model of `bytes.decode("utf-8")` succeeding) accepts exactly the UTF-8 encodings of
sequences of Unicode scalar values, measured against Lean core's arithmetic encoder
`String.utf8EncodeChar` (an independent definition).  Core Lean only.
-/
set_option linter.unusedSimpArgs false
namespace Mpgs.WebSocket

theorem utf8Ok_zero (lo hi lo' hi' : Nat) (b : Buf) : utf8Ok 0 lo hi b = utf8Ok 0 lo' hi' b := by
  cases b <;> simp [utf8Ok]

theorem char_range (c : Char) : c.val.toNat < 0xD800 ∨ (0xDFFF < c.val.toNat ∧ c.val.toNat < 0x110000) := by
  have := c.valid
  simp only [UInt32.isValidChar, Nat.isValidChar] at this
  omega

/-- the encoding of one scalar value is accepted and the scan continues behind it -/
theorem utf8Ok_encodeChar (c : Char) (rest : Buf) :
    utf8Ok 0 0x80 0xBF (String.utf8EncodeChar c ++ rest) = utf8Ok 0 0x80 0xBF rest := by
  have hr := char_range c
  simp only [String.utf8EncodeChar]
  generalize c.val.toNat = v at hr
  by_cases h1 : v ≤ 127
  · simp only [h1, if_true, List.cons_append, List.nil_append, utf8Ok, UInt8.toNat_ofNat']
    have : v % 2 ^ 8 < 128 := by omega
    simp [this]
  · by_cases h2 : v ≤ 2047
    · simp only [h1, h2, if_true, if_false, List.cons_append, List.nil_append, utf8Ok, UInt8.toNat_ofNat']
      have a1 : ¬ (v / 64 % 32 + 192) % 2 ^ 8 < 128 := by omega
      have a2 : 194 ≤ (v / 64 % 32 + 192) % 2 ^ 8 ∧ (v / 64 % 32 + 192) % 2 ^ 8 ≤ 223 := by omega
      have a3 : 128 ≤ (v % 64 + 128) % 2 ^ 8 ∧ (v % 64 + 128) % 2 ^ 8 ≤ 191 := by omega
      simp [a1, a2, a3]
    · by_cases h3 : v ≤ 65535
      · simp only [h1, h2, h3, if_true, if_false, List.cons_append, List.nil_append, utf8Ok,
          UInt8.toNat_ofNat']
        have a1 : ¬ (v / 4096 % 16 + 224) % 2 ^ 8 < 128 := by omega
        have a2 : ¬ (194 ≤ (v / 4096 % 16 + 224) % 2 ^ 8 ∧ (v / 4096 % 16 + 224) % 2 ^ 8 ≤ 223) := by omega
        have c2 : 128 ≤ (v % 64 + 128) % 2 ^ 8 ∧ (v % 64 + 128) % 2 ^ 8 ≤ 191 := by omega
        by_cases e0 : v / 4096 = 0
        · have a3 : (v / 4096 % 16 + 224) % 2 ^ 8 = 224 := by omega
          have c1 : 160 ≤ (v / 64 % 64 + 128) % 2 ^ 8 ∧ (v / 64 % 64 + 128) % 2 ^ 8 ≤ 191 := by omega
          simp [a1, a2, a3, c1, c2]
        · by_cases e13 : v / 4096 = 13
          · have a3 : (v / 4096 % 16 + 224) % 2 ^ 8 = 237 := by omega
            have c1 : 128 ≤ (v / 64 % 64 + 128) % 2 ^ 8 ∧ (v / 64 % 64 + 128) % 2 ^ 8 ≤ 159 := by omega
            simp [a1, a2, a3, c1, c2]
          · have a3 : ¬ (v / 4096 % 16 + 224) % 2 ^ 8 = 224 := by omega
            have a4 : (225 ≤ (v / 4096 % 16 + 224) % 2 ^ 8 ∧ (v / 4096 % 16 + 224) % 2 ^ 8 ≤ 236) ∨
                (v / 4096 % 16 + 224) % 2 ^ 8 = 238 ∨ (v / 4096 % 16 + 224) % 2 ^ 8 = 239 := by omega
            have c1 : 128 ≤ (v / 64 % 64 + 128) % 2 ^ 8 ∧ (v / 64 % 64 + 128) % 2 ^ 8 ≤ 191 := by omega
            simp [a1, a2, a3, a4, c1, c2]
      · simp only [h1, h2, h3, if_false, List.cons_append, List.nil_append, utf8Ok,
          UInt8.toNat_ofNat']
        generalize hb : (v / 262144 % 8 + 240) % 2 ^ 8 = b0
        have a1 : ¬ b0 < 128 := by omega
        have a2 : ¬ (194 ≤ b0 ∧ b0 ≤ 223) := by omega
        have a3 : ¬ b0 = 224 := by omega
        have a4 : ¬ ((225 ≤ b0 ∧ b0 ≤ 236) ∨ b0 = 238 ∨ b0 = 239) := by omega
        have a5 : ¬ b0 = 237 := by omega
        have c2 : 128 ≤ (v / 64 % 64 + 128) % 2 ^ 8 ∧ (v / 64 % 64 + 128) % 2 ^ 8 ≤ 191 := by omega
        have c3 : 128 ≤ (v % 64 + 128) % 2 ^ 8 ∧ (v % 64 + 128) % 2 ^ 8 ≤ 191 := by omega
        by_cases e0 : v / 262144 = 0
        · have a6 : b0 = 240 := by omega
          have c1 : 144 ≤ (v / 4096 % 64 + 128) % 2 ^ 8 ∧ (v / 4096 % 64 + 128) % 2 ^ 8 ≤ 191 := by omega
          simp [a1, a2, a3, a4, a5, a6, c1, c2, c3]
        · by_cases e4 : v / 262144 = 4
          · have a6 : b0 = 244 := by omega
            have c1 : 128 ≤ (v / 4096 % 64 + 128) % 2 ^ 8 ∧ (v / 4096 % 64 + 128) % 2 ^ 8 ≤ 143 := by omega
            subst a6
            simp [c1, c2, c3]
          · have a6 : ¬ b0 = 240 := by omega
            have a7 : 241 ≤ b0 ∧ b0 ≤ 243 := by omega
            have c1 : 128 ≤ (v / 4096 % 64 + 128) % 2 ^ 8 ∧ (v / 4096 % 64 + 128) % 2 ^ 8 ≤ 191 := by omega
            simp [a1, a2, a3, a4, a5, a6, a7, c1, c2, c3]

/-- every string's UTF-8 encoding passes the check (so "Text payloads are valid UTF-8" holds for
    every `str` a client or the server can encode) -/
theorem validUtf8_encode (cs : List Char) : validUtf8 (cs.flatMap String.utf8EncodeChar) = true := by
  unfold validUtf8
  induction cs with
  | nil => rfl
  | cons c cs ih => rw [List.flatMap_cons, utf8Ok_encodeChar, ih]

theorem utf8Ok_succ (k lo hi : Nat) (r : Buf) (h : utf8Ok (k + 1) lo hi r = true) :
    ∃ b r', r = b :: r' ∧ lo ≤ b.toNat ∧ b.toNat ≤ hi ∧ utf8Ok k 0x80 0xBF r' = true := by
  cases r with
  | nil => simp [utf8Ok] at h
  | cons b r' =>
    simp only [utf8Ok] at h
    split at h
    · rename_i hc; exact ⟨b, r', rfl, hc.1, hc.2, h⟩
    · cases h

theorem char_of (v : Nat) (h : v.isValidChar) : ∃ c : Char, c.val.toNat = v :=
  ⟨Char.ofNat v, by simp [Char.ofNat, h, Char.ofNatAux]⟩

theorem ofNat_eq (b : UInt8) (n : Nat) (h : n = b.toNat) : UInt8.ofNat n = b := by
  subst h; exact UInt8.ofNat_toNat

theorem enc3 (b0 b1 b2 : UInt8) (c : Char) (h0 : 224 ≤ b0.toNat ∧ b0.toNat ≤ 239)
    (h1 : 128 ≤ b1.toNat ∧ b1.toNat ≤ 191) (h2 : 128 ≤ b2.toNat ∧ b2.toNat ≤ 191)
    (hv : c.val.toNat = (b0.toNat - 224) * 4096 + (b1.toNat - 128) * 64 + (b2.toNat - 128))
    (hlow : 2048 ≤ c.val.toNat) : String.utf8EncodeChar c = [b0, b1, b2] := by
  have g1 : ¬ c.val.toNat ≤ 127 := by omega
  have g2 : ¬ c.val.toNat ≤ 2047 := by omega
  have g3 : c.val.toNat ≤ 65535 := by omega
  simp only [String.utf8EncodeChar, g1, g2, g3, if_true, if_false]
  rw [ofNat_eq b0 _ (by omega), ofNat_eq b1 _ (by omega), ofNat_eq b2 _ (by omega)]

theorem enc4 (b0 b1 b2 b3 : UInt8) (c : Char) (h0 : 240 ≤ b0.toNat ∧ b0.toNat ≤ 244)
    (h1 : 128 ≤ b1.toNat ∧ b1.toNat ≤ 191) (h2 : 128 ≤ b2.toNat ∧ b2.toNat ≤ 191)
    (h3 : 128 ≤ b3.toNat ∧ b3.toNat ≤ 191)
    (hv : c.val.toNat = (b0.toNat - 240) * 262144 + (b1.toNat - 128) * 4096 + (b2.toNat - 128) * 64
            + (b3.toNat - 128))
    (hlow : 65536 ≤ c.val.toNat) : String.utf8EncodeChar c = [b0, b1, b2, b3] := by
  have g1 : ¬ c.val.toNat ≤ 127 := by omega
  have g2 : ¬ c.val.toNat ≤ 2047 := by omega
  have g3 : ¬ c.val.toNat ≤ 65535 := by omega
  simp only [String.utf8EncodeChar, g1, g2, g3, if_false]
  rw [ofNat_eq b0 _ (by omega), ofNat_eq b1 _ (by omega), ofNat_eq b2 _ (by omega),
    ofNat_eq b3 _ (by omega)]

/-- conversely, whatever passes the check is the UTF-8 encoding of a sequence of Unicode scalar
    values (no overlong forms, no surrogates, nothing above U+10FFFF) -/
theorem validUtf8_decode (n : Nat) : ∀ b : Buf, b.length = n → utf8Ok 0 0x80 0xBF b = true →
    ∃ cs : List Char, b = cs.flatMap String.utf8EncodeChar := by
  induction n using Nat.strongRecOn with
  | ind n ih =>
    intro b hn h
    cases b with
    | nil => exact ⟨[], rfl⟩
    | cons b0 r =>
      have hb0 := b0.toNat_lt
      simp only [utf8Ok] at h
      -- one scalar value `v` whose encoding is `pre`, followed by an accepted rest
      have fin : ∀ (v : Nat) (pre r' : Buf), b0 :: r = pre ++ r' → r'.length < n → v.isValidChar →
          (∀ c : Char, c.val.toNat = v → String.utf8EncodeChar c = pre) →
          utf8Ok 0 0x80 0xBF r' = true → ∃ cs : List Char, b0 :: r = cs.flatMap String.utf8EncodeChar := by
        intro v pre r' e hl hv henc hok
        obtain ⟨cs, hcs⟩ := ih r'.length hl r' rfl hok
        obtain ⟨c, hc⟩ := char_of v hv
        exact ⟨c :: cs, by rw [List.flatMap_cons, henc c hc, ← hcs, e]⟩
      simp only [List.length_cons] at hn
      split at h
      · -- ASCII
        rename_i h1
        refine fin b0.toNat [b0] r rfl (by omega) (by simp [Nat.isValidChar]; omega) ?_ h
        intro c hc
        have : b0.toNat ≤ 127 := by omega
        simp only [String.utf8EncodeChar, hc, this, if_true]
        rw [ofNat_eq b0 _ rfl]
      · split at h
        · -- two bytes
          rename_i h1 h2
          obtain ⟨b1, r1, rfl, l1, u1, h⟩ := utf8Ok_succ _ _ _ _ h
          have hb1 := b1.toNat_lt
          simp only [List.length_cons] at hn
          refine fin ((b0.toNat - 192) * 64 + (b1.toNat - 128)) [b0, b1] r1 rfl (by omega)
            (by simp [Nat.isValidChar]; omega) ?_ h
          intro c hc
          have g1 : ¬ (b0.toNat - 192) * 64 + (b1.toNat - 128) ≤ 127 := by omega
          have g2 : (b0.toNat - 192) * 64 + (b1.toNat - 128) ≤ 2047 := by omega
          simp only [String.utf8EncodeChar, hc, g1, g2, if_true, if_false]
          rw [ofNat_eq b0 _ (by omega), ofNat_eq b1 _ (by omega)]
        · -- three and four bytes: peel the continuation bytes, then the arithmetic
          have three : ∀ lo hi, 128 ≤ lo → hi ≤ 191 → (224 ≤ b0.toNat ∧ b0.toNat ≤ 239) →
              (b0.toNat = 224 → 160 ≤ lo) → (b0.toNat = 237 → hi ≤ 159) →
              utf8Ok 2 lo hi r = true → ∃ cs : List Char, b0 :: r = cs.flatMap String.utf8EncodeChar := by
            intro lo hi hlo hhi hr0 hE0 hED h
            obtain ⟨b1, r1, rfl, l1, u1, h⟩ := utf8Ok_succ _ _ _ _ h
            obtain ⟨b2, r2, rfl, l2, u2, h⟩ := utf8Ok_succ _ _ _ _ h
            simp only [List.length_cons] at hn
            refine fin ((b0.toNat - 224) * 4096 + (b1.toNat - 128) * 64 + (b2.toNat - 128)) [b0, b1, b2] r2 rfl
              (by omega) (by simp only [Nat.isValidChar]; omega) ?_ h
            intro c hc
            exact enc3 b0 b1 b2 c hr0 (by omega) (by omega) hc (by omega)
          have four : ∀ lo hi, 128 ≤ lo → hi ≤ 191 → (240 ≤ b0.toNat ∧ b0.toNat ≤ 244) →
              (b0.toNat = 240 → 144 ≤ lo) → (b0.toNat = 244 → hi ≤ 143) →
              utf8Ok 3 lo hi r = true → ∃ cs : List Char, b0 :: r = cs.flatMap String.utf8EncodeChar := by
            intro lo hi hlo hhi hr0 hF0 hF4 h
            obtain ⟨b1, r1, rfl, l1, u1, h⟩ := utf8Ok_succ _ _ _ _ h
            obtain ⟨b2, r2, rfl, l2, u2, h⟩ := utf8Ok_succ _ _ _ _ h
            obtain ⟨b3, r3, rfl, l3, u3, h⟩ := utf8Ok_succ _ _ _ _ h
            simp only [List.length_cons] at hn
            refine fin ((b0.toNat - 240) * 262144 + (b1.toNat - 128) * 4096 + (b2.toNat - 128) * 64
                + (b3.toNat - 128)) [b0, b1, b2, b3] r3 rfl
              (by omega) (by simp only [Nat.isValidChar]; omega) ?_ h
            intro c hc
            exact enc4 b0 b1 b2 b3 c hr0 (by omega) (by omega) (by omega) hc (by omega)
          split at h
          · rename_i e; exact three 0xA0 0xBF (by omega) (by omega) (by omega) (by omega) (by omega) h
          · split at h
            · rename_i e; exact three 0x80 0xBF (by omega) (by omega) (by omega) (by omega) (by omega) h
            · split at h
              · rename_i e; exact three 0x80 0x9F (by omega) (by omega) (by omega) (by omega) (by omega) h
              · split at h
                · rename_i e; exact four 0x90 0xBF (by omega) (by omega) (by omega) (by omega) (by omega) h
                · split at h
                  · rename_i e; exact four 0x80 0xBF (by omega) (by omega) (by omega) (by omega) (by omega) h
                  · split at h
                    · rename_i e; exact four 0x80 0x8F (by omega) (by omega) (by omega) (by omega) (by omega) h
                    · cases h

end Mpgs.WebSocket
