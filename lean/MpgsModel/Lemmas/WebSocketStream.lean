import MpgsModel.Lemmas.WebSocket
/-!
Stream-level lemmas for C18: the handler loop on a byte stream that is the concatenation of RFC
encodings of client frames, cut into TCP reads in an arbitrary way.  Core Lean only.

Invariant (`drain_frames`, `feed_prefix`): after every read the ring buffer holds exactly the
unconsumed suffix of what was received, that suffix does not contain a complete frame, and the
events emitted so far are those of the frames that lie completely inside the received prefix.
-/
namespace Mpgs.WebSocket

/-- a frame a conforming client may send: masked, an opcode of the enum (not the pseudo opcode
    `Open`), payload shorter than 2^64, Text payloads valid UTF-8 -/
def ClientFrame (f : Frame) : Bool :=
  f.mask.isSome && f.opcode.isWire && decide (f.payload.length < 2 ^ 64) &&
    (f.opcode != .text || validUtf8 f.payload)

/-- the TCP byte stream of a list of frames -/
def flat (fs : List Frame) : Buf := (fs.map Rfc.encode).flatten

/-- what `close()` writes the first time: the library's Close frame (status 200, "OK") -/
def closeWrites : List Event := [.wrote [0x88, 0x04], .wrote [0x00, 0xC8, 0x4F, 0x4B]]

/-- the events a list of client frames must cause, starting with `closed = c`: one delivery per
    frame, in order, with the unmasked payload; the first Close frame is answered with a Close -/
def expected : Bool → List Frame → List Event
  | _, [] => []
  | c, f :: fs =>
    (.deliver f.opcode f.payload :: (if f.opcode = .close ∧ c = false then closeWrites else []))
      ++ expected (c || (f.opcode == .close)) fs

def closedAfter : Bool → List Frame → Bool
  | c, [] => c
  | c, f :: fs => closedAfter (c || (f.opcode == .close)) fs

/-- the endpoint's view: the `(opcode, payload)` pairs it was called with -/
def deliveries : List Event → List (OpCode × Buf)
  | [] => []
  | .deliver op p :: es => (op, p) :: deliveries es
  | .wrote _ :: es => deliveries es

theorem deliveries_append (a b : List Event) : deliveries (a ++ b) = deliveries a ++ deliveries b := by
  induction a with
  | nil => rfl
  | cons e es ih => cases e <;> simp [deliveries, ih]

theorem deliveries_expected (fs : List Frame) : ∀ c,
    deliveries (expected c fs) = fs.map (fun f => (f.opcode, f.payload)) := by
  induction fs with
  | nil => intro c; rfl
  | cons f fs ih =>
    intro c
    simp only [expected, List.cons_append, deliveries, deliveries_append, ih, List.map_cons]
    split <;> simp [closeWrites, deliveries]

theorem expected_append (a b : List Frame) : ∀ c,
    expected c (a ++ b) = expected c a ++ expected (closedAfter c a) b := by
  induction a with
  | nil => intro c; rfl
  | cons f fs ih => intro c; simp [expected, closedAfter, ih]

theorem closedAfter_append (a b : List Frame) : ∀ c,
    closedAfter c (a ++ b) = closedAfter (closedAfter c a) b := by
  induction a with
  | nil => intro c; rfl
  | cons f fs ih => intro c; simp [closedAfter, ih]

theorem flat_cons (f : Frame) (fs : List Frame) : flat (f :: fs) = Rfc.encode f ++ flat fs := by
  simp [flat]

theorem flat_append (a b : List Frame) : flat (a ++ b) = flat a ++ flat b := by
  simp [flat]

theorem writeFrame_closeFrame :
    writeFrame closeFrame = ([[0x88, 0x04], [0x00, 0xC8, 0x4F, 0x4B]], none) := by decide

theorem close_events (h : Handler) :
    h.close = ({ h with closed := true }, if h.closed = false then closeWrites else [], none) := by
  unfold Handler.close
  cases hc : h.closed with
  | true => cases h; simp_all
  | false => simp [writeFrame_closeFrame, closeWrites]

theorem hasFrame_encode (f : Frame) (hn : f.payload.length < 2 ^ 64) (rest : Buf) :
    hasFrame (Rfc.encode f ++ rest) = true := by
  simp [hasFrame, frameSize_encode f hn rest]

/-- a buffer that holds only a proper prefix of a frame's encoding is not yet parsed -/
theorem hasFrame_proper_prefix (f : Frame) (hn : f.payload.length < 2 ^ 64) (buf more : Buf)
    (he : Rfc.encode f = buf ++ more) (hm : more ≠ []) : hasFrame buf = false := by
  cases hs : frameSize buf with
  | none => simp [hasFrame, hs]
  | some n =>
    have h1 := frameSize_append buf more n hs
    have h2 := frameSize_encode f hn []
    rw [List.append_nil, he, h1] at h2
    have h3 : 0 < more.length := List.length_pos_iff.mpr hm
    simp only [Option.some.injEq, List.length_append] at h2
    simp only [hasFrame, hs, decide_eq_false_iff_not]
    omega

/-- one iteration of the handler loop on a buffer that starts with a client frame -/
theorem stepFrame_encode (f : Frame) (hc : ClientFrame f = true) (rest : Buf) (c : Bool) :
    Handler.stepFrame ⟨Rfc.encode f ++ rest, c⟩ =
      (⟨rest, c || (f.opcode == .close)⟩,
       .deliver f.opcode f.payload :: (if f.opcode = .close ∧ c = false then closeWrites else []),
       none) := by
  simp only [ClientFrame, Bool.and_eq_true, decide_eq_true_eq, Bool.or_eq_true, bne_iff_ne, ne_eq] at hc
  obtain ⟨⟨⟨hm, hw⟩, hn⟩, hu⟩ := hc
  simp only [Handler.stepFrame, readFrame_encode f hw hn rest, LibFrame.ofSpec, hm]
  by_cases ht : f.opcode = .text
  · have hv : validUtf8 f.payload = true := by
      rcases hu with h | h
      · exact absurd ht h
      · exact h
    simp [ht, hv]
  · by_cases hcl : f.opcode = .close
    · simp [hcl, close_events]
    · simp [ht, hcl]

theorem drain_not_ready (h : Handler) (hf : hasFrame h.buf = false) : h.drain = (h, [], none) := by
  rw [Handler.drain]
  simp [hf]

theorem drain_step (h h' : Handler) (evs : List Event) (hf : hasFrame h.buf = true)
    (hs : h.stepFrame = (h', evs, none)) :
    h.drain = (h'.drain.1, evs ++ h'.drain.2.1, h'.drain.2.2) := by
  rw [Handler.drain]
  simp only [hf, dite_true]
  split
  · rename_i heq
    rw [hs] at heq
    cases heq
  · rename_i heq
    rw [hs] at heq
    cases heq
    rfl

theorem hasFrame_nil : hasFrame [] = false := rfl

/-- the loop invariant of one `__call__`: from a buffer that is a prefix of a stream of client
    frames the loop consumes exactly the frames that are completely present -/
theorem drain_frames (todo : List Frame) (hall : ∀ f ∈ todo, ClientFrame f = true) :
    ∀ (buf future : Buf) (c : Bool), buf ++ future = flat todo →
      ∃ done rest' todo', todo = done ++ todo' ∧
        Handler.drain ⟨buf, c⟩ = (⟨rest', closedAfter c done⟩, expected c done, none) ∧
        rest' ++ future = flat todo' ∧ hasFrame rest' = false := by
  induction todo with
  | nil =>
    intro buf future c h
    simp only [flat, List.map_nil, List.flatten_nil, List.append_eq_nil_iff] at h
    obtain ⟨rfl, rfl⟩ := h
    exact ⟨[], [], [], rfl, drain_not_ready ⟨[], c⟩ hasFrame_nil, rfl, hasFrame_nil⟩
  | cons f fs ih =>
    intro buf future c h
    have hcf : ClientFrame f = true := hall f (List.mem_cons_self ..)
    have hn : f.payload.length < 2 ^ 64 := by
      simp only [ClientFrame, Bool.and_eq_true, decide_eq_true_eq] at hcf
      exact hcf.1.2
    have hfs : ∀ g ∈ fs, ClientFrame g = true := fun g hg => hall g (List.mem_cons_of_mem _ hg)
    rw [flat_cons] at h
    -- whole frame present
    have whole : ∀ bs, buf = Rfc.encode f ++ bs → flat fs = bs ++ future →
        ∃ done rest' todo', f :: fs = done ++ todo' ∧
          Handler.drain ⟨buf, c⟩ = (⟨rest', closedAfter c done⟩, expected c done, none) ∧
          rest' ++ future = flat todo' ∧ hasFrame rest' = false := by
      intro bs hb hfl
      obtain ⟨done, rest', todo', e1, e2, e3, e4⟩ := ih hfs bs future (c || (f.opcode == .close)) hfl.symm
      refine ⟨f :: done, rest', todo', by simp [e1], ?_, e3, e4⟩
      subst hb
      rw [drain_step _ _ _ (hasFrame_encode f hn bs) (stepFrame_encode f hcf bs c), e2]
      simp [expected, closedAfter]
    rcases List.append_eq_append_iff.mp h with ⟨as, h1, h2⟩ | ⟨bs, h1, h2⟩
    · by_cases hemp : as = []
      · subst hemp
        exact whole [] (by simpa using h1.symm) (by simpa using h2.symm)
      · exact ⟨[], buf, f :: fs, rfl,
          drain_not_ready ⟨buf, c⟩ (hasFrame_proper_prefix f hn buf as h1 hemp),
          by rw [flat_cons, h1, h2, List.append_assoc],
          hasFrame_proper_prefix f hn buf as h1 hemp⟩
    · exact whole bs h1 h2

/-- the invariant over a sequence of reads: however the stream is cut, after the reads `chunks`
    the endpoint has seen exactly the frames `done` that lie completely inside the bytes received,
    the buffer `rest'` is the unconsumed remainder and holds no complete frame -/
theorem feed_prefix (chunks : List Buf) :
    ∀ (fs : List Frame) (h : Handler) (future : Buf), (∀ f ∈ fs, ClientFrame f = true) →
      hasFrame h.buf = false → h.buf ++ chunks.flatten ++ future = flat fs →
      ∃ done todo rest', fs = done ++ todo ∧
        h.feed chunks = (⟨rest', closedAfter h.closed done⟩, expected h.closed done, none) ∧
        rest' ++ future = flat todo ∧ hasFrame rest' = false ∧
        h.buf ++ chunks.flatten = flat done ++ rest' := by
  induction chunks with
  | nil =>
    intro fs h future _ hf hb
    refine ⟨[], fs, h.buf, rfl, ?_, by simpa using hb, hf, by simp [flat]⟩
    cases h; rfl
  | cons c cs ih =>
    intro fs h future hall _ hb
    have hb' : (h.buf ++ c) ++ (cs.flatten ++ future) = flat fs := by
      simpa [List.append_assoc] using hb
    obtain ⟨done1, rest1, todo1, e1, e2, e3, e4⟩ := drain_frames fs hall (h.buf ++ c) _ h.closed hb'
    have hall1 : ∀ f ∈ todo1, ClientFrame f = true := by
      intro f hf; apply hall; rw [e1]; exact List.mem_append_right _ hf
    obtain ⟨done2, todo2, rest2, f1, f2, f3, f4, f5⟩ :=
      ih todo1 ⟨rest1, closedAfter h.closed done1⟩ future hall1 e4 (by simpa [List.append_assoc] using e3)
    refine ⟨done1 ++ done2, todo2, rest2, by rw [e1, f1, List.append_assoc], ?_, f3, f4, ?_⟩
    · simp only [Handler.feed, Handler.call, e2, f2]
      simp [expected_append, closedAfter_append]
    · have : h.buf ++ (c :: cs).flatten ++ future = flat (done1 ++ done2) ++ rest2 ++ future := by
        rw [hb, e1, f1, flat_append, flat_append, flat_append, ← f3]
        simp [List.append_assoc]
      exact List.append_cancel_right this

end Mpgs.WebSocket
