import MpgsModel.Lemmas.Auth
/-!
Characterisation of `verifyPrepare` / `verifyPassword` (when they succeed, which errors they
raise) and the shape of `hashPassword`'s output.
-/
namespace Mpgs.Auth

/-- exactly four fields ⇔ three separators at field boundaries and none inside the fields -/
theorem splitOn_four (s a b c d : Bytes) :
    splitOn colon s = [a, b, c, d] ↔
      (s = a ++ colon :: (b ++ colon :: (c ++ colon :: d)) ∧
        (∀ x ∈ a, x ≠ colon) ∧ (∀ x ∈ b, x ≠ colon) ∧ (∀ x ∈ c, x ≠ colon) ∧ (∀ x ∈ d, x ≠ colon)) := by
  constructor
  · intro h
    have hj := joinSep_splitOn colon s
    have hf := splitOn_fields_nosep colon s
    rw [h] at hj hf
    refine ⟨?_, hf a (by simp), hf b (by simp), hf c (by simp), hf d (by simp)⟩
    rw [← hj]; rfl
  · rintro ⟨rfl, ha, hb, hc, hd⟩
    rw [splitOn_append _ _ _ ha, splitOn_append _ _ _ hb, splitOn_append _ _ _ hc, splitOn_nosep _ _ hd]

/-- what has been established when `verify_password` reaches the KDF -/
def Prepared (sha : Bytes → Bytes) (password passwordHash : PyArg) (q : Query) : Prop :=
  ∃ pwb hs enc f2 f3 params data P,
    password = .bytes pwb ∧ passwordHash = .str hs ∧ encodeUtf8 hs = .ok enc ∧
    splitOn colon enc = [kScrypt, kOne, f2, f3] ∧
    b64decode f2 = .ok params ∧ b64decode f3 = .ok data ∧ unpackParams params = .ok P ∧
    1 ≤ P.len ∧ (data.drop P.saltLen).length = P.len ∧ scryptInit P.N P.r P.p = .ok () ∧
    q = ⟨P.N, P.r, P.p, P.len, data.take P.saltLen, sha pwb, data.drop P.saltLen⟩

theorem verifyPrepare_ok_iff (sha : Bytes → Bytes) (pw h : PyArg) (q : Query) :
    verifyPrepare sha pw h = .ok q ↔ Prepared sha pw h q := by
  constructor
  · intro hv
    unfold verifyPrepare at hv
    dsimp only at hv
    repeat' split at hv
    all_goals first | cases hv | skip
    rename_i _ pwb _ hs _ enc henc _ kind ver f2 f3 hsp _ params hp _ data hd hk1 hk2 _ P hP hlen _ hinit
    have hk : kind = kScrypt ∧ ver = kOne := by
      refine ⟨Classical.byContradiction fun x => hk1 (Or.inl x), Classical.byContradiction fun x => hk1 (Or.inr x)⟩
    obtain ⟨rfl, rfl⟩ := hk
    refine ⟨pwb, hs, enc, f2, f3, params, data, P, rfl, rfl, henc, hsp, hp, hd, hP, ?_, ?_, hinit, rfl⟩
    · omega
    · omega
  · rintro ⟨pwb, hs, enc, f2, f3, params, data, P, rfl, rfl, henc, hsp, hp, hd, hP, h1, h2, hinit, rfl⟩
    simp only [verifyPrepare, henc, hsp, hp, hd, hP, hinit]
    simp only [List.length_drop] at h2
    simp
    omega

/-- every exception `verifyPrepare` can raise is a `ValueError` (subclass) or a `TypeError` -/
theorem verifyPrepare_err (sha : Bytes → Bytes) (pw h : PyArg) (e : Err)
    (hv : verifyPrepare sha pw h = .error e) : e.isValueOrType = true := by
  unfold verifyPrepare at hv
  dsimp only at hv
  repeat' split at hv
  all_goals first
    | (cases hv; done)
    | (cases hv; rfl)
    | (cases hv; rename_i he; rw [encodeUtf8_err _ _ he]; rfl)
    | (cases hv; rename_i he; rw [b64decode_err _ _ he]; rfl)
    | (cases hv; rename_i he; rw [scryptInit_err _ _ _ _ he]; rfl)
    | (rename_i hne he; exact absurd (unpack_err _ _ he) hne)
    | skip

theorem verifyPassword_err (kdf : Kdf) (sha : Bytes → Bytes) (pw h : PyArg) (e : Err)
    (hv : verifyPassword kdf sha pw h = .error e) : e.isValueOrType = true := by
  unfold verifyPassword at hv
  split at hv
  · rename_i e' he
    cases hv
    exact verifyPrepare_err sha pw h _ he
  · split at hv
    · cases hv
    · cases hv
    · rename_i e' hne he
      exact absurd (scryptVerify_err _ _ _ he) hne

/-- `verify_password` returns `True` exactly when the preparation succeeds and the KDF output
for the embedded parameters and salt equals the embedded digest -/
theorem verifyPassword_true_iff (kdf : Kdf) (sha : Bytes → Bytes) (pw h : PyArg) :
    verifyPassword kdf sha pw h = .ok true ↔
      ∃ q, verifyPrepare sha pw h = .ok q ∧ kdf q.N q.r q.p q.len q.salt q.km = q.expected := by
  unfold verifyPassword
  constructor
  · intro hv
    split at hv
    · cases hv
    · rename_i q hq
      refine ⟨q, hq, ?_⟩
      by_cases hk : kdf q.N q.r q.p q.len q.salt q.km = q.expected
      · exact hk
      · simp [scryptVerify, hk] at hv
  · rintro ⟨q, hq, hk⟩
    simp [hq, scryptVerify, hk]

theorem verifyPassword_false_iff (kdf : Kdf) (sha : Bytes → Bytes) (pw h : PyArg) :
    verifyPassword kdf sha pw h = .ok false ↔
      ∃ q, verifyPrepare sha pw h = .ok q ∧ kdf q.N q.r q.p q.len q.salt q.km ≠ q.expected := by
  unfold verifyPassword
  constructor
  · intro hv
    split at hv
    · cases hv
    · rename_i q hq
      refine ⟨q, hq, ?_⟩
      by_cases hk : kdf q.N q.r q.p q.len q.salt q.km = q.expected
      · simp [scryptVerify, hk] at hv
      · exact hk
  · rintro ⟨q, hq, hk⟩
    simp [hq, scryptVerify, hk]

/-! ### shape of `hash_password`'s output -/

/-- the byte string `header + footer` built by `hash_password` -/
def hashBytes (kdf : Kdf) (sha : Bytes → Bytes) (salt pw : Bytes) : Bytes :=
  kScrypt ++ colon :: (kOne ++ colon :: (b64encode [64, 0, 16, 1, 16, 24] ++ colon ::
    b64encode (salt ++ kdf defaultN defaultR defaultP DIGEST_LENGTH salt (sha pw))))

theorem hashBytes_ascii (kdf : Kdf) (sha : Bytes → Bytes) (salt pw : Bytes) :
    ∀ c ∈ hashBytes kdf sha salt pw, c.toNat < 128 := by
  intro c hc
  simp only [hashBytes, List.mem_append, List.mem_cons] at hc
  rcases hc with hc | rfl | hc | rfl | hc | rfl | hc
  · revert c; decide
  · decide
  · revert c; decide
  · decide
  · exact (b64encode_plain _ c hc).2
  · decide
  · exact (b64encode_plain _ c hc).2

/-- `hash_password` never raises for a `bytes` password, and its result is the ASCII text of
`hashBytes` (so the `UnicodeDecodeError` branch of `decodeAscii` is unreachable) -/
theorem hashPassword_ok (kdf : Kdf) (sha : Bytes → Bytes) (salt pw : Bytes) :
    ∃ h, hashPassword kdf sha salt (.bytes pw) = .ok h ∧
      encodeUtf8 h = .ok (hashBytes kdf sha salt pw) := by
  obtain ⟨s, h1, h2⟩ := decodeAscii_ok _ (hashBytes_ascii kdf sha salt pw)
  refine ⟨s, ?_, h2⟩
  simp only [hashPassword, defaultParams_packed, scryptInit_default]
  rw [← h1]
  simp [hashBytes]

theorem hashBytes_split (kdf : Kdf) (sha : Bytes → Bytes) (salt pw : Bytes) :
    splitOn colon (hashBytes kdf sha salt pw) =
      [kScrypt, kOne, b64encode [64, 0, 16, 1, 16, 24],
       b64encode (salt ++ kdf defaultN defaultR defaultP DIGEST_LENGTH salt (sha pw))] := by
  rw [splitOn_four]
  refine ⟨rfl, by decide, by decide, ?_, ?_⟩
  · intro x hx; exact (b64encode_plain _ x hx).1
  · intro x hx; exact (b64encode_plain _ x hx).1

/-- verifying *any* password `q` against a hash of `pw` reaches the KDF with the default
parameters, the hash's salt, `sha q`, and the hash's digest as the expected value -/
theorem verifyPrepare_hash (kdf : Kdf) (sha : Bytes → Bytes) (salt pw q : Bytes) (h : PyStr)
    (hs : salt.length = SALT_LENGTH)
    (hk : (kdf defaultN defaultR defaultP DIGEST_LENGTH salt (sha pw)).length = DIGEST_LENGTH)
    (hh : hashPassword kdf sha salt (.bytes pw) = .ok h) :
    verifyPrepare sha (.bytes q) (.str h) =
      .ok ⟨defaultN, defaultR, defaultP, DIGEST_LENGTH, salt, sha q,
           kdf defaultN defaultR defaultP DIGEST_LENGTH salt (sha pw)⟩ := by
  obtain ⟨h', h1, h2⟩ := hashPassword_ok kdf sha salt pw
  rw [h1] at hh
  cases hh
  rw [verifyPrepare_ok_iff]
  refine ⟨q, h, _, _, _, _, _, ⟨defaultN, defaultR, defaultP, SALT_LENGTH, DIGEST_LENGTH⟩, rfl, rfl, h2,
    hashBytes_split kdf sha salt pw, b64decode_b64encode _, b64decode_b64encode _, rfl, by decide, ?_, rfl, ?_⟩
  · simp only [List.length_drop, List.length_append, hs, hk]; decide
  · have e1 : List.take SALT_LENGTH (salt ++ kdf defaultN defaultR defaultP DIGEST_LENGTH salt (sha pw)) = salt := by
      rw [← hs]; simp
    have e2 : List.drop SALT_LENGTH (salt ++ kdf defaultN defaultR defaultP DIGEST_LENGTH salt (sha pw))
        = kdf defaultN defaultR defaultP DIGEST_LENGTH salt (sha pw) := by
      rw [← hs]; simp
    simp only [e1, e2]

end Mpgs.Auth
