import MpgsModel.Model.ConnStep
-- GENERATED from ConnFrame.lean by the method of tools/gen_frames.py (projection `stt`) - do not edit
/-! Frame lemmas for C12: the functions below leave the projection `stt` of the connection state alone. -/
namespace Mpgs.Conn
open Mpgs.Bytes Mpgs.Wire

/-- the connection status -/
def stt (c : Conn) : Status := c.status

theorem stt_sendType (c : Conn) (ty : PType) (p : Bytes) (r : Int) (cb : Option Cb) :
    stt (sendType c ty p r cb) = stt c := by
  unfold sendType stt; split <;> rfl

theorem stt_sendFrags (c : Conn) (fid fragId count : Nat) (retry : Int) (i : Nat) (fs : List Bytes) :
    stt (sendFrags c fid fragId count retry i fs) = stt c := by
  induction fs generalizing c i with
  | nil => rfl
  | cons f fs ih => simp only [sendFrags]; rw [ih, stt_sendType]

theorem stt_sendFragmented (sz : Sizes) (c : Conn) (p : Bytes) (r : Int) (cb : Option Nat) :
    stt (sendFragmented sz c p r cb).1 = stt c := by
  unfold sendFragmented
  simp only
  split
  · rfl
  · show stt (sendFrags _ _ _ _ _ _ _) = stt c
    rw [stt_sendFrags]; rfl

theorem stt_send (sz : Sizes) (c : Conn) (p : Bytes) (r : Int) (cb : Option Nat) :
    stt (send sz c p r cb).1 = stt c := by
  unfold send
  split
  · rfl
  · split
    · rfl
    · split
      · exact stt_sendFragmented sz c p r cb
      · exact stt_sendType c .app p r _

theorem stt_runLeaf (c : Conn) (cb : Cb) (v : Bool) : stt (runLeaf c cb v).1 = stt c := by
  unfold runLeaf
  split
  · rfl
  · split
    · rfl
    · split
      · rfl
      · rfl
      · split
        · exact stt_sendType _ _ _ _ _
        · simp only
          split
          · split <;> rfl
          · rfl
  · rfl
  · rfl
  · rfl
  · rfl

theorem stt_runCb (c : Conn) (cb : Cb) (v : Bool) : stt (runCb c cb v).1 = stt c := by
  unfold runCb
  split
  · split
    · rfl
    · split
      · rfl
      · split
        · rfl
        · simp only
          split
          · rw [stt_runLeaf]; rfl
          · rfl
  · exact stt_runLeaf _ _ _

theorem stt_runCbs (c : Conn) (cbs : List Cb) (v : Bool) : stt (runCbs c cbs v).1 = stt c := by
  induction cbs generalizing c with
  | nil => rfl
  | cons cb cbs ih =>
    simp only [runCbs]
    rw [ih, stt_runCb]

theorem stt_resolve (c : Conn) (s : Nat) (ok : Bool) : stt (resolve c s ok).1 = stt c := by
  unfold resolve
  simp only
  have h0 : stt (if ok = true then { c with acked := c.acked + 1 } else { c with timeouts := c.timeouts + 1 }) = stt c := by
    split <;> rfl
  generalize (if ok = true then { c with acked := c.acked + 1 } else { c with timeouts := c.timeouts + 1 }) = c0 at *
  cases hcb : aget c0.pendingCbs s with
  | none =>
    simp only
    cases hr : aget c0.pendingRetry s <;> simp only [stt] at h0 ⊢ <;> exact h0
  | some cbs =>
    simp only
    have h1 := stt_runCbs c0 cbs ok
    generalize runCbs c0 cbs ok = r at *
    obtain ⟨c', ev⟩ := r
    simp only at h1 ⊢
    cases hr : aget c'.pendingRetry s <;> simp only [stt] at h0 h1 ⊢ <;> rw [h1, h0]

theorem stt_checkTimeoutKeys (c : Conn) (t : Int) (ks : List Nat) :
    stt (checkTimeoutKeys c t ks).1 = stt c := by
  induction ks generalizing c with
  | nil => rfl
  | cons s ks ih =>
    simp only [checkTimeoutKeys]
    split
    · exact ih c
    · split
      · simp only; rw [ih, stt_resolve]
      · exact ih c

theorem stt_checkTimeout (c : Conn) (t : Int) : stt (checkTimeout c t).1 = stt c :=
  stt_checkTimeoutKeys c t _

theorem stt_handleAckKeys (c : Conn) (a b : Nat) (ks : List Nat) :
    stt (handleAckKeys c a b ks).1 = stt c := by
  induction ks generalizing c with
  | nil => rfl
  | cons s ks ih =>
    simp only [handleAckKeys]
    split
    · exact ih c
    · split
      · simp only; rw [ih, stt_resolve]
      · split
        · simp only; rw [ih, stt_resolve]
        · exact ih c

theorem stt_recvAppFragment (c : Conn) (t : Int) (m : Nat) (f : Bytes) :
    stt (recvAppFragment c t m f).1 = stt c := by
  unfold recvAppFragment
  split
  · rfl
  · simp only
    split <;> rfl

/-- the handshake handlers of a role leave the sender clock alone -/
def Role.KeepsSt (R : Role) : Prop :=
  (∀ c t p, stt (R.clientHello c t p).1 = stt c) ∧ (∀ c t p, stt (R.serverHello c t p).1 = stt c) ∧
  (∀ c t p, stt (R.challengeResp c t p).1 = stt c)

theorem baseRole_keepsSt : baseRole.KeepsSt := ⟨fun _ _ _ => rfl, fun _ _ _ => rfl, fun _ _ _ => rfl⟩

end Mpgs.Conn
