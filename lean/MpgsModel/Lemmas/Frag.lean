import MpgsModel.Model.Conn
/-! Fragmentation lemmas: `FragmentSender.build` splits exactly; reassembly slots. -/
namespace Mpgs.Conn
open Mpgs.Bytes Mpgs.Wire

/-- `b"".join(fragments)` -/
def flatten : List Bytes → Bytes
  | [] => []
  | f :: fs => f ++ flatten fs

/-- sizes for which fragmentation is meaningful: a full fragment is non-empty and, with its
6-byte prefix, fits the single-message capacity -/
def SizesOk (sz : Sizes) : Prop := 1 ≤ sz.maxFragment ∧ sz.maxFragment + 6 ≤ sz.maxPayload

theorem sizes_ok_of_mtu (sz : Sizes) (h1 : 73 ≤ sz.mtu) : SizesOk sz := by
  unfold SizesOk Sizes.maxFragment Sizes.maxPayload Sizes.maxSize
  split <;> omega

theorem splitFrags_spec (mp mf : Nat) (h1 : 1 ≤ mf) (h2 : mf + 6 ≤ mp) (fuel : Nat) (p : Bytes)
    (hf : p.length ≤ fuel) :
    flatten (splitFrags mp mf fuel p) = p ∧
    (∀ f ∈ splitFrags mp mf fuel p, 1 ≤ f.length ∧ f.length + 6 ≤ mp) ∧
    (splitFrags mp mf fuel p).length * mf ≤ p.length + mf ∧
    (1 ≤ p.length → 1 ≤ (splitFrags mp mf fuel p).length) := by
  induction fuel generalizing p with
  | zero =>
    have : p = [] := by cases p <;> simp_all
    subst this
    simp [splitFrags, flatten]
  | succ fuel ih =>
    unfold splitFrags
    by_cases h0 : p.length = 0
    · have : p = [] := by cases p <;> simp_all
      subst this
      simp [flatten]
    · simp only [h0, if_false]
      by_cases hlast : p.length < mp - 6
      · simp only [hlast, if_true]
        refine ⟨by simp [flatten], ?_, ?_, by simp⟩
        · intro f hfm
          simp only [List.mem_singleton] at hfm
          subst hfm; constructor <;> omega
        · simp only [List.length_singleton, Nat.one_mul]; omega
      · simp only [hlast, if_false]
        have hge : mf ≤ p.length := by omega
        have hlen : (drop mf p).length = p.length - mf := by simp [drop]
        have htk : (take mf p).length = mf := by
          simp only [take, List.length_take]; exact Nat.min_eq_left hge
        have := ih (drop mf p) (by rw [hlen]; omega)
        obtain ⟨i1, i2, i3, _⟩ := this
        refine ⟨?_, ?_, ?_, by simp⟩
        · simp only [flatten]; rw [i1]; exact List.take_append_drop mf p
        · intro f hfm
          simp only [List.mem_cons] at hfm
          rcases hfm with rfl | hfm
          · constructor <;> omega
          · exact i2 f hfm
        · simp only [List.length_cons]
          rw [Nat.add_mul, Nat.one_mul, hlen] at *
          omega

/-! ### reassembly slots -/

theorem setSlot_length (s : List (Option Bytes)) (i : Nat) (v : Bytes) : (setSlot s i v).length = s.length := by
  induction s generalizing i with
  | nil => rfl
  | cons a s ih =>
    cases i with
    | zero => cases a <;> rfl
    | succ i => cases a <;> simp [setSlot, ih]

/-- slot contents agree with a fragment list wherever they are filled -/
def SlotsOf (frags : List Bytes) (s : List (Option Bytes)) : Prop :=
  s.length = frags.length ∧ ∀ (i : Nat) (b : Bytes), s[i]? = some (some b) → frags[i]? = some b

theorem slotsOf_replicate (frags : List Bytes) : SlotsOf frags (List.replicate frags.length none) := by
  refine ⟨by simp, ?_⟩
  intro i b h
  rw [List.getElem?_replicate] at h
  split at h <;> simp at h

theorem slotsOf_setSlot (frags : List Bytes) (s : List (Option Bytes)) (i : Nat) (v : Bytes)
    (hs : SlotsOf frags s) (hv : frags[i]? = some v) : SlotsOf frags (setSlot s i v) := by
  obtain ⟨hl, hc⟩ := hs
  refine ⟨by rw [setSlot_length]; exact hl, ?_⟩
  clear hl
  induction s generalizing i frags with
  | nil => intro j b h; simp [setSlot] at h
  | cons a s ih =>
    intro j b h
    cases i with
    | zero =>
      cases a with
      | none =>
        simp only [setSlot] at h
        cases j with
        | zero => simp at h; subst h; exact hv
        | succ j => exact hc (j + 1) b (by simpa using h)
      | some x => simp only [setSlot] at h; exact hc j b h
    | succ i =>
      have hstep : setSlot (a :: s) (i + 1) v = a :: setSlot s i v := by cases a <;> rfl
      rw [hstep] at h
      cases j with
      | zero => exact hc 0 b (by simpa using h)
      | succ j =>
        cases frags with
        | nil => simp at hv
        | cons f frags =>
          have := ih frags i (by simpa using hv) (fun k b' hk => by
            have := hc (k + 1) b' (by simpa using hk); simpa using this) j b (by simpa using h)
          simpa using this

/-- complete slots that agree with `frags` join to the whole payload -/
theorem join_complete (s : List (Option Bytes)) : ∀ (frags : List Bytes), s.length = frags.length →
    (∀ (i : Nat) (b : Bytes), s[i]? = some (some b) → frags[i]? = some b) →
    slotsComplete s = true → joinSlots s = flatten frags := by
  induction s with
  | nil =>
    intro frags hl _ _
    cases frags with
    | nil => rfl
    | cons f fs => simp at hl
  | cons a s ih =>
    intro frags hl hcon hc
    cases frags with
    | nil => simp at hl
    | cons f fs =>
      simp only [slotsComplete, List.all_cons, Bool.and_eq_true] at hc
      cases a with
      | none => simp at hc
      | some b =>
        have h0 := hcon 0 b (by simp)
        simp only [List.getElem?_cons_zero, Option.some.injEq] at h0
        subst h0
        simp only [joinSlots, flatten]
        congr 1
        exact ih fs (by simpa using hl) (fun i b' h => by
          have := hcon (i + 1) b' (by simpa using h); simpa using this) hc.2

end Mpgs.Conn
