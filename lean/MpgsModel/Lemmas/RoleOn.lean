import MpgsModel.Model.Handshake
import MpgsModel.Props.C04
/-!
`serverRoleOn` (the server role with the user's connect handler running inside `_onConnect`)
against `serverRole`: the events, the outcome and - until a promotion happens - the state agree;
hence a datagram promotes under one iff it promotes under the other, and the C02 theorems about
promotion apply to the role the server loop uses.
-/
namespace Mpgs.Conn
open Mpgs.Bytes Mpgs.Wire

theorem recvMessage_roleOn (H : Hs) (tok : Nat) (tt : Option Nat) (f : Conn → Conn) (c : Conn) (t : Int) (m : WMsg) :
    (recvMessage (serverRoleOn H tok tt f) c t m).2 = (recvMessage (serverRole H tok tt) c t m).2 ∧
    (Event.promoted ∉ (recvMessage (serverRole H tok tt) c t m).2.1 →
      recvMessage (serverRoleOn H tok tt f) c t m = recvMessage (serverRole H tok tt) c t m) := by
  unfold recvMessage
  cases c.bfMsg.insert (m.seq : Int) with
  | error e => exact ⟨rfl, fun _ => rfl⟩
  | ok bf =>
    simp only
    cases m.ty with
    | challengeResp =>
      simp only [serverRoleOn, serverRole]
      by_cases hp : (serverChallenge H tt { c with bfMsg := bf } t m.payload).2.1.contains Event.promoted = true
      · simp only [hp, if_true]
        refine ⟨by first | rfl | trivial, fun hn => ?_⟩
        exact absurd (by simpa using hp) hn
      · simp only [hp]
        exact ⟨rfl, fun _ => rfl⟩
    | clientHello => exact ⟨rfl, fun _ => rfl⟩
    | serverHello => exact ⟨rfl, fun _ => rfl⟩
    | keepAlive => exact ⟨rfl, fun _ => rfl⟩
    | disconnect => exact ⟨rfl, fun _ => rfl⟩
    | appFragment => exact ⟨rfl, fun _ => rfl⟩
    | app => exact ⟨rfl, fun _ => rfl⟩
    | unknown => exact ⟨rfl, fun _ => rfl⟩

theorem recvMessages_roleOn (H : Hs) (tok : Nat) (tt : Option Nat) (f : Conn → Conn) (c : Conn) (t : Int)
    (ms : List WMsg) (hp : Event.promoted ∈ (recvMessages (serverRoleOn H tok tt f) c t ms).2.1) :
    Event.promoted ∈ (recvMessages (serverRole H tok tt) c t ms).2.1 := by
  induction ms generalizing c with
  | nil => simp [recvMessages] at hp
  | cons m rest ih =>
    have hA := recvMessage_roleOn H tok tt f c t m
    by_cases hpm : Event.promoted ∈ (recvMessage (serverRole H tok tt) c t m).2.1
    · -- promoted by this very message: visible under both roles
      simp only [recvMessages]
      generalize recvMessage (serverRole H tok tt) c t m = r at hpm
      obtain ⟨c1, e1, o⟩ := r
      cases o with
      | some err => exact hpm
      | none => exact List.mem_append_left _ hpm
    · have heq := hA.2 hpm
      simp only [recvMessages] at hp ⊢
      rw [heq] at hp
      generalize recvMessage (serverRole H tok tt) c t m = r at hp hpm
      obtain ⟨c1, e1, o⟩ := r
      cases o with
      | some err => exact hp
      | none =>
        simp only at hp ⊢
        rcases List.mem_append.mp hp with h | h
        · exact absurd h hpm
        · exact List.mem_append_right _ (ih c1 h)

theorem recvDatagram_roleOn (C : Crypto) (H : Hs) (tok : Nat) (tt : Option Nat) (f : Conn → Conn) (c : Conn)
    (t : Int) (h : Header) (d : Bytes)
    (hp : Event.promoted ∈ (recvDatagram C (serverRoleOn H tok tt f) c t h d).2.1) :
    Event.promoted ∈ (recvDatagram C (serverRole H tok tt) c t h d).2.1 := by
  rcases recv_cases C (serverRoleOn H tok tt f) c t h d with hd | ⟨pkt, bf, h1, h2, h3, h4, heq⟩
  · rw [hd] at hp
    simp [drop1] at hp
  · have heq' : recvDatagram C (serverRole H tok tt) c t h d = accept (serverRole H tok tt) c t h pkt bf := by
      unfold recvDatagram
      simp [h1, h2, h3, h4]
    rw [heq] at hp
    rw [heq']
    simp only [accept] at hp ⊢
    rcases List.mem_append.mp hp with x | x
    · exact List.mem_append_left _ x
    · exact List.mem_append_right _ (recvMessages_roleOn H tok tt f _ t _ x)

end Mpgs.Conn
