import MpgsModel.Model.Regex
/-
Declarative reading of the backtracking matcher: `MatC n re s c r c'` says "`re` can consume a
prefix of `s` leaving `r`, turning the capture store `c` into `c'`".  `mem_runK` shows that the
list of successes computed by `runK` contains exactly the continuation's successes over all such
ways, so membership questions about the engine reduce to this relation (order = priority is not
needed for *whether* something matches).
-/
namespace Mpgs.Regex

def MatC (n : Nat) : Re → List Char → Caps → List Char → Caps → Prop
  | .eps, s, c, r, c' => r = s ∧ c' = c
  | .chr x, s, c, r, c' => s = x :: r ∧ c' = c
  | .star cls m, s, c, r, c' =>
      c' = c ∧ ∃ u, s = u ++ r ∧ (∀ ch ∈ u, cls.ok ch = true) ∧ (m = true → u ≠ [])
  | .seq a b, s, c, r, c' => ∃ m cm, MatC n a s c m cm ∧ MatC n b m cm r c'
  | .alt a b, s, c, r, c' => MatC n a s c r c' ∨ MatC n b s c r c'
  | .opt a, s, c, r, c' => MatC n a s c r c' ∨ (r = s ∧ c' = c)
  | .grp i a, s, c, r, c' => ∃ c1, MatC n a s c r c1 ∧ c' = (i, s.take (s.length - r.length)) :: c1
  | .bol, s, c, r, c' => r = s ∧ c' = c ∧ s.length = n
  | .eol, s, c, r, c' => r = s ∧ c' = c ∧ atEnd s = true

theorem mem_spans (cls : Cls) (s : List Char) (p : List Char × List Char) :
    p ∈ spans cls s ↔ s = p.1 ++ p.2 ∧ ∀ ch ∈ p.1, cls.ok ch = true := by
  induction s generalizing p with
  | nil =>
    obtain ⟨u, r⟩ := p
    simp only [spans, List.mem_singleton, Prod.mk.injEq]
    constructor
    · rintro ⟨rfl, rfl⟩; simp
    · rintro ⟨h, _⟩
      have := List.append_eq_nil_iff.mp h.symm
      exact ⟨this.1, this.2⟩
  | cons a cs ih =>
    obtain ⟨u, r⟩ := p
    by_cases hc : cls.ok a = true
    · simp only [spans, hc, if_true, List.mem_append, List.mem_map, List.mem_singleton, Prod.mk.injEq]
      constructor
      · rintro (⟨q, hq, rfl, rfl⟩ | ⟨rfl, rfl⟩)
        · obtain ⟨h1, h2⟩ := (ih q).mp hq
          refine ⟨by simp [h1], ?_⟩
          intro ch hch
          rcases List.mem_cons.mp hch with rfl | h
          · exact hc
          · exact h2 ch h
        · simp
      · rintro ⟨h1, h2⟩
        cases u with
        | nil => right; simp at h1; exact ⟨rfl, h1.symm⟩
        | cons b u' =>
          left
          simp only [List.cons_append, List.cons.injEq] at h1
          obtain ⟨rfl, h1⟩ := h1
          refine ⟨(u', r), (ih (u', r)).mpr ⟨h1, ?_⟩, rfl, rfl⟩
          intro ch hch; exact h2 ch (List.mem_cons_of_mem _ hch)
    · have hc' : cls.ok a = false := by simpa using hc
      simp only [spans, hc', Bool.false_eq_true, if_false, List.mem_singleton, Prod.mk.injEq]
      constructor
      · rintro ⟨rfl, rfl⟩; simp
      · rintro ⟨h1, h2⟩
        cases u with
        | nil => simp at h1; exact ⟨rfl, h1.symm⟩
        | cons b u' =>
          simp only [List.cons_append, List.cons.injEq] at h1
          obtain ⟨rfl, _⟩ := h1
          exact absurd (h2 a (List.mem_cons_self)) hc

/-- the engine's successes are exactly the continuation's successes over all declarative matches -/
theorem mem_runK (n : Nat) (re : Re) : ∀ (s : List Char) (c : Caps) (K : Kont) (x : Caps),
    x ∈ runK n re s c K ↔ ∃ r c1, MatC n re s c r c1 ∧ x ∈ K r c1 := by
  induction re with
  | eps =>
    intro s c K x
    simp only [runK, MatC]
    exact ⟨fun h => ⟨s, c, ⟨rfl, rfl⟩, h⟩, fun ⟨_, _, ⟨h1, h2⟩, h⟩ => by subst h1; subst h2; exact h⟩
  | chr ch =>
    intro s c K x
    cases s with
    | nil => simp [runK, MatC]
    | cons y r =>
      by_cases h : ch = y
      · subst h
        simp only [runK, if_true, MatC, List.cons.injEq, true_and]
        exact ⟨fun h => ⟨r, c, ⟨rfl, rfl⟩, h⟩, fun ⟨_, _, ⟨h1, h2⟩, h⟩ => by subst h1; subst h2; exact h⟩
      · simp only [runK, h, if_false, List.not_mem_nil, MatC, List.cons.injEq, false_iff]
        rintro ⟨r', c1, ⟨⟨h1, _⟩, _⟩, _⟩
        exact h h1.symm
  | star cls m =>
    intro s c K x
    simp only [runK, List.mem_flatMap, MatC]
    constructor
    · rintro ⟨p, hp, hx⟩
      obtain ⟨h1, h2⟩ := (mem_spans cls s p).mp hp
      by_cases hm : (m && p.1.isEmpty) = true
      · simp [hm] at hx
      · simp only [hm] at hx
        refine ⟨p.2, c, ⟨rfl, p.1, h1, h2, ?_⟩, hx⟩
        intro hmt hnil
        apply hm; simp [hmt, hnil]
    · rintro ⟨r, c1, ⟨rfl, u, h1, h2, h3⟩, hx⟩
      refine ⟨(u, r), (mem_spans cls s (u, r)).mpr ⟨h1, h2⟩, ?_⟩
      have : ¬ ((m && (u, r).1.isEmpty) = true) := by
        intro h
        simp only [Bool.and_eq_true, List.isEmpty_iff] at h
        exact h3 h.1 h.2
      simp only [this]
      exact hx
  | seq a b iha ihb =>
    intro s c K x
    simp only [runK, MatC]
    rw [iha]
    constructor
    · rintro ⟨m, cm, h1, h2⟩
      obtain ⟨r, c1, h3, h4⟩ := (ihb m cm K x).mp h2
      exact ⟨r, c1, ⟨m, cm, h1, h3⟩, h4⟩
    · rintro ⟨r, c1, ⟨m, cm, h1, h3⟩, h4⟩
      exact ⟨m, cm, h1, (ihb m cm K x).mpr ⟨r, c1, h3, h4⟩⟩
  | alt a b iha ihb =>
    intro s c K x
    simp only [runK, MatC, List.mem_append]
    rw [iha, ihb]
    constructor
    · rintro (⟨r, c1, h1, h2⟩ | ⟨r, c1, h1, h2⟩)
      · exact ⟨r, c1, Or.inl h1, h2⟩
      · exact ⟨r, c1, Or.inr h1, h2⟩
    · rintro ⟨r, c1, h1 | h1, h2⟩
      · exact Or.inl ⟨r, c1, h1, h2⟩
      · exact Or.inr ⟨r, c1, h1, h2⟩
  | opt a iha =>
    intro s c K x
    simp only [runK, MatC, List.mem_append]
    rw [iha]
    constructor
    · rintro (⟨r, c1, h1, h2⟩ | h)
      · exact ⟨r, c1, Or.inl h1, h2⟩
      · exact ⟨s, c, Or.inr ⟨rfl, rfl⟩, h⟩
    · rintro ⟨r, c1, h1 | ⟨rfl, rfl⟩, h2⟩
      · exact Or.inl ⟨r, c1, h1, h2⟩
      · exact Or.inr h2
  | grp i a iha =>
    intro s c K x
    simp only [runK, MatC]
    rw [iha]
    constructor
    · rintro ⟨r, c1, h1, h2⟩
      exact ⟨r, _, ⟨c1, h1, rfl⟩, h2⟩
    · rintro ⟨r, c2, ⟨c1, h1, rfl⟩, h2⟩
      exact ⟨r, c1, h1, h2⟩
  | bol =>
    intro s c K x
    by_cases h : s.length = n
    · simp only [runK, h, if_true, MatC, and_true]
      exact ⟨fun hx => ⟨s, c, ⟨rfl, rfl⟩, hx⟩, fun ⟨_, _, ⟨h1, h2⟩, hx⟩ => by subst h1; subst h2; exact hx⟩
    · simp [runK, MatC, h]
  | eol =>
    intro s c K x
    by_cases h : atEnd s = true
    · simp only [runK, h, if_true, MatC, and_true]
      exact ⟨fun hx => ⟨s, c, ⟨rfl, rfl⟩, hx⟩, fun ⟨_, _, ⟨h1, h2⟩, hx⟩ => by subst h1; subst h2; exact hx⟩
    · simp [runK, MatC, h]

/-- what `re.match` can return -/
theorem reMatch_some_mat {re : Re} {s : List Char} {x : Caps} (h : reMatch re s = some x) :
    ∃ r, MatC s.length re s [] r x := by
  unfold reMatch at h
  have hx : x ∈ runK s.length re s [] (fun _ c => [c]) := List.mem_of_head? h
  obtain ⟨r, c1, h1, h2⟩ := (mem_runK _ _ _ _ _ _).mp hx
  simp only [List.mem_singleton] at h2
  subst h2
  exact ⟨r, h1⟩

/-- `re.match` succeeds exactly when some declarative match exists -/
theorem reMatch_isSome_iff (re : Re) (s : List Char) :
    (reMatch re s).isSome = true ↔ ∃ r x, MatC s.length re s [] r x := by
  unfold reMatch
  constructor
  · intro h
    cases hh : (runK s.length re s [] (fun _ c => [c])).head? with
    | none => simp [hh] at h
    | some x =>
      obtain ⟨r, hr⟩ := reMatch_some_mat (re := re) (s := s) (x := x) hh
      exact ⟨r, x, hr⟩
  · rintro ⟨r, x, hm⟩
    have hx : x ∈ runK s.length re s [] (fun _ c => [c]) :=
      (mem_runK _ _ _ _ _ _).mpr ⟨r, x, hm, by simp⟩
    cases hl : runK s.length re s [] (fun _ c => [c]) with
    | nil => rw [hl] at hx; simp at hx
    | cons a t => simp

end Mpgs.Regex
