import MpgsModel.Model.WebSocket
/-!
Helper lemmas for C18 (byte arithmetic of the frame header, `struct` round trips, masking,
parser on RFC encodings).  Core Lean only.
-/
namespace Mpgs.WebSocket


theorem OpCode.ofValue_value (op : OpCode) : OpCode.ofValue op.value = .ok op := by
  cases op <;> rfl

theorem byte0_parse (fin r1 r2 r3 : Bool) (op : OpCode) (hw : op.isWire = true) :
    let a := (UInt8.ofNat (128 * b2n fin + 64 * b2n r1 + 32 * b2n r2 + 16 * b2n r3 + op.value)).toNat
    ((a &&& 0x80) >>> 7 != 0) = fin ∧ ((a &&& 0x40) >>> 6 != 0) = r1 ∧ ((a &&& 0x20) >>> 5 != 0) = r2 ∧
    ((a &&& 0x10) >>> 4 != 0) = r3 ∧ (a &&& 0x0F) >>> 0 = op.value := by
  cases fin <;> cases r1 <;> cases r2 <;> cases r3 <;> cases op <;>
    first | decide | (simp [OpCode.isWire] at hw)

theorem byte0_ser (fin r1 r2 r3 : Bool) (op : OpCode) (hw : op.isWire = true) :
    (b2n fin <<< 7) ||| (b2n r1 <<< 6) ||| (b2n r2 <<< 5) ||| (b2n r3 <<< 4) ||| (op.value <<< 0)
      = 128 * b2n fin + 64 * b2n r1 + 32 * b2n r2 + 16 * b2n r3 + op.value := by
  cases fin <;> cases r1 <;> cases r2 <;> cases r3 <;> cases op <;>
    first | decide | (simp [OpCode.isWire] at hw)

theorem byte1_parse : ∀ code, code < 128 → ∀ m : Bool,
    ((UInt8.ofNat (128 * b2n m + code)).toNat &&& 0x7F) = code ∧
    (((UInt8.ofNat (128 * b2n m + code)).toNat &&& 0x80) != 0) = m := by decide

theorem byte1_ser : ∀ code, code < 128 → ∀ m : Bool,
    (code ||| (b2n m <<< 7)) = 128 * b2n m + code := by decide



theorem and_ff (n : Nat) : n &&& 0xFF = n % 256 := Nat.and_two_pow_sub_one_eq_mod n 8

theorem packH_eq (n : Nat) (h : n < 65536) :
    packH n = .ok [UInt8.ofNat (n / 256), UInt8.ofNat (n % 256)] := by
  simp [packH, h, and_ff, Nat.shiftRight_eq_div_pow]

theorem packQ_eq (n : Nat) (h : n < 2 ^ 64) :
    packQ n = .ok [UInt8.ofNat (n / 2 ^ 56), UInt8.ofNat (n / 2 ^ 48 % 256), UInt8.ofNat (n / 2 ^ 40 % 256),
        UInt8.ofNat (n / 2 ^ 32 % 256), UInt8.ofNat (n / 2 ^ 24 % 256), UInt8.ofNat (n / 2 ^ 16 % 256),
        UInt8.ofNat (n / 2 ^ 8 % 256), UInt8.ofNat (n % 256)] := by
  simp [packQ, h, and_ff, Nat.shiftRight_eq_div_pow]

theorem be16_ofNat (n : Nat) (h : n < 65536) :
    be16 (UInt8.ofNat (n / 256)) (UInt8.ofNat (n % 256)) = n := by
  simp only [be16, UInt8.toNat_ofNat']
  omega

theorem be64_ofNat (n : Nat) (h : n < 2 ^ 64) :
    be64 (UInt8.ofNat (n / 2 ^ 56)) (UInt8.ofNat (n / 2 ^ 48 % 256)) (UInt8.ofNat (n / 2 ^ 40 % 256))
        (UInt8.ofNat (n / 2 ^ 32 % 256)) (UInt8.ofNat (n / 2 ^ 24 % 256)) (UInt8.ofNat (n / 2 ^ 16 % 256))
        (UInt8.ofNat (n / 2 ^ 8 % 256)) (UInt8.ofNat (n % 256)) = n := by
  simp only [be64, UInt8.toNat_ofNat', Nat.reducePow, Nat.mod_mod] at h ⊢
  omega

theorem key_get (k : Key) (i : Nat) : k.toList[i % 4]? = some (k.get i) := by
  have h : i % 4 < 4 := Nat.mod_lt _ (by omega)
  unfold Key.get Key.toList
  match h4 : i % 4, h with
  | 0, _ => rfl
  | 1, _ => rfl
  | 2, _ => rfl
  | 3, _ => rfl

theorem xorLoop_eq (k : Key) (p : Buf) : ∀ i, xorLoop k.toList i p = .ok (Rfc.mask k i p) := by
  induction p with
  | nil => intro i; rfl
  | cons b bs ih =>
    intro i
    simp only [xorLoop, key_get, ih, Rfc.mask]

theorem mask_involution (k : Key) (p : Buf) : ∀ i, Rfc.mask k i (Rfc.mask k i p) = p := by
  induction p with
  | nil => intro i; rfl
  | cons b bs ih =>
    intro i
    simp only [Rfc.mask, ih, UInt8.xor_assoc, UInt8.xor_self, UInt8.xor_zero]

theorem mask_length (k : Key) (p : Buf) : ∀ i, (Rfc.mask k i p).length = p.length := by
  induction p with
  | nil => intro i; rfl
  | cons b bs ih => intro i; simp [Rfc.mask, ih]


/-! ### the reader on an RFC encoding -/

/-- the library frame object that corresponds to an RFC frame after parsing -/
def LibFrame.ofSpec (f : Frame) : LibFrame :=
  { fin := f.fin, rsv1 := f.rsv1, rsv2 := f.rsv2, rsv3 := f.rsv3, opcode := f.opcode,
    mask := f.mask.isSome, length7 := Rfc.lenCode f.payload.length,
    payloadLength := f.payload.length,
    maskingKey := (match f.mask with | none => [0, 0, 0, 0] | some k => k.toList),
    payload := f.payload }

/-- the frame object after `readHeader` -/
def LibFrame.hdrOf (f : Frame) : LibFrame :=
  { fin := f.fin, rsv1 := f.rsv1, rsv2 := f.rsv2, rsv3 := f.rsv3, opcode := f.opcode,
    mask := f.mask.isSome, length7 := Rfc.lenCode f.payload.length,
    payloadLength := 0, maskingKey := [0, 0, 0, 0], payload := [] }

theorem lenCode_lt (n : Nat) : Rfc.lenCode n < 128 := by
  unfold Rfc.lenCode; split <;> (try split) <;> omega

theorem readHeader_encode (f : Frame) (hw : f.opcode.isWire = true) (t : Buf) :
    readHeader (Rfc.byte0 f :: Rfc.byte1 f :: t) = (t, .ok (LibFrame.hdrOf f)) := by
  have h0 := byte0_parse f.fin f.rsv1 f.rsv2 f.rsv3 f.opcode hw
  simp only [] at h0
  obtain ⟨h1, h2, h3, h4, h5⟩ := h0
  have hb := byte1_parse (Rfc.lenCode f.payload.length) (lenCode_lt _) f.mask.isSome
  obtain ⟨h6, h7⟩ := hb
  simp only [readHeader, recv, List.take_succ_cons, List.take_zero, List.drop_succ_cons, List.drop_zero,
    List.isEmpty_cons, parseHeader, Rfc.byte0, Rfc.byte1, h1, h2, h3, h4, h5, h6, h7,
    OpCode.ofValue_value, LibFrame.hdrOf]
  rfl

theorem readExtLen_encode (h : LibFrame) (n : Nat) (hn : n < 2 ^ 64) (hl : h.length7 = Rfc.lenCode n)
    (t : Buf) : readExtLen h (Rfc.extLen n ++ t) = (t, .ok n) := by
  unfold readExtLen Rfc.extLen
  rw [hl]
  unfold Rfc.lenCode
  by_cases h1 : n ≤ 125
  · have a : ¬ n = 126 := by omega
    have b : ¬ n = 127 := by omega
    simp [h1, a, b]
  · by_cases h2 : n ≤ 65535
    · simp only [h1, h2, if_true, if_false, recv]
      simp [unpackH, be16_ofNat n (by omega)]
    · simp only [h1, h2, if_false, recv]
      simp [unpackQ, be64_ofNat n hn]

theorem encode_eq (f : Frame) :
    Rfc.encode f = Rfc.byte0 f :: Rfc.byte1 f :: (Rfc.extLen f.payload.length ++
      (match f.mask with
       | none => f.payload
       | some k => k.toList ++ Rfc.mask k 0 f.payload)) := by
  cases h : f.mask <;> simp [Rfc.encode, h]

theorem Key.toList_length (k : Key) : k.toList.length = 4 := rfl

theorem recv_left (n : Nat) (l r : Buf) (h : l.length = n) : recv n (l ++ r) = (l, r) := by
  simp [recv, List.take_left' h, List.drop_left' h]

/-- C18 core: the library reader applied to the RFC encoding of any frame (wire opcode, any flags,
    masked or not, any key, any payload below 2^64 bytes) followed by arbitrary bytes returns exactly
    that frame, payload unmasked, and leaves exactly the following bytes in the buffer. -/
theorem readFrame_encode (f : Frame) (hw : f.opcode.isWire = true) (hn : f.payload.length < 2 ^ 64)
    (rest : Buf) : readFrame (Rfc.encode f ++ rest) = (rest, .ok (LibFrame.ofSpec f)) := by
  rw [encode_eq]
  simp only [readFrame, List.cons_append, List.append_assoc, readHeader_encode f hw]
  simp only [readDataHeader, readExtLen_encode (LibFrame.hdrOf f) f.payload.length hn rfl]
  cases hm : f.mask with
  | none =>
    have e2 : recv f.payload.length (f.payload ++ rest) = (f.payload, rest) := recv_left _ _ _ rfl
    simp [LibFrame.hdrOf, LibFrame.ofSpec, hm, readData, e2]
  | some k =>
    have e1 : recv 4 (k.toList ++ (Rfc.mask k 0 f.payload ++ rest))
        = (k.toList, Rfc.mask k 0 f.payload ++ rest) := recv_left 4 _ _ rfl
    have e2 : recv f.payload.length (Rfc.mask k 0 f.payload ++ rest) = (Rfc.mask k 0 f.payload, rest) :=
      recv_left _ _ _ (mask_length k _ 0)
    simp [LibFrame.hdrOf, LibFrame.ofSpec, hm, readData, e1, e2, xorLoop_eq k, mask_involution]

theorem extLen_length (n : Nat) :
    (Rfc.extLen n).length = if n ≤ 125 then 0 else if n ≤ 65535 then 2 else 8 := by
  unfold Rfc.extLen; split <;> (try split) <;> rfl

theorem encode_length (f : Frame) :
    (Rfc.encode f).length = 2 + (Rfc.extLen f.payload.length).length +
      (if f.mask.isSome then 4 else 0) + f.payload.length := by
  rw [encode_eq]
  cases hm : f.mask with
  | none => simp; omega
  | some k => simp [Key.toList, mask_length]; omega

theorem frameSize_encode (f : Frame) (hn : f.payload.length < 2 ^ 64) (rest : Buf) :
    frameSize (Rfc.encode f ++ rest) = some (Rfc.encode f).length := by
  rw [encode_length, encode_eq]
  obtain ⟨h6, h7⟩ := byte1_parse (Rfc.lenCode f.payload.length) (lenCode_lt _) f.mask.isSome
  simp only [List.cons_append, frameSize, Rfc.byte1, h6, h7]
  unfold Rfc.lenCode Rfc.extLen
  by_cases h1 : f.payload.length ≤ 125
  · have a : ¬ f.payload.length = 126 := by omega
    have b : ¬ f.payload.length = 127 := by omega
    cases hm : f.mask.isSome <;> simp [h1, a, b] <;> omega
  · by_cases h2 : f.payload.length ≤ 65535
    · cases hm : f.mask.isSome <;>
        simp [h1, h2, be16_ofNat f.payload.length (by omega)]
    · cases hm : f.mask.isSome <;>
        simp [h1, h2, be64_ofNat f.payload.length hn]

/-- what `hasFrame` decided stays decided when more bytes arrive -/
theorem frameSize_append (buf x : Buf) (n : Nat) (h : frameSize buf = some n) :
    frameSize (buf ++ x) = some n := by
  match buf, h with
  | a :: b1 :: t, h =>
    simp only [frameSize, List.cons_append] at h ⊢
    split
    · rename_i h6
      simp only [h6, if_true] at h
      match t, h with
      | c :: d :: t', h => simpa using h
    · rename_i h6
      simp only [h6, if_false] at h
      split
      · rename_i h7
        simp only [h7, if_true] at h
        match t, h with
        | c0 :: c1 :: c2 :: c3 :: c4 :: c5 :: c6 :: c7 :: t', h => simpa using h
      · rename_i h7
        simpa [h7] using h

/-! ### the writer produces the RFC encoding -/

/-- the RFC frame a library frame object stands for.  When the mask flag is set the object's
    `payload` attribute holds the octets as they travel (`writeData` sends it untouched), so the
    application data is its unmasking. -/
def LibFrame.toSpec (lf : LibFrame) (k : Key) : Frame :=
  { fin := lf.fin, rsv1 := lf.rsv1, rsv2 := lf.rsv2, rsv3 := lf.rsv3, opcode := lf.opcode,
    mask := if lf.mask then some k else none,
    payload := if lf.mask then Rfc.mask k 0 lf.payload else lf.payload }

theorem toSpec_payload_length (lf : LibFrame) (k : Key) :
    (lf.toSpec k).payload.length = lf.payload.length := by
  unfold LibFrame.toSpec; cases lf.mask <;> simp [mask_length]

theorem byte0_lt (fin r1 r2 r3 : Bool) (op : OpCode) (hw : op.isWire = true) :
    128 * b2n fin + 64 * b2n r1 + 32 * b2n r2 + 16 * b2n r3 + op.value < 256 := by
  cases fin <;> cases r1 <;> cases r2 <;> cases r3 <;> cases op <;>
    first | decide | (simp [OpCode.isWire] at hw)

theorem serializeHeader_rfc (lf : LibFrame) (k : Key) (hw : lf.opcode.isWire = true)
    (hl : lf.payloadLength = lf.payload.length) :
    serializeHeader lf = .ok [Rfc.byte0 (lf.toSpec k), Rfc.byte1 (lf.toSpec k)] := by
  have h1 := byte1_ser (Rfc.lenCode lf.payload.length) (lenCode_lt _) lf.mask
  have h2 := byte0_lt lf.fin lf.rsv1 lf.rsv2 lf.rsv3 lf.opcode hw
  have h3 : 128 * b2n lf.mask + Rfc.lenCode lf.payload.length < 256 := by
    have := lenCode_lt lf.payload.length
    cases lf.mask <;> simp [b2n] <;> omega
  have h4 : (if lf.payload.length ≤ 125 then lf.payload.length
      else if lf.payload.length ≤ 0xFFFF then 126 else 127) = Rfc.lenCode lf.payload.length := rfl
  have h5 : (lf.toSpec k).mask.isSome = lf.mask := by
    unfold LibFrame.toSpec; cases lf.mask <;> rfl
  simp only [serializeHeader, byte0_ser _ _ _ _ _ hw, hl, h4, h1, packBB, packB, h2, h3, if_true,
    Rfc.byte0, Rfc.byte1, toSpec_payload_length, h5]
  rfl

theorem serializeDataHeader_rfc (lf : LibFrame) (k : Key) (hl : lf.payloadLength = lf.payload.length)
    (hn : lf.payload.length < 2 ^ 64) (hk : lf.mask = true → lf.maskingKey = k.toList) :
    serializeDataHeader lf
      = .ok (Rfc.extLen lf.payload.length ++ (if lf.mask then k.toList else [])) := by
  have hk' : (if lf.mask = true then lf.maskingKey else []) = (if lf.mask = true then k.toList else []) := by
    by_cases hm : lf.mask = true
    · simp [hm, hk hm]
    · simp [hm]
  unfold serializeDataHeader Rfc.extLen
  rw [hl, hk']
  by_cases h1 : lf.payload.length ≤ 125
  · have : ¬ lf.payload.length > 125 := by omega
    simp [h1, this]
  · have h1' : lf.payload.length > 125 := by omega
    by_cases h2 : lf.payload.length ≤ 65535
    · simp [h1, h1', h2, packH_eq _ (show lf.payload.length < 65536 by omega)]
    · simp [h1, h1', h2, packQ_eq _ hn]

/-- the bytes the library writer sends for a frame object are the RFC 6455 encoding of the frame
    it stands for (any flags, any wire opcode, mask flag set or not, any length below 2^64) -/
theorem writeFrame_rfc (lf : LibFrame) (k : Key) (hw : lf.opcode.isWire = true)
    (hl : lf.payloadLength = lf.payload.length) (hn : lf.payload.length < 2 ^ 64)
    (hk : lf.mask = true → lf.maskingKey = k.toList) :
    (writeFrame lf).2 = none ∧ (writeFrame lf).1.flatten = Rfc.encode (lf.toSpec k) := by
  simp only [writeFrame, serializeHeader_rfc lf k hw hl, serializeDataHeader_rfc lf k hl hn hk]
  refine ⟨trivial, ?_⟩
  rw [encode_eq, toSpec_payload_length]
  have : ∀ d : Buf, ([[Rfc.byte0 (lf.toSpec k), Rfc.byte1 (lf.toSpec k)]] ++
      (if d.isEmpty = true then [] else [d]) ++ [lf.payload]).flatten
      = Rfc.byte0 (lf.toSpec k) :: Rfc.byte1 (lf.toSpec k) :: (d ++ lf.payload) := by
    intro d
    cases d <;> simp
  rw [this]
  unfold LibFrame.toSpec
  cases lf.mask <;> simp [mask_involution]

theorem serializeHeader_ok (lf : LibFrame) (hw : lf.opcode.isWire = true) :
    ∃ h, serializeHeader lf = .ok h := by
  have h2 := byte0_lt lf.fin lf.rsv1 lf.rsv2 lf.rsv3 lf.opcode hw
  have h4 : (if lf.payloadLength ≤ 125 then lf.payloadLength
      else if lf.payloadLength ≤ 0xFFFF then 126 else 127) = Rfc.lenCode lf.payloadLength := rfl
  have h1 := byte1_ser (Rfc.lenCode lf.payloadLength) (lenCode_lt _) lf.mask
  have h3 : 128 * b2n lf.mask + Rfc.lenCode lf.payloadLength < 256 := by
    have := lenCode_lt lf.payloadLength
    cases lf.mask <;> simp [b2n] <;> omega
  simp only [serializeHeader, byte0_ser _ _ _ _ _ hw, h4, h1, packBB, packB, h2, h3, if_true]
  exact ⟨_, rfl⟩

/-- error branch of the writer: a `payload_length` that does not fit 64 bits raises `struct.error`
    in `writeDataHeader`, after the two header bytes have already been sent -/
theorem writeFrame_too_long (lf : LibFrame) (hw : lf.opcode.isWire = true)
    (h : 2 ^ 64 ≤ lf.payloadLength) : ∃ hdr, writeFrame lf = ([hdr], some .structError) := by
  obtain ⟨hdr, hh⟩ := serializeHeader_ok lf hw
  refine ⟨hdr, ?_⟩
  have a : lf.payloadLength > 125 := by omega
  have b : ¬ lf.payloadLength ≤ 0xFFFF := by omega
  have c : ¬ lf.payloadLength < 2 ^ 64 := by omega
  simp [writeFrame, hh, serializeDataHeader, a, b, packQ, c]


/-! ### the literal transcription of `hasFrame()` -/

theorem hasFrame_literal (buf : Buf) : hasFrameLit buf = .ok (hasFrame buf) := by
  match buf with
  | [] => rfl
  | [_] => rfl
  | a :: b1 :: t =>
    simp only [hasFrameLit, hasFrame, frameSize, List.length_cons, List.getElem?_cons_succ,
      List.getElem?_cons_zero, slice, List.drop_succ_cons, List.drop_zero]
    have h0 : ¬ (t.length + 1 + 1 < 2) := by omega
    simp only [h0, if_false]
    by_cases h6 : b1.toNat &&& 0x7F = 126
    · simp only [h6, if_true]
      match t with
      | [] => simp
      | [_] => simp
      | c :: d :: t' =>
        have h4 : ¬ (t'.length + 1 + 1 + 1 + 1 < 4) := by omega
        by_cases hm : b1.toNat &&& 0x80 = 0 <;> simp [unpackH, hm, h4] <;> omega
    · by_cases h7 : b1.toNat &&& 0x7F = 127
      · simp only [h7, if_true]
        match t with
        | [] => simp
        | [_] => simp
        | [_, _] => simp
        | [_, _, _] => simp
        | [_, _, _, _] => simp
        | [_, _, _, _, _] => simp
        | [_, _, _, _, _, _] => simp
        | [_, _, _, _, _, _, _] => simp
        | c0 :: c1 :: c2 :: c3 :: c4 :: c5 :: c6 :: c7 :: t' =>
          have h4 : ¬ (t'.length + 1 + 1 + 1 + 1 + 1 + 1 + 1 + 1 + 1 + 1 < 10) := by omega
          by_cases hm : b1.toNat &&& 0x80 = 0 <;> simp [unpackQ, hm, h4] <;> omega
      · simp only [h6, h7, if_false]
        by_cases hm : b1.toNat &&& 0x80 = 0 <;> simp [hm] <;> omega


end Mpgs.WebSocket
