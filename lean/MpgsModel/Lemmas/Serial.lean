import MpgsModel.Model.Serial
/-! Helper lemmas for the serializer model: byte arithmetic, monad plumbing, inversion of the
encoder, the integer codec. -/
namespace Mpgs.Serial

/-! ### Except / R plumbing -/

theorem bind_eq_ok {ε α β : Type} {x : Except ε α} {f : α → Except ε β} {b : β} :
    (x >>= f) = .ok b ↔ ∃ a, x = .ok a ∧ f a = .ok b := by
  cases x <;> simp [bind, Except.bind]

theorem bind_ok_eq {ε α β : Type} {x : Except ε α} {f : α → Except ε β} {a : α} (h : x = .ok a) :
    (x >>= f) = f a := by
  subst h; rfl

@[simp] theorem ok_bind {ε α β : Type} (a : α) (f : α → Except ε β) : (Except.ok a >>= f) = f a := rfl
@[simp] theorem error_bind {ε α β : Type} (e : ε) (f : α → Except ε β) :
    ((Except.error e : Except ε α) >>= f) = .error e := rfl

@[simp] theorem R.res_bind {α β : Type} (x : R α) (f : α → R β) :
    (x >>= f).res = x.res >>= fun a => (f a).res := by
  show (R.bind x f).res = _
  unfold R.bind
  cases h : x.res <;> rfl

@[simp] theorem R.res_ok {α : Type} (a : α) : (R.ok a).res = .ok a := rfl
@[simp] theorem R.res_pure {α : Type} (a : α) : (pure a : R α).res = .ok a := rfl
@[simp] theorem R.res_err {α : Type} (e : Err) : (R.err e : R α).res = .error e := rfl
@[simp] theorem R.res_lift {α : Type} (x : Except Err α) : (R.lift x).res = x := rfl
@[simp] theorem R.res_tick (n : Nat) : (R.tick n).res = .ok () := rfl
@[simp] theorem R.res_reparse (n : Nat) : (R.reparse n).res = .ok () := rfl
@[simp] theorem R.res_wrapHdr {α : Type} (x : R α) : (R.wrapHdr x).res = wrapHdrE x.res := rfl

@[simp] theorem wrapHdrE_ok {α : Type} (a : α) : wrapHdrE (.ok a : Except Err α) = .ok a := rfl

theorem wrapStruct_eq_ok {α : Type} {x : Except Err α} {a : α} : wrapStruct x = .ok a ↔ x = .ok a := by
  unfold wrapStruct
  split <;> simp_all

/-! ### bytes -/

@[simp] theorem u8_toNat (n : Nat) : (u8 n).toNat = n % 256 := by
  simp [u8]

theorem beNat_be1 (n : Nat) : beNat (be1 n) = n % 256 := by
  simp [beNat, be1]
theorem beNat_be2 (n : Nat) : beNat (be2 n) = n % 65536 := by
  simp [beNat, be2]; omega
theorem beNat_be4 (n : Nat) : beNat (be4 n) = n % 4294967296 := by
  simp [beNat, be4]; omega
theorem beNat_be8 (n : Nat) : beNat (be8 n) = n % 18446744073709551616 := by
  simp [beNat, be8]; omega

theorem sint_twos1 (i : Int) (h1 : -128 ≤ i) (h2 : i < 128) : sint 1 (twos i 1 % 256) = i := by
  unfold sint twos; simp; omega
theorem sint_twos2 (i : Int) (h1 : -32768 ≤ i) (h2 : i < 32768) : sint 2 (twos i 2 % 65536) = i := by
  unfold sint twos; simp; omega
theorem sint_twos4 (i : Int) (h1 : -2147483648 ≤ i) (h2 : i < 2147483648) :
    sint 4 (twos i 4 % 4294967296) = i := by
  unfold sint twos; simp; omega
theorem sint_twos8 (i : Int) (h1 : -9223372036854775808 ≤ i) (h2 : i < 9223372036854775808) :
    sint 8 (twos i 8 % 18446744073709551616) = i := by
  unfold sint twos; simp; omega

/-! ### decoder unfolding, integer codec -/

theorem decodeC_cons_res (env : Env) (f : Nat) (t0 t1 : UInt8) (r : Bytes) :
    (decodeC env (f + 1) (t0 :: t1 :: r)).res =
      if isBase (t0.toNat * 256 + t1.toNat) then wrapHdrE (decodeBase env f (t0.toNat * 256 + t1.toNat) r).res
      else match lookup env.reg (t0.toNat * 256 + t1.toNat) with
        | some k => wrapHdrE (decodeReg env f (t0.toNat * 256 + t1.toNat) k r).res
        | none => .error .headerError := by
  simp only [decodeC, R.res_bind, R.res_tick]
  split
  · simp
  · split <;> simp [*]

theorem decodeC_int (env : Env) (i : Int) (bs : Bytes) (h : encodeInt i = .ok bs) (f : Nat) (rest : Bytes) :
    (decodeC env (f + 2) (bs ++ rest)).res = .ok (.int i, rest) := by
  unfold encodeInt at h
  simp only at h
  split at h
  · split at h
    · injection h with h; subst h
      rename_i h1 h2
      have := beNat_be8 (twos i 8); simp only [be8] at this
      simp [decodeC_cons_res, isBase, decodeBase, readFixed, be8, this]
      exact sint_twos8 i h2.1 h2.2
    · simp at h
  · split at h
    · injection h with h; subst h
      have := beNat_be4 (twos i 4); simp only [be4] at this
      simp [decodeC_cons_res, isBase, decodeBase, readFixed, be4, this]
      apply sint_twos4 <;> omega
    · split at h
      · injection h with h; subst h
        have := beNat_be2 (twos i 2); simp only [be2] at this
        simp [decodeC_cons_res, isBase, decodeBase, readFixed, be2, this]
        apply sint_twos2 <;> omega
      · injection h with h; subst h
        have := beNat_be1 (twos i 1); simp only [be1] at this
        simp [decodeC_cons_res, isBase, decodeBase, readFixed, be1, this]
        apply sint_twos1 <;> omega

theorem encodeInt_len (i : Int) (bs : Bytes) (h : encodeInt i = .ok bs) : 3 ≤ bs.length ∧ bs.length ≤ 10 := by
  unfold encodeInt at h
  simp only at h
  repeat' split at h
  all_goals first | (injection h with h; subst h; simp [be8, be4, be2, be1]) | simp at h

theorem encodeInt_nat_ok (n : Nat) (h : n ≤ 1048576) : ∃ bs, encodeInt (n : Int) = .ok bs := by
  unfold encodeInt
  simp only
  repeat' split
  all_goals first | exact ⟨_, rfl⟩ | omega
/-! ### inversion of the encoder -/

theorem packH_len (tid : Nat) (h : Bytes) (hh : packH tid = .ok h) : h = be2 tid ∧ tid < 65536 := by
  unfold packH at hh
  split at hh
  · injection hh with hh; exact ⟨hh.symm, by assumption⟩
  · simp at hh

theorem encodeBytes_ok {s bs : Bytes} (h : encodeBytes s = .ok bs) :
    s.length ≤ MAX_BYTES_LENGTH ∧ ∃ l, encodeInt s.length = .ok l ∧ bs = [0, 14] ++ l ++ s := by
  unfold encodeBytes at h
  split at h
  · simp at h
  · simp only [bind_eq_ok] at h
    obtain ⟨l, hl, h⟩ := h
    injection h with h
    exact ⟨by omega, l, hl, h.symm⟩

theorem encode_len_ge (env : Env) (v : Value) (bs : Bytes) (h : encode env v = .ok bs) : 2 ≤ bs.length := by
  cases v with
  | null => simp [encode] at h; subst h; simp
  | bool b => simp [encode] at h; subst h; simp
  | int i => simp [encode] at h; have := encodeInt_len i bs h; omega
  | f32 a b c d => simp [encode] at h; subst h; simp
  | f64 bits =>
    simp only [encode] at h
    split at h
    · injection h with h; subst h; simp
    · simp at h
  | str s =>
    simp only [encode] at h
    split at h
    · simp at h
    · split at h
      · simp at h
      · simp only [bind_eq_ok] at h
        obtain ⟨l, _, h⟩ := h
        injection h with h; subst h; simp <;> omega
  | bytes s =>
    simp only [encode] at h
    obtain ⟨_, l, _, rfl⟩ := encodeBytes_ok h
    simp <;> omega
  | seq xs =>
    simp only [encode] at h
    split at h
    · simp at h
    · simp only [wrapStruct_eq_ok, bind_eq_ok] at h
      obtain ⟨l, _, b, _, h⟩ := h
      injection h with h; subst h; simp <;> omega
  | map xs =>
    simp only [encode] at h
    split at h
    · simp at h
    · simp only [wrapStruct_eq_ok, bind_eq_ok] at h
      obtain ⟨l, _, b, _, h⟩ := h
      injection h with h; subst h; simp <;> omega
  | set xs =>
    simp only [encode] at h
    split at h
    · simp at h
    · simp only [wrapStruct_eq_ok, bind_eq_ok] at h
      obtain ⟨l, _, b, _, h⟩ := h
      injection h with h; subst h; simp <;> omega
  | object tid fs =>
    simp only [encode, bind_eq_ok] at h
    obtain ⟨hd, hh, l, _, b, _, h⟩ := h
    injection h with h; subst h
    obtain ⟨rfl, _⟩ := packH_len tid hd hh
    simp [be2] <;> omega
  | enum tid v =>
    simp only [encode, bind_eq_ok] at h
    obtain ⟨hd, hh, h⟩ := h
    obtain ⟨rfl, _⟩ := packH_len tid hd hh
    split at h
    · split at h
      · simp at h
      · simp at h
      · simp only [bind_eq_ok] at h
        obtain ⟨b, _, h⟩ := h
        injection h with h; subst h; simp [be2] <;> omega
    · simp at h
  | clientHello tid k ver =>
    simp only [encode, bind_eq_ok] at h
    obtain ⟨hd, hh, a, _, b, _, h⟩ := h
    obtain ⟨rfl, _⟩ := packH_len tid hd hh
    split at h
    · simp at h
    · injection h with h; subst h; simp [be2] <;> omega
  | serverHello tid r k s t =>
    simp only [encode, bind_eq_ok] at h
    obtain ⟨hd, hh, a, _, b, _, c, _, h⟩ := h
    obtain ⟨rfl, _⟩ := packH_len tid hd hh
    split at h
    · simp at h
    · simp only [bind_eq_ok] at h
      obtain ⟨sg, _, x, _, y, _, z, _, h⟩ := h
      injection h with h; subst h; simp [be2] <;> omega
  | unsupported => simp [encode] at h

end Mpgs.Serial
