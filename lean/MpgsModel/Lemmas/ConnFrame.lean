import MpgsModel.Model.ConnStep
/-! Frame lemmas: the *sender clock* of a connection (datagram counter, last send times, the
configured intervals, the direction) is touched by `_build_packet` only. -/
namespace Mpgs.Conn
open Mpgs.Bytes Mpgs.Wire

structure SClock where
  seqSending : Nat
  lastSend : Int
  lastKeepAlive : Int
  sendInterval : Int
  keepAlive : Int
  isServer : Bool
  deriving DecidableEq

def sc (c : Conn) : SClock :=
  ⟨c.seqSending, c.lastSend, c.lastKeepAlive, c.sendInterval, c.keepAlive, c.isServer⟩

theorem sc_sendType (c : Conn) (ty : PType) (p : Bytes) (r : Int) (cb : Option Cb) :
    sc (sendType c ty p r cb) = sc c := by
  unfold sendType sc; split <;> rfl

theorem sc_sendFrags (c : Conn) (fid fragId count : Nat) (retry : Int) (i : Nat) (fs : List Bytes) :
    sc (sendFrags c fid fragId count retry i fs) = sc c := by
  induction fs generalizing c i with
  | nil => rfl
  | cons f fs ih => simp only [sendFrags]; rw [ih, sc_sendType]

theorem sc_sendFragmented (sz : Sizes) (c : Conn) (p : Bytes) (r : Int) (cb : Option Nat) :
    sc (sendFragmented sz c p r cb).1 = sc c := by
  unfold sendFragmented
  simp only
  split
  · rfl
  · show sc (sendFrags _ _ _ _ _ _ _) = sc c
    rw [sc_sendFrags]; rfl

theorem sc_send (sz : Sizes) (c : Conn) (p : Bytes) (r : Int) (cb : Option Nat) :
    sc (send sz c p r cb).1 = sc c := by
  unfold send
  split
  · rfl
  · split
    · rfl
    · split
      · exact sc_sendFragmented sz c p r cb
      · exact sc_sendType c .app p r _

theorem sc_disconnect (c : Conn) (cb : Option Cb) : sc (disconnect c cb) = sc c := by
  unfold disconnect sendType sc
  split
  · split <;> rfl
  · rfl

theorem sc_runLeaf (c : Conn) (cb : Cb) (v : Bool) : sc (runLeaf c cb v).1 = sc c := by
  unfold runLeaf
  split
  · rfl
  · split
    · rfl
    · split
      · rfl
      · rfl
      · split
        · exact sc_sendType _ _ _ _ _
        · simp only
          split
          · split <;> rfl
          · rfl
  · rfl
  · rfl
  · rfl
  · rfl

theorem sc_runCb (c : Conn) (cb : Cb) (v : Bool) : sc (runCb c cb v).1 = sc c := by
  unfold runCb
  split
  · split
    · rfl
    · split
      · rfl
      · split
        · rfl
        · simp only
          split
          · rw [sc_runLeaf]; rfl
          · rfl
  · exact sc_runLeaf _ _ _

theorem sc_runCbs (c : Conn) (cbs : List Cb) (v : Bool) : sc (runCbs c cbs v).1 = sc c := by
  induction cbs generalizing c with
  | nil => rfl
  | cons cb cbs ih =>
    simp only [runCbs]
    rw [ih, sc_runCb]

theorem sc_resolve (c : Conn) (s : Nat) (ok : Bool) : sc (resolve c s ok).1 = sc c := by
  unfold resolve
  simp only
  have h0 : sc (if ok = true then { c with acked := c.acked + 1 } else { c with timeouts := c.timeouts + 1 }) = sc c := by
    split <;> rfl
  generalize (if ok = true then { c with acked := c.acked + 1 } else { c with timeouts := c.timeouts + 1 }) = c0 at *
  cases hcb : aget c0.pendingCbs s with
  | none =>
    simp only
    cases hr : aget c0.pendingRetry s <;> simp only [sc] at h0 ⊢ <;> exact h0
  | some cbs =>
    simp only
    have h1 := sc_runCbs c0 cbs ok
    generalize runCbs c0 cbs ok = r at *
    obtain ⟨c', ev⟩ := r
    simp only at h1 ⊢
    cases hr : aget c'.pendingRetry s <;> simp only [sc] at h0 h1 ⊢ <;> rw [h1, h0]

theorem sc_checkTimeoutKeys (c : Conn) (t : Int) (ks : List Nat) :
    sc (checkTimeoutKeys c t ks).1 = sc c := by
  induction ks generalizing c with
  | nil => rfl
  | cons s ks ih =>
    simp only [checkTimeoutKeys]
    split
    · exact ih c
    · split
      · simp only; rw [ih, sc_resolve]
      · exact ih c

theorem sc_checkTimeout (c : Conn) (t : Int) : sc (checkTimeout c t).1 = sc c :=
  sc_checkTimeoutKeys c t _

theorem sc_handleAckKeys (c : Conn) (a b : Nat) (ks : List Nat) :
    sc (handleAckKeys c a b ks).1 = sc c := by
  induction ks generalizing c with
  | nil => rfl
  | cons s ks ih =>
    simp only [handleAckKeys]
    split
    · exact ih c
    · split
      · simp only; rw [ih, sc_resolve]
      · split
        · simp only; rw [ih, sc_resolve]
        · exact ih c

theorem sc_recvAppFragment (c : Conn) (t : Int) (m : Nat) (f : Bytes) :
    sc (recvAppFragment c t m f).1 = sc c := by
  unfold recvAppFragment
  split
  · rfl
  · simp only
    split <;> rfl

/-- the handshake handlers of a role leave the sender clock alone -/
def Role.KeepsClock (R : Role) : Prop :=
  (∀ c t p, sc (R.clientHello c t p).1 = sc c) ∧ (∀ c t p, sc (R.serverHello c t p).1 = sc c) ∧
  (∀ c t p, sc (R.challengeResp c t p).1 = sc c)

theorem sc_recvMessage (R : Role) (hR : R.KeepsClock) (c : Conn) (t : Int) (m : WMsg) :
    sc (recvMessage R c t m).1 = sc c := by
  unfold recvMessage
  split
  · rfl
  · rename_i bf _
    have e : sc { c with bfMsg := bf } = sc c := rfl
    split
    · rw [hR.1]; exact e
    · rw [hR.2.1]; exact e
    · rw [hR.2.2]; exact e
    · exact e
    · exact e
    · rw [sc_recvAppFragment]; exact e
    · exact e
    · exact e

theorem sc_recvMessages (R : Role) (hR : R.KeepsClock) (c : Conn) (t : Int) (ms : List WMsg) :
    sc (recvMessages R c t ms).1 = sc c := by
  induction ms generalizing c with
  | nil => rfl
  | cons m ms ih =>
    simp only [recvMessages]
    have h1 := sc_recvMessage R hR c t m
    generalize recvMessage R c t m = r at *
    obtain ⟨c1, e1, err⟩ := r
    cases err with
    | some e => exact h1
    | none => simp only; rw [ih]; exact h1

theorem sc_accept (R : Role) (hR : R.KeepsClock) (c : Conn) (t : Int) (h : Header) (pkt : Packet)
    (bf : Seq.BitField) : sc (accept R c t h pkt bf).1 = sc c := by
  unfold accept
  simp only
  rw [sc_recvMessages R hR]
  unfold handleAckBits
  rw [sc_handleAckKeys]
  rfl

theorem sc_recvDatagram (C : Crypto) (R : Role) (hR : R.KeepsClock) (c : Conn) (t : Int) (h : Header)
    (d : Bytes) : sc (recvDatagram C R c t h d).1 = sc c := by
  unfold recvDatagram
  split
  · rfl
  · split
    · rfl
    · split
      · rfl
      · split
        · rfl
        · exact sc_accept R hR c t h _ _

theorem baseRole_keepsClock : baseRole.KeepsClock := ⟨fun _ _ _ => rfl, fun _ _ _ => rfl, fun _ _ _ => rfl⟩

end Mpgs.Conn
