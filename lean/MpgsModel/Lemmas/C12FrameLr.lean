import MpgsModel.Model.ConnStep
-- GENERATED from ConnFrame.lean by the method of tools/gen_frames.py (projection `lr`) - do not edit
/-! Frame lemmas for C12: the functions below leave the projection `lr` of the connection state alone. -/
namespace Mpgs.Conn
open Mpgs.Bytes Mpgs.Wire

/-- the liveness clock: time of the last accepted datagram -/
def lr (c : Conn) : Int := c.lastRecv

theorem lr_sendType (c : Conn) (ty : PType) (p : Bytes) (r : Int) (cb : Option Cb) :
    lr (sendType c ty p r cb) = lr c := by
  unfold sendType lr; split <;> rfl

theorem lr_sendFrags (c : Conn) (fid fragId count : Nat) (retry : Int) (i : Nat) (fs : List Bytes) :
    lr (sendFrags c fid fragId count retry i fs) = lr c := by
  induction fs generalizing c i with
  | nil => rfl
  | cons f fs ih => simp only [sendFrags]; rw [ih, lr_sendType]

theorem lr_sendFragmented (sz : Sizes) (c : Conn) (p : Bytes) (r : Int) (cb : Option Nat) :
    lr (sendFragmented sz c p r cb).1 = lr c := by
  unfold sendFragmented
  simp only
  split
  · rfl
  · show lr (sendFrags _ _ _ _ _ _ _) = lr c
    rw [lr_sendFrags]; rfl

theorem lr_send (sz : Sizes) (c : Conn) (p : Bytes) (r : Int) (cb : Option Nat) :
    lr (send sz c p r cb).1 = lr c := by
  unfold send
  split
  · rfl
  · split
    · rfl
    · split
      · exact lr_sendFragmented sz c p r cb
      · exact lr_sendType c .app p r _

theorem lr_disconnect (c : Conn) (cb : Option Cb) : lr (disconnect c cb) = lr c := by
  unfold disconnect sendType lr
  split
  · split <;> rfl
  · rfl

theorem lr_runLeaf (c : Conn) (cb : Cb) (v : Bool) : lr (runLeaf c cb v).1 = lr c := by
  unfold runLeaf
  split
  · rfl
  · split
    · rfl
    · split
      · rfl
      · rfl
      · split
        · exact lr_sendType _ _ _ _ _
        · simp only
          split
          · split <;> rfl
          · rfl
  · rfl
  · rfl
  · rfl
  · rfl

theorem lr_runCb (c : Conn) (cb : Cb) (v : Bool) : lr (runCb c cb v).1 = lr c := by
  unfold runCb
  split
  · split
    · rfl
    · split
      · rfl
      · split
        · rfl
        · simp only
          split
          · rw [lr_runLeaf]; rfl
          · rfl
  · exact lr_runLeaf _ _ _

theorem lr_runCbs (c : Conn) (cbs : List Cb) (v : Bool) : lr (runCbs c cbs v).1 = lr c := by
  induction cbs generalizing c with
  | nil => rfl
  | cons cb cbs ih =>
    simp only [runCbs]
    rw [ih, lr_runCb]

theorem lr_resolve (c : Conn) (s : Nat) (ok : Bool) : lr (resolve c s ok).1 = lr c := by
  unfold resolve
  simp only
  have h0 : lr (if ok = true then { c with acked := c.acked + 1 } else { c with timeouts := c.timeouts + 1 }) = lr c := by
    split <;> rfl
  generalize (if ok = true then { c with acked := c.acked + 1 } else { c with timeouts := c.timeouts + 1 }) = c0 at *
  cases hcb : aget c0.pendingCbs s with
  | none =>
    simp only
    cases hr : aget c0.pendingRetry s <;> simp only [lr] at h0 ⊢ <;> exact h0
  | some cbs =>
    simp only
    have h1 := lr_runCbs c0 cbs ok
    generalize runCbs c0 cbs ok = r at *
    obtain ⟨c', ev⟩ := r
    simp only at h1 ⊢
    cases hr : aget c'.pendingRetry s <;> simp only [lr] at h0 h1 ⊢ <;> rw [h1, h0]

theorem lr_checkTimeoutKeys (c : Conn) (t : Int) (ks : List Nat) :
    lr (checkTimeoutKeys c t ks).1 = lr c := by
  induction ks generalizing c with
  | nil => rfl
  | cons s ks ih =>
    simp only [checkTimeoutKeys]
    split
    · exact ih c
    · split
      · simp only; rw [ih, lr_resolve]
      · exact ih c

theorem lr_checkTimeout (c : Conn) (t : Int) : lr (checkTimeout c t).1 = lr c :=
  lr_checkTimeoutKeys c t _

theorem lr_handleAckKeys (c : Conn) (a b : Nat) (ks : List Nat) :
    lr (handleAckKeys c a b ks).1 = lr c := by
  induction ks generalizing c with
  | nil => rfl
  | cons s ks ih =>
    simp only [handleAckKeys]
    split
    · exact ih c
    · split
      · simp only; rw [ih, lr_resolve]
      · split
        · simp only; rw [ih, lr_resolve]
        · exact ih c

theorem lr_recvAppFragment (c : Conn) (t : Int) (m : Nat) (f : Bytes) :
    lr (recvAppFragment c t m f).1 = lr c := by
  unfold recvAppFragment
  split
  · rfl
  · simp only
    split <;> rfl

/-- the handshake handlers of a role leave the sender clock alone -/
def Role.KeepsLr (R : Role) : Prop :=
  (∀ c t p, lr (R.clientHello c t p).1 = lr c) ∧ (∀ c t p, lr (R.serverHello c t p).1 = lr c) ∧
  (∀ c t p, lr (R.challengeResp c t p).1 = lr c)

theorem lr_recvMessage (R : Role) (hR : R.KeepsLr) (c : Conn) (t : Int) (m : WMsg) :
    lr (recvMessage R c t m).1 = lr c := by
  unfold recvMessage
  split
  · rfl
  · rename_i bf _
    have e : lr { c with bfMsg := bf } = lr c := rfl
    split
    · rw [hR.1]; exact e
    · rw [hR.2.1]; exact e
    · rw [hR.2.2]; exact e
    · exact e
    · exact e
    · rw [lr_recvAppFragment]; exact e
    · exact e
    · exact e

theorem lr_recvMessages (R : Role) (hR : R.KeepsLr) (c : Conn) (t : Int) (ms : List WMsg) :
    lr (recvMessages R c t ms).1 = lr c := by
  induction ms generalizing c with
  | nil => rfl
  | cons m ms ih =>
    simp only [recvMessages]
    have h1 := lr_recvMessage R hR c t m
    generalize recvMessage R c t m = r at *
    obtain ⟨c1, e1, err⟩ := r
    cases err with
    | some e => exact h1
    | none => simp only; rw [ih]; exact h1

theorem baseRole_keepsLr : baseRole.KeepsLr := ⟨fun _ _ _ => rfl, fun _ _ _ => rfl, fun _ _ _ => rfl⟩

end Mpgs.Conn
