import MpgsModel.Model.Auth
/-!
Helper lemmas for the base64 part of `Model/Auth.lean`: alphabet facts and the round trip
`b64decode (b64encode b) = ok b` for every byte list, by induction over 3-byte groups.
-/
namespace Mpgs.Auth

theorem sextet_encChar_fin : ∀ n : Fin 64, sextet (encChar n.val) = some n.val := by decide

theorem sextet_encChar (n : Nat) (h : n < 64) : sextet (encChar n) = some n :=
  sextet_encChar_fin ⟨n, h⟩

theorem encChar_facts_fin : ∀ n : Fin 64,
    encChar n.val ≠ padChar ∧ encChar n.val ≠ colon ∧ (encChar n.val).toNat < 128 := by decide

theorem encChar_ne_pad (n : Nat) (h : n < 64) : encChar n ≠ padChar := (encChar_facts_fin ⟨n, h⟩).1
theorem encChar_ne_colon (n : Nat) (h : n < 64) : encChar n ≠ colon := (encChar_facts_fin ⟨n, h⟩).2.1
theorem encChar_ascii (n : Nat) (h : n < 64) : (encChar n).toNat < 128 := (encChar_facts_fin ⟨n, h⟩).2.2

theorem sextet_lt (c : UInt8) (v : Nat) (h : sextet c = some v) : v < 64 := by
  unfold sextet at h
  simp only at h
  split at h
  · cases h; omega
  · split at h
    · cases h; omega
    · split at h
      · cases h; omega
      · split at h
        · cases h; omega
        · split at h
          · cases h; omega
          · cases h

theorem sextet_pad : sextet padChar = none := by decide
theorem sextet_colon : sextet colon = none := by decide

/-- one alphabet character through the decoder's state machine -/
theorem a2b_encChar (q left pads v : Nat) (cs : Bytes) (hv : v < 64) :
    a2b q left pads (encChar v :: cs) =
      if q = 0 then a2b 1 v 0 cs
      else if q = 1 then (a2b 2 (v % 16) 0 cs).map (UInt8.ofNat (left * 4 + v / 16) :: ·)
      else if q = 2 then (a2b 3 (v % 4) 0 cs).map (UInt8.ofNat (left * 16 + v / 4) :: ·)
      else (a2b 0 0 0 cs).map (UInt8.ofNat (left * 64 + v) :: ·) := by
  rw [a2b]
  simp [encChar_ne_pad v hv, sextet_encChar v hv]

theorem ofNat_of_eq (a : UInt8) (n : Nat) (h : n = a.toNat) : UInt8.ofNat n = a := by
  subst h; simp

theorem a2b_tail3 (left : Nat) : a2b 3 left 0 [padChar] = .ok [] := by
  simp [a2b]

theorem a2b_tail2 (left : Nat) : a2b 2 left 0 [padChar, padChar] = .ok [] := by
  simp [a2b]

/-- **round trip**: decoding an encoding gives the bytes back, for every byte list -/
theorem b64decode_b64encode (bs : Bytes) : b64decode (b64encode bs) = .ok bs := by
  unfold b64decode
  fun_induction b64encode bs with
  | case1 a b c rest ih =>
    have ha := a.toNat_lt; have hb := b.toNat_lt; have hc := c.toNat_lt
    rw [a2b_encChar _ _ _ _ _ (by omega), if_pos rfl,
        a2b_encChar _ _ _ _ _ (by omega), if_neg (by decide), if_pos rfl,
        a2b_encChar _ _ _ _ _ (by omega), if_neg (by decide), if_neg (by decide), if_pos rfl,
        a2b_encChar _ _ _ _ _ (by omega), if_neg (by decide), if_neg (by decide), if_neg (by decide), ih]
    simp only [Except.map]
    rw [ofNat_of_eq a _ (by omega), ofNat_of_eq b _ (by omega), ofNat_of_eq c _ (by omega)]
  | case2 a b =>
    have ha := a.toNat_lt; have hb := b.toNat_lt
    rw [a2b_encChar _ _ _ _ _ (by omega), if_pos rfl,
        a2b_encChar _ _ _ _ _ (by omega), if_neg (by decide), if_pos rfl,
        a2b_encChar _ _ _ _ _ (by omega), if_neg (by decide), if_neg (by decide), if_pos rfl,
        a2b_tail3]
    simp only [Except.map]
    rw [ofNat_of_eq a _ (by omega), ofNat_of_eq b _ (by omega)]
  | case3 a =>
    have ha := a.toNat_lt
    rw [a2b_encChar _ _ _ _ _ (by omega), if_pos rfl,
        a2b_encChar _ _ _ _ _ (by omega), if_neg (by decide), if_pos rfl,
        a2b_tail2]
    simp only [Except.map]
    rw [ofNat_of_eq a _ (by omega)]
  | case4 => simp [a2b]

end Mpgs.Auth
