import MpgsModel.Lemmas.Serial
/-! Safety of the decoder on arbitrary bytes: facts about every successful result
(`OkInv`: the rest is a suffix, at least the header is consumed, the value is well typed). -/
namespace Mpgs.Serial

/-- length of a decoded `bytes` value (0 for everything else) -/
def blen : Value → Nat
  | .bytes d => d.length
  | _ => 0

/-- the registry's own default field values are well typed -/
def RegWT (reg : Registry) : Prop :=
  ∀ tid d, lookup reg tid = some (.object d) → wtList true reg d = true

/-! ### small facts -/

theorem readFixed_ok {w : Nat} {bs d r' : Bytes} (h : (readFixed w bs).res = .ok (d, r')) :
    r' <:+ bs ∧ r'.length + w = bs.length ∧ d.length = w := by
  unfold readFixed at h
  split at h
  · simp only [Except.ok.injEq, Prod.mk.injEq] at h
    obtain ⟨rfl, rfl⟩ := h
    refine ⟨List.drop_suffix _ _, ?_, ?_⟩ <;> simp <;> omega
  · simp at h

theorem readN_spec (n : Int) (r1 : Bytes) :
    (readN n r1).2 <:+ r1 ∧ (readN n r1).1.length + (readN n r1).2.length = r1.length := by
  unfold readN
  split
  · exact ⟨List.nil_suffix, by simp⟩
  · refine ⟨List.drop_suffix _ _, ?_⟩
    simp; omega

theorem wtList_append (hs : Bool) (reg : Registry) : ∀ (xs ys : List Value),
    wtList hs reg (xs ++ ys) = (wtList hs reg xs && wtList hs reg ys)
  | [], ys => by simp [wtList]
  | x :: t, ys => by simp [wtList, wtList_append hs reg t ys, Bool.and_assoc]

theorem wtList_drop (hs : Bool) (reg : Registry) : ∀ (n : Nat) (xs : List Value),
    wtList hs reg xs = true → wtList hs reg (xs.drop n) = true
  | 0, xs, h => by simpa using h
  | n + 1, [], _ => by simp [wtList]
  | n + 1, x :: t, h => by
    simp only [wtList, Bool.and_eq_true] at h
    simpa using wtList_drop hs reg n t h.2

theorem wtPairs_append (hs : Bool) (reg : Registry) : ∀ (xs ys : List (Value × Value)),
    wtPairs hs reg (xs ++ ys) = (wtPairs hs reg xs && wtPairs hs reg ys)
  | [], ys => by simp [wtPairs]
  | (k, v) :: t, ys => by simp [wtPairs, wtPairs_append hs reg t ys, Bool.and_assoc]

theorem dedupSetAux_wt (hs : Bool) (reg : Registry) : ∀ (xs : List Value) (seen : List (Nat × Key)) (zs : List Value),
    wtList hs reg xs = true → dedupSetAux xs seen = .ok zs → wtList hs reg zs = true
  | [], seen, zs, _, h => by simp [dedupSetAux] at h; subst h; simp [wtList]
  | x :: t, seen, zs, hw, h => by
    simp only [wtList, Bool.and_eq_true] at hw
    simp only [dedupSetAux] at h
    split at h
    · simp at h
    · split at h
      · simp at h
      · exact dedupSetAux_wt hs reg t seen zs hw.2 h
      · split at h
        · simp at h
        · rename_i r hr
          injection h with h; subst h
          simp [wtList, hw.1, dedupSetAux_wt hs reg t _ r hw.2 hr]

theorem dictReplace_wt (hs : Bool) (reg : Registry) (k : Nat × Key) (v : Value) (hv : wt hs reg v = true) :
    ∀ (d d' : List (Value × Value)), wtPairs hs reg d = true → dictReplace k v d = .ok (some d') →
      wtPairs hs reg d' = true
  | [], d', _, h => by simp [dictReplace] at h
  | (k0, v0) :: t, d', hw, h => by
    simp only [wtPairs, Bool.and_eq_true] at hw
    simp only [dictReplace] at h
    split at h
    · simp at h
    · split at h
      · simp at h
      · simp only [Except.ok.injEq, Option.some.injEq] at h
        subst h
        simp [wtPairs, hw.1.1, hv, hw.2]
      · split at h
        · simp at h
        · simp at h
        · rename_i t' ht'
          simp only [Except.ok.injEq, Option.some.injEq] at h
          subst h
          simp [wtPairs, hw.1.1, hw.1.2, dictReplace_wt hs reg k v hv t t' hw.2 ht']

theorem dictInsert_wt (hs : Bool) (reg : Registry) (d d' : List (Value × Value)) (k v : Value)
    (hd : wtPairs hs reg d = true) (hk : wt hs reg k = true) (hv : wt hs reg v = true)
    (h : dictInsert d k v = .ok d') : wtPairs hs reg d' = true := by
  unfold dictInsert at h
  split at h
  · simp at h
  · split at h
    · simp at h
    · rename_i d'' hd''
      injection h with h; subst h
      exact dictReplace_wt hs reg _ v hv d _ hd hd''
    · injection h with h; subst h
      simp [wtPairs_append, wtPairs, hd, hk, hv]

/-! ### every successful result -/


structure OkInv (env : Env) (f : Nat) : Prop where
  c : ∀ bs v rest, (decodeC env f bs).res = .ok (v, rest) →
        rest <:+ bs ∧ rest.length + 2 + blen v ≤ bs.length ∧ (RegWT env.reg → wt true env.reg v = true)
  b : ∀ tid r v rest, (decodeBase env f tid r).res = .ok (v, rest) →
        rest <:+ r ∧ rest.length + blen v ≤ r.length ∧ (RegWT env.reg → wt true env.reg v = true)
  g : ∀ tid k r v rest, lookup env.reg tid = some k → isBase tid = false →
        (decodeReg env f tid k r).res = .ok (v, rest) →
        rest <:+ r ∧ blen v = 0 ∧ (RegWT env.reg → wt true env.reg v = true)
  l : ∀ n bs xs rest, (decodeList env f n bs).res = .ok (xs, rest) →
        rest <:+ bs ∧ (RegWT env.reg → wtList true env.reg xs = true) ∧ xs.length = n
  p : ∀ n acc bs d rest, (RegWT env.reg → wtPairs true env.reg acc = true) →
        (decodePairs env f n acc bs).res = .ok (d, rest) →
        rest <:+ bs ∧ (RegWT env.reg → wtPairs true env.reg d = true)
  fl : ∀ n k bs xs rest, (decodeFields env f n k bs).res = .ok (xs, rest) →
        rest <:+ bs ∧ (RegWT env.reg → wtList true env.reg xs = true) ∧ xs.length ≤ k

theorem wrapHdrE_eq_ok {α : Type} {x : Except Err α} {a : α} : wrapHdrE x = .ok a ↔ x = .ok a := by
  unfold wrapHdrE
  split <;> simp_all

theorem okInv_zero (env : Env) : OkInv env 0 where
  c := by intro bs v rest h; simp [decodeC] at h
  b := by intro tid r v rest h; simp [decodeBase] at h
  g := by intro tid k r v rest _ _ h; simp [decodeReg] at h
  l := by
    intro n bs xs rest h
    cases n with
    | zero => simp [decodeList] at h; obtain ⟨rfl, rfl⟩ := h; simp [wtList]
    | succ n => simp [decodeList] at h
  p := by
    intro n acc bs d rest hacc h
    cases n with
    | zero => simp [decodePairs] at h; obtain ⟨rfl, rfl⟩ := h; exact ⟨List.suffix_refl _, hacc⟩
    | succ n => simp [decodePairs] at h
  fl := by
    intro n k bs xs rest h
    cases n with
    | zero => simp [decodeFields] at h; obtain ⟨rfl, rfl⟩ := h; simp [wtList]
    | succ n => simp [decodeFields] at h

theorem okInv_c (env : Env) (f : Nat) (ih : OkInv env f) :
    ∀ bs v rest, (decodeC env (f + 1) bs).res = .ok (v, rest) →
        rest <:+ bs ∧ rest.length + 2 + blen v ≤ bs.length ∧ (RegWT env.reg → wt true env.reg v = true) := by
  intro bs v rest h
  match bs with
  | [] => simp [decodeC] at h
  | [_] => simp [decodeC] at h
  | t0 :: t1 :: r =>
    rw [decodeC_cons_res] at h
    split at h
    · rw [wrapHdrE_eq_ok] at h
      obtain ⟨h1, h2, h3⟩ := ih.b _ _ _ _ h
      exact ⟨(h1.trans (List.suffix_cons _ _)).trans (List.suffix_cons _ _), by simp; omega, h3⟩
    · rename_i hb
      split at h
      · rename_i k hk
        rw [wrapHdrE_eq_ok] at h
        obtain ⟨h1, h2, h3⟩ := ih.g _ _ _ _ _ hk (by simpa using hb) h
        have := h1.length_le
        exact ⟨(h1.trans (List.suffix_cons _ _)).trans (List.suffix_cons _ _), by simp; omega, h3⟩
      · simp at h


theorem readF32_ok {r : Bytes} {v : Value} {rest : Bytes} (h : (readF32 r).res = .ok (v, rest)) :
    rest <:+ r ∧ rest.length + blen v ≤ r.length ∧ wt true reg v = true := by
  unfold readF32 at h
  split at h
  · simp only [Except.ok.injEq, Prod.mk.injEq] at h
    obtain ⟨rfl, rfl⟩ := h
    refine ⟨?_, by simp [blen]; omega, by simp [wt]⟩
    exact (((List.suffix_cons _ _).trans (List.suffix_cons _ _)).trans (List.suffix_cons _ _)).trans (List.suffix_cons _ _)
  · simp at h

theorem lenOf_ok {v : Value} {n : Int} (h : lenOf v = .ok n) : blen v = 0 := by
  cases v <;> simp [lenOf] at h <;> simp [blen]

macro "fixed_case" h:ident : tactic => `(tactic| (
  simp only [R.res_bind, bind_eq_ok] at $h:ident
  obtain ⟨⟨d, r'⟩, hrf, h'⟩ := $h
  simp only [R.res_ok, Except.ok.injEq, Prod.mk.injEq] at h'
  obtain ⟨hv, hr⟩ := h'
  subst hv; subst hr
  have hf := readFixed_ok hrf
  exact ⟨hf.1, by simp [blen]; omega, by simp [wt]⟩))

theorem okInv_b (env : Env) (f : Nat) (ih : OkInv env f) :
    ∀ tid r v rest, (decodeBase env (f + 1) tid r).res = .ok (v, rest) →
        rest <:+ r ∧ rest.length + blen v ≤ r.length ∧ (RegWT env.reg → wt true env.reg v = true) := by
  intro tid r v rest h
  rw [decodeBase] at h
  by_cases c1 : tid = 1
  · rw [if_pos c1] at h
    fixed_case h
  rw [if_neg c1] at h
  by_cases c3 : tid = 3
  · rw [if_pos c3] at h
    fixed_case h
  rw [if_neg c3] at h
  by_cases c4 : tid = 4
  · rw [if_pos c4] at h
    fixed_case h
  rw [if_neg c4] at h
  by_cases c5 : tid = 5
  · rw [if_pos c5] at h
    fixed_case h
  rw [if_neg c5] at h
  by_cases c6 : tid = 6
  · rw [if_pos c6] at h
    fixed_case h
  rw [if_neg c6] at h
  by_cases c8 : tid = 8
  · rw [if_pos c8] at h
    fixed_case h
  rw [if_neg c8] at h
  by_cases c9 : tid = 9
  · rw [if_pos c9] at h
    fixed_case h
  rw [if_neg c9] at h
  by_cases c10 : tid = 10
  · rw [if_pos c10] at h
    fixed_case h
  rw [if_neg c10] at h
  by_cases c11 : tid = 11
  · rw [if_pos c11] at h
    have := readF32_ok (reg := env.reg) h
    exact ⟨this.1, this.2.1, fun _ => this.2.2⟩
  rw [if_neg c11] at h
  by_cases c12 : tid = 12
  · rw [if_pos c12] at h
    fixed_case h
  rw [if_neg c12] at h
  by_cases c15 : tid = 15
  · rw [if_pos c15] at h
    simp only [R.res_ok, Except.ok.injEq, Prod.mk.injEq] at h
    obtain ⟨rfl, rfl⟩ := h
    exact ⟨List.suffix_refl _, by simp [blen], by simp [wt]⟩
  rw [if_neg c15] at h
  by_cases c13 : tid = 13
  · rw [if_pos c13] at h
    -- str
    simp only [R.res_bind, bind_eq_ok, R.res_lift] at h
    obtain ⟨⟨lv, r1⟩, h1, n, hn, h⟩ := h
    obtain ⟨s1, l1, _⟩ := ih.c _ _ _ h1
    split at h
    · simp at h
    · have hr := readN_spec n r1
      revert h
      generalize readN n r1 = p at hr
      obtain ⟨d, r2⟩ := p
      intro h
      simp only [R.res_bind, R.res_tick, ok_bind] at h
      split at h
      · simp only [R.res_ok, Except.ok.injEq, Prod.mk.injEq] at h
        obtain ⟨rfl, rfl⟩ := h
        simp only at hr
        exact ⟨hr.1.trans s1, by simp [blen]; omega, by simp [wt]⟩
      · simp at h
  rw [if_neg c13] at h
  by_cases c14 : tid = 14
  · rw [if_pos c14] at h
    -- bytes
    simp only [R.res_bind, bind_eq_ok, R.res_lift] at h
    obtain ⟨⟨lv, r1⟩, h1, n, hn, h⟩ := h
    obtain ⟨s1, l1, _⟩ := ih.c _ _ _ h1
    split at h
    · simp at h
    · have hr := readN_spec n r1
      revert h
      generalize readN n r1 = p at hr
      obtain ⟨d, r2⟩ := p
      intro h
      simp only [R.res_bind, R.res_tick, ok_bind, R.res_ok, Except.ok.injEq, Prod.mk.injEq] at h
      obtain ⟨rfl, rfl⟩ := h
      simp only at hr
      exact ⟨hr.1.trans s1, by simp [blen]; omega, by simp [wt]⟩
  rw [if_neg c14] at h
  by_cases c16 : tid = 16
  · rw [if_pos c16] at h
    -- seq
    simp only [R.res_bind, bind_eq_ok, R.res_lift] at h
    obtain ⟨⟨lv, r1⟩, h1, n, hn, h⟩ := h
    obtain ⟨s1, l1, _⟩ := ih.c _ _ _ h1
    split at h
    · simp at h
    · simp only [R.res_bind, bind_eq_ok] at h
      obtain ⟨⟨xs, r2⟩, h2, h⟩ := h
      simp only [R.res_ok, Except.ok.injEq, Prod.mk.injEq] at h
      obtain ⟨rfl, rfl⟩ := h
      obtain ⟨s2, w2, _⟩ := ih.l _ _ _ _ h2
      have := s2.length_le
      exact ⟨s2.trans s1, by simp [blen]; omega, by simpa [wt] using w2⟩
  rw [if_neg c16] at h
  by_cases c17 : tid = 17
  · rw [if_pos c17] at h
    -- map
    simp only [R.res_bind, bind_eq_ok, R.res_lift] at h
    obtain ⟨⟨lv, r1⟩, h1, n, hn, h⟩ := h
    obtain ⟨s1, l1, _⟩ := ih.c _ _ _ h1
    split at h
    · simp at h
    · simp only [R.res_bind, bind_eq_ok] at h
      obtain ⟨⟨xs, r2⟩, h2, h⟩ := h
      simp only [R.res_ok, Except.ok.injEq, Prod.mk.injEq] at h
      obtain ⟨rfl, rfl⟩ := h
      obtain ⟨s2, w2⟩ := ih.p _ _ _ _ _ (by simp [wtPairs]) h2
      have := s2.length_le
      exact ⟨s2.trans s1, by simp [blen]; omega, by simpa [wt] using w2⟩
  rw [if_neg c17] at h
  by_cases c18 : tid = 18
  · rw [if_pos c18] at h
    -- set
    simp only [R.res_bind, bind_eq_ok, R.res_lift] at h
    obtain ⟨⟨lv, r1⟩, h1, n, hn, h⟩ := h
    obtain ⟨s1, l1, _⟩ := ih.c _ _ _ h1
    split at h
    · simp at h
    · simp only [R.res_bind, bind_eq_ok, R.res_lift] at h
      obtain ⟨⟨xs, r2⟩, h2, ys, hys, h⟩ := h
      simp only [R.res_ok, Except.ok.injEq, Prod.mk.injEq] at h
      obtain ⟨rfl, rfl⟩ := h
      obtain ⟨s2, w2, _⟩ := ih.l _ _ _ _ h2
      have := s2.length_le
      exact ⟨s2.trans s1, by simp [blen]; omega, fun hr => by simpa [wt] using dedupSetAux_wt true env.reg xs [] ys (w2 hr) hys⟩
  rw [if_neg c18] at h
  simp at h


theorem okInv_g (env : Env) (f : Nat) (ih : OkInv env f) :
    ∀ tid k r v rest, lookup env.reg tid = some k → isBase tid = false →
        (decodeReg env (f + 1) tid k r).res = .ok (v, rest) →
        rest <:+ r ∧ blen v = 0 ∧ (RegWT env.reg → wt true env.reg v = true) := by
  intro tid k r v rest hk hb h
  cases k with
  | object defaults =>
    rw [decodeReg] at h
    simp only [R.res_bind, bind_eq_ok, R.res_lift, R.res_tick] at h
    obtain ⟨_, _, ⟨nv, r1⟩, h1, n, hn, ⟨vals, r2⟩, h2, h⟩ := h
    simp only [R.res_ok, Except.ok.injEq, Prod.mk.injEq] at h
    obtain ⟨rfl, rfl⟩ := h
    obtain ⟨s1, _, _⟩ := ih.c _ _ _ h1
    obtain ⟨s2, w2, l2⟩ := ih.fl _ _ _ _ _ h2
    refine ⟨s2.trans s1, by simp [blen], ?_⟩
    intro hreg
    have w2 := w2 hreg
    have hd := wtList_drop true env.reg vals.length defaults (hreg tid defaults hk)
    simp only [wt, hb, hk, wtList_append, w2, hd, List.length_append, List.length_drop]
    simp
    omega
  | enum members =>
    rw [decodeReg] at h
    simp only [R.res_bind, bind_eq_ok] at h
    obtain ⟨⟨w, r1⟩, h1, h⟩ := h
    simp only [R.res_ok, Except.ok.injEq, Prod.mk.injEq] at h
    obtain ⟨rfl, rfl⟩ := h
    obtain ⟨s1, _, w1⟩ := ih.c _ _ _ h1
    exact ⟨s1, by simp [blen], fun hr => by simp [wt, hb, hk, w1 hr]⟩
  | clientHello =>
    rw [decodeReg] at h
    simp only [R.res_bind, bind_eq_ok, R.res_lift, R.res_tick] at h
    obtain ⟨_, _, ⟨der, r1⟩, h1, key, hkey, ⟨ver, r2⟩, h2, h⟩ := h
    dsimp only at hkey h2 h
    obtain ⟨s1, _, _⟩ := ih.c _ _ _ h1
    obtain ⟨s2, _, w2⟩ := ih.c _ _ _ h2
    have hr := readN_spec (env.padTarget - ((r.length - r2.length : Nat) : Int)) r2
    revert h
    generalize readN (env.padTarget - ((r.length - r2.length : Nat) : Int)) r2 = p at hr
    obtain ⟨pad, r3⟩ := p
    intro h
    simp only at h
    split at h
    · simp at h
    · simp only [R.res_ok, Except.ok.injEq, Prod.mk.injEq, true_and] at h
      obtain ⟨_, rfl, rfl⟩ := h
      exact ⟨(hr.1.trans s2).trans s1, by simp [blen], fun hr => by simp [wt, hb, hk, w2 hr]⟩
  | serverHello =>
    rw [decodeReg] at h
    simp only [R.res_bind, bind_eq_ok, R.res_lift, R.res_tick] at h
    obtain ⟨_, _, ⟨rootV, r1⟩, h1, root, hroot, ⟨payload, r2⟩, h2, ⟨sig, r3⟩, h3, key, hkey, h⟩ := h
    dsimp only at hroot h2 h3 hkey h
    obtain ⟨s1, _, _⟩ := ih.c _ _ _ h1
    obtain ⟨s2, _, _⟩ := ih.c _ _ _ h2
    obtain ⟨s3, _, _⟩ := ih.c _ _ _ h3
    split at h
    · simp only [R.res_bind, bind_eq_ok, R.res_lift, R.res_reparse] at h
      obtain ⟨_, _, _, _, ⟨der, t1⟩, h4, k, hk', ⟨salt, t2⟩, h5, ⟨token, t3⟩, h6, h⟩ := h
      dsimp only at hk' h5 h6 h
      simp only [R.res_ok, Except.ok.injEq, Prod.mk.injEq] at h
      obtain ⟨rfl, rfl⟩ := h
      obtain ⟨_, _, w5⟩ := ih.c _ _ _ h5
      obtain ⟨_, _, w6⟩ := ih.c _ _ _ h6
      exact ⟨(s3.trans s2).trans s1, by simp [blen], fun hr => by simp [wt, hb, hk, w5 hr, w6 hr]⟩
    · simp at h

theorem okInv_l (env : Env) (f : Nat) (ih : OkInv env f) :
    ∀ n bs xs rest, (decodeList env (f + 1) n bs).res = .ok (xs, rest) →
        rest <:+ bs ∧ (RegWT env.reg → wtList true env.reg xs = true) ∧ xs.length = n := by
  intro n bs xs rest h
  cases n with
  | zero => simp [decodeList] at h; obtain ⟨rfl, rfl⟩ := h; simp [wtList]
  | succ n =>
    simp only [decodeList, R.res_bind, bind_eq_ok] at h
    obtain ⟨⟨x, r1⟩, h1, ⟨xs', r2⟩, h2, h⟩ := h
    simp only [R.res_ok, Except.ok.injEq, Prod.mk.injEq] at h
    obtain ⟨rfl, rfl⟩ := h
    obtain ⟨s1, _, w1⟩ := ih.c _ _ _ h1
    obtain ⟨s2, w2, l2⟩ := ih.l _ _ _ _ h2
    exact ⟨s2.trans s1, fun hr => by simp [wtList, w1 hr, w2 hr], by simp [l2]⟩

theorem okInv_fl (env : Env) (f : Nat) (ih : OkInv env f) :
    ∀ n k bs xs rest, (decodeFields env (f + 1) n k bs).res = .ok (xs, rest) →
        rest <:+ bs ∧ (RegWT env.reg → wtList true env.reg xs = true) ∧ xs.length ≤ k := by
  intro n k bs xs rest h
  cases n with
  | zero => simp [decodeFields] at h; obtain ⟨rfl, rfl⟩ := h; simp [wtList]
  | succ n =>
    cases k with
    | zero => simp [decodeFields] at h
    | succ k =>
      simp only [decodeFields, R.res_bind, bind_eq_ok] at h
      obtain ⟨⟨x, r1⟩, h1, ⟨xs', r2⟩, h2, h⟩ := h
      simp only [R.res_ok, Except.ok.injEq, Prod.mk.injEq] at h
      obtain ⟨rfl, rfl⟩ := h
      obtain ⟨s1, _, w1⟩ := ih.c _ _ _ h1
      obtain ⟨s2, w2, l2⟩ := ih.fl _ _ _ _ _ h2
      exact ⟨s2.trans s1, fun hr => by simp [wtList, w1 hr, w2 hr], by simp; omega⟩

theorem okInv_p (env : Env) (f : Nat) (ih : OkInv env f) :
    ∀ n acc bs d rest, (RegWT env.reg → wtPairs true env.reg acc = true) →
        (decodePairs env (f + 1) n acc bs).res = .ok (d, rest) →
        rest <:+ bs ∧ (RegWT env.reg → wtPairs true env.reg d = true) := by
  intro n acc bs d rest hacc h
  cases n with
  | zero => simp [decodePairs] at h; obtain ⟨rfl, rfl⟩ := h; exact ⟨List.suffix_refl _, hacc⟩
  | succ n =>
    simp only [decodePairs, R.res_bind, bind_eq_ok, R.res_lift] at h
    obtain ⟨⟨k, r1⟩, h1, ⟨v, r2⟩, h2, acc', hacc', h⟩ := h
    obtain ⟨s1, _, w1⟩ := ih.c _ _ _ h1
    obtain ⟨s2, _, w2⟩ := ih.c _ _ _ h2
    obtain ⟨s3, w3⟩ := ih.p _ _ _ _ _ (fun hr => dictInsert_wt true env.reg acc acc' k v (hacc hr) (w1 hr) (w2 hr) hacc') h
    exact ⟨(s3.trans s2).trans s1, w3⟩

theorem okInv (env : Env) : ∀ f, OkInv env f
  | 0 => okInv_zero env
  | f + 1 =>
    have ih := okInv env f
    ⟨okInv_c env f ih, okInv_b env f ih, okInv_g env f ih, okInv_l env f ih, okInv_p env f ih,
     okInv_fl env f ih⟩


end Mpgs.Serial
