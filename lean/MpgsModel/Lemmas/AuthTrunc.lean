import MpgsModel.Lemmas.AuthVerify
/-!
Truncation: decoding a proper prefix of a base64 encoding either fails or yields a proper prefix
of the bytes; consequences for truncated hash strings.
-/
namespace Mpgs.Auth

theorem a2b_encChar_nil1 (v : Nat) (hv : v < 64) : a2b 0 0 0 [encChar v] = .error .binasciiError := by
  rw [a2b_encChar _ _ _ _ _ hv]; simp [a2b]

/-- decoding a proper prefix of an encoding: `binascii.Error`, or a proper prefix of the bytes -/
theorem b64decode_take (bs : Bytes) (m : Nat) (hm : m < (b64encode bs).length) :
    b64decode ((b64encode bs).take m) = .error .binasciiError ∨
      ∃ k, k < bs.length ∧ b64decode ((b64encode bs).take m) = .ok (bs.take k) := by
  unfold b64decode
  fun_induction b64encode bs generalizing m with
  | case1 a b c rest ih =>
    have ha := a.toNat_lt; have hb := b.toNat_lt; have hc := c.toNat_lt
    rcases m with _ | _ | _ | _ | m
    · exact Or.inr ⟨0, by simp, by simp [a2b]⟩
    · left
      simp only [List.take_succ_cons, List.take_zero]
      rw [a2b_encChar _ _ _ _ _ (by omega)]; simp [a2b]
    · left
      simp only [List.take_succ_cons, List.take_zero]
      rw [a2b_encChar _ _ _ _ _ (by omega), if_pos rfl, a2b_encChar _ _ _ _ _ (by omega)]
      simp [a2b, Except.map]
    · left
      simp only [List.take_succ_cons, List.take_zero]
      rw [a2b_encChar _ _ _ _ _ (by omega), if_pos rfl, a2b_encChar _ _ _ _ _ (by omega),
        if_neg (by decide), if_pos rfl, a2b_encChar _ _ _ _ _ (by omega)]
      simp [a2b, Except.map]
    · simp only [List.take_succ_cons]
      rw [a2b_encChar _ _ _ _ _ (by omega), if_pos rfl,
        a2b_encChar _ _ _ _ _ (by omega), if_neg (by decide), if_pos rfl,
        a2b_encChar _ _ _ _ _ (by omega), if_neg (by decide), if_neg (by decide), if_pos rfl,
        a2b_encChar _ _ _ _ _ (by omega), if_neg (by decide), if_neg (by decide), if_neg (by decide)]
      have hm' : m < (b64encode rest).length := by simp only [List.length_cons] at hm; omega
      rcases ih m hm' with h | ⟨k, hk, h⟩
      · left; rw [h]; rfl
      · right
        refine ⟨k + 3, by simp only [List.length_cons]; omega, ?_⟩
        rw [h]
        simp only [Except.map, List.take_succ_cons]
        rw [ofNat_of_eq a _ (by omega), ofNat_of_eq b _ (by omega), ofNat_of_eq c _ (by omega)]
  | case2 a b =>
    have ha := a.toNat_lt; have hb := b.toNat_lt
    rcases m with _ | _ | _ | _ | m
    · exact Or.inr ⟨0, by simp, by simp [a2b]⟩
    · left
      simp only [List.take_succ_cons, List.take_zero]
      rw [a2b_encChar _ _ _ _ _ (by omega)]; simp [a2b]
    · left
      simp only [List.take_succ_cons, List.take_zero]
      rw [a2b_encChar _ _ _ _ _ (by omega), if_pos rfl, a2b_encChar _ _ _ _ _ (by omega)]
      simp [a2b, Except.map]
    · left
      simp only [List.take_succ_cons, List.take_zero]
      rw [a2b_encChar _ _ _ _ _ (by omega), if_pos rfl, a2b_encChar _ _ _ _ _ (by omega),
        if_neg (by decide), if_pos rfl, a2b_encChar _ _ _ _ _ (by omega)]
      simp [a2b, Except.map]
    · simp only [List.length_cons, List.length_nil] at hm; omega
  | case3 a =>
    have ha := a.toNat_lt
    rcases m with _ | _ | _ | _ | m
    · exact Or.inr ⟨0, by simp, by simp [a2b]⟩
    · left
      simp only [List.take_succ_cons, List.take_zero]
      rw [a2b_encChar _ _ _ _ _ (by omega)]; simp [a2b]
    · left
      simp only [List.take_succ_cons, List.take_zero]
      rw [a2b_encChar _ _ _ _ _ (by omega), if_pos rfl, a2b_encChar _ _ _ _ _ (by omega)]
      simp [a2b, Except.map]
    · left
      simp only [List.take_succ_cons, List.take_zero]
      rw [a2b_encChar _ _ _ _ _ (by omega), if_pos rfl, a2b_encChar _ _ _ _ _ (by omega)]
      simp [a2b, Except.map]
    · simp only [List.length_cons, List.length_nil] at hm; omega
  | case4 => simp at hm

/-- length of an encoding: four characters per started group of three bytes -/
theorem b64encode_length (bs : Bytes) : (b64encode bs).length = (bs.length + 2) / 3 * 4 := by
  fun_induction b64encode bs with
  | case1 a b c rest ih => simp only [List.length_cons, ih]; omega
  | case2 a b => simp
  | case3 a => simp
  | case4 => rfl

/-- ASCII text: `str[:n].encode()` is `bytes[:n]` -/
theorem encodeUtf8_take_of_decodeAscii (bs : Bytes) (s : PyStr) (h : decodeAscii bs = .ok s) (n : Nat) :
    encodeUtf8 (s.take n) = .ok (bs.take n) ∧ s.length = bs.length := by
  induction bs generalizing s n with
  | nil => simp [decodeAscii] at h; subst h; simp [encodeUtf8]
  | cons b bs ih =>
    simp only [decodeAscii] at h
    split at h
    · rename_i hb
      obtain ⟨s', hs', rfl⟩ := map_ok _ _ _ h
      cases n with
      | zero => simp [encodeUtf8, (ih s' hs' 0).2]
      | succ n =>
        have := ih s' hs' n
        simp [encodeUtf8, hb, this.1, this.2, Except.map]
    · cases h

/-- the constant part `scrypt:1:QAAQARAY:` of every hash -/
def hashHeader : Bytes := kScrypt ++ colon :: (kOne ++ colon :: (b64encode [64, 0, 16, 1, 16, 24] ++ [colon]))

theorem hashBytes_eq (kdf : Kdf) (sha : Bytes → Bytes) (salt pw : Bytes) :
    hashBytes kdf sha salt pw =
      hashHeader ++ b64encode (salt ++ kdf defaultN defaultR defaultP DIGEST_LENGTH salt (sha pw)) := by
  simp [hashBytes, hashHeader]

theorem hashHeader_length : hashHeader.length = 18 := by decide

/-- a string cut inside the constant part has fewer than four fields -/
theorem header_prefix_fields : ∀ n : Fin 18, (splitOn colon (hashHeader.take n.val)).length ≠ 4 := by
  decide

theorem hashPassword_eq (kdf : Kdf) (sha : Bytes → Bytes) (salt pw : Bytes) :
    hashPassword kdf sha salt (.bytes pw) = decodeAscii (hashBytes kdf sha salt pw) := by
  simp only [hashPassword, defaultParams_packed, scryptInit_default]
  simp [hashBytes]

/-- anything but four fields: `ValueError` (C19-1) -/
theorem verify_field_count (kdf : Kdf) (sha : Bytes → Bytes) (pw : Bytes) (hs : PyStr) (enc : Bytes)
    (henc : encodeUtf8 hs = .ok enc) (hn : (splitOn colon enc).length ≠ 4) :
    verifyPassword kdf sha (.bytes pw) (.str hs) = .error .valueError := by
  unfold verifyPassword verifyPrepare
  simp only [henc]
  split
  · rename_i heq
    split at heq
    · rename_i hsp; rw [hsp] at hn; simp at hn
    · cases heq; rfl
  · rename_i heq
    split at heq
    · rename_i hsp; rw [hsp] at hn; simp at hn
    · cases heq

/-- every proper prefix of a hash produced by `hash_password` is refused with a `ValueError`
(`ValueError` itself or `binascii.Error`), whatever the password -/
theorem verify_truncated (kdf : Kdf) (sha : Bytes → Bytes) (salt pw q : Bytes) (h : PyStr) (n : Nat)
    (hs : salt.length = SALT_LENGTH)
    (hk : (kdf defaultN defaultR defaultP DIGEST_LENGTH salt (sha pw)).length = DIGEST_LENGTH)
    (hh : hashPassword kdf sha salt (.bytes pw) = .ok h) (hn : n < h.length) :
    verifyPassword kdf sha (.bytes q) (.str (h.take n)) = .error .valueError ∨
    verifyPassword kdf sha (.bytes q) (.str (h.take n)) = .error .binasciiError := by
  rw [hashPassword_eq] at hh
  obtain ⟨henc, hlen⟩ := encodeUtf8_take_of_decodeAscii _ _ hh n
  rw [hlen] at hn
  rw [hashBytes_eq] at henc hn
  generalize hdata : salt ++ kdf defaultN defaultR defaultP DIGEST_LENGTH salt (sha pw) = data at henc hn
  have hdl : data.length = 40 := by
    rw [← hdata, List.length_append, hs, hk]; rfl
  by_cases hlt : n < 18
  · left
    have : (hashHeader ++ b64encode data).take n = hashHeader.take n := by
      rw [List.take_append_of_le_length (by rw [hashHeader_length]; omega)]
    rw [this] at henc
    exact verify_field_count kdf sha q _ _ henc (header_prefix_fields ⟨n, hlt⟩)
  · have hsplit : (hashHeader ++ b64encode data).take n = hashHeader ++ (b64encode data).take (n - 18) := by
      rw [List.take_append, hashHeader_length]
      rw [List.take_of_length_le (by rw [hashHeader_length]; omega)]
    rw [hsplit] at henc
    have hm : n - 18 < (b64encode data).length := by
      rw [List.length_append, hashHeader_length] at hn; omega
    have hsp : splitOn colon (hashHeader ++ (b64encode data).take (n - 18)) =
        [kScrypt, kOne, b64encode [64, 0, 16, 1, 16, 24], (b64encode data).take (n - 18)] := by
      rw [splitOn_four]
      refine ⟨by simp [hashHeader], by decide, by decide, ?_, ?_⟩
      · intro x hx; exact (b64encode_plain _ x hx).1
      · intro x hx; exact (b64encode_plain _ x (List.mem_of_mem_take hx)).1
    rcases b64decode_take data (n - 18) hm with herr | ⟨k, hkl, hok⟩
    · right
      simp [verifyPassword, verifyPrepare, henc, hsp, b64decode_b64encode, herr]
    · left
      have hlen2 : ¬ ((data.take k).drop 16).length = 24 := by
        rw [List.length_drop, List.length_take]; omega
      simp only [List.length_drop, List.length_take] at hlen2
      simp [verifyPassword, verifyPrepare, henc, hsp, b64decode_b64encode, hok, unpackParams, hlen2]

/-- splitting a `:`-joined list of colon-free fields gives the fields back -/
theorem splitOn_joinSep (sep : UInt8) (fs : List Bytes) (hne : fs ≠ [])
    (hf : ∀ f ∈ fs, ∀ c ∈ f, c ≠ sep) : splitOn sep (joinSep sep fs) = fs := by
  induction fs with
  | nil => exact absurd rfl hne
  | cons a rest ih =>
    cases rest with
    | nil => simp only [joinSep]; exact splitOn_nosep sep a (hf a (by simp))
    | cons b rest' =>
      simp only [joinSep]
      rw [splitOn_append sep a _ (hf a (by simp)), ih (by simp) (fun f hfm => hf f (by simp [hfm]))]

/-- a byte that is neither `=` nor in the alphabet is invisible to the decoder, wherever it stands -/
theorem a2b_skip (q left pads : Nat) (pre post : Bytes) (c : UInt8) (hp : c ≠ padChar)
    (hc : sextet c = none) : a2b q left pads (pre ++ c :: post) = a2b q left pads (pre ++ post) := by
  induction pre generalizing q left pads with
  | nil => simp only [List.nil_append]; rw [a2b]; simp [hp, hc]
  | cons x xs ih =>
    simp only [List.cons_append]
    rw [a2b, a2b.eq_2 q left pads x (xs ++ post)]
    simp only [ih]

/-- a canonical record `scrypt:1:<b64 params>:<b64 salt+digest>` with any parameters the scrypt
constructor accepts: `verify_password` returns exactly "derived digest = embedded digest" -/
theorem verify_record (sha : Bytes → Bytes) (pw salt digest params : Bytes) (P : Params)
    (hs : PyStr) (hp : packParams P = .ok params) (hinit : scryptInit P.N P.r P.p = .ok ())
    (hl1 : 1 ≤ P.len) (hsl : salt.length = P.saltLen) (hdl : digest.length = P.len)
    (henc : encodeUtf8 hs = .ok (kScrypt ++ colon :: (kOne ++ colon :: (b64encode params ++ colon ::
      b64encode (salt ++ digest))))) :
    verifyPrepare sha (.bytes pw) (.str hs) = .ok ⟨P.N, P.r, P.p, P.len, salt, sha pw, digest⟩ := by
  rw [verifyPrepare_ok_iff]
  refine ⟨pw, hs, _, _, _, params, salt ++ digest, P, rfl, rfl, henc, ?_, b64decode_b64encode _,
    b64decode_b64encode _, unpack_pack _ _ hp, hl1, ?_, hinit, ?_⟩
  · rw [splitOn_four]
    exact ⟨rfl, by decide, by decide, fun x hx => (b64encode_plain _ x hx).1,
      fun x hx => (b64encode_plain _ x hx).1⟩
  · rw [← hsl]; simp [hdl]
  · rw [← hsl]; simp

end Mpgs.Auth
