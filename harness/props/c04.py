"""C04 - at-most-once delivery: duplicates, replays and retransmissions are dropped."""
from harness import core, connlib, serverlib

PROP = "C04"
LEAN_MODULES = ["MpgsModel.Props.C04", "MpgsModel.Props.C04Loop"]
MODEL_MODULES = ["MpgsModel.Model.Conn", "MpgsModel.Model.ToyAead", "MpgsModel.Model.ConnStep", "MpgsModel.Model.Server"]
NS = "Mpgs.Conn."
SNS = "Mpgs.Server."
THEOREMS = [
    (SNS + "C04_loop_dispatch_once", "full"),
    (SNS + "C04_loop_dispatch_clears", "full"),
    (SNS + "C04_loop_halfopen_no_dispatch", "full"),
    (SNS + "C04_loop_connected_dispatch", "full"),
    (NS + "C04_duplicate_dropped_whole", "full"),
    (NS + "C04_accepted_is_new", "full"),
    (NS + "C04_datagram_at_most_once", "full"),
    (NS + "C04_fresh_connection_at_most_once", "full"),
    (NS + "C04_message_duplicate_ignored", "full"),
    (NS + "C04_delivery_needs_window", "full"),
    (NS + "C04_message_once_partial", "partial"),
    (NS + "C04_redelivery_witness", "witness"),
]
# secondary tie (DESIGN 4.2): kernels regenerated from the source on every run, proved equal to the model (Props/Equiv<Group>.lean)
EQUIV = {"Seq": ["Mpgs.Equiv.gen_diff"], "Window": ["Mpgs.Equiv.gen_insert", "Mpgs.Equiv.gen_contains", "Mpgs.Equiv.gen_stale"]}
ASSUMPTIONS = [
    "datagram positions of a history span less than half the sequence ring (the property's own 32767 bound)",
    "message-level at-most-once is proved only while every copy arrives at most 256 message numbers late (C04_message_once_partial); "
    "beyond that the code re-delivers (known finding, C04_redelivery_witness) - closing it needs sender-side flow control",
    "handshake handlers do not touch the datagram window (Role.KeepsPw; true of the base class, part of the C02 model for the subclasses)",
]
RULE = ("two-party histories under heavy duplication (bursts), delay up to 4000 ticks, replays of any earlier datagram at any later point "
        "(also after the 32-datagram and 256-message windows moved on, and across the sequence wrap), a datagram held back and arriving exactly "
        "1..40 behind the newest, retransmission races for all retry modes; "
        "compared with the model: every recv result (return value, drop and delivery events), both windows and the dropped/received counters; "
        "non-trivial = at least one duplicate datagram rejected and one message delivered")

KNOWN_KIND = "message-redelivered-beyond-256-window"
KNOWN_FRAG = "fragmented-message-redelivered-after-fragment-resend"
KNOWN = (KNOWN_KIND, KNOWN_FRAG)


def post_fn(op, out):
    k = op.split()[0]
    if k == "recv":
        return connlib.ev_filter(out, ("dlv", "drop"))
    if k == "dump":
        return connlib.dump_fields(out, ["bp", "bm", "ctr", "inc"])
    if k in ("send",):
        return out
    if k == "build":
        return " ".join(out.split()[:3])
    return None


def field(dump, name):
    for p in dump.split():
        if p.startswith(name + "="):
            return p[len(name) + 1:]
    return None


def strip_dropped(dump):
    res = []
    for p in dump.split():
        if p.startswith("ctr="):
            v = p[4:].split(",")
            v[2] = "*"
            p = "ctr=" + ",".join(v)
        res.append(p)
    return " ".join(res)


def resend_monitor(case, log, ctx):
    """retransmissions must stay recognisable: a fragment whose datagram has been acknowledged is never sent again under a NEW message
    number (the receiver can only recognise a retransmission that keeps its number; a re-numbered copy of an accepted fragment is how a
    message gets reassembled twice)"""
    numbers, carriers, acked = {}, {}, {}      # per endpoint: fragment digest -> message numbers; datagram seq -> fragment digests
    pos = [i for i, l in enumerate(case) if l.startswith(("build ", "recv ", "tmo "))]
    n = -1
    for rec in log:
        if rec["op"] not in ("build", "recv", "tmo"):
            continue
        n += 1
        at = pos[n] - 1 if n < len(pos) else len(case) - 2
        e = rec.get("e")
        if rec["op"] == "build":
            p = rec.get("pkt")
            if not p:
                continue
            for (mseq, ty, dg) in p["msgs"]:
                if ty != 7:
                    continue
                nums = numbers.setdefault(e, {}).setdefault(dg, [])
                if mseq not in nums:
                    sm_ack = acked.get(e, {}).get(dg)
                    # the number must have been ALLOCATED after the acknowledgement: a copy that was re-numbered when one of its
                    # datagrams timed out, waited in the queue and went out after another of its datagrams was acknowledged is what the
                    # unchanged code does (the known finding's mechanism; by itself nothing is delivered twice)
                    if sm_ack is not None and 1 <= (mseq - sm_ack) % 65535 <= 32767:
                        ctx.failure("fragment-renumbered-after-ack",
                                    "%s sends fragment %s again under the new message number %d (earlier: %s) although a datagram that "
                                    "carried it had already been acknowledged" % (e, dg, mseq, nums), {"case": case, "at": at})
                        return True
                    nums.append(mseq)
                carriers.setdefault(e, {}).setdefault(p["seq"], []).append(dg)
        else:
            for ev in rec.get("ev", []):
                q = ev.split(":")
                if q[0] == "res" and q[2] == "1":
                    sm_now = None
                    for f in rec.get("after", "").split():
                        if f.startswith("sm="):
                            sm_now = int(f[3:])
                    for dg in carriers.get(e, {}).get(int(q[1]), []):
                        if sm_now is not None:
                            acked.setdefault(e, {}).setdefault(dg, sm_now)      # the message counter when the first ack arrived
    return False


def monitor(case, log, ctx):
    idx = [i for i, l in enumerate(case) if l.startswith("recv ")]
    n = -1
    accepted = {}          # (receiver, spec) -> True once a genuine datagram was accepted
    delivered = {}         # (receiver, digest) -> first delivery (msgseq)
    sends = {r["digest"]: r for r in log if r["op"] == "send"}
    for rec in log:
        if rec["op"] != "recv":
            continue
        n += 1
        if "hdrerr" in rec:
            continue
        at = idx[n] - 1 if n < len(idx) else len(case) - 2
        genuine = rec["spec"].startswith("@") and not rec["muts"] and not rec.get("rekey")
        if genuine:
            key = (rec["e"], rec["spec"])
            if key in accepted:
                same = strip_dropped(rec["before"]) == strip_dropped(rec["after"])
                if rec["ret"] != "F" or rec["ev"] != ["drop"] or not same:
                    changed = [a for a, b in zip(rec["before"].split(), rec["after"].split()) if a != b]
                    ctx.failure("duplicate-datagram-not-dropped-whole",
                                "second copy of datagram %s at %s: ret=%s events=%s changed=%s" % (rec["spec"], rec["e"], rec["ret"], rec["ev"], changed[:5]),
                                {"case": case, "at": at})
                    return
            elif rec["ret"] == "T":
                accepted[key] = True
        for e in rec["ev"]:
            if not e.startswith("dlv:"):
                continue
            _, mseq, ln, crc = e.split(":")
            if int(ln) < 6:
                continue          # tiny payloads are not unique per send
            k = (rec["e"], ln + ":" + crc)
            if k in delivered:
                cur = int(field(rec["before"], "bm").split(":")[0])
                behind = (cur - int(mseq)) % 65535
                snd = sends.get(k[1])
                if snd is not None and snd["frag"] and snd["retry"] != 0 and delivered[k] != mseq:
                    # every fragment was re-sent under a new message number after its ack was lost, and the receiver had
                    # already forgotten the completed reassembly context
                    ctx.failure(KNOWN_FRAG, "fragmented %d-byte message (retry=%d) delivered twice at %s (message numbers %s and %s)" %
                                (snd["len"], snd["retry"], rec["e"], delivered[k], mseq), {"case": case, "at": at})
                elif behind >= 257:
                    ctx.failure(KNOWN_KIND, "message %s delivered twice at %s; second copy arrived %d message numbers behind the newest" %
                                (mseq, rec["e"], behind), {"case": case, "at": at})
                else:
                    ctx.failure("message-delivered-twice", "payload %s handed to the application of %s twice (message seq %s, %d behind newest)" %
                                (k[1], rec["e"], mseq, behind), {"case": case, "at": at})
                    return
            else:
                delivered[k] = mseq


def known_finding_case():
    """witness of the recorded finding: guaranteed message delivered, its ack lost, 300 newer messages, then the
    retransmission arrives 300 message numbers late and is delivered again"""
    lines = ["case kf1", "mtu 1500", "new a client", "new b server"]
    for e in "ab":
        lines.append("set %s key=%s status=2 si=16 ka=96 ot=1024" % (e, connlib.KEY.hex()))
    t = connlib.BASE_T
    lines += ["send a len=40 seed=4242 retry=-1 cb=1", "build a t=%d" % t, "recv b t=%d d=@a:0" % (t + 1)]
    k = 1
    seed = 9000
    for burst in range(6):
        t += 16
        for _ in range(50):
            seed += 1
            lines.append("send a len=8 seed=%d retry=0 cb=-" % seed)
        lines.append("build a t=%d" % t)
        lines.append("recv b t=%d d=@a:%d" % (t + 1, k))
        k += 1
        lines.append("take b")
    t += 1100
    lines.append("tmo a t=%d" % t)
    lines.append("build a t=%d" % t)
    lines.append("recv b t=%d d=@a:%d" % (t + 1, k))
    lines += ["dump b", "end"]
    return lines


def known_finding_frag_case():
    """witness of the second recorded finding: a guaranteed 1500-byte message (two fragments) is delivered, every ack is
    lost, both fragments time out and are re-sent under new message numbers, the receiver reassembles a second time"""
    lines = ["case kf2", "mtu 1500", "new a client", "new b server"]
    for e in "ab":
        lines.append("set %s key=%s status=2 si=16 ka=96 ot=1024" % (e, connlib.KEY.hex()))
    t = connlib.BASE_T
    lines.append("send a len=1500 seed=5151 retry=-1 cb=1")
    for k in range(2):
        t += 16
        lines += ["build a t=%d" % t, "recv b t=%d d=@a:%d" % (t + 1, k)]
    t += 1100
    lines.append("tmo a t=%d" % t)
    for k in range(2, 4):
        t += 16
        lines += ["build a t=%d" % t, "recv b t=%d d=@a:%d" % (t + 1, k)]
    lines += ["dump b", "end"]
    return lines


def run(ctx):
    real = connlib.Real()
    rng = ctx.rng
    n = ctx.scale(60, 1200)
    # the handler's view (observe_at: EventHandler.handle_message): histories of the REAL server loop, recorded first; clients send
    # application messages right behind their challenge response, the network duplicates datagrams within and across iterations
    scases, souts, sextra = [], {}, {}
    for i in range(ctx.scale(30, 500)):
        cid = "sl%d" % i
        lines, outs, recs, slog = serverlib.gen_server_case(real, rng, cid, n_iter=rng.choice([30, 60]), n_clients=rng.choice([1, 2, 3]),
                                                            hostile=rng.choice([0.2, 0.5]), act_p=0.05, collide=0.1, loss=0.05,
                                                            mtu=rng.choice([1500, 512]), silent=0.02, leave=0.03, spawn=0.5, dup_next=0.3)
        scases.append(lines)
        souts[cid] = outs
        sextra[cid] = recs
    cases = [known_finding_case(), known_finding_frag_case()]
    for i in range(n):
        cases.append(connlib.gen_two_party(
            real, rng, "d%d" % i, mtu=rng.choice([1500, 1500, 512]), steps=rng.choice([40, 80, 120]), loss=0.1, dup=0.5,
            delay=0.5, max_delay=rng.choice([100, 1000, 4000]), replay=rng.choice([0.1, 0.3]),
            sizes=[8, 12, 20, 60, 300, 1500, 3000] if i % 3 else [8, 9, 10, 11], retry_modes=(0, 1, -1),
            start={"ss": 65535 - rng.randint(0, 30), "sm": 65535 - rng.randint(0, 200), "sf": 65534} if i % 4 == 0 else None,
            send_rate=rng.choice([0.5, 0.9]), heal=(i % 2 == 0), take=0.2))
    # a datagram held back and arriving exactly L behind the newest, L = 1..40 (the window edge is 32), also across the wrap
    for L in range(1, 41):
        cases.append(connlib.late_case("late%d" % L, L, held=rng.randint(0, 5),
                                       start={"ss": 65535 - rng.randint(0, L + 4), "sm": 65000} if L % 2 else None))
    real2 = connlib.Real()

    def nontrivial(case, outs):
        return any("drop" in o for o in outs) and any("dlv:" in o for o in outs)

    logs, bad = connlib.run_cases(ctx, real2, cases, connlib.make_post(post_fn), "Conn(recv/duplicates)", RULE, nontrivial)
    dups = 0
    for c in cases:
        log = logs.get(core.case_id(c), [])
        monitor(c, log, ctx)
        if any(f["kind"] not in KNOWN for f in ctx.failures):
            break
        if resend_monitor(c, log, ctx):
            break
        connlib.window_monitor(c, log, ctx)
        if any(f["kind"] not in KNOWN for f in ctx.failures):
            break
        for rec in log:
            if rec["op"] == "recv" and rec.get("ev") == ["drop"]:
                dups += 1
    ctx.notes["datagrams_dropped_as_duplicate_or_stale"] = dups
    if any(f["kind"] not in KNOWN for f in ctx.failures):
        return

    def snontrivial(case, outs):
        return sum(1 for o in outs if "msg:" in o) >= 2 and any("connect:" in o for o in outs)
    ctx.correspondence("Server(loop/at-most-once)", "Conn", scases, lambda case: souts[core.case_id(case)], snontrivial,
                       "the REAL server loop with clients that connect, send application messages (also in the datagram that carries their "
                       "challenge response), leave and fall silent, every datagram possibly duplicated in the same or the next iteration, "
                       "hostile datagrams in between - compared with the loop model per iteration (handler events with message numbers and "
                       "payload digests, sends, both pools)", minimise=False, post=serverlib.post)
    for c in scases:
        if serverlib.once_monitor(c, sextra[core.case_id(c)], ctx):
            return
