"""C06 - fragmentation and reassembly preserve bytes; nothing is fabricated."""
from harness import core, connlib

PROP = "C06"
LEAN_MODULES = ["MpgsModel.Props.C06", "MpgsModel.Props.C06Hist"]
MODEL_MODULES = ["MpgsModel.Model.Conn", "MpgsModel.Model.ToyAead"]
NS = "Mpgs.Conn."
THEOREMS = [
    (NS + "C06_build_join", "full"),
    (NS + "C06_no_fragment_below_limit", "full"),
    (NS + "C06_refuse_above_limit", "full"),
    (NS + "C06_fragment_step", "full"),
    (NS + "C06_complete_when_all_present", "full"),
    (NS + "C06_fragments_history", "full"),
    (NS + "C06_fresh_inv", "full"),
]
# secondary tie (DESIGN 4.2): kernels regenerated from the source on every run, proved equal to the model (Props/Equiv<Group>.lean)
EQUIV = {"Frag": ["Mpgs.Equiv.gen_split_loop", "Mpgs.Equiv.gen_split"]}
ASSUMPTIONS = [
    "history level (C06_fragments_history): for every sequence of authentic fragment arrivals - any order, repetition, interleaving of ids, "
    "arrival times and hence any pattern of context expiry - no exception is raised and every message delivered by reassembly is the "
    "concatenation of the fragments the peer produced for one of its sends (= the payload passed to send, by C06_build_join)",
    "C06_fragment_step is relative to `sent`: one message per fragment id in the history considered (fewer than 65535 fragmented sends "
    "between two fragments accepted into one context - the 16-bit id space) and fragments that arrive are authentic (C01: only the "
    "peer can produce them)",
    "un-fragmented messages are delivered byte-identical by the codec round trip (C09) - no separate statement here",
]
RULE = ("two-party histories with several fragmented messages in flight at once (payload lengths around MAX_PAYLOAD_SIZE, k*MAX_FRAGMENT_SIZE "
        "and the last-fragment bounds, up to 6 fragments, MTU 512..1500), fragment datagrams reordered, duplicated, delayed and lost, all retry "
        "modes, fragment ids started at the 16-bit wrap; compared with the model: send results, every packet's message count/length/payload "
        "digest, every delivery (length + CRC-32 of the payload), the reassembly contexts; non-trivial = a fragmented message is delivered "
        "after out-of-order or duplicated fragments")


def post_fn(op, out):
    k = op.split()[0]
    if k == "sizes":
        return out
    if k == "send":
        return out
    if k == "build":
        if out.startswith("pkt"):
            kv = dict(x.split("=", 1) for x in out.split()[1:])
            return "pkt ty=%s count=%s len=%s pt=%s" % (kv["ty"], kv["count"], kv["len"], kv["pt"])
        return out
    if k == "recv":
        return connlib.ev_filter(out, ("dlv",))
    if k == "dump":
        return connlib.dump_fields(out, ["rf", "sf", "fo", "inc"])
    return None


def monitor(case, log, ctx):
    mtu = 1500
    for l in case:
        if l.startswith("mtu "):
            mtu = int(l.split()[1])
    mp = mtu - 66
    sent = {"a": {}, "b": {}}
    idx = [i for i, l in enumerate(case) if l.startswith(("recv ", "send ", "build "))]
    n = -1
    last_send = None
    for rec in log:
        if rec["op"] in ("recv", "send", "build"):
            n += 1
        at = idx[n] - 1 if 0 <= n < len(idx) else len(case) - 2
        if rec["op"] == "send":
            if rec["res"] == "ok" and rec["status"] == 2:
                sent[rec["e"]][rec["digest"]] = rec
            last_send = rec
        elif rec["op"] == "build" and rec.get("pkt"):
            for (ms, ty, dg) in rec["pkt"]["msgs"]:
                ln = int(dg.split(":")[0])
                if ty == 6 and ln > mp:
                    ctx.failure("oversize-unfragmented", "APP message of %d bytes in one datagram at MTU %d" % (ln, mtu), {"case": case, "at": at})
                    return
                if ty == 7 and ln > mp:
                    ctx.failure("oversize-fragment", "fragment message of %d bytes at MTU %d" % (ln, mtu), {"case": case, "at": at})
                    return
                if ty == 7 and ln <= 6:
                    ctx.failure("empty-fragment", "fragment without payload bytes", {"case": case, "at": at})
                    return
        elif rec["op"] == "recv" and "ev" in rec:
            peer = "b" if rec["e"] == "a" else "a"
            for e in rec["ev"]:
                if e.startswith("dlv:"):
                    _, mseq, ln, crc = e.split(":")
                    dg = ln + ":" + crc
                    if int(ln) >= 1 and dg not in sent[peer]:
                        ctx.failure("fabricated-delivery", "%s delivered a %s-byte payload (crc %s) that %s never sent" % (rec["e"], ln, crc, peer),
                                    {"case": case, "at": at})
                        return
                    if dg in sent[peer]:
                        ctx.count("delivered:%s" % ("fragmented" if sent[peer][dg]["frag"] else "single"))
    # fragmentation threshold: a send of <= MAX_PAYLOAD_SIZE bytes queues one APP message, a larger one only fragments
    return


def threshold_monitor(real, ctx):
    """on the real code: <= MAX_PAYLOAD_SIZE -> one APP message; above -> APP_FRAGMENT only; above the limit -> ValueError, queue unchanged"""
    C = real.C
    for mtu in [1500, 512, 576, 1280] + list(range(1086, 1100)):
        C.Packet.setMTU(mtu)
        try:
            mp, mf = C.Packet.MAX_PAYLOAD_SIZE, C.Packet.MAX_FRAGMENT_SIZE
            for n in (mp - 1, mp, mp + 1, 2 * mf, 3 * mf + 1) + ((mf * C.Packet.MAX_FRAGMENTS, mf * C.Packet.MAX_FRAGMENTS + 1)
                                                                if mtu in (1500, 512, 1098) else ()):
                conn = real.new_endpoint("x", "client")
                conn.status = C.ConnectionStatus.CONNECTED
                conn.session_key_bytes = connlib.KEY
                payload = bytes(n)
                try:
                    conn.send(payload, retry=0)
                    err = None
                except Exception as e:
                    err = type(e).__name__
                types = {m.type.value for m in conn.outgoing_messages}
                total = sum(len(m.payload) - (6 if m.type.value == 7 else 0) for m in conn.outgoing_messages)
                if n <= mp:
                    ok = err is None and len(conn.outgoing_messages) == 1 and types == {6} and total == n
                elif n <= mf * C.Packet.MAX_FRAGMENTS:
                    ok = err is None and types == {7} and total == n and b"".join(m.payload[6:] for m in conn.outgoing_messages) == payload
                else:
                    ok = err == "ValueError" and not conn.outgoing_messages
                # every queued fragment message must fit a datagram by itself, or it is never sent
                big = [len(m.payload) for m in conn.outgoing_messages if len(m.payload) > mp]
                if big:
                    ctx.failure("fragment-does-not-fit-a-datagram", "send of %d bytes at MTU %d queued a fragment message of %d bytes "
                                "(MAX_PAYLOAD_SIZE %d): it can never be packed" % (n, mtu, big[0], mp), {"mtu": mtu, "len": n})
                    return
                ctx.count("threshold:%s" % ("single" if n <= mp else "fragmented" if n <= mf * C.Packet.MAX_FRAGMENTS else "refused"))
                if not ok:
                    ctx.failure("fragmentation-threshold", "send of %d bytes at MTU %d: error=%s queued=%d types=%s bytes=%d" %
                                (n, mtu, err, len(conn.outgoing_messages), sorted(types), total), {"mtu": mtu, "len": n})
                    return
        finally:
            C.Packet.setMTU(1500)


def receive_limit_monitor(real, ctx):
    """the receiving side at the top of the documented range: a message cut into exactly MAX_FRAGMENTS fragments (the most the sender's
    size check lets through) is reassembled like any other; one fragment less is the control"""
    import struct, time as _t
    C = real.C
    for count in (C.Packet.MAX_FRAGMENTS - 1, C.Packet.MAX_FRAGMENTS):
        conn = real.new_endpoint("x", "server")
        conn.status = C.ConnectionStatus.CONNECTED
        conn.session_key_bytes = connlib.KEY
        want = bytes((i * 7 + 3) & 0xFF for i in range(count))
        t0 = _t.process_time()
        try:
            for i in range(count):
                conn._recvAppFragment(C.SeqNum((i % 65535) + 1), struct.pack(">HHH", 9, 1 + i, count) + want[i:i + 1])
        except Exception as e:
            ctx.failure("fragment-receive-raised", "_recvAppFragment raised %s: %s on fragment of a %d-fragment message" %
                        (type(e).__name__, e, count), {"count": count})
            return
        got = [m for (_s, m) in conn.incoming_messages]
        ctx.count("receive-limit:%d fragments in %.1fs" % (count, _t.process_time() - t0))
        if got != [want]:
            ctx.failure("complete-message-not-reassembled", "all %d fragments of a %d-fragment message (MAX_FRAGMENTS = %d) were handed to "
                        "_recvAppFragment, one byte each, in order: delivered %s" %
                        (count, count, C.Packet.MAX_FRAGMENTS, "nothing" if not got else "%d message(s) of %s bytes" % (len(got), [len(g) for g in got][:3])),
                        {"count": count, "how": "harness/props/c06.py receive_limit_monitor"})
            return


def run(ctx):
    real = connlib.Real()
    rng = ctx.rng
    n = ctx.scale(50, 900)
    cases = [connlib.sizes_case()]
    for i in range(n):
        mtu = rng.choice([1500, 1500, 512, 576, 1097, 1098, 1280, 1090, 1092, 1095, 1096])
        mp = mtu - 66
        mf = mp - 6 if mp < 1030 else 1024
        sizes = [mp - 1, mp, mp + 1, mp + 2, mf + 1, 2 * mf - 1, 2 * mf, 2 * mf + 1, mf + mp - 8, mf + mp - 7, mf + mp - 6,
                 2 * mf + mp - 7, 3 * mf, 3 * mf + 5, 5 * mf + 17, 40, 7]
        cases.append(connlib.gen_two_party(
            real, rng, "f%d" % i, mtu=mtu, steps=rng.choice([30, 60]), loss=rng.choice([0.0, 0.1, 0.25]), dup=0.3, delay=0.5,
            max_delay=rng.choice([60, 400, 1500]), replay=0.05, sizes=sizes, retry_modes=(0, 1, -1, -1),
            start={"ss": 100, "sm": 65300, "sf": 65535 - rng.randint(0, 3)} if i % 3 == 0 else None, send_rate=0.7, heal=True,
            take=0.1, dumps=0.1))
    # one fragment of a guaranteed message is lost again and again (its first datagram, the retransmission and every repeat of it) while
    # the rest of the traffic flows: whatever copy finally gets through must still be a FRAGMENT of that message (generator: C05's)
    from harness.props import c05 as _c05
    for j in range(ctx.scale(6, 40)):
        mtu = rng.choice([1500, 512])
        mf = (mtu - 66 - 6) if mtu - 66 < 1030 else 1024
        count = rng.choice([2, 3, 4, 6])
        target = rng.randint(1, count)
        until = rng.choice([1100, 2100, 2300, 2500, 3200])

        def plan(k, e, dt, mseqs, target=target, until=until):
            # every datagram that carries fragment number `target` (a retransmitted fragment travels under a new message number, and
            # a re-queued copy of it possibly under another type: recognise it by its 6-byte fragment header)
            if e != "a" or dt >= until:
                return False
            pkt = plan.__dict__.get("pkt") or {}
            if any(f[1] == target for f in pkt.get("frags", {}).values()):
                return True
            return any(hdr6 is not None and hdr6[1] == target for hdr6 in pkt.get("heads", []))
        cases.append(_c05.gen_size_case(real, rng, "fl%d" % j, mtu, [count * mf - rng.randint(0, mf - 1)], plan, lossy=until + 50))
    real2 = connlib.Real()

    def nontrivial(case, outs):
        return any("dlv:" in o and int(o.split("dlv:")[1].split(":")[1]) > 1000 for o in outs)

    logs, bad = connlib.run_cases(ctx, real2, cases, connlib.make_post(post_fn), "Conn(fragmentation)", RULE, nontrivial,
                                  snapshots=False)
    for c in cases:
        if connlib.reassembly_monitor(c, logs.get(core.case_id(c), []), ctx):
            return
        monitor(c, logs.get(core.case_id(c), []), ctx)
        if ctx.failures:
            return
    threshold_monitor(real2, ctx)
    if not ctx.failures:
        receive_limit_monitor(real2, ctx)
