"""C18 - WebSocket frames round-trip per RFC 6455; TCP segmentation is harmless.

Correspondence of Model/WebSocket.lean with mpgameserver/http_server.py (WebSocketFrame,
readFrameFactory/writeFrameFactory, WebSocketTemporaryRingBuffer, WebSocketTemporaryHandler,
HTTPFactory.Channel.dataReceived) + monitors that state the property on the real code against an
independent Python RFC 6455 encoder.

Payloads are described compactly on the op line and expanded identically on both sides:
  h:<hex>          literal bytes ("-" = empty)
  g:<len>:<seed>   LCG bytes        x <- (x*1103515245+12345) mod 2^31, byte = (x >> 16) & 0xFF
  a:<len>:<seed>   LCG printable ASCII (32 + (x >> 16) % 95): valid UTF-8 for Text frames
Long byte strings are compared as  #<len>:<crc32>:<first 8 bytes hex>.
"""
import functools
import os
import signal
import zlib

from harness import core

PROP = "C18"
LEAN_MODULES = ["MpgsModel.Props.C18"]
MODEL_MODULES = ["MpgsModel.Model.WebSocket"]
NS = "Mpgs.WebSocket."
THEOREMS = [
    (NS + "C18_server_frames_rfc", "full"),
    (NS + "C18_lib_frames_rfc", "full"),
    (NS + "C18_close_frame_rfc", "full"),
    (NS + "C18_write_too_long", "full"),
    (NS + "C18_boundaries", "full"),
    (NS + "C18_open_not_wire", "witness"),
    (NS + "C18_mask_involution", "full"),
    (NS + "C18_parse_rfc", "full"),
    (NS + "C18_roundtrip", "full"),
    (NS + "C18_roundtrip_masked", "full"),
    (NS + "C18_parse_errors", "full"),
    (NS + "C18_stream", "full"),
    (NS + "C18_stream_deliveries", "full"),
    (NS + "C18_stream_prefix", "full"),
    (NS + "C18_hasFrame_literal", "full"),
    (NS + "C18_handler_rejects", "full"),
    (NS + "C18_segmentation_invariant", "full"),
    (NS + "C18_chunkings_agree", "full"),
    (NS + "C18_client_stream_no_error", "full"),
    (NS + "C18_parse_local", "full"),
    (NS + "C18_send_rfc", "full"),
    (NS + "C18_utf8_exact", "full"),
]
ASSUMPTIONS = [
    "the flag attributes fin/rsv1..3/mask of a WebSocketFrame hold 0 or 1 and flags.opcode is a WebSocketOpCode "
    "(what the constructors and parseHeader produce); the pseudo opcode Open=0xFF is not a wire opcode and is "
    "outside the RFC statements (the model still serialises it like the code does)",
    "a decoded Text payload (str) is identified with its UTF-8 bytes; bytes.decode('utf-8') = strict validity check",
    "the endpoint callback does not raise and does not re-enter the handler; request.write is a pure output",
    "client frames are masked, use the opcodes of WebSocketOpCode (no continuation frames), Text payloads are "
    "valid UTF-8, payload length < 2^64",
    "CPython struct.pack/unpack for formats BB, !H, !Q as mirrored by packBB/packH/packQ/unpackH/unpackQ",
]
RULE = ("frame layer: library frame objects for every payload length of the tier's length set x every opcode of the "
        "enum x mask on/off x random key/fin/rsv, written with writeFrameFactory and re-read with readFrameFactory; "
        "static constructors; the independent RFC encoding + trailing bytes through the reader; malformed/truncated "
        "byte strings (reader and hasFrame()); header-level sweep of every payload_length 0..70000 (thorough; "
        "boundaries +-2 and 300 random in quick) through serializeHeader/serializeDataHeader, the reader and "
        "hasFrame(). handler layer: streams of 1-40 frames cut at every single cut point, every pair of cut points "
        "(short streams), byte by byte, at random points (long streams, frames up to 70000 bytes), many frames per "
        "read, through Channel.dataReceived -> WebSocketTemporaryHandler with a fake request; malformed streams "
        "(unmasked, bad opcode, invalid UTF-8) and send()/close() interleaved. non-trivial = an extended length "
        "form, an error outcome, or a read that leaves a partial frame buffered")

WIRE_OPS = ["Close", "Ping", "Pong", "Text", "Binary"]
ALL_OPS = WIRE_OPS + ["Open"]
OPVAL = {"Open": 0xFF, "Close": 0x8, "Ping": 0x9, "Pong": 0xA, "Text": 0x1, "Binary": 0x2}

UTF8_SAMPLES = ["", "a", "h\u00e9llo", "\u65e5\u672c\u8a9e", "\U0001F600 ok", "\u07ff\u0800\uffff", "\ud7ff\ue000",
                "\U00010000\U0010ffff", "x" * 30 + "\u00df", "\x00\x7f\u0080"]
BAD_UTF8 = ["80", "c0af", "c1bf", "e08080", "eda080", "edbfbf", "f08080af", "f4908080", "f5808080", "ff", "c2",
            "e282", "f09f98", "41c3", "e0a0", "c3283a", "f8888080"]


# ----------------------------------------------------------------------------- shared helpers

@functools.lru_cache(maxsize=128)
def expand(spec):
    kind, _, rest = spec.partition(":")
    if kind == "h":
        return b"" if rest == "-" else bytes.fromhex(rest)
    n, seed = (int(v) for v in rest.split(":"))
    out = bytearray(n)
    x = seed
    if kind == "g":
        for i in range(n):
            x = (x * 1103515245 + 12345) % 2147483648
            out[i] = (x >> 16) & 0xFF
    elif kind == "a":
        for i in range(n):
            x = (x * 1103515245 + 12345) % 2147483648
            out[i] = 32 + (x >> 16) % 95
    else:
        raise ValueError(spec)
    return bytes(out)


def hexd(b):
    return b.hex() if b else "-"


def digest(b):
    b = bytes(b)
    if len(b) <= 40:
        return hexd(b)
    return "#%d:%08x:%s" % (len(b), zlib.crc32(b), b[:8].hex())


def xor_mask(data, key):
    n = len(data)
    if n == 0:
        return b""
    k = (key * (n // 4 + 1))[:n]
    return (int.from_bytes(data, "big") ^ int.from_bytes(k, "big")).to_bytes(n, "big")


def rfc_header(fin, rsv, opval, mask, key, n):
    """RFC 6455 section 5.2 up to and including the masking key, for a payload of n bytes"""
    out = bytearray()
    out.append(((128 if fin else 0) + 16 * rsv + opval) % 256)
    m = 128 if mask else 0
    if n <= 125:
        out.append(m + n)
    elif n <= 65535:
        out.append(m + 126)
        out.append(n // 256)
        out.append(n % 256)
    else:
        out.append(m + 127)
        for k in range(7, -1, -1):
            out.append((n >> (8 * k)) & 0xFF)
    if mask:
        out += key
    return bytes(out)


def rfc_encode(fin, rsv, opval, mask, key, data):
    """RFC 6455 section 5.2, written independently of the library (no struct, no shared code)"""
    n = len(data)
    out = bytearray()
    out.append(((128 if fin else 0) + 16 * rsv + opval) % 256)
    m = 128 if mask else 0
    if n <= 125:
        out.append(m + n)
    elif n <= 65535:
        out.append(m + 126)
        out += n.to_bytes(2, "big")
    else:
        out.append(m + 127)
        out += n.to_bytes(8, "big")
    if mask:
        out += key
        out += xor_mask(data, key)
    else:
        out += data
    return bytes(out)


def fields(words):
    return dict(w.split("=", 1) for w in words)


def parse_desc(words):
    f = fields(words)
    return {"op": f["op"], "fin": int(f["fin"]), "rsv": int(f["rsv"]), "mask": int(f["mask"]),
            "key": bytes.fromhex(f["key"]), "pl": expand(f["pl"]),
            "plen": int(f["plen"]) if "plen" in f else None, "extra": expand("h:" + f.get("extra", "-"))}


def item_bytes(item):
    p = item.split(":")
    if p[0] == "x":
        return expand("h:" + p[1])
    _, op, fin, rsv, mask, key = p[:6]
    return rfc_encode(int(fin), int(rsv), OPVAL[op], int(mask), bytes.fromhex(key), expand(":".join(p[6:])))


def item_frame(item):
    """(opname, mask, payload) of an `f:` item, None for raw items"""
    p = item.split(":")
    if p[0] != "f":
        return None
    return p[1], int(p[4]), expand(":".join(p[6:]))


def is_utf8(b):
    try:
        b.decode("utf-8")
        return True
    except UnicodeDecodeError:
        return False


class FakeRequest:
    def __init__(self, log):
        self.log = log
        self.chunked = 1

    def write(self, data):
        self.log.append(("w", bytes(data)))


class Endpoint:
    def __init__(self, log):
        self.log = log

    def callback(self, handler, opcode, payload):
        if isinstance(payload, str):
            b = payload.encode("utf-8")
        elif payload is None:
            b = b""
        else:
            b = bytes(payload)
        self.log.append(("d", opcode.name(), b, type(payload).__name__))


class CaseTimeout(Exception):
    pass


def _alarm(_sig, _frm):
    raise CaseTimeout()


# ----------------------------------------------------------------------------- real code

class Impl:
    def __init__(self):
        core.use_repo()
        import mpgameserver.http_server as H
        self.H = H
        self.factory = H.HTTPFactory(router=H.Router())

    # -- frame objects
    def make_frame(self, d):
        H = self.H
        f = H.WebSocketFrame()
        f.flags.fin = d["fin"]
        f.flags.rsv1 = (d["rsv"] >> 2) & 1
        f.flags.rsv2 = (d["rsv"] >> 1) & 1
        f.flags.rsv3 = d["rsv"] & 1
        f.flags.opcode = getattr(H.WebSocketOpCode, d["op"])
        f.flags.mask = d["mask"]
        f.masking_key = d["key"]
        f.payload = d["pl"]
        f.payload_length = len(d["pl"]) if d["plen"] is None else d["plen"]
        return f

    def write(self, frame):
        """library writer into the ring buffer; returns (list of writes, error class name or None)"""
        H = self.H
        log = []
        sock = H.WebSocketTemporaryRingBuffer(FakeRequest(log))
        err = None
        try:
            H.writeFrameFactory(sock)(frame)
        except Exception as e:  # noqa
            err = type(e).__name__
        return [w[1] for w in log], err

    def read(self, wire):
        """library reader on a ring buffer holding `wire`; returns (frame | error name, rest length)"""
        H = self.H
        rb = H.WebSocketTemporaryRingBuffer(FakeRequest([]))
        rb._push(bytes(wire))
        try:
            fr = H.readFrameFactory(rb)()
        except Exception as e:  # noqa
            return type(e).__name__, len(rb.buf)
        return fr, len(rb.buf)

    @staticmethod
    def show_e(fn):
        try:
            return hexd(fn())
        except Exception as e:  # noqa
            return "err:" + type(e).__name__

    def show_write(self, tag, frame):
        ws, err = self.write(frame)
        return "%s hdr=%s dhdr=%s writes=%d wire=%s err=%s" % (
            tag, self.show_e(frame.serializeHeader), self.show_e(frame.serializeDataHeader), len(ws),
            digest(b"".join(ws)), err or "-"), b"".join(ws), err

    @staticmethod
    def show_frame(tag, res):
        fr, rest = res
        if isinstance(fr, str):
            return "%s err:%s rest=%d" % (tag, fr, rest)
        fl = fr.flags
        return "%s fin=%d rsv=%d%d%d op=%s mask=%d len7=%d plen=%d key=%s payload=%s rest=%d" % (
            tag, fl.fin, fl.rsv1, fl.rsv2, fl.rsv3, fl.opcode.name(), fl.mask, fl.length, fr.payload_length,
            hexd(bytes(fr.masking_key)), digest(fr.payload), rest)

    # -- handler
    def new_handler(self):
        H = self.H
        log = []
        rb = H.WebSocketTemporaryRingBuffer(FakeRequest(log))
        h = H.WebSocketTemporaryHandler(("127.0.0.1", 40000), {}, {}, rb, Endpoint(log))
        ch = self.factory.buildProtocol(None)
        ch.websocket_callback = h
        return {"h": h, "rb": rb, "log": log, "ch": ch, "delivered": []}

    @staticmethod
    def show_step(tag, hs, err):
        evs = []
        for e in hs["log"]:
            if e[0] == "d":
                evs.append("d:%s:%s" % (e[1], digest(e[2])))
                hs["delivered"].append(e[1:])
            else:
                evs.append("w:" + digest(e[1]))
        del hs["log"][:]
        return "%s ev=%s err=%s buf=%d closed=%d" % (tag, ",".join(evs) or "-", err or "-", len(hs["rb"].buf),
                                                     1 if hs["h"].closed else 0)

    def run_case(self, case, ctx=None):
        signal.signal(signal.SIGALRM, _alarm)
        signal.alarm(120)
        try:
            return self._run_case(case, ctx)
        except CaseTimeout:
            if ctx is not None:
                ctx.failure("hang", "real code did not finish a case within 120 s", {"case": case, "at": len(case) - 2})
            return ["timeout"]
        finally:
            signal.alarm(0)

    def _run_case(self, case, ctx):
        H = self.H
        out = []
        hs = None
        stream = b""
        items = []
        fed = 0
        failed = [False]

        def fail(kind, what, idx, **extra):
            if ctx is not None and not failed[0]:
                failed[0] = True
                ctx.failure(kind, what, dict({"case": case, "at": idx}, **extra))

        for idx, line in enumerate(case[1:]):
            w = line.split()
            if not w:
                continue
            op = w[0]
            if op in ("ser", "rt"):
                d = parse_desc(w[1:])
                fr = self.make_frame(d)
                consistent = d["plen"] is None and d["op"] != "Open" and len(d["key"]) == 4
                if op == "ser":
                    s, wire, err = self.show_write("ser", fr)
                    out.append(s)
                    res = None
                else:
                    ws, err = self.write(fr)
                    wire = b"".join(ws)
                    if err:
                        out.append("rt write-err:" + err)
                        res = None
                    else:
                        res = self.read(wire)
                        out.append(self.show_frame("rt", res))
                if op == "ser" and d["plen"] is not None and d["plen"] < 2 ** 63 and d["op"] != "Open":
                    # header level: the length encoding for payload_length = plen
                    want = rfc_header(d["fin"], d["rsv"], OPVAL[d["op"]], d["mask"], d["key"], d["plen"])
                    try:
                        got = fr.serializeHeader() + fr.serializeDataHeader()
                    except Exception as e:  # noqa
                        got = type(e).__name__.encode()
                    if got != want:
                        fail("header-not-rfc", "header for payload length %d (op=%s mask=%d) is %s, RFC 6455 says %s"
                             % (d["plen"], d["op"], d["mask"], got.hex(), want.hex()), idx)
                if consistent:
                    # the property: encoded as RFC 6455 prescribes, parses back to the same frame
                    app = xor_mask(d["pl"], d["key"]) if d["mask"] else d["pl"]
                    want = rfc_encode(d["fin"], d["rsv"], OPVAL[d["op"]], d["mask"], d["key"], app)
                    if err or wire != want:
                        fail("frame-not-rfc", "library frame (op=%s mask=%d len=%d) is not the RFC 6455 encoding: "
                             "got %s want %s" % (d["op"], d["mask"], len(d["pl"]), digest(wire[:14]), digest(want[:14])),
                             idx, got_len=len(wire), want_len=len(want))
                    elif res is not None:
                        self.check_parsed(fail, idx, res, d, app, 0)
            elif op == "ctor":
                f = fields(w[1:])
                pl = expand(f["pl"])
                try:
                    if f["name"] == "Close":
                        fr = H.WebSocketFrame.Close(int(f["status"]), pl)
                        app = int(f["status"]).to_bytes(2, "big") + pl
                    elif f["name"] == "Text":
                        fr = H.WebSocketFrame.Text(pl.decode("utf-8"))
                        app = pl
                    else:
                        fr = getattr(H.WebSocketFrame, f["name"])(pl)
                        app = pl
                except Exception as e:  # noqa
                    out.append("ctor err:" + type(e).__name__)
                    continue
                s, wire, err = self.show_write("ctor", fr)
                out.append(s)
                want = rfc_encode(1, 0, OPVAL[f["name"]], 0, b"", app)
                if err or wire != want:
                    fail("frame-not-rfc", "%s frame of %d bytes built by the library is not the RFC 6455 encoding"
                         % (f["name"], len(app)), idx, got_len=len(wire), want_len=len(want))
                else:
                    d = {"fin": 1, "rsv": 0, "op": f["name"], "mask": 0, "key": b"\0\0\0\0"}
                    self.check_parsed(fail, idx, self.read(wire), d, app, 0)
            elif op == "rfc":
                d = parse_desc(w[1:])
                wire = rfc_encode(d["fin"], d["rsv"], OPVAL[d["op"]], d["mask"], d["key"], d["pl"])
                res = self.read(wire + d["extra"])
                out.append(self.show_frame("rfc", res))
                if d["op"] != "Open":
                    self.check_parsed(fail, idx, res, d, d["pl"], len(d["extra"]))
            elif op == "parse":
                out.append(self.show_frame("parse", self.read(expand("h:" + fields(w[1:])["hex"]))))
            elif op == "hf":
                rb = H.WebSocketTemporaryRingBuffer(FakeRequest([]))
                rb._push(expand("h:" + fields(w[1:])["hex"]))
                try:
                    out.append("hf %d" % (1 if rb.hasFrame() else 0))
                except Exception as e:  # noqa
                    out.append("hf err:" + type(e).__name__)
            elif op == "hnew":
                hs = self.new_handler()
                fed = 0
            elif op == "stream":
                items = w[1:]
                stream = b"".join(item_bytes(i) for i in items)
                fed = 0
                out.append("stream len=%d crc=%08x" % (len(stream), zlib.crc32(stream)))
            elif op in ("feed", "feedrest"):
                n = len(stream) - fed if op == "feedrest" else int(w[1])
                chunk = stream[fed:fed + n]
                fed += len(chunk)
                err = None
                try:
                    hs["ch"].dataReceived(chunk)
                except Exception as e:  # noqa
                    err = type(e).__name__
                out.append(self.show_step("feed", hs, err))
                if fed >= len(stream):
                    self.check_stream(fail, idx, items, hs)
            elif op == "hsend":
                pl = expand(fields(w[1:])["pl"])
                err = None
                try:
                    hs["h"].send(pl.decode("utf-8"))
                except Exception as e:  # noqa
                    err = type(e).__name__
                wrote = b"".join(e[1] for e in hs["log"] if e[0] == "w")
                out.append(self.show_step("send", hs, err))
                want = rfc_encode(1, 0, OPVAL["Text"], 0, b"", pl)
                if err or wrote != want:
                    fail("frame-not-rfc", "send() of a %d byte text did not write the RFC 6455 encoding" % len(pl),
                         idx, got_len=len(wrote), want_len=len(want))
            elif op == "hclose":
                err = None
                try:
                    hs["h"].close()
                except Exception as e:  # noqa
                    err = type(e).__name__
                out.append(self.show_step("close", hs, err))
            elif op == "end":
                pass
            else:
                out.append("bad-op")
        return out

    @staticmethod
    def check_parsed(fail, idx, res, d, app, extra):
        fr, rest = res
        if isinstance(fr, str):
            fail("frame-not-parsed", "reader raised %s on the RFC encoding of a valid frame (op=%s mask=%d len=%d)"
                 % (fr, d["op"], d["mask"], len(app)), idx)
            return
        fl = fr.flags
        got = (fl.fin, fl.rsv1 * 4 + fl.rsv2 * 2 + fl.rsv3, fl.opcode.name(), fl.mask, fr.payload_length,
               bytes(fr.payload), rest)
        want = (d["fin"], d["rsv"], d["op"], d["mask"], len(app), app, extra)
        if got != want or (d["mask"] and bytes(fr.masking_key) != d["key"]):
            fail("frame-roundtrip", "frame (op=%s mask=%d len=%d) parsed back as op=%s mask=%d len=%d payload %s, "
                 "%d bytes left" % (d["op"], d["mask"], len(app), got[2], got[3], got[4],
                                    "equal" if got[5] == app else "DIFFERENT", rest), idx)

    @staticmethod
    def check_stream(fail, idx, items, hs):
        """every client frame delivered exactly once, in order, unmasked (valid client streams only)"""
        frames = [item_frame(i) for i in items]
        if not frames or any(f is None or not f[1] or f[0] == "Open" or (f[0] == "Text" and not is_utf8(f[2]))
                             for f in frames):
            return
        want = [(f[0], f[2]) for f in frames]
        got = [(d[0], d[1]) for d in hs["delivered"]]
        if got != want:
            k = 0
            while k < len(got) and k < len(want) and got[k] == want[k]:
                k += 1
            fail("stream-delivery", "after the whole stream was read the endpoint got %d of %d frames; first "
                 "difference at frame %d" % (len(got), len(want), k), idx)
        elif any(d[0] == "Text" and d[2] != "str" for d in hs["delivered"]):
            fail("stream-delivery", "Text payload not delivered as str", idx)


# ----------------------------------------------------------------------------- generators

def rkey(rng):
    return bytes(rng.randrange(256) for _ in range(4))


def pl_for(rng, op, n):
    if op == "Text":
        return "a:%d:%d" % (n, rng.randrange(1 << 20))
    return "g:%d:%d" % (n, rng.randrange(1 << 20))


def desc(rng, op, mask, n, fin=None, rsv=None, plen=None):
    fin = (1 if rng.random() < 0.8 else 0) if fin is None else fin
    rsv = (0 if rng.random() < 0.8 else rng.randrange(8)) if rsv is None else rsv
    s = "op=%s fin=%d rsv=%d mask=%d key=%s pl=%s" % (op, fin, rsv, mask, rkey(rng).hex(), pl_for(rng, op, n))
    if plen is not None:
        s += " plen=%d" % plen
    return s


def gen_length_case(rng, n, combos, cid, with_ser=True, with_rfc=True):
    lines = ["case %s" % cid]
    for op, mask in combos:
        d = desc(rng, op, mask, n)
        if with_ser:
            lines.append("ser " + d)
        lines.append("rt " + d)
    if with_rfc:
        op, mask = rng.choice(WIRE_OPS), rng.randrange(2)
        extra = bytes(rng.randrange(256) for _ in range(rng.randrange(4)))
        lines.append("rfc %s extra=%s" % (desc(rng, op, mask, n), hexd(extra)))
    lines.append("end")
    return lines


def gen_ctor_case(rng, cid, lengths):
    lines = ["case %s" % cid]
    for n in lengths:
        name = rng.choice(["Ping", "Pong", "Binary", "Text", "Close"])
        if name == "Close":
            st = rng.choice([0, 200, 1000, 1001, 65535, 65536, rng.randrange(70000)])
            lines.append("ctor name=Close status=%d pl=%s" % (st, pl_for(rng, "Binary", max(0, n - 2))))
        elif name == "Text" and rng.random() < 0.3:
            lines.append("ctor name=Text pl=h:%s" % hexd(rng.choice(UTF8_SAMPLES).encode("utf-8")))
        else:
            lines.append("ctor name=%s pl=%s" % (name, pl_for(rng, name, n)))
    lines.append("end")
    return lines


def gen_malformed_parse(rng, cid):
    lines = ["case %s" % cid]
    for _ in range(rng.randint(4, 12)):
        r = rng.random()
        if r < 0.3:
            b = bytes(rng.randrange(256) for _ in range(rng.choice([0, 1, 2, 3, 4, 5, 6, 9, 10, 11, 14, 20])))
        elif r < 0.6:
            # a valid encoding, truncated or extended
            n = rng.choice([0, 1, 5, 125, 126, 127, 128, 200])
            w = rfc_encode(1, 0, OPVAL[rng.choice(WIRE_OPS)], rng.randrange(2), rkey(rng), expand("g:%d:%d" % (n, rng.randrange(99))))
            cut = rng.choice([1, 2, 3, 4, 5, 6, 7, 8, 9, 10, 13, 14, len(w) - 1, len(w)])
            b = w[:max(0, cut)] + (b"" if rng.random() < 0.7 else bytes([rng.randrange(256)]))
        elif r < 0.8:
            # every opcode nibble, declared lengths around the markers with short bodies
            b = bytes([rng.randrange(256), rng.choice([0, 1, 125, 126, 127, 128, 129, 253, 254, 255])]) + \
                bytes(rng.randrange(256) for _ in range(rng.choice([0, 1, 2, 3, 7, 8, 9, 12])))
        else:
            # 16-bit / 64-bit extended length holding small values (e.g. 126, 127)
            v = rng.choice([0, 1, 125, 126, 127, 128, 255, 256])
            m = rng.randrange(2)
            body = bytes(rng.randrange(256) for _ in range(v + 4 * m + rng.randrange(3)))
            ext = v.to_bytes(2, "big") if rng.random() < 0.6 else v.to_bytes(8, "big")
            b = bytes([0x80 | rng.choice([1, 2, 8, 9, 10]), (128 * m) | (126 if len(ext) == 2 else 127)]) + ext + body
        lines.append("parse hex=%s" % hexd(b))
        lines.append("hf hex=%s" % hexd(b))
    lines.append("end")
    return lines


def rand_item(rng, size_choices, valid=True):
    op = rng.choice(["Text", "Text", "Binary", "Binary", "Binary", "Ping", "Pong", "Close"])
    n = rng.choice(size_choices)
    if op == "Text" and rng.random() < 0.4:
        pl = "h:" + hexd(rng.choice(UTF8_SAMPLES).encode("utf-8"))
    elif op == "Close":
        pl = "h:" + hexd(rng.choice([b"", b"\x03\xe8", b"\x03\xe9bye"]))
    else:
        pl = pl_for(rng, op, n)
    fin = 1 if rng.random() < 0.9 else 0
    rsv = 0 if rng.random() < 0.9 else rng.randrange(8)
    return "f:%s:%d:%d:%d:%s:%s" % (op, fin, rsv, 1, rkey(rng).hex(), pl)


def bad_item(rng):
    r = rng.random()
    if r < 0.3:     # unmasked client frame
        return "f:%s:1:0:0:00000000:%s" % (rng.choice(WIRE_OPS), pl_for(rng, "Text", rng.randrange(6)))
    if r < 0.55:    # opcode outside the enum (continuation 0, reserved 3-7, 11-15)
        opv = rng.choice([0, 3, 4, 5, 6, 7, 11, 12, 13, 14, 15])
        return "x:" + rfc_encode(1, 0, opv, 1, rkey(rng), expand("g:%d:1" % rng.randrange(5))).hex()
    if r < 0.7:     # Text with invalid UTF-8
        return "f:Text:1:0:1:%s:h:%s" % (rkey(rng).hex(), rng.choice(BAD_UTF8))
    if r < 0.9:     # Text: random scalar values around the encoding-length and surrogate boundaries, then damaged
        cps = [rng.choice([0, 0x7F, 0x80, 0x7FF, 0x800, 0xFFF, 0x1000, 0xCFFF, 0xD000, 0xD7FF, 0xE000, 0xFFFF,
                           0x10000, 0x3FFFF, 0x40000, 0xFFFFF, 0x100000, 0x10FFFF, rng.randrange(0x800),
                           rng.randrange(0xE000, 0x110000)]) for _ in range(rng.randint(1, 4))]
        b = bytearray("".join(chr(c) for c in cps).encode("utf-8"))
        k = rng.random()
        if k < 0.35 and b:
            b[rng.randrange(len(b))] = rng.choice([0x7F, 0x80, 0x8F, 0x90, 0x9F, 0xA0, 0xBF, 0xC0, 0xC1, 0xC2, 0xDF,
                                                   0xE0, 0xED, 0xEF, 0xF0, 0xF4, 0xF5, 0xFF, rng.randrange(256)])
        elif k < 0.55 and b:
            del b[rng.randrange(len(b))]
        elif k < 0.7:
            b.insert(rng.randrange(len(b) + 1), rng.randrange(0x80, 0x100))
        return "f:Text:1:0:1:%s:h:%s" % (rkey(rng).hex(), hexd(bytes(b)))
    return "x:" + hexd(bytes(rng.randrange(256) for _ in range(rng.randint(1, 6))))


def stream_len(items):
    return sum(len(item_bytes(i)) for i in items)


def gen_cut_cases(rng, cid, nframes, sizes, pairs):
    """one stream; every single cut point (and every pair / a sample of pairs); byte by byte; one read"""
    items = [rand_item(rng, sizes) for _ in range(nframes)]
    L = stream_len(items)
    st = "stream " + " ".join(items)
    cases = []
    lines = ["case %s-1" % cid]
    for k in range(1, L):
        lines += ["hnew", st, "feed %d" % k, "feedrest"]
    lines += ["hnew", st, "feedrest"]
    lines += ["hnew", st] + ["feed 1"] * L
    lines.append("end")
    cases.append(lines)
    if pairs:
        allp = [(i, j) for i in range(1, L) for j in range(i + 1, L)]
        if len(allp) > pairs:
            allp = rng.sample(allp, pairs)
        lines = ["case %s-2" % cid]
        for i, j in allp:
            lines += ["hnew", st, "feed %d" % i, "feed %d" % (j - i), "feedrest"]
        lines.append("end")
        cases.append(lines)
    return cases


def gen_random_cut_case(rng, cid, nframes, sizes, chunk_sizes, bad=0.0, api=0.0):
    items = []
    for _ in range(nframes):
        items.append(bad_item(rng) if rng.random() < bad else rand_item(rng, sizes))
    L = stream_len(items)
    lines = ["case %s" % cid, "hnew", "stream " + " ".join(items)]
    left = L
    while left > 0:
        n = min(left, max(1, rng.choice(chunk_sizes)))
        lines.append("feed %d" % n)
        left -= n
        if rng.random() < api:
            if rng.random() < 0.7:
                lines.append("hsend pl=%s" % rng.choice(
                    ["a:%d:%d" % (rng.choice([0, 1, 5, 125, 126, 127, 200]), rng.randrange(999)),
                     "h:" + hexd(rng.choice(UTF8_SAMPLES).encode("utf-8"))]))
            else:
                lines.append("hclose")
    lines.append("end")
    return lines


def replay_case(ctx, obj):
    """./check C18 --replay FILE : re-run the replay's case on the real code (with the monitors) and on the model"""
    r = obj.get("replay") if isinstance(obj.get("replay"), dict) else {}
    case = r.get("case")
    if not case and obj.get("disagreements"):
        case = obj["disagreements"][0].get("case")
    if not case:
        print("replay file holds no case")
        return 2
    impl = Impl()
    out = impl.run_case(case, ctx)
    try:
        model = core.split_cases(ctx.lean("C18", case)).get(core.case_id(case))
    except core.LeanUnavailable as e:
        model = None
        print("model unavailable: %s" % e)
    answering = [ln for ln in case[1:] if ln.split() and ln.split()[0] not in ("hnew", "end")]
    for i, ln in enumerate(answering):
        a = out[i] if i < len(out) else "<none>"
        b = model[i] if model is not None and i < len(model) else "<none>"
        print("op    %s" % ln[:200])
        print("impl  %s" % a)
        print("model %s%s" % (b, "" if a == b else "     <-- differs"))
    for f in ctx.failures:
        print("MONITOR %s: %s" % (f["kind"], f["what"]))
    return 1 if (ctx.failures or model != out) else 0


def load_corpus():
    """minimised past disagreements / defect witnesses (harness/corpus/C18/*.ops), run first"""
    d = os.path.join(core.HERE, "corpus", PROP)
    frame, handler = [], []
    if os.path.isdir(d):
        for fn in sorted(os.listdir(d)):
            if not fn.endswith(".ops"):
                continue
            with open(os.path.join(d, fn)) as fh:
                lines = [ln.strip() for ln in fh if ln.strip() and not ln.startswith("#")]
            if lines and lines[0].startswith("case ") and lines[-1] == "end":
                (handler if any(ln == "hnew" for ln in lines) else frame).append(lines)
    return frame, handler


def gen_big_split_case(rng, cid, n, seg):
    """a frame using the 16/64-bit length form between two small frames, cut inside its header, its
    extended length, its key, and then every `seg` bytes (a TCP segment size)"""
    op = rng.choice(["Text", "Binary"])
    items = [rand_item(rng, [3]), "f:%s:1:0:1:%s:%s" % (op, rkey(rng).hex(), pl_for(rng, op, n)), rand_item(rng, [2])]
    L = stream_len(items)
    first = len(item_bytes(items[0]))
    lines = ["case %s" % cid, "hnew", "stream " + " ".join(items)]
    left = L
    for k in (first + 1, 2, 4, 4, 5):     # ends inside: header, ext length, ext length, key, payload
        lines.append("feed %d" % k)
        left -= k
    while left > 0:
        lines.append("feed %d" % min(seg, left))
        left -= min(seg, left)
    lines.append("end")
    return lines


def gen_big_tail_case(rng, cid, n, back, hdr_cut=None):
    """a large frame between two small ones with a read boundary `back` bytes before its end (a handler that thinks the frame
    is complete too early truncates it), or `hdr_cut` bytes into its header"""
    op = rng.choice(["Text", "Binary"])
    items = [rand_item(rng, [3]), "f:%s:1:0:1:%s:%s" % (op, rkey(rng).hex(), pl_for(rng, op, n)), rand_item(rng, [4])]
    L = stream_len(items)
    first = len(item_bytes(items[0]))
    big = len(item_bytes(items[1]))
    lines = ["case %s" % cid, "hnew", "stream " + " ".join(items)]
    cut = first + (hdr_cut if hdr_cut is not None else big - back)
    lines.append("feed %d" % cut)
    lines.append("feed %d" % (L - cut))
    lines.append("end")
    return lines


# ----------------------------------------------------------------------------- run

SMALL_BOUNDARY = [0, 1, 2, 3, 4, 5, 124, 125, 126, 127, 128, 129, 130, 254, 255, 256, 257, 299, 300]
BIG_BOUNDARY = [65534, 65535, 65536, 65537, 70000]


def run(ctx):
    impl = Impl()
    rng = ctx.rng
    thorough = ctx.tier == "thorough"
    full = [(op, m) for op in ALL_OPS for m in (0, 1)]

    corpus_frame, corpus_handler = load_corpus()
    ctx.notes["corpus_cases"] = len(corpus_frame) + len(corpus_handler)

    # ---- frame layer
    frame_cases = list(corpus_frame)
    small = list(range(0, 301)) if thorough else SMALL_BOUNDARY + sorted(
        rng.sample([v for v in range(6, 299) if v not in SMALL_BOUNDARY], 12))
    for n in small:
        frame_cases.append(gen_length_case(rng, n, full, "s%d" % n))
    if thorough:
        for n in BIG_BOUNDARY:
            frame_cases.append(gen_length_case(rng, n, full, "B%d" % n))
        for i, n in enumerate(range(65000, 66001)):
            frame_cases.append(gen_length_case(rng, n, [full[(i + ctx.seed) % 12]], "b%d" % n,
                                               with_ser=(i % 2 == 0), with_rfc=(i % 2 == 1)))
    else:
        k = ctx.seed
        for n in (65535, 65536):
            frame_cases.append(gen_length_case(rng, n, [full[(k + 1) % 12], full[(k + 6) % 12], ("Binary", 0)],
                                               "B%d" % n))
        for j, n in enumerate((65534, 65537, 70000, rng.randrange(65000, 66001))):
            frame_cases.append(gen_length_case(rng, n, [full[(k + 3 * j) % 12]], "b%d-%d" % (j, n), with_ser=False,
                                               with_rfc=(n == 70000)))
    for i in range(ctx.scale(6, 60)):
        frame_cases.append(gen_ctor_case(rng, "c%d" % i, [rng.choice(SMALL_BOUNDARY + [rng.randrange(300)])
                                                          for _ in range(8)] +
                                         ([rng.choice(BIG_BOUNDARY)] if (thorough and i % 6 == 0) or i == 0 else [])))
    # inconsistent payload_length (struct.error paths of the writer)
    lines = ["case plen"]
    for plen in (0, 125, 126, 65535, 65536, 2 ** 63, 2 ** 64 - 1, 2 ** 64, 2 ** 64 + 5):
        lines.append("ser %s" % desc(rng, "Binary", rng.randrange(2), 3, plen=plen))
    lines.append("end")
    frame_cases.append(lines)
    for i in range(ctx.scale(40, 1500)):
        frame_cases.append(gen_malformed_parse(rng, "p%d" % i))
    # every payload length of the property's range at header level (payload_length = n, 2-byte body):
    # length-form selection of the writer and of the reader for all n in 0..70000
    if thorough:
        sweep = list(range(0, 70001))
    else:
        sweep = sorted(set(v + d for v in (0, 125, 126, 127, 128, 255, 256, 65535, 65536, 70000)
                           for d in (-2, -1, 0, 1, 2) if 0 <= v + d <= 70001) | set(rng.sample(range(70001), 300)))
    for i in range(0, len(sweep), 500):
        lines = ["case w%d" % i]
        for n in sweep[i:i + 500]:
            op = WIRE_OPS[n % 5]
            m = (n // 5) % 2
            key = rkey(rng)
            lines.append("ser op=%s fin=1 rsv=0 mask=%d key=%s pl=h:abcd plen=%d" % (op, m, key.hex(), n))
            hx = (rfc_header(1, 0, OPVAL[op], m, key, n) + b"\xab\xcd").hex()
            lines.append("parse hex=%s" % hx)
            lines.append("hf hex=%s" % hx)
        lines.append("end")
        frame_cases.append(lines)

    # ---- handler layer
    hcases = list(corpus_handler)
    tiny = [0, 0, 1, 2, 3, 5, 8]
    for i in range(ctx.scale(6, 60)):
        hcases += gen_cut_cases(rng, "cut%d" % i, rng.randint(1, 4), tiny, ctx.scale(40, 400))
    for i in range(ctx.scale(2, 12)):
        # a frame with an extended length, cut everywhere (header boundaries 2/4/8/10/14)
        hcases += gen_cut_cases(rng, "cutx%d" % i, 2, [126, 127, 130, 200], 0)
    sizes = [0, 1, 2, 5, 20, 60, 124, 125, 126, 127, 128, 300, 1000]
    for i in range(ctx.scale(60, 2500)):
        chunks = rng.choice([[1, 2, 3], [1, 5, 17, 64], [50, 200, 1000], [3, 4000], [100000]])
        hcases.append(gen_random_cut_case(rng, "r%d" % i, rng.randint(1, 40 if i % 5 == 0 else 8), sizes, chunks))
    # many complete frames in ONE read (a client that pipelines small frames; the kernel coalesces them): every one is delivered by that
    # read, however many there are - nothing may be left waiting for bytes that need not come
    for i, nfr in enumerate(ctx.scale([33, 64, 200], [2, 31, 32, 33, 34, 63, 64, 65, 100, 255, 256, 257, 1000])):
        hcases.append(gen_random_cut_case(rng, "burst%d" % i, nfr, tiny, [10 ** 6]))
        hcases.append(gen_random_cut_case(rng, "burstc%d" % i, nfr, tiny, [10 ** 6, 7, 300]))
    for i in range(ctx.scale(3, 40)):
        big = sizes + [65535, 65536, rng.choice([65534, 65537, 70000, rng.randrange(65000, 66001)])]
        chunks = rng.choice([[1460], [1460, 2920, 65536], [7, 30000], [100000], [65536, 5]])
        hcases.append(gen_random_cut_case(rng, "R%d" % i, rng.randint(2, 6), big, chunks))
    for n in ((65535, 65536, 70000) if not thorough else (126, 127, 255, 256, 65534, 65535, 65536, 65537, 70000)):
        for seg in ((1460,) if not thorough else (536, 1460, 16384, 65536)):
            hcases.append(gen_big_split_case(rng, "S%d-%d" % (n, seg), n, seg))
    for n in ((126, 65535, 65536, 70000) if not thorough else (125, 126, 127, 300, 65535, 65536, 65537, 70000)):
        for back in (1, 2, 3, 4):
            hcases.append(gen_big_tail_case(rng, "T%d-%d" % (n, back), n, back))
        for hc in (1, 2, 3, 7, 8, 9, 10, 13):
            hcases.append(gen_big_tail_case(rng, "H%d-%d" % (n, hc), n, 0, hdr_cut=hc))
    for i in range(ctx.scale(40, 1500)):
        chunks = rng.choice([[1, 2, 3], [1, 5, 17, 64], [50, 200], [100000]])
        hcases.append(gen_random_cut_case(rng, "bad%d" % i, rng.randint(1, 8), tiny + [20, 126],
                                          chunks, bad=rng.choice([0.0, 0.2, 0.5]), api=rng.choice([0.0, 0.3])))

    def nontrivial(case, outs):
        for o in outs:
            if "len7=126" in o or "len7=127" in o or "err:" in o or " err=" in o and " err=-" not in o:
                return True
            if o.startswith("feed") and " buf=0 " not in o:
                return True
            if o.startswith(("ser", "ctor")) and " dhdr=- " not in o:
                return True
        return False

    original = set()
    monitored = set()

    def impl_fn(case):
        cid = core.case_id(case)
        if cid in original and cid not in monitored:
            monitored.add(cid)
            return impl.run_case(case, ctx)
        return impl.run_case(case, None)

    for layer, cases in (("WebSocketFrame", frame_cases), ("WebSocketHandler", hcases)):
        # corpus first
        for c in cases:
            original.add(core.case_id(c))
        # batches keep each Lean process (and a possible failure) small
        step = 400
        for i in range(0, len(cases), step):
            ctx.correspondence(layer, "C18", cases[i:i + step], impl_fn, nontrivial, RULE)
            if len(ctx.disagreements) >= 5 or not ctx.lean_ok:
                break

    for c in frame_cases + hcases:
        for line in c[1:-1]:
            w = line.split()
            ctx.count("op:" + w[0])
            if w[0] in ("ser", "rt", "rfc"):
                f = fields(w[1:])
                p = f["pl"].split(":")
                n = int(p[1]) if p[0] in "ga" else len(expand(f["pl"]))
                ctx.count("len:" + ("0-125" if n <= 125 else "126-65535" if n <= 65535 else "65536+"))
                ctx.count("opcode:" + f["op"])
                ctx.count("mask:" + f["mask"])
    ctx.notes["frame_cases"] = len(frame_cases)
    ctx.notes["handler_cases"] = len(hcases)
    ctx.notes["lengths_small"] = len(small)
    ctx.notes["monitored_cases"] = len(monitored)
