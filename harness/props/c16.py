"""C16 - HTTP router: correspondence of Model/Regex.lean + Model/Router.lean with
mpgameserver/http_server.py (Router.patternToRegex / getRoute / dispatch, CPython `re`) + monitor."""
import itertools
import logging
import os
import signal

from harness import core

PROP = "C16"
LEAN_MODULES = ["MpgsModel.Props.C16"]
MODEL_MODULES = ["MpgsModel.Model.Regex", "MpgsModel.Model.Router"]
NS = "Mpgs.Router."
THEOREMS = [
    (NS + "C16_regex_iff_spec", "full"),
    (NS + "C16_regex_iff_spec_string", "full"),
    (NS + "C16_bindings_are_spec", "full"),
    (NS + "C16_spec_bindings_unique", "full"),
    (NS + "C16_bindings_eq_spec", "full"),
    (NS + "C16_spec_is_plain_rule", "full"),
    (NS + "C16_regex_iff_plain_rule", "full"),
    (NS + "C16_trailing_slash_tolerated", "full"),
    (NS + "C16_two_multi_params_rejected", "full"),
    (NS + "C16_first_route_wins", "full"),
    (NS + "C16_404", "full"),
    (NS + "C16_unpatched_plus_overmatches", "witness"),
    (NS + "C16_unescaped_literal_overmatches", "witness"),
]
ASSUMPTIONS = [
    "CPython's re engine is represented by Model/Regex.lean for the generated fragment only "
    "(literal, [^/], ., greedy */+ on a class, sequence, alternation, greedy ?, group, ^, $); "
    "validated by the differential on (regex, path) pairs, the regex TEXT is compared exactly",
    "request paths start with '/' and contain no newline (the theorems' hypotheses); the differential also "
    "feeds paths with a final newline to exercise the model's `$`",
    "the rate limiter admits the request (fresh client address per dispatch in the harness; `limited` is a "
    "parameter of the model's dispatch)",
    "where the documentation is silent (empty path segments) Spec fixes: :n? and :n* accept empty segments, "
    ":n+ binds >=1 segments with non-empty joined text; invisible on paths without '//' "
    "(theorem C16_spec_is_plain_rule); the monitor flags such paths only when every reading agrees",
]
RULE = ("exhaustive: every pattern of <=3 (thorough <=4) segments over {a, ab, a.b, :x, :x?, :x+, :x*} x every path "
        "of <=4 (thorough <=5) segments over {a, ab, abc, aXb, ''} with/without trailing slash: regex text, "
        "re.match groups, Spec bindings, plain-rule verdict; route tables of 3 routes in every registration order over all four "
        "methods + an unsupported one: getRoute/dispatch; random patterns with regex metacharacters, unicode, "
        "odd parameter names, doubled slashes, duplicate names; non-trivial = the case has a match and a non-match")

PAT_ITEMS = ["a", "ab", "a.b", ":x", ":x?", ":x+", ":x*"]
SEG_ITEMS = ["a", "ab", "abc", "aXb", ""]
METHODS = ["GET", "POST", "PUT", "DELETE"]


def hx(s):
    return s.encode("utf-8").hex() or "-"


def unhx(s):
    return "" if s == "-" else bytes.fromhex(s).decode("utf-8")


def show_val(v):
    return "N" if v is None else "v" + v.encode("utf-8").hex()


def show_vals(vs):
    return "ok" if not vs else ";".join(show_val(v) for v in vs)


def show_bindings(d):
    items = sorted(hx(k) + "=" + show_val(v) for k, v in d.items())
    return ",".join(items) if items else "-"


# ------------------------------------------------------------------ the documented rule, directly

def parse_pattern(pattern):
    """documented grammar: parts between slashes; ':' prefix = parameter, suffix ?/+/* = multiplicity"""
    out = []
    for part in pattern.split("/"):
        if not part:
            continue
        if part.startswith(":"):
            c = part[-1]
            if c == "?":
                out.append(("opt", part[1:-1]))
            elif c == "*":
                out.append(("star", part[1:-1]))
            elif c == "+":
                out.append(("plus", part[1:-1]))
            else:
                out.append(("param", part[1:]))
        else:
            out.append(("lit", part))
    return out


def seg_sols(pat, segs):
    """all assignments of segments to the pattern, greediest first (port of Spec.segSols)"""
    if not pat:
        return [[]] if not segs else []
    (kind, arg), rest = pat[0], pat[1:]
    if kind == "lit":
        return seg_sols(rest, segs[1:]) if segs and segs[0] == arg else []
    if kind == "param":
        return [[segs[0]] + b for b in seg_sols(rest, segs[1:])] if segs and segs[0] != "" else []
    if kind == "opt":
        one = [[segs[0]] + b for b in seg_sols(rest, segs[1:])] if segs else []
        return one + [[None] + b for b in seg_sols(rest, segs)]
    res = []
    for k in range(len(segs), 0, -1):
        text = "/".join(segs[:k])
        if kind == "plus" and text == "":
            continue
        res += [[text] + b for b in seg_sols(rest, segs[k:])]
    if kind == "star":
        res += [[None] + b for b in seg_sols(rest, segs)]
    return res


def strict_segs(path):
    return path.split("/")[1:]


def spec_sols(pat, path):
    """reading A (= Lean Spec.sols): the path, or the path minus its final '/', is /s1/s2/.../sn"""
    res = seg_sols(pat, strict_segs(path))
    if path.endswith("/"):
        res = res + seg_sols(pat, strict_segs(path[:-1]))
    return res


def plain_segs(path):
    """drop one trailing '/', what remains is /s1/.../sn"""
    return strict_segs(path[:-1] if path.endswith("/") else path)


def is_clean(path):
    return all(s != "" for s in plain_segs(path))


def simple_sols(pat, path):
    """reading B (= Lean Spec.plainMatches): drop one trailing '/', split /s1/.../sn; + = one or more segments"""
    segs = plain_segs(path)

    def go(pat, segs):
        if not pat:
            return [[]] if not segs else []
        (kind, arg), rest = pat[0], pat[1:]
        if kind == "lit":
            return go(rest, segs[1:]) if segs and segs[0] == arg else []
        if kind == "param":
            return [[segs[0]] + b for b in go(rest, segs[1:])] if segs and segs[0] != "" else []
        lo = 0 if kind in ("opt", "star") else 1
        hi = min(1, len(segs)) if kind == "opt" else len(segs)
        res = []
        for k in range(hi, lo - 1, -1):
            res += [[("/".join(segs[:k]) if k else None)] + b for b in go(rest, segs[k:])]
        return res
    return go(pat, segs)


def norm_val(v):
    """stated normalisation of a reported value: absent = empty; one trailing '/' dropped"""
    v = v or ""
    return v[:-1] if v.endswith("/") else v


def valid_pattern(pat):
    return sum(1 for k, _ in pat if k in ("opt", "plus", "star")) <= 1


# ------------------------------------------------------------------ real code

class Impl:
    def __init__(self):
        core.use_repo()
        import mpgameserver.http_server as H
        self.H = H
        self.addr = 0
        # getRoute logs "unsupported method" through the library's logger; keep the run quiet
        logging.disable(logging.CRITICAL)

    def fresh_addr(self):
        self.addr += 1
        a = self.addr
        return ("10.%d.%d.%d" % ((a >> 16) & 255, (a >> 8) & 255, a & 255), 4000)

    def run_case(self, case):
        H = self.H
        out = []
        router = H.Router()
        cur = None
        hits = []
        regs = []
        # every other case registers its routes through a Resource subclass instead of explicit Route objects
        via_resource = sum(ord(ch) for ch in case[0]) % 2 == 1 and all(l.split()[2] in ("GET", "POST", "PUT", "DELETE")
                                                                       for l in case[1:] if l.startswith("reg "))
        for line in case[1:]:
            w = line.split()
            if not w:
                continue
            op = w[0]
            if op == "pat":
                pattern = unhx(w[1])
                try:
                    rx, toks = H.Router().patternToRegex(pattern)
                    cur = (rx, toks, pattern)
                    out.append("re %s %s" % (hx(rx.pattern), ",".join(hx(t) for t in toks) or "-"))
                except Exception as e:   # ValueError = two multi-segment parameters; re.error on an unrepaired tree
                    cur = (None, None, pattern)
                    out.append("err:" + type(e).__name__)
            elif op == "match":
                if cur[0] is None:
                    out.append("bad-op")
                    continue
                m = cur[0].match(unhx(w[1]))
                out.append("m none" if m is None else "m " + show_vals(list(m.groups())))
            elif op == "spec":
                # not the real code: the Python statement of the documented rule (monitor's reading A)
                sols = spec_sols(parse_pattern(cur[2]), unhx(w[1]))
                out.append("s none" if not sols else "s " + show_vals(sols[0]))
            elif op == "plain":
                # not the real code either: the plain reading (monitor's reading B)
                path = unhx(w[1])
                out.append("p %d %d" % (is_clean(path), bool(simple_sols(parse_pattern(cur[2]), path))))
            elif op == "reg":
                rid = int(w[1])

                def cb(request, _rid=rid):
                    hits.append((_rid, dict(request.matches)))
                    return H.JsonResponse({"route": _rid}, 200)
                if via_resource:
                    # the usual way to register: decorated methods of a Resource subclass, in DEFINITION order (the method names are
                    # chosen so that definition order is the reverse of alphabetical order); the class is rebuilt with one more method
                    try:
                        H.Router().registerRoutes([H.Route("r%d" % rid, w[2], unhx(w[3]), cb)])     # refused routes are refused alike
                    except Exception as e:
                        out.append("err:" + type(e).__name__)
                        continue
                    regs.append((rid, w[2], unhx(w[3])))
                    ns = H.OrderedPropertyMap()
                    for i, (r_, meth, pat) in enumerate(regs):
                        def h(self, request, _rid=r_):
                            hits.append((_rid, dict(request.matches)))
                            return H.JsonResponse({"route": _rid}, 200)
                        h.__name__ = "h%03d_%d" % (999 - i, r_)
                        ns[h.__name__] = {"GET": H.get, "POST": H.post, "PUT": H.put, "DELETE": H.delete}[meth](pat)(h)
                        if hasattr(h, "_options"):
                            del h._options          # no body-size rule: explicit Route objects have none either (the requests carry no body)
                    try:
                        router = H.Router()
                        router.registerRoutes(H.OrderedClass("GenResource", (H.Resource,), ns)())
                        out.append("ok")
                    except Exception as e:
                        out.append("err:" + type(e).__name__)
                    continue
                try:
                    router.registerRoutes([H.Route("r%d" % rid, w[2], unhx(w[3]), cb)])
                    out.append("ok")
                except Exception as e:
                    out.append("err:" + type(e).__name__)
            elif op == "route":
                res = router.getRoute(w[1], unhx(w[2]))
                if res is None:
                    out.append("r none")
                else:
                    out.append("r %s %s" % (res[0].name.split("_")[-1] if via_resource else res[0].name[1:], show_bindings(res[1])))
            elif op == "dispatch":
                del hits[:]
                req = H.Request(self.fresh_addr(), w[1], unhx(w[2]), {}, "", {}, None)
                resp = router.dispatch(req)
                if resp.status_code == 200 and len(hits) == 1:
                    out.append("d 200 %d %s" % (hits[0][0], show_bindings(hits[0][1])))
                else:
                    out.append("d %d" % resp.status_code if not hits else "d %d calls=%d" % (resp.status_code, len(hits)))
        return out


# ------------------------------------------------------------------ generators

def all_patterns(maxlen):
    for n in range(maxlen + 1):
        for combo in itertools.product(PAT_ITEMS, repeat=n):
            yield "/" + "/".join(combo)


def all_paths(maxlen):
    res = []
    for n in range(maxlen + 1):
        for combo in itertools.product(SEG_ITEMS, repeat=n):
            p = "/" + "/".join(combo)
            res.append(p)
            res.append(p + "/")
    # n = 0 gives "/" and "//"; dedupe, keep order
    seen, out = set(), []
    for p in res:
        if p not in seen:
            seen.add(p)
            out.append(p)
    return out


WILD_LITS = ["a", "ab", "a.b", "a+b", "a*", "(a)", "[a]", "a|b", "a\\d", "\\", "^a", "a$", "a b", "é", "日本",
             "a-b", "a~b", "a&b", "a#b", "{2}", "a?", "x:y", "A", "a\tb", "?", "+", "*", ".", ".."]
WILD_PARAMS = [":x", ":y", ":x?", ":y?", ":x+", ":y+", ":x*", ":y*", ":", ":?", ":+", ":*", "::", ":x?y", ":x+?"]
WILD_SEGS = ["a", "ab", "a.b", "aXb", "a+b", "aab", "a*", "(a)", "[a]", "a|b", "b", "a\\d", "a1", "\\", "^a", "a$",
             "a b", "é", "日本", "", "a-b", "{2}", "aa", "a?", "x:y", "A", "a\tb", "?", "+", "*", ".", "..", ":x"]


def wild_pattern(rng):
    n = rng.choice([0, 1, 1, 2, 2, 3, 3, 4, 5])
    parts = []
    for _ in range(n):
        parts.append(rng.choice(WILD_PARAMS) if rng.random() < 0.45 else rng.choice(WILD_LITS))
    sep = lambda: "//" if rng.random() < 0.08 else "/"
    s = ("" if rng.random() < 0.1 else "/")
    for i, p in enumerate(parts):
        s += p + (sep() if i + 1 < len(parts) else "")
    if rng.random() < 0.15:
        s += "/"
    return s


def wild_path(rng, pattern):
    """mostly near-misses of the pattern: each part replaced by a fitting / almost fitting segment"""
    parts = [p for p in pattern.split("/") if p]
    segs = []
    for p in parts:
        r = rng.random()
        if p.startswith(":"):
            k = rng.choice([0, 1, 1, 1, 2, 3]) if p[-1] in "?*+" else rng.choice([1, 1, 1, 1, 0, 2])
            segs += [rng.choice(WILD_SEGS) for _ in range(k)]
        elif r < 0.65:
            segs.append(p)
        elif r < 0.8:
            segs.append(p + rng.choice(["a", "X", "/"]) if rng.random() < 0.5 else p[:-1])
        else:
            segs.append(rng.choice(WILD_SEGS))
    if rng.random() < 0.15:
        segs.append(rng.choice(WILD_SEGS))
    if rng.random() < 0.1 and segs:
        segs.pop(rng.randrange(len(segs)))
    path = "/" + "/".join(segs)
    r = rng.random()
    if r < 0.25:
        path += "/"
    elif r < 0.29:
        path += "//"
    elif r < 0.33:
        path += "\n"
    elif r < 0.35:
        path += "/\n"
    elif r < 0.36:
        path = path[1:]
    return path


# ------------------------------------------------------------------ monitor

SPECIALS = set("()[]{}?*+-|^$\\.&~# \t\n\r\x0b\x0c")


def expected_answers(pat, path):
    """the set of answers the documentation allows: reading A and reading B (they coincide on paths
    without empty segments); each answer = None or tuple of normalised values"""
    res = set()
    for sols in (spec_sols(pat, path), simple_sols(pat, path)):
        res.add(None if not sols else tuple(norm_val(v) for v in sols[0]))
    return res


def record(ctx, kind, what, replay):
    """one replay per kind is enough; count the rest"""
    ctx.count("monitor-failure:" + kind)
    if kind not in {f["kind"] for f in ctx.failures}:
        ctx.failure(kind, what, replay)


def monitor_match(impl, pattern, paths, ctx):
    """pattern x paths: real getRoute vs the documented rule"""
    H = impl.H
    pat = parse_pattern(pattern)
    if not valid_pattern(pat):
        return
    router = H.Router()
    try:
        router.registerRoutes([H.Route("r1", "GET", pattern, lambda request: None)])
    except Exception as e:
        record(ctx, "valid-pattern-refused", "registerRoutes raised %s for %r" % (type(e).__name__, pattern),
               {"pattern": pattern, "case": ["case mon", "pat %s" % hx(pattern), "end"], "at": 0})
        return
    toks = [a for k, a in pat if k != "lit"]
    dup = len(set(toks)) != len(toks)
    nm = nn = 0
    for path in paths:
        if "\n" in path or not path.startswith("/"):
            continue
        exp = expected_answers(pat, path)
        res = router.getRoute("GET", path)
        if res is None:
            got = None
            nn += 1
        else:
            nm += 1
            if dup:
                # duplicate names collapse in the dict: only match / no match is comparable
                exp = {None if e is None else () for e in exp}
                got = ()
            else:
                got = tuple(norm_val(res[1].get(t)) for t in toks)
        if got not in exp:
            if got is not None and exp == {None}:
                if any(k == "plus" for k, _ in pat):
                    kind = "over-match-plus"
                elif any(k == "lit" and set(a) & SPECIALS for k, a in pat):
                    kind = "over-match-literal"
                else:
                    kind = "over-match"
            elif got is None:
                kind = "under-match"
            else:
                kind = "wrong-binding"
            record(ctx, kind, "pattern %r path %r: getRoute gives %r, documented rule gives %r"
                   % (pattern, path, None if res is None else res[1], sorted(exp, key=repr)),
                   {"pattern": pattern, "path": path, "case": match_case("mon", pattern, [path], spec=True), "at": 1})
    ctx.count("monitor:match", nm)
    ctx.count("monitor:nomatch", nn)


def monitor_table(impl, routes, queries, ctx, case):
    """first registered matching route of the method; 404 when nothing matches"""
    H = impl.H
    router = H.Router()
    hits = []
    reg = []
    deco = {"GET": H.get, "POST": H.post, "PUT": H.put, "DELETE": H.delete}
    via_resource = sum(ord(ch) for ch in case[0]) % 2 == 1 and all(m in deco for _r, m, _p in routes)
    ns = H.OrderedPropertyMap()
    for rid, method, pattern in routes:
        def cb(request, _rid=rid):
            hits.append(_rid)
            return H.JsonResponse({}, 200)
        try:
            (H.Router() if via_resource else router).registerRoutes([H.Route("r%d" % rid, method, pattern, cb)])
            reg.append((rid, method, parse_pattern(pattern)))
        except Exception:
            continue
        if via_resource:
            # the same table as decorated methods of a Resource subclass: registration order = DEFINITION order (method names chosen so
            # that it is the reverse of alphabetical order)
            def h(self, request, _rid=rid):
                hits.append(_rid)
                return H.JsonResponse({}, 200)
            h.__name__ = "h%03d_%d" % (999 - len(reg), rid)
            ns[h.__name__] = deco[method](pattern)(h)
            if hasattr(h, "_options"):
                del h._options
    if via_resource:
        router.registerRoutes(H.OrderedClass("GenResource", (H.Resource,), ns)())
    for idx, (method, path) in queries:
        if "\n" in path or not path.startswith("/"):
            continue
        # candidates by the documented rule; where reading A and reading B differ the docs are silent: skip
        exp = "none"
        for rid, m, pat in reg:
            if m != method:
                continue
            a, b = bool(spec_sols(pat, path)), bool(simple_sols(pat, path))
            if a != b:
                exp = "silent"
                break
            if a:
                exp = rid
                break
        if exp == "silent":
            ctx.count("monitor:doc-silent")
            continue
        del hits[:]
        resp = router.dispatch(H.Request(impl.fresh_addr(), method, path, {}, "", {}, None))
        got = hits[0] if hits else "none"
        ctx.count("monitor:dispatch-%s" % ("404" if exp == "none" else "routed"))
        if got != exp or (exp == "none" and resp.status_code != 404) or (exp != "none" and resp.status_code != 200):
            record(ctx, "wrong-route" if exp != "none" else "no-404",
                   "%s %r: dispatch ran route %r status %d, documented rule picks %r"
                   % (method, path, got, resp.status_code, exp), {"case": case, "at": idx})
            return


# ------------------------------------------------------------------ run

def match_case(cid, pattern, paths, spec=True):
    lines = ["case %s" % cid, "pat %s" % hx(pattern)]
    for p in paths:
        lines.append("match %s" % hx(p))
        if spec:
            lines.append("spec %s" % hx(p))
            lines.append("plain %s" % hx(p))
    lines.append("end")
    return lines


def load_corpus():
    """harness/corpus/C16/*.txt: `pattern<TAB>path` per line (past disagreements / defect witnesses)"""
    d = os.path.join(os.path.dirname(os.path.dirname(os.path.abspath(__file__))), "corpus", "C16")
    pairs = []
    if os.path.isdir(d):
        for f in sorted(os.listdir(d)):
            if f.endswith(".txt"):
                for line in open(os.path.join(d, f), encoding="utf-8"):
                    line = line.rstrip("\n")
                    if line and not line.startswith("#") and "\t" in line:
                        a, b = line.split("\t", 1)
                        pairs.append((a, b))
    return pairs


def run(ctx):
    impl = Impl()

    def on_alarm(*_):
        raise TimeoutError("real code hung")
    signal.signal(signal.SIGALRM, on_alarm)
    signal.alarm(ctx.scale(900, 4000))
    rng = ctx.rng
    exact = {"same": 0, "diff": 0}

    def impl_fn(case):
        out = impl.run_case(case)
        # side observation (not a requirement): real groups == Spec.bindings exactly, newline-free paths
        ops = [l for l in case[1:] if l.split()[0] in ("pat", "match", "spec", "plain")]
        if len(ops) == len(out):
            for k in range(len(ops) - 1):
                if ops[k].startswith("match ") and ops[k + 1].startswith("spec ") and \
                        ops[k].split()[1].startswith("2f") and "0a" not in ops[k][-3:]:
                    exact["same" if out[k][2:] == out[k + 1][2:] else "diff"] += 1
        return out

    def nontrivial(case, outs):
        return any(o.startswith(("m v", "m N", "m ok", "d 200")) or (o.startswith("r ") and o != "r none")
                   for o in outs) and any(o in ("m none", "r none", "d 404") for o in outs)

    def corr(layer, cases, size):
        for chunk in range(0, len(cases), size):
            ctx.correspondence(layer, "C16", cases[chunk:chunk + size], impl_fn, nontrivial, RULE)
            if ctx.disagreements:
                return False
        return True

    # ---- 0. corpus (defect witnesses, past disagreements)
    corpus = load_corpus()
    by_pat = {}
    for a, b in corpus:
        by_pat.setdefault(a, []).append(b)
    ccases = [match_case("c%d" % i, a, bs) for i, (a, bs) in enumerate(sorted(by_pat.items()))]
    ccases = [c if valid_pattern(parse_pattern(unhx(c[1].split()[1]))) else [c[0], c[1], "end"] for c in ccases]
    if ccases:
        corr("Regex", ccases, 500)
    for a, bs in sorted(by_pat.items()):
        monitor_match(impl, a, bs, ctx)

    # ---- 1. exhaustive enumeration of the property's quantifier
    maxpat, maxpath = ctx.scale((3, 4), (4, 5))
    paths = all_paths(maxpath)
    patterns = list(all_patterns(maxpat))
    ctx.notes["enumerated_patterns"] = len(patterns)
    ctx.notes["enumerated_paths"] = len(paths)
    cases = []
    # the Lean interpreter is the bottleneck: in the quick tier every (pattern, path) pair goes through the
    # model; in the thorough tier every pattern gets the first 60 paths plus a 1/stride slice at a random offset
    # (the monitor below always covers the full product on the real code)
    full_budget = ctx.scale(700000, 4600000)
    valid = [p for p in patterns if valid_pattern(parse_pattern(p))]
    ctx.notes["valid_patterns"] = len(valid)
    stride = max(1, (len(valid) * len(paths) + full_budget - 1) // full_budget)
    ctx.notes["lean_path_stride"] = stride
    # Spec.bindings / plain-rule ops (model vs the Python statement of the rule, no real code involved): on
    # every pattern in the quick tier, on every third one in the thorough tier
    spec_every = ctx.scale(1, 3)
    spec_off = rng.randrange(spec_every)
    for i, pattern in enumerate(patterns):
        if valid_pattern(parse_pattern(pattern)):
            off = rng.randrange(stride)
            sub = paths if stride == 1 else (paths[:60] + paths[60 + off::stride])
            cases.append(match_case("e%d" % i, pattern, sub, spec=(i % spec_every == spec_off)))
        else:
            cases.append(["case e%d" % i, "pat %s" % hx(pattern), "end"])
    corr("Regex", cases, 300)

    # monitor on the full product (real code vs documented rule)
    for pattern in patterns:
        monitor_match(impl, pattern, paths, ctx)

    # ---- 2. wild patterns (metacharacters, unicode, odd names, doubled slashes, newline at the end)
    wcases = []
    for i in range(ctx.scale(600, 8000)):
        pattern = wild_pattern(rng)
        wpaths = [wild_path(rng, pattern) for _ in range(rng.randint(4, 14))]
        ok = valid_pattern(parse_pattern(pattern))
        ctx.count("wild:" + ("valid" if ok else "two-multi"))
        wcases.append(match_case("w%d" % i, pattern, wpaths, spec=True) if ok
                      else ["case w%d" % i, "pat %s" % hx(pattern), "end"])
    corr("Regex", wcases, 500)
    for c in wcases:
        pattern = unhx(c[1].split()[1])
        ps = [unhx(l.split()[1]) for l in c[2:-1] if l.startswith("match ")]
        monitor_match(impl, pattern, ps, ctx)

    # ---- 3. route tables: three routes, every registration order, all methods
    tcases = []
    tmeta = []
    ntab = ctx.scale(60, 1000)
    short_paths = all_paths(3)
    pool = list(all_patterns(3))
    for i in range(ntab):
        three = [rng.choice(pool) if rng.random() < 0.9 else wild_pattern(rng) for _ in range(3)]
        if rng.random() < 0.5:
            # overlapping routes on purpose
            three = ["/a" + rng.choice(["", "/:x", "/:x?", "/:x*", "/:x+", "/ab", "/:x/:y", "/a.b", "/:x/ab", "/:y*/ab"])
                     for _ in range(3)]
        meths = [rng.choice(METHODS) if rng.random() < 0.4 else "GET" for _ in range(3)]
        if rng.random() < 0.05:
            meths[rng.randrange(3)] = "PATCH"
        qpaths = [rng.choice(short_paths) for _ in range(10)] + [wild_path(rng, rng.choice(three)) for _ in range(6)]
        for oi, order in enumerate(itertools.permutations(range(3))):
            lines = ["case t%d_%d" % (i, oi)]
            routes = []
            for k in order:
                lines.append("reg %d %s %s" % (k + 1, meths[k], hx(three[k])))
                routes.append((k + 1, meths[k], three[k]))
            queries = []
            for p in qpaths:
                ms = (METHODS if oi == 0 else ["GET"]) + (["PATCH"] if oi == 0 and rng.random() < 0.2 else [])
                for m in ms:
                    op = "route" if rng.random() < 0.5 else "dispatch"
                    queries.append((len(lines) - 1, (m, p)))
                    lines.append("%s %s %s" % (op, m, hx(p)))
            lines.append("end")
            tcases.append(lines)
            tmeta.append((routes, queries))
    corr("Router", tcases, 300)
    for lines, (routes, queries) in zip(tcases, tmeta):
        monitor_table(impl, routes, [q for q in queries if q[1][0] in METHODS], ctx, lines)

    for c in cases[:60] + wcases[:300] + tcases[:100]:
        for o in impl.run_case(c):
            w = o.split()
            key = w[0] if w[0] in ("re", "ok") or w[0].startswith("err") else " ".join(w[:2])
            if key.startswith(("m v", "m N")):
                key = "m groups"
            if key.startswith(("s v", "s N")):
                key = "s values"
            if key.startswith("r ") and key != "r none":
                key = "r route"
            ctx.count("out:" + key)
    signal.alarm(0)
    ctx.notes["op_lines"] = sum(len(c) - 2 for c in ccases + cases + wcases + tcases)
    ctx.notes["real_groups_vs_spec_bindings_exact"] = dict(exact)


def replay_case(ctx, obj):
    """re-run a replay on the real code and on the model and print both"""
    rep = obj.get("replay", {})
    case = rep.get("case") if isinstance(rep, dict) else None
    if not case and obj.get("disagreements"):
        case = obj["disagreements"][0]["case"]
    if not case:
        return 0
    impl = Impl()
    io = impl.run_case(case)
    try:
        mo = core.split_cases(ctx.lean("C16", case)).get(core.case_id(case))
    except core.LeanUnavailable as e:
        mo = ["<model unavailable: %s>" % e]
    for line in case:
        w = line.split()
        shown = [w[0]]
        for k, x in enumerate(w[1:], 1):
            is_hex = (w[0] in ("pat", "match", "spec") and k == 1) or (w[0] == "reg" and k == 3) or \
                     (w[0] in ("route", "dispatch") and k == 2)
            shown.append(repr(unhx(x)) if is_hex else x)
        print("op   :", " ".join(shown))
    print("impl :", io)
    print("model:", mo)
    if isinstance(rep, dict) and "pattern" in rep and "path" in rep:
        pat = parse_pattern(rep["pattern"])
        print("documented rule:", sorted(expected_answers(pat, rep["path"]), key=repr))
    return 0 if io == mo else 1
