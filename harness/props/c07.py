"""C07 - send callbacks are truthful and fire exactly once."""
from harness import core, connlib

PROP = "C07"
LEAN_MODULES = ["MpgsModel.Props.C07"]
MODEL_MODULES = ["MpgsModel.Model.Conn", "MpgsModel.Model.ToyAead"]
NS = "Mpgs.Conn."
THEOREMS = [
    (NS + "C07_resolve_accounting", "full"),
    (NS + "C07_false_only_after_timeout", "full"),
    (NS + "C07_true_only_if_named", "full"),
    (NS + "C07_ack_names_accepted", "full"),
    (NS + "C07_timeout_resolves_all_due", "full"),
    (NS + "C07_retry_done_silent", "full"),
    (NS + "C07_retry_first_result", "full"),
    (NS + "C07_fragment_callback", "full"),
    (NS + "C07_at_most_once", "full"),
    (NS + "C07_fresh_callback_at_most_once", "full"),
    (NS + "C07_conservation", "full"),
    (NS + "C07_exactly_once", "full"),
    (NS + "C07_held_until_invoked", "full"),
    (NS + "C07_roles_hold_no_user_callbacks", "full"),
]
# secondary tie (DESIGN 4.2): kernels regenerated from the source on every run, proved equal to the model (Props/Equiv<Group>.lean)
EQUIV = {"Frag": ["Mpgs.Equiv.gen_split_loop", "Mpgs.Equiv.gen_split"], "Seq": ["Mpgs.Equiv.gen_diff"], "Ack": ["Mpgs.Equiv.gen_ack_names"]}
ASSUMPTIONS = [
    "per-step statements for every state (one resolution = one entry removed, one counter, one event; False only from a time-out test, "
    "True only for datagrams the peer's header names; named => accepted by the peer; RetrySender/FragmentSender report once)",
    "history level, AT MOST ONCE (C07_at_most_once): for every history of sends, builds, arrivals of any bytes, time-out sweeps, disconnects "
    "and inbox drains in which the callback is never given to a BEST_EFFORT send, its invocations are bounded by the number of operations "
    "that were given it (potential argument over the four places a callback is held, Lemmas/Once7.lean)",
    "history level, EXACTLY ONCE (C07_conservation, C07_exactly_once, C07_held_until_invoked): with the typed-queue invariant (proved), "
    "fresh datagram numbers at each build (FreshRun: false only with 65535 unresolved datagrams) and no disconnect, holders + invocations "
    "are conserved: a callback given to one accepted unretried/guaranteed send is held by the connection until it is invoked and has been "
    "invoked exactly once when the connection holds it no longer; that every holder is eventually released (the datagram is acked or the "
    "next sweep after the deadline times it out) is C07_timeout_resolves_all_due per sweep and, over a run, the monitor's job",
    "InSync: the peer's newest datagram is within half a ring of the acknowledged one (implied by the connection time-outs)",
    "user callbacks do not re-enter the connection; BEST_EFFORT sends are outside the exactly-once statement (as in the property)",
    "'accepted the whole message' is read at endpoint level (every datagram carrying a part was accepted); a fragmented send can report "
    "True although the receiver later purged an incomplete reassembly context - counted in the evidence and reported under C05",
]
RULE = ("two-party histories with round-trip delays from 0 to 3x the resend interval and beyond the message timeout, partial loss of data and of "
        "ack-carrying datagrams, duplicated and stale ack carriers (replays), all retry modes, single-datagram and fragmented sends, every send "
        "with its own callback id; compared with the model: every callback and resolution event in order, pending acks/callbacks and the "
        "acked/timeouts/assembled counters; non-trivial = the case contains both a True and a False callback")


def post_fn(op, out):
    k = op.split()[0]
    if k in ("recv", "tmo"):
        return connlib.ev_filter(out, ("cb", "res"))
    if k == "dump":
        return connlib.dump_fields(out, ["pa", "pc", "pr", "ro", "fo", "ctr"])
    if k == "send":
        return out
    if k == "build":
        return " ".join(out.split()[:3])
    return None


KNOWN_EXPIRY = "fragmented-true-but-receiver-context-expired"


def monitor(case, log, ctx):
    ot = 1024
    for l in case:
        if l.startswith("set a "):
            for x in l.split():
                if x.startswith("ot="):
                    ot = int(x[3:])
    disc = any(r["op"] == "disc" for r in log)
    sends = {}          # (endpoint, cbid) -> send record
    fired = {}          # (endpoint, cbid) -> [(t, value)]
    delivered = {"a": set(), "b": set()}
    resolved = {}
    emitted = {"a": {}, "b": {}}     # seq -> emission index
    carried = {"a": {}, "b": {}}     # emission index -> message seqs it carried
    got_msgs = {"a": set(), "b": set()}   # message seqs contained in datagrams the endpoint accepted
    idx = [i for i, l in enumerate(case) if l.startswith(("recv ", "tmo ", "send ", "build "))]
    n = -1
    for rec in log:
        if rec["op"] in ("recv", "tmo", "send", "build"):
            n += 1
        at = idx[n] - 1 if 0 <= n < len(idx) else len(case) - 2
        if rec["op"] == "send":
            if rec["cb"] != "-" and rec["res"] == "ok" and rec["status"] == 2:
                sends[(rec["e"], int(rec["cb"]))] = rec
        elif rec["op"] == "build" and rec.get("pkt"):
            emitted[rec["e"]][rec["pkt"]["seq"]] = rec["pkt"]["k"]
            carried[rec["e"]][rec["pkt"]["k"]] = [m[0] for m in rec["pkt"]["msgs"]]
        elif rec["op"] in ("recv", "tmo") and "ev" in rec:
            e = rec["e"]
            peer = "b" if e == "a" else "a"
            if rec["op"] == "recv" and rec.get("ret") == "T" and rec.get("spec", "").startswith("@") and not rec.get("muts"):
                src, kk = rec["spec"][1:].split(":")
                got_msgs[e].update(carried.get(src, {}).get(int(kk), []))
            for ev in rec["ev"]:
                p = ev.split(":")
                if p[0] == "dlv":
                    delivered[e].add(p[2] + ":" + p[3])
                elif p[0] == "res":
                    key = (e, emitted[e].get(int(p[1]), -1))
                    resolved[key] = resolved.get(key, 0) + 1
                    if resolved[key] > 1 and key[1] >= 0:
                        ctx.failure("datagram-resolved-twice", "datagram %s of %s resolved %d times" % (p[1], e, resolved[key]),
                                    {"case": case, "at": at})
                        return
                elif p[0] == "cb":
                    cid, val = int(p[1]), p[2] == "1"
                    snd = sends.get((e, cid))
                    if snd is None:
                        continue
                    fired.setdefault((e, cid), []).append((rec["t"], val))
                    if val:
                        if snd["digest"] not in delivered[peer] and snd["len"] >= 1:
                            if snd["frag"]:
                                # fragments of an unretried send keep their message numbers: the peer endpoint must have accepted a
                                # datagram carrying each of them (then a purged reassembly context is a C05 matter, known finding there)
                                if snd["retry"] == 0:
                                    first, last = snd["mseq_before"], snd["mseq_after"]
                                    cnt = (last - first) % 65535
                                    need = [((first + i) % 65535) + 1 if False else ((first - 1 + i) % 65535) + 1 for i in range(1, cnt + 1)]
                                    missing = [m for m in need if m not in got_msgs[peer]]
                                    if missing:
                                        ctx.failure("true-but-fragment-never-accepted",
                                                    "fragmented send %d of %s reported True but the peer never accepted fragment message(s) %s" %
                                                    (cid, e, missing[:4]), {"case": case, "at": at})
                                        return
                                ctx.count("true-with-purged-reassembly-context(C05)")
                            else:
                                ctx.failure("true-before-peer-accepted", "callback %d of %s reported True but the peer never accepted the message" %
                                            (cid, e), {"case": case, "at": at})
                                return
                    else:
                        if rec["t"] - snd["t"] < ot:
                            ctx.failure("false-before-timeout", "callback %d of %s reported False %d ticks after the send (timeout %d)" %
                                        (cid, e, rec["t"] - snd["t"], ot), {"case": case, "at": at})
                            return
                        if snd["retry"] == -1:
                            ctx.failure("guaranteed-reported-false", "callback %d of a guaranteed send reported False" % cid, {"case": case, "at": at})
                            return
                    if snd["retry"] != 1 and len(fired[(e, cid)]) > 1:
                        ctx.failure("callback-fired-twice", "callback %d of %s (retry=%d, %d bytes) fired %d times: %s" %
                                    (cid, e, snd["retry"], snd["len"], len(fired[(e, cid)]), fired[(e, cid)]), {"case": case, "at": at})
                        return
    # sized sends over a perfect link (cases s*): every callback has fired exactly once by the end, and it said True
    if case[0].split()[1].startswith("s") and not disc:
        for (e, cid), snd in sends.items():
            f = fired.get((e, cid), [])
            if len(f) != 1 or not f[0][1]:
                ctx.failure("callback-never-fired" if not f else "callback-wrong-on-perfect-link",
                            "send %d of %s (%d bytes, retry=%d) over a loss-free link: callback fired %s by the end of the run (%d steps)" %
                            (cid, e, snd["len"], snd["retry"], f or "never", sum(1 for l in case if l.startswith("build a"))),
                            {"case": case, "at": len(case) - 2})
                return
            ctx.count("sized:callback-once-true")
    # after a healed tail with nothing pending every callback of an unretried or guaranteed send has fired exactly once
    if not disc and case[-2].startswith("dump") and case[0].split()[1].startswith("h"):
        final = {}
        for rec in log:
            if rec["op"] == "dump":
                final[rec["e"]] = rec["dump"]
        for (e, cid), snd in sends.items():
            if snd["retry"] == 1:
                continue
            d = final.get(e, "")
            quiet = "pa=[]" in d and "out=[]" in d and "prm=[]" in d
            if quiet and len(fired.get((e, cid), [])) != 1:
                ctx.failure("callback-never-fired", "callback %d of %s (retry=%d, %d bytes) fired %d times although nothing is pending" %
                            (cid, e, snd["retry"], snd["len"], len(fired.get((e, cid), []))), {"case": case, "at": len(case) - 2})
                return
    for v in fired.values():
        ctx.count("cb:" + ("true" if v[0][1] else "false"))


def run(ctx):
    real = connlib.Real()
    rng = ctx.rng
    n = ctx.scale(60, 1200)
    cases = []
    for i in range(n):
        mtu = rng.choice([1500, 1500, 512])
        cases.append(connlib.gen_two_party(
            real, rng, "h%d" % i, mtu=mtu, steps=rng.choice([40, 80]), loss=rng.choice([0.0, 0.2, 0.4]), dup=0.2,
            delay=rng.choice([0.3, 0.8]), max_delay=rng.choice([50, 300, 1200, 2500]), replay=rng.choice([0.0, 0.1]),
            sizes=[8, 9, 20, 100, 700, mtu - 66, mtu - 65, 2500, 4000], retry_modes=(0, 0, 1, -1), send_rate=0.5, heal=True,
            ot=rng.choice([1024, 1024, 512]), ka=rng.choice([96, 32]),
            start={"ss": 65535 - rng.randint(0, 40), "sm": 65500, "sf": 65530} if i % 4 == 0 else None))
    # a retried message overtaken by more newer messages than the receiver's 256-wide window: when its callback says True the peer
    # must have accepted it (the generator is C05's)
    from harness.props import c05 as _c05
    for j, n_other in enumerate(ctx.scale([250, 257, 300], [40, 200, 255, 256, 257, 258, 300, 400, 520])):
        for fault in ("lost", "reorder"):
            cases.append(_c05.gen_overtaken_case(real, rng, "o%d%s" % (j, fault[0]), rng.choice([1500, 512]), n_other, fault))
    # every size around the fragmentation boundaries, each retry mode, over a perfect link: the callback fires exactly once, with True
    # (a message that can never be packed leaves its callback waiting for ever - nothing is "pending" in the sense of the tail rule above)
    for mtu in ctx.scale([1500, 512], [1500, 512, 1098, 1093, 576]):
        mp = mtu - 66
        mf = mp - 6 if mp < 1030 else 1024
        band = [k * mf + t for k in (1, 2, 3) for t in range(mp - 9, mp + 2)] + [mp - 1, mp, mp + 1, mf, mf + 1, 2 * mf, 2 * mf + 1]
        rng.shuffle(band)
        for j in range(0, len(band), 4):
            cases.append(_c05.gen_size_case(real, rng, "s%d_%d" % (mtu, j), mtu, band[j:j + 4], lambda *a: False, lossy=0,
                                            retry=[0, -1, 0, 1][(j // 4) % 4]))
    real2 = connlib.Real()

    def nontrivial(case, outs):
        j = " ".join(outs)
        return ":1" in j and "cb:" in j and any(x.startswith("cb:") and x.endswith(":0") for o in outs for x in o.split("ev=")[-1].split(","))

    logs, bad = connlib.run_cases(ctx, real2, cases, connlib.make_post(post_fn), "Conn(callbacks)", RULE, nontrivial, snapshots=False)
    for c in cases:
        if connlib.reassembly_monitor(c, logs.get(core.case_id(c), []), ctx):
            return
        monitor(c, logs.get(core.case_id(c), []), ctx)
        if ctx.failures:
            return
