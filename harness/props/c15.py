"""C15 - typed JSON round-trip: correspondence of Model/Json.lean with mpgameserver/serializable.py
(toJson / fromJson / dumps / loads, SerializableEnum.toJson / fromJson) + monitor.

A case = one freshly generated family of SerializableEnum / Serializable classes (real classes, real
`typing` generics) described to the Lean driver on `enum` / `class` lines, followed by ops on values
of those classes.  Encoding of types, values and plain data: see lean/Driver/C15.lean.
"""
import json
import math
import struct

from harness import core

PROP = "C15"
LEAN_MODULES = ["MpgsModel.Props.C15"]
MODEL_MODULES = ["MpgsModel.Model.Json", "MpgsModel.Model.JsonDec"]
NS = "Mpgs.Json."
THEOREMS = [
    (NS + "C15_from_to", "full"),
    (NS + "C15_loads_dumps", "full"),
    (NS + "C15_json_plain", "full"),
    (NS + "C15_fromTo_eq", "full"),
    (NS + "C15_loadsDumps_eq", "full"),
    (NS + "C15_parseInt_toDecimal", "full"),
    (NS + "C15_toJson_injective", "full"),
    (NS + "C15_set_dict_conditions", "full"),
    (NS + "C15_tuple_arity_necessary", "full"),
    (NS + "C15_none_object_rejected", "full"),
]
ASSUMPTIONS = [
    "floats are opaque 64-bit tokens in the model: json.dumps/json.loads reproduce every float exactly "
    "(CPython repr round trip; NaN/Infinity literals are accepted by default) - checked on every real output "
    "by the 'dumpsloads' correspondence line, never proved",
    "json.loads(json.dumps(j)) is the identity on plain data except that int dictionary keys become their "
    "decimal text (model: stringifyKeys); CPython's 4300-digit limit on int<->str conversion is outside the model",
    "str is a sequence of Unicode scalar values (no lone surrogates); str.upper() is modelled on ASCII only "
    "(enum member names are ASCII identifiers); int(str) is modelled for ASCII text",
    "the class table (fields in _fields order with annotation and the value cls() gives them; enum members in "
    "dir() order) is read from the live classes and passed to the model as data; field names of a class and "
    "member names of an enum are distinct (they are attribute names)",
    "Serializable instances compare and hash by identity (no __eq__), so set(lst) never merges two instances",
    "a Python set is given to the model as its element list in iteration order",
]
RULE = ("per case 1-2 generated SerializableEnum classes and 1-4 generated Serializable classes whose 1-5 fields "
        "range over int/float/str/bool/enum/nested object and List/Set/Dict/Tuple of these (int, str, enum keys), "
        "several default styles; per class well-typed instances (empty and None containers, boundary/negative/"
        ">2^53 ints, non-ASCII strings, special floats) and ill-typed ones (short/long tuples, None and wrong kinds "
        "in basic/enum/object positions, wrong container kinds, lower-case enum names), each through wt / tojson / "
        "dumpsloads / fromto / loadsdumps; plus hand-built and mutated plain data through fromjson / loads "
        "(missing and unknown keys, null everywhere, numeric strings, colliding keys, short arrays); "
        "non-trivial = at least one error outcome and one successful round trip in the case")

INT_POOL = [0, 1, -1, 2, 7, -128, 255, 2 ** 31 - 1, 2 ** 31, -2 ** 31 - 1, 2 ** 53 - 1, 2 ** 53, 2 ** 53 + 1,
            -(2 ** 53) - 1, 2 ** 63, -2 ** 63 - 1, 2 ** 64, 10 ** 30, -10 ** 30 - 7, 123456789012345678901234567890]
FLOAT_POOL = [0.0, -0.0, 1.0, -1.0, 1.5, -2.25, 0.1, 1e16, 1e22, 1.7976931348623157e308, 5e-324, 2.2250738585072014e-308,
              3.141592653589793, 1 / 3, float("inf"), float("-inf"), 123456789.125, -1e-7]
STR_POOL = ["", "a", "abc", "x y", "é", "日本語", "\U0001F600", "\"q\\", "\n\t", "\x00", "null", "1",
            "-12", "True", "ß", "á", "{}", "[1]", " ", "\x7f", "key", "RED", "red"]
NUMSTR_POOL = ["0", "12", "-7", "+5", " 3", "4\n", "1_000", "007", "", "abc", "1.5", "0x10", "1__0", "_1", "1_", "-",
               "- 1", "1e3", "é", "9007199254740993", "-0", "\t8\r", "\x1f9", "1 2"]
FIELD_NAMES = ["a", "b", "c", "x", "y", "id", "name", "pos", "items", "cfg", "v1", "v2", "Key", "k_1", "value",
               "n", "na", "ab", "data", "été", "ключ", "tags", "kind", "owner", "m"]
MEMBER_NAMES = ["A", "B", "C", "RED", "GREEN", "BLUE", "LEFT", "RIGHT", "UP_1", "X2", "Z_", "NONE", "ON", "OFF"]
BAD_MEMBER_NAMES = ["Left", "red", "a", "Mixed_Case", "up"]


def hx(s):
    b = s.encode("utf-8")
    return b.hex() if b else "-"


def unhx(h):
    return "" if h == "-" else bytes.fromhex(h).decode("utf-8")


def fbits(x):
    return struct.pack(">d", x).hex()


# --------------------------------------------------------------------------- real classes

class Family:
    """the real classes of one case + their description lines"""

    def __init__(self, S):
        self.S = S
        self.enums = {}      # name -> class
        self.classes = {}    # name -> class
        self.ftypes = {}     # class name -> list of (field, ty) ; ty = tuple form
        self.styles = {}     # class name -> {field: 'v' concrete default | 'd' Default sentinel | 'n' None}
        self.order = []      # names in definition order (enums then classes)

    def dispose(self):
        ST = self.S.SerializableType
        for d in (self.enums, self.classes):
            for name, cls in d.items():
                ST.registry.pop(cls.type_id, None)
                ST.names.pop(name, None)
        self.S.SerializableEnumType._enums = {k: v for k, v in self.S.SerializableEnumType._enums.items()
                                              if k not in self.enums}


_uid = [0]


def fresh(prefix):
    _uid[0] += 1
    return "%s%d" % (prefix, _uid[0])


# type forms: ("i",) ("f",) ("s",) ("b",) ("e", name) ("o", name) | ("L", bt) ("Z", bt) ("D", kt, vt) ("T", [bt...])

def bty_tok(bt):
    return bt[0] if bt[0] in "ifsb" else bt[0] + hx(bt[1])


def ty_toks(ty):
    k = ty[0]
    if k == "L" or k == "Z":
        return [k, bty_tok(ty[1])]
    if k == "D":
        return ["D", bty_tok(ty[1]), bty_tok(ty[2])]
    if k == "T":
        return ["T", str(len(ty[1]))] + [bty_tok(b) for b in ty[1]]
    return [bty_tok(ty)]


def py_bty(fam, bt):
    k = bt[0]
    if (k == "e" and bt[1] not in fam.enums) or (k == "o" and bt[1] not in fam.classes):
        raise MissingTable(bt[1])
    if k == "i":
        return int
    if k == "f":
        return float
    if k == "s":
        return str
    if k == "b":
        return bool
    if k == "e":
        return fam.enums[bt[1]]
    return fam.classes[bt[1]]


def py_ty(fam, ty):
    from typing import List, Set, Dict, Tuple
    k = ty[0]
    if k == "L":
        return List[py_bty(fam, ty[1])]
    if k == "Z":
        return Set[py_bty(fam, ty[1])]
    if k == "D":
        return Dict[py_bty(fam, ty[1]), py_bty(fam, ty[2])]
    if k == "T":
        return Tuple[tuple(py_bty(fam, b) for b in ty[1])]
    return py_bty(fam, ty)


def make_enum(fam, name, members):
    ns = {"__module__": "verif_c15"}
    ns.update(members)
    cls = type(name, (fam.S.SerializableEnum,), ns)
    fam.enums[name] = cls
    fam.order.append(("enum", name))
    return cls


def make_class(fam, name, fields, defaults):
    """fields: list of (fname, ty); defaults: dict fname -> python default object"""
    fam.styles[name] = {f: ("d" if defaults[f] is fam.S.Default else "n" if defaults[f] is None else "v")
                        for f, _ in fields}
    ns = {"__module__": "verif_c15", "__annotations__": {f: py_ty(fam, ty) for f, ty in fields}}
    for f, _ in fields:
        ns[f] = defaults[f]
    cls = type(name, (fam.S.Serializable,), ns)
    fam.classes[name] = cls
    assert tuple(cls._fields) == tuple(f for f, _ in fields), (cls._fields, fields)
    fam.ftypes[name] = list(fields)
    fam.order.append(("class", name))
    return cls


def enum_members(cls):
    """(name, raw value) in dir() order = the order the metaclass filled _value2name/_name2value"""
    return [(n, cls._name2value[n]) for n in dir(cls) if n in cls._name2value]


def raw_tok(v):
    """raw value of an enum member: decimal int (what the model covers) or s<hex> for a str value
    (monitor-only stream: never sent to the Lean driver)"""
    if type(v) is int:
        return str(v)
    if type(v) is str:
        return "s" + hx(v)
    raise NotEncodable("enum value %r" % (v,))


def raw_untok(t):
    return unhx(t[1:]) if t[0] == "s" else int(t)


def table_lines(fam):
    lines = []
    for kind, name in fam.order:
        if kind == "enum":
            ms = enum_members(fam.enums[name])
            toks = ["enum", hx(name), str(len(ms))]
            for n, v in ms:
                toks += [hx(n), raw_tok(v)]
            lines.append(" ".join(toks))
        else:
            cls = fam.classes[name]
            inst = cls()
            toks = ["class", hx(name), str(len(fam.ftypes[name]))]
            for f, ty in fam.ftypes[name]:
                toks += [hx(f), fam.styles[name][f]] + ty_toks(ty) + enc_val(fam, getattr(inst, f), False)
            lines.append(" ".join(toks))
    return lines


# --------------------------------------------------------------------------- encoders / decoders

class NotEncodable(Exception):
    pass


class MissingTable(Exception):
    """an op names a class / enum the case does not define (only happens while a failing case is
    being minimised): the candidate is not a case"""


def enc_atom(v):
    if v is None:
        return "N"
    if v is True:
        return "B1"
    if v is False:
        return "B0"
    if type(v) is int:
        return "I%d" % v
    if type(v) is float:
        return "F" + fbits(v)
    if type(v) is str:
        return "S" + hx(v)
    raise NotEncodable(type(v).__name__)


def enc_val(fam, v, canon):
    """token list of a Python value; canon=True sorts set elements (output form), False keeps the
    iteration order (input form: the model's set is the element list in iteration order)"""
    S = fam.S
    if isinstance(v, S.SerializableEnum):
        return ["E%s:%s" % (hx(type(v).__name__), raw_tok(v.value))]
    if isinstance(v, S.Serializable):
        out = ["O" + hx(type(v).__name__), str(len(v._fields))]
        for f in v._fields:
            out += enc_val(fam, getattr(v, f), canon)
        return out
    if type(v) is list or type(v) is tuple:
        out = ["L" if type(v) is list else "T", str(len(v))]
        for e in v:
            out += enc_val(fam, e, canon)
        return out
    if type(v) is set:
        els = [" ".join(enc_val(fam, e, canon)) for e in v]
        if canon:
            els.sort()
        return ["Z", str(len(els))] + els
    if type(v) is dict:
        out = ["D", str(len(v))]
        for k, e in v.items():
            out += enc_val(fam, k, canon) + enc_val(fam, e, canon)
        return out
    return [enc_atom(v)]


def enc_json(j):
    if type(j) is list:
        out = ["A", str(len(j))]
        for e in j:
            out += enc_json(e)
        return out
    if type(j) is dict:
        out = ["M", str(len(j))]
        for k, e in j.items():
            out += [enc_atom(k)] + enc_json(e)
        return out
    return [enc_atom(j)]


def dec_atom(t):
    c = t[0]
    if t == "N":
        return None
    if t == "B0":
        return False
    if t == "B1":
        return True
    if c == "I":
        return int(t[1:])
    if c == "F":
        return struct.unpack(">d", bytes.fromhex(t[1:]))[0]
    if c == "S":
        return unhx(t[1:])
    raise ValueError("atom " + t)


def dec_val(fam, toks, i):
    t = toks[i]
    if t in ("L", "Z", "T"):
        n = int(toks[i + 1])
        i += 2
        xs = []
        for _ in range(n):
            x, i = dec_val(fam, toks, i)
            xs.append(x)
        return (xs if t == "L" else set(xs) if t == "Z" else tuple(xs)), i
    if t == "D":
        n = int(toks[i + 1])
        i += 2
        d = {}
        for _ in range(n):
            k, i = dec_val(fam, toks, i)
            v, i = dec_val(fam, toks, i)
            d[k] = v
        return d, i
    if t[0] == "O":
        if unhx(t[1:]) not in fam.classes:
            raise MissingTable(t)
        cls = fam.classes[unhx(t[1:])]
        n = int(toks[i + 1])
        i += 2
        inst = cls()
        assert n == len(cls._fields)
        for f in cls._fields:
            x, i = dec_val(fam, toks, i)
            setattr(inst, f, x)
        return inst, i
    if t[0] == "E":
        h, d = t[1:].split(":")
        if unhx(h) not in fam.enums:
            raise MissingTable(t)
        return fam.enums[unhx(h)](raw_untok(d)), i + 1
    return dec_atom(t), i + 1


def dec_json(toks, i):
    t = toks[i]
    if t == "A":
        n = int(toks[i + 1])
        i += 2
        xs = []
        for _ in range(n):
            x, i = dec_json(toks, i)
            xs.append(x)
        return xs, i
    if t == "M":
        n = int(toks[i + 1])
        i += 2
        d = {}
        for _ in range(n):
            k = dec_atom(toks[i])
            v, i = dec_json(toks, i + 1)
            d[k] = v
        return d, i
    return dec_atom(t), i + 1


# --------------------------------------------------------------------------- WellTyped, independently in Python

def table_ok(fam):
    for cls in fam.enums.values():
        for n in cls._name2value:
            if n.upper() != n:
                return False
    for name, fields in fam.ftypes.items():
        for _, ty in fields:
            if ty[0] == "D" and ty[1][0] not in "ise":
                return False
    return True


def has_bty(fam, v, bt):
    k = bt[0]
    if k == "i":
        return type(v) is int
    if k == "f":
        return type(v) is float
    if k == "s":
        return type(v) is str
    if k == "b":
        return type(v) is bool
    if k == "e":
        E = fam.enums[bt[1]]
        return type(v) is E and v.value in E._value2name
    C = fam.classes[bt[1]]
    if type(v) is not C:
        return False
    return all(has_ty(fam, getattr(v, f), ty) for f, ty in fam.ftypes[bt[1]])


def has_ty(fam, v, ty):
    k = ty[0]
    if k in "LZDT" and v is None:
        return True
    if k == "L":
        return type(v) is list and all(has_bty(fam, e, ty[1]) for e in v)
    if k == "Z":
        return type(v) is set and all(has_bty(fam, e, ty[1]) for e in v)
    if k == "D":
        return type(v) is dict and all(has_bty(fam, a, ty[1]) and has_bty(fam, b, ty[2]) for a, b in v.items())
    if k == "T":
        return type(v) is tuple and len(v) == len(ty[1]) and all(has_bty(fam, e, b) for e, b in zip(v, ty[1]))
    return has_bty(fam, v, ty)


def well_typed(fam, cname, v):
    return table_ok(fam) and has_bty(fam, v, ("o", cname))


# --------------------------------------------------------------------------- field-for-field comparison

def same(fam, a, b):
    S = fam.S
    if type(a) is not type(b):
        return False
    if isinstance(a, S.Serializable):
        return all(same(fam, getattr(a, f), getattr(b, f)) for f in a._fields)
    if isinstance(a, S.SerializableEnum):
        return a.value == b.value
    if type(a) is float:
        return a == b or (a != a and b != b)
    if type(a) in (list, tuple):
        return len(a) == len(b) and all(same(fam, x, y) for x, y in zip(a, b))
    if type(a) is set:
        if len(a) != len(b):
            return False
        rest = list(b)
        for x in a:
            for k, y in enumerate(rest):
                if same(fam, x, y):
                    del rest[k]
                    break
            else:
                return False
        return True
    if type(a) is dict:
        if len(a) != len(b):
            return False
        for k, v in a.items():
            if k not in b or not same(fam, v, b[k]):
                return False
        return True
    return a == b


def is_plain(j, top=True):
    if type(j) is dict:
        return all(type(k) in (str, int) and is_plain(v, False) for k, v in j.items())
    if top:
        return False
    if type(j) is list:
        return all(is_plain(v, False) for v in j)
    return j is None or type(j) in (bool, int, float, str)


# --------------------------------------------------------------------------- generators

def gen_bty(rng, fam, allow_obj=True):
    r = rng.random()
    if r < 0.2:
        return ("i",)
    if r < 0.3:
        return ("f",)
    if r < 0.45:
        return ("s",)
    if r < 0.55:
        return ("b",)
    if r < 0.75 and fam.enums:
        return ("e", rng.choice(list(fam.enums)))
    if allow_obj and fam.classes:
        return ("o", rng.choice(list(fam.classes)))
    return rng.choice([("i",), ("s",)])


def gen_kty(rng, fam):
    r = rng.random()
    if r < 0.4:
        return ("i",)
    if r < 0.7 or not fam.enums:
        return ("s",)
    return ("e", rng.choice(list(fam.enums)))


def gen_ty(rng, fam):
    r = rng.random()
    if r < 0.3:
        return gen_bty(rng, fam)
    if r < 0.48:
        return ("L", gen_bty(rng, fam))
    if r < 0.62:
        return ("Z", gen_bty(rng, fam))
    if r < 0.82:
        return ("D", gen_kty(rng, fam), gen_bty(rng, fam))
    return ("T", [gen_bty(rng, fam) for _ in range(rng.choice([1, 2, 2, 3, 4]))])


def gen_int(rng):
    r = rng.random()
    if r < 0.45:
        return rng.choice(INT_POOL)
    if r < 0.8:
        return rng.randint(-1000, 1000)
    return rng.randint(-2 ** 70, 2 ** 70)


def gen_float(rng, allow_nan=True):
    r = rng.random()
    if r < 0.6:
        return rng.choice(FLOAT_POOL)
    if r < 0.65 and allow_nan:
        return float("nan")
    return struct.unpack(">d", struct.pack(">d", rng.uniform(-1e6, 1e6)))[0]


def gen_str(rng):
    r = rng.random()
    if r < 0.6:
        return rng.choice(STR_POOL)
    return "".join(rng.choice(STR_POOL + ["b", "c", "Z", "0", "_"]) for _ in range(rng.randint(1, 3)))


def stable_set(items):
    """a set whose iteration order is reproduced when it is rebuilt from that order"""
    order = list(set(items))
    for _ in range(6):
        o2 = list(set(order))
        if o2 == order:
            return set(order)
        order = o2
    return set(order[:1])


def gen_bval(rng, fam, bt, depth, in_set=False):
    k = bt[0]
    if k == "i":
        return gen_int(rng)
    if k == "f":
        return gen_float(rng, allow_nan=not in_set)
    if k == "s":
        return gen_str(rng)
    if k == "b":
        return rng.random() < 0.5
    if k == "e":
        E = fam.enums[bt[1]]
        return getattr(E, rng.choice(list(E._name2value)))
    return gen_obj(rng, fam, bt[1], depth + 1)


def gen_tval(rng, fam, ty, depth):
    k = ty[0]
    if k in "LZDT" and rng.random() < 0.12:
        return None
    n = rng.choice([0, 0, 1, 1, 2, 3, 4]) if depth < 3 else rng.choice([0, 1])
    if k == "L":
        return [gen_bval(rng, fam, ty[1], depth) for _ in range(n)]
    if k == "Z":
        els = [gen_bval(rng, fam, ty[1], depth, in_set=True) for _ in range(n)]
        if ty[1][0] == "o":
            return set(els)
        return stable_set(els)
    if k == "D":
        d = {}
        for _ in range(n):
            d[gen_bval(rng, fam, ty[1], depth)] = gen_bval(rng, fam, ty[2], depth)
        return d
    if k == "T":
        return tuple(gen_bval(rng, fam, b, depth) for b in ty[1])
    return gen_bval(rng, fam, ty, depth)


def gen_obj(rng, fam, cname, depth=0):
    cls = fam.classes[cname]
    vals = {f: gen_tval(rng, fam, ty, depth) for f, ty in fam.ftypes[cname]}
    if rng.random() < 0.5:
        return cls(**vals)
    inst = cls()
    for f, v in vals.items():
        setattr(inst, f, v)
    return inst


def wrong_atom(rng, bt):
    """an atom of the wrong kind for a basic position, restricted to what the model covers"""
    k = bt[0]
    if k == "i":
        return rng.choice([None, True, False, rng.choice(NUMSTR_POOL)])
    if k == "f":
        return rng.choice([None, True, False])
    if k == "s":
        return rng.choice([None, True, 5, -3])
    if k == "b":
        return rng.choice([None, 0, 3, "", "x", 0.0, 2.5])
    return None


def spoil(rng, fam, cname, inst):
    """make one field of a well-typed instance ill-typed (inside the modelled domain)"""
    fields = fam.ftypes[cname]
    f, ty = rng.choice(fields)
    k = ty[0]
    cur = getattr(inst, f)
    elts = ty[1] if k == "T" else [ty[1]] if k in "LZ" else []
    if k in "LZT" and rng.random() < 0.12 and all(b[0] != "f" for b in elts):   # float(str) is not modelled
        # a str is Iterable / indexable: silently taken apart into characters
        setattr(inst, f, rng.choice(["", "a", "ab", "x7yz", "é1", "AB", "RED", "10"]))
        return
    if k == "T":
        r = rng.random()
        if r < 0.35:
            new = tuple(cur[:rng.randint(0, max(0, len(ty[1]) - 1))]) if cur is not None else ()
        elif r < 0.5 and cur is not None:
            new = tuple(cur) + (rng.choice([1, "z", None]),)
        elif r < 0.65 and cur is not None:
            new = list(cur)
        elif r < 0.8:
            new = rng.choice([5, True, 1.5])
        else:
            new = tuple(wrong_atom(rng, b) if b[0] in "ifsb" else None for b in ty[1])
    elif k == "L":
        r = rng.random()
        if r < 0.3 and cur is not None:
            new = tuple(cur)
        elif r < 0.5:
            new = rng.choice([0, False, 2.5])
        else:
            new = list(cur or []) + [wrong_atom(rng, ty[1]) if ty[1][0] in "ifsb" else None]
    elif k == "Z":
        r = rng.random()
        if r < 0.4 and cur is not None and ty[1][0] != "o":
            new = list(cur)
        elif r < 0.6:
            new = rng.choice([0, True, 2.5])
        else:
            new = [wrong_atom(rng, ty[1]) if ty[1][0] in "ifsb" else None]
    elif k == "D":
        r = rng.random()
        if r < 0.3:
            new = rng.choice([3, [], (1,), 1.5, "s"]) if False else rng.choice([3, 1.5, True])
        elif r < 0.5:
            new = [] if rng.random() < 0.5 else ()
        else:
            new = dict(cur or {})
            kk = gen_bval(rng, fam, ty[1], 3)
            new[kk] = wrong_atom(rng, ty[2]) if ty[2][0] in "ifsb" else None
    elif k in "ifsb":
        new = wrong_atom(rng, ty)
    elif k == "e":
        E = fam.enums[ty[1]]
        vals = list(E._value2name)
        new = rng.choice([None, rng.choice(vals), 424242, "RED", True, [1], {1: 2}, set()])
    else:
        # an instance of another class is accepted by toJson (dynamic dispatch); fromJson then reads its
        # dict at the target's annotations. A dict under a Tuple annotation is outside the model.
        # Only classes with no field name in common are used: then every key is unknown to the target
        # and fromJson leaves the defaults (shared names would feed e.g. a list into str(): repr, not modelled).
        mine = {f for f, _ in fam.ftypes[ty[1]]}
        others = [c for c in fam.classes if c != ty[1] and not (mine & {f for f, _ in fam.ftypes[c]})]
        r = rng.random()
        if r < 0.4:
            new = None
        elif r < 0.6 and fam.enums:
            E = fam.enums[rng.choice(list(fam.enums))]
            new = getattr(E, rng.choice(list(E._name2value)))
        elif r < 0.8 and others:
            new = gen_obj(rng, fam, rng.choice(others), 3)
        else:
            new = rng.choice([1, "s", [1], (1,)])
    setattr(inst, f, new)


# plain data for fromJson, generated from the types (not from toJson)

def gen_jb(rng, fam, bt, depth, noise, in_set=False):
    k = bt[0]
    if k == "f" and in_set:
        return gen_float(rng, allow_nan=False)    # NaN in a set: identity vs equality, excluded
    if noise and rng.random() < noise:
        if k == "i":
            return rng.choice([None, True, rng.choice(NUMSTR_POOL), [], {}, [1], gen_int(rng)])
        if k == "f":
            return rng.choice([None, False, True, [], {}, gen_float(rng)])
        if k == "s":
            return rng.choice([None, True, False, 12, -5, 2 ** 70, "x"])
        if k == "b":
            return rng.choice([None, 0, 1, -4, 0.0, -0.0, 2.5, "", "no", [], [0], {}, {"a": 1}])
        if k == "e":
            E = fam.enums[bt[1]]
            nm = rng.choice(list(E._name2value))
            return rng.choice([None, 1, [], {}, nm.lower(), nm.capitalize(), "NOPE", "", True, 1.5])
        fields = [f for f, _ in fam.ftypes[bt[1]]]
        pick = rng.choice(fields) if fields else "q"
        return rng.choice([None, 3, True, 1.5, [], [pick], ["zz", 1], pick, "zz" + pick + "q", "", "#", [None]])
    if k == "i":
        return gen_int(rng)
    if k == "f":
        return gen_float(rng)
    if k == "s":
        return gen_str(rng)
    if k == "b":
        return rng.random() < 0.5
    if k == "e":
        E = fam.enums[bt[1]]
        nm = rng.choice(list(E._name2value))
        return nm if rng.random() < 0.8 else nm.lower()
    return gen_jobj(rng, fam, bt[1], depth + 1, noise)


def gen_jkey(rng, fam, kt, noise):
    k = kt[0]
    if k == "i":
        if noise and rng.random() < noise:
            return rng.choice([rng.choice(NUMSTR_POOL), None, True, False, "1", "01", 1, "+1", " 1"])
        n = gen_int(rng)
        return n if rng.random() < 0.5 else str(n)
    if k == "s":
        if noise and rng.random() < noise:
            return rng.choice([None, True, 5, -12, "5"])
        return gen_str(rng)
    E = fam.enums[kt[1]]
    nm = rng.choice(list(E._name2value))
    if noise and rng.random() < noise:
        return rng.choice([nm.lower(), nm.capitalize(), "NOPE", 1, None, True])
    return nm


def gen_jt(rng, fam, ty, depth, noise):
    k = ty[0]
    if k in "LZDT":
        r = rng.random()
        if r < 0.1:
            return None
        if noise and r < 0.1 + noise / 2:
            return rng.choice([3, True, 2.5, -1]) if k != "D" else rng.choice([3, True, 2.5, [], [1], "s", ""])
    n = rng.choice([0, 1, 1, 2, 3]) if depth < 3 else rng.choice([0, 1])
    if k in "LZ":
        xs = [gen_jb(rng, fam, ty[1], depth, noise, in_set=(k == "Z")) for _ in range(n)]
        if k == "Z" and xs and rng.random() < 0.4:
            xs.append(rng.choice(xs))       # duplicates collapse in set(lst)
        return xs
    if k == "D":
        d = {}
        for _ in range(n):
            d[gen_jkey(rng, fam, ty[1], noise)] = gen_jb(rng, fam, ty[2], depth, noise)
        return d
    if k == "T":
        xs = [gen_jb(rng, fam, b, depth, noise) for b in ty[1]]
        if noise and rng.random() < noise:
            xs = xs[:rng.randint(0, len(xs))] if rng.random() < 0.6 else xs + [rng.choice([1, None, "e"])]
        return xs
    return gen_jb(rng, fam, ty, depth, noise)


def gen_jobj(rng, fam, cname, depth=0, noise=0.0):
    d = {}
    fields = list(fam.ftypes[cname])
    if noise and rng.random() < noise:
        rng.shuffle(fields)
    for f, ty in fields:
        if noise and rng.random() < noise / 2:
            continue                          # missing key: default stays
        d[f] = gen_jt(rng, fam, ty, depth, noise)
    if noise and rng.random() < noise:
        d[rng.choice(["zz", "", "extra", 7, None])] = rng.choice([1, None, [1], {"a": 2}])
    return d


def gen_family(rng, S, bad_enum=False, str_enums=False):
    """str_enums: some enums get str raw values (outside the model: monitor-only stream)"""
    fam = Family(S)
    for _ in range(rng.choice([1, 1, 2])):
        names = rng.sample(MEMBER_NAMES, rng.randint(1, 4))
        if bad_enum:
            names[rng.randrange(len(names))] = rng.choice(BAD_MEMBER_NAMES)
            if rng.random() < 0.5:
                low = [n for n in names if n.upper() != n][0]
                if low.upper() not in names:
                    names.append(low.upper())   # 'red' and 'RED' together: fromJson picks the wrong member
        members = {}
        pool = rng.sample([0, 1, 2, 3, 5, -1, 10, 255, 2 ** 40, -7], len(names))
        if str_enums and rng.random() < 0.5:
            pool = rng.sample(["red", "GREEN", "a b", "é", "", "1", "None", "x" * 40, "left", "\n"], len(names))
        for i, n in enumerate(names):
            members[n] = pool[i] if rng.random() < 0.85 else pool[0]   # sometimes an alias
        make_enum(fam, fresh("E"), members)
    Default = S.Default
    for _ in range(rng.choice([1, 2, 2, 3, 4])):
        nf = rng.choice([0, 1, 2, 2, 3, 3, 4, 5]) if fam.classes else rng.choice([1, 2, 3])
        fnames = rng.sample(FIELD_NAMES, nf)
        fields = [(f, gen_ty(rng, fam)) for f in fnames]
        defaults = {}
        for f, ty in fields:
            k = ty[0]
            if k in "LZDT":
                defaults[f] = rng.choice([None, Default, None])
            elif k == "e":
                E = fam.enums[ty[1]]
                defaults[f] = getattr(E, rng.choice(list(E._name2value)))
            elif k == "o":
                defaults[f] = Default if rng.random() < 0.5 else fam.classes[ty[1]]()
            elif rng.random() < 0.4:
                defaults[f] = Default
            else:
                defaults[f] = gen_bval(rng, fam, ty, 0, in_set=True)
        make_class(fam, fresh("C"), fields, defaults)
    return fam


def has_multi_objset(fam, v):
    S = fam.S
    if isinstance(v, S.Serializable):
        return any(has_multi_objset(fam, getattr(v, f)) for f in v._fields)
    if type(v) is set:
        return (len(v) > 1 and any(isinstance(e, S.Serializable) for e in v)) or any(has_multi_objset(fam, e) for e in v)
    if type(v) in (list, tuple):
        return any(has_multi_objset(fam, e) for e in v)
    if type(v) is dict:
        return any(has_multi_objset(fam, e) for e in v.values())
    return False


def value_ops(fam, cname, inst):
    toks = " ".join(enc_val(fam, inst, False))
    ops = ["wt %s %s" % (hx(cname), toks)]
    if not has_multi_objset(fam, inst):
        # the array order of a multi-element set of objects depends on object addresses
        ops += ["tojson " + toks, "dumpsloads " + toks]
    ops += ["fromto %s %s" % (hx(cname), toks), "loadsdumps %s %s" % (hx(cname), toks)]
    return ops


def gen_case(rng, S, cid):
    bad_enum = rng.random() < 0.12
    fam = gen_family(rng, S, bad_enum)
    try:
        lines = ["case %s" % cid] + table_lines(fam)
        cnames = list(fam.classes)
        for _ in range(rng.randint(2, 5)):
            cname = rng.choice(cnames)
            inst = gen_obj(rng, fam, cname)
            if rng.random() < 0.3 and fam.ftypes[cname]:
                spoil(rng, fam, cname, inst)
            try:
                lines += value_ops(fam, cname, inst)
            except NotEncodable:
                continue
        for _ in range(rng.randint(1, 4)):
            cname = rng.choice(cnames)
            noise = rng.choice([0.0, 0.15, 0.3, 0.5])
            if rng.random() < 0.1:
                data = rng.choice([None, 3, True, 1.5, [], "", "x", [rng.choice(FIELD_NAMES)], rng.choice(FIELD_NAMES)])
            else:
                data = gen_jobj(rng, fam, cname, 0, noise)
            toks = " ".join(enc_json(data))
            lines.append("fromjson %s %s" % (hx(cname), toks))
            lines.append("loads %s %s" % (hx(cname), toks))
        lines.append("end")
        return lines
    finally:
        fam.dispose()


# --------------------------------------------------------------------------- real-code driver

def rebuild_family(S, case):
    """re-create the real classes of a case from its enum/class lines"""
    fam = Family(S)
    try:
        _rebuild(fam, S, case)
    except BaseException:
        fam.dispose()       # leave the library's class registry as it was
        raise
    return fam


def _rebuild(fam, S, case):
    for line in case[1:]:
        w = line.split()
        if not w:
            continue
        if w[0] == "enum":
            name = unhx(w[1])
            n = int(w[2])
            members = {unhx(w[3 + 2 * i]): raw_untok(w[4 + 2 * i]) for i in range(n)}
            make_enum(fam, name, members)
        elif w[0] == "class":
            name = unhx(w[1])
            n = int(w[2])
            i = 3
            fields, dtoks, styles = [], {}, {}
            for _ in range(n):
                f = unhx(w[i])
                styles[f] = w[i + 1]
                ty, i = parse_ty(w, i + 2)
                j = skip_val(w, i)
                fields.append((f, ty))
                dtoks[f] = w[i:j]
                i = j
            defaults = {}
            for f, ty in fields:
                if styles[f] == "d":
                    defaults[f] = S.Default
                elif styles[f] == "n":
                    defaults[f] = None
                else:
                    defaults[f] = dec_val(fam, dtoks[f], 0)[0]
            make_class(fam, name, fields, defaults)


def parse_bty(t):
    if t in ("i", "f", "s", "b"):
        return (t,)
    return (t[0], unhx(t[1:]))


def parse_ty(w, i):
    t = w[i]
    if t in ("L", "Z"):
        return (t, parse_bty(w[i + 1])), i + 2
    if t == "D":
        return ("D", parse_bty(w[i + 1]), parse_bty(w[i + 2])), i + 3
    if t == "T":
        n = int(w[i + 1])
        return ("T", [parse_bty(x) for x in w[i + 2:i + 2 + n]]), i + 2 + n
    return parse_bty(t), i + 1


def skip_val(w, i):
    t = w[i]
    if t in ("L", "Z", "T"):
        n = int(w[i + 1])
        i += 2
        for _ in range(n):
            i = skip_val(w, i)
        return i
    if t == "D":
        n = int(w[i + 1])
        i += 2
        for _ in range(2 * n):
            i = skip_val(w, i)
        return i
    if t[0] == "O":
        n = int(w[i + 1])
        i += 2
        for _ in range(n):
            i = skip_val(w, i)
        return i
    return i + 1


def errname(e):
    return "err:" + type(e).__name__


class Impl:
    def __init__(self):
        core.use_repo()
        import mpgameserver.serializable as S
        self.S = S

    def run_case(self, case):
        fam = rebuild_family(self.S, case)
        try:
            return self._run(fam, case)
        finally:
            fam.dispose()

    def _run(self, fam, case):
        out = []
        for line in case[1:]:
            w = line.split()
            if not w or w[0] in ("enum", "class", "end"):
                continue
            op = w[0]
            if op in ("wt", "fromto", "loadsdumps", "fromjson", "loads") and unhx(w[1]) not in fam.classes:
                raise MissingTable(line[:60])
            try:
                if op == "wt":
                    x, _ = dec_val(fam, w, 2)
                    out.append("wt " + ("true" if well_typed(fam, unhx(w[1]), x) else "false"))
                elif op == "tojson":
                    x, _ = dec_val(fam, w, 1)
                    out.append("ok " + " ".join(enc_json(x.toJson())))
                elif op == "dumpsloads":
                    x, _ = dec_val(fam, w, 1)
                    out.append("ok " + " ".join(enc_json(json.loads(x.dumps()))))
                elif op == "fromto":
                    x, _ = dec_val(fam, w, 2)
                    y = fam.classes[unhx(w[1])].fromJson(x.toJson())
                    out.append("ok " + " ".join(enc_val(fam, y, True)))
                elif op == "loadsdumps":
                    x, _ = dec_val(fam, w, 2)
                    y = fam.classes[unhx(w[1])].loads(x.dumps())
                    out.append("ok " + " ".join(enc_val(fam, y, True)))
                elif op == "fromjson":
                    j, _ = dec_json(w, 2)
                    y = fam.classes[unhx(w[1])].fromJson(j)
                    out.append("ok " + " ".join(enc_val(fam, y, True)))
                elif op == "loads":
                    j, _ = dec_json(w, 2)
                    y = fam.classes[unhx(w[1])].loads(json.dumps(j))
                    out.append("ok " + " ".join(enc_val(fam, y, True)))
                else:
                    out.append("bad-op")
            except NotEncodable as e:
                out.append("not-encodable:%s" % e)
            except MissingTable:
                raise
            except Exception as e:
                out.append(errname(e))
        return out


def monitor(impl, case, ctx):
    """the property itself on the real code: for every well-typed instance, fromJson(toJson(x)) and
    loads(dumps(x)) reproduce x field for field and toJson is plain data json.dumps accepts"""
    fam = rebuild_family(impl.S, case)
    try:
        for idx, line in enumerate(case[1:]):
            w = line.split()
            if not w or w[0] != "wt":
                continue
            cname = unhx(w[1])
            x, _ = dec_val(fam, w, 2)
            if not well_typed(fam, cname, x):
                ctx.count("monitor:skipped-ill-typed")
                continue
            ctx.count("monitor:well-typed")
            cls = fam.classes[cname]
            rep = {"case": case, "at": idx, "class": cname}
            try:
                j = x.toJson()
            except Exception as e:
                ctx.failure("tojson-raises", "toJson of a well-typed %s raised %r" % (cname, e), rep)
                return
            if not is_plain(j):
                ctx.failure("tojson-not-plain", "toJson output is not plain data: %r" % (j,), rep)
                return
            try:
                text = json.dumps(j)
            except Exception as e:
                ctx.failure("dumps-rejects", "json.dumps rejected toJson output: %r" % (e,), rep)
                return
            try:
                y = cls.fromJson(j)
            except Exception as e:
                ctx.failure("fromjson-raises", "fromJson(toJson(x)) raised %r" % (e,), rep)
                return
            if not same(fam, x, y):
                ctx.failure("fromto-differs", "fromJson(toJson(x)) = %r differs from x = %r" % (y, x), rep)
                return
            try:
                z = cls.loads(x.dumps())
            except Exception as e:
                ctx.failure("loads-raises", "loads(dumps(x)) raised %r" % (e,), rep)
                return
            if not same(fam, x, z):
                ctx.failure("loadsdumps-differs", "loads(dumps(x)) = %r differs from x = %r (text %s)" % (z, x, text[:200]), rep)
                return
    finally:
        fam.dispose()


# hand-written boundary cases (always run first)

def fixed_cases(S):
    cases = []
    fam = Family(S)
    try:
        make_enum(fam, fresh("E"), {"LEFT": 1, "RIGHT": 2, "BOTH": 2})
        en = list(fam.enums)[0]
        E = fam.enums[en]
        make_class(fam, fresh("C"), [("n", ("i",)), ("s", ("s",))], {"n": 0, "s": S.Default})
        inner = list(fam.classes)[0]
        fields = [("pos", ("T", [("i",), ("s",)])), ("facing", ("e", en)), ("m", ("D", ("i",), ("o", inner))),
                  ("em", ("D", ("e", en), ("f",))), ("sm", ("D", ("s",), ("b",))), ("st", ("Z", ("e", en))),
                  ("zi", ("Z", ("i",))), ("ol", ("L", ("o", inner))), ("inner", ("o", inner)),
                  ("tt", ("T", [("o", inner), ("e", en), ("f",), ("b",)]))]
        make_class(fam, fresh("C"), fields, {"pos": None, "facing": E.LEFT, "m": None, "em": S.Default, "sm": None,
                                             "st": None, "zi": None, "ol": None, "inner": S.Default, "tt": None})
        outer = list(fam.classes)[1]
        C, I = fam.classes[outer], fam.classes[inner]
        lines = ["case fixed0"] + table_lines(fam)
        insts = [C()]     # default-constructed: tuples are () - short, outside WellTyped
        full = C(pos=(2 ** 53 + 1, "é"), facing=E.RIGHT, m={-5: I(n=7, s="x"), 2 ** 64: I()},
                 em={E.LEFT: -0.0, E.BOTH: float("inf")}, sm={"": True, "1": False}, st=stable_set([E.LEFT, E.RIGHT]),
                 zi=stable_set([0, -1, 2 ** 60]), ol=[I(n=-1), I(s="\U0001F600")], inner=I(n=1),
                 tt=(I(), E.BOTH, 5e-324, True))
        insts.append(full)
        nones = C(pos=None, facing=E.LEFT, m=None, em=None, sm=None, st=None, zi=None, ol=None, inner=I(), tt=None)
        insts.append(nones)
        empties = C(pos=(0, ""), m={}, em={}, sm={}, st=set(), zi=set(), ol=[], tt=(I(), E.LEFT, 0.0, False))
        insts.append(empties)
        bad1 = C(pos=(1,), tt=(I(), E.LEFT, 0.0, False))           # short tuple
        bad2 = C(pos=(1, "a"), tt=(I(), E.LEFT, 0.0, False))
        bad2.inner = None                                             # None nested object
        bad3 = C(pos=(1, "a"), tt=(I(), E.LEFT, 0.0, False))
        bad3.pos = (1, "a", 3)                                        # long tuple
        insts += [bad1, bad2, bad3]
        for inst in insts:
            lines += value_ops(fam, outer, inst)
        for data in [{}, {"pos": [1]}, {"pos": []}, {"pos": [1, "a", 2]}, {"m": {"1": {"n": "12"}, "01": None, 1: {}}},
                     {"em": {"left": 1.5, "LEFT": 2.5, "Both": 0.0}}, {"st": ["LEFT", "left", "BOTH", "RIGHT"]},
                     {"zi": [1, "1", True, " 1 "]}, {"facing": "both"}, {"facing": "NOPE"}, {"facing": 1},
                     {"inner": None}, {"inner": []}, {"inner": "xnx"}, {"inner": 5}, {"inner": ["n"]},
                     {"ol": [None, {}, {"n": True}]}, {"sm": {"a": None, "b": 0, "c": "x", "d": []}},
                     {"pos": None, "m": None}, {"m": []}, {"pos": 5}, None, [], "", 7, {"extra": 1}]:
            toks = " ".join(enc_json(data))
            lines.append("fromjson %s %s" % (hx(outer), toks))
            lines.append("loads %s %s" % (hx(outer), toks))
        lines.append("end")
        cases.append(lines)
    finally:
        fam.dispose()
    # the only comparison in the anchored code: `i < len(record)` in the Tuple branches of toJson and
    # fromJson - every length 0 .. arity+1 for arities 1, 2, 3, on both directions
    fam = Family(S)
    try:
        make_class(fam, fresh("C"), [("t1", ("T", [("i",)])), ("t2", ("T", [("s",), ("b",)])),
                                     ("t3", ("T", [("i",), ("f",), ("s",)]))], {"t1": None, "t2": S.Default, "t3": None})
        cn = list(fam.classes)[0]
        C = fam.classes[cn]
        full = {"t1": (7,), "t2": ("a", True), "t3": (-1, 2.5, "é")}
        lines = ["case fixed1"] + table_lines(fam)
        for f in ("t1", "t2", "t3"):
            for k in range(len(full[f]) + 2):
                vals = dict(full)
                vals[f] = (full[f] + (0,))[:k]
                lines += value_ops(fam, cn, C(**vals))
                data = {g: list(v) for g, v in vals.items()}
                toks = " ".join(enc_json(data))
                lines.append("fromjson %s %s" % (hx(cn), toks))
                lines.append("loads %s %s" % (hx(cn), toks))
        lines.append("end")
        cases.append(lines)
    finally:
        fam.dispose()
    return cases


def corpus_cases():
    """minimised past disagreements (harness/corpus/C15/*.ops), one case per file"""
    import glob
    import os
    d = os.path.join(core.HERE, "corpus", PROP)
    out = []
    for f in sorted(glob.glob(os.path.join(d, "*.ops"))):
        lines = [l for l in open(f, encoding="utf-8").read().split("\n") if l.strip()]
        if lines and lines[0].startswith("case ") and lines[-1] == "end":
            out.append(lines)
    return out


def run(ctx):
    impl = Impl()
    S = impl.S
    n = ctx.scale(1200, 25000)
    cases = corpus_cases() + fixed_cases(S) + [gen_case(ctx.rng, S, "g%d" % i) for i in range(n)]

    def nontrivial(case, outs):
        return any(o.startswith("err") for o in outs) and any(o.startswith("ok O") for o in outs)

    ctx.correspondence("Json", "C15", cases, impl.run_case, nontrivial, RULE)
    for c in cases:
        for ln, o in zip([l for l in c[1:] if l.split()[0] not in ("enum", "class", "end")], impl.run_case(c)):
            ctx.count("out:%s:%s" % (ln.split()[0], o.split()[0]))
        monitor(impl, c, ctx)
        if ctx.failures:
            break
    # monitor-only stream: many more well-typed instances (no model involved)
    if not ctx.failures:
        for i in range(ctx.scale(600, 12000)):
            fam = gen_family(ctx.rng, S, False, str_enums=True)
            if any(type(v) is str for E in fam.enums.values() for v in E._value2name):
                ctx.count("monitor-only:family-with-str-valued-enum")
            try:
                lines = ["case x%d" % i] + table_lines(fam)
                for _ in range(6):
                    cname = ctx.rng.choice(list(fam.classes))
                    try:
                        lines.append("wt %s %s" % (hx(cname), " ".join(enc_val(fam, gen_obj(ctx.rng, fam, cname), False))))
                    except NotEncodable:
                        pass
                lines.append("end")
            finally:
                fam.dispose()
            monitor(impl, lines, ctx)
            if ctx.failures:
                break
    ctx.notes["op_lines"] = sum(len(c) - 2 for c in cases)
    ctx.notes["float_assumption"] = "floats carried as opaque bit patterns; JSON text round trip of floats observed, not proved"


def replay_case(ctx, obj):
    impl = Impl()
    rep = obj.get("replay", obj)
    case = rep.get("case") if isinstance(rep, dict) else None
    if not case:
        for d in obj.get("disagreements", []):
            case = d.get("case")
            break
    if not case:
        print("no case in replay")
        return 0
    print("impl :", impl.run_case(case))
    try:
        print("model:", core.split_cases(ctx.lean("C15", case)).get(core.case_id(case)))
    except core.LeanUnavailable as e:
        print("model unavailable:", e)
    monitor(impl, case, ctx)
    for f in ctx.failures:
        print("monitor:", f["kind"], f["what"])
    return 1 if ctx.failures else 0
