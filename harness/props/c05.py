"""C05 - guaranteed sends are eventually delivered, for every size, from both APIs."""
from harness import core, connlib

PROP = "C05"
LEAN_MODULES = ["MpgsModel.Props.C05"]
MODEL_MODULES = ["MpgsModel.Model.Conn", "MpgsModel.Model.ToyAead"]
NS = "Mpgs.Conn."
THEOREMS = [
    (NS + "C05_fits_alone", "full"),
    (NS + "C05_head_is_sent", "full"),
    (NS + "C05_timeout_requeues", "full"),
    (NS + "C05_send_is_alive", "full"),
    (NS + "C05_never_dropped_step", "full"),
    (NS + "C05_never_dropped", "full"),
    (NS + "C05_fragment_expiry_witness", "witness"),
    (NS + "C05_fragments_delivered_without_expiry", "witness"),
]
# secondary tie (DESIGN 4.2): kernels regenerated from the source on every run, proved equal to the model (Props/Equiv<Group>.lean)
EQUIV = {"Frag": ["Mpgs.Equiv.gen_split_loop", "Mpgs.Equiv.gen_split"], "Seq": ["Mpgs.Equiv.gen_diff"], "Ack": ["Mpgs.Equiv.gen_ack_names"]}
ASSUMPTIONS = [
    "safety half (C05_never_dropped, for every history without disconnect): a guaranteed single-datagram message stays queued, or parked under "
    "a datagram that still awaits its ack/time-out, or reported delivered - under FreshAlong (the datagram number a build takes is not the key "
    "of a parked callback list: false only with 65535 unresolved datagrams, where the real dict assignment overwrites too) and the typed-queue "
    "invariant (proved); fragments of a guaranteed fragmented send are held by FragmentSender (retry 0 until their first time-out) and are "
    "covered by the per-step theorems and the differential only",
    "liveness is an argument under a healed schedule (every emission delivered, both sides ticking, keepAlive + tick + 2*delay < "
    "outgoingTimeout); the Lean theorems are the per-step facts it consists of (every size fits alone, the head of the queue is sent, a "
    "time-out re-queues under the original message number, an ack completes once - with C07/C08: named => accepted => delivered or "
    "already delivered); their composition along a healed schedule is exercised on every run by the monitor, not a single theorem (partial)",
    "fragmented guaranteed messages: the receiver purges an incomplete reassembly context 1 + 0.5*count s after its first fragment and "
    "earlier fragments are never re-sent - a message can then never complete (known finding, C05_fragment_expiry_witness)",
    "the connection stays open (no disconnect, no connection time-out) - the property's own proviso",
]
RULE = ("two-party histories for every payload length in {0..8} and +-8 around MAX_PAYLOAD_SIZE, MAX_PAYLOAD_SIZE-FRAGMENT_OVERHEAD, "
        "k*MAX_FRAGMENT_SIZE (k<=4) and the last-fragment bounds at MTU 512, 576, 1095..1098, 1280, 1500, sent with RETRY_ON_TIMEOUT (and "
        "mixed with unretried / BEST_EFFORT traffic), under loss patterns (each single datagram lost, pairs, bursts, all acks lost for "
        "several time-outs) followed by a healed network; a guaranteed message overtaken by 40..520 newer messages before its retransmission "
        "arrives (lost or reordered first datagram); compared with the model: deliveries, queues, resend sets, callbacks; the monitor "
        "requires every guaranteed payload at the peer after quiescence and empty sender queues; plus the real UdpClient.send_guaranteed and "
        "ServerClientConnection.send_guaranteed entry points; non-trivial = a guaranteed message was delivered after at least one "
        "retransmission")

KNOWN_EXPIRY = "guaranteed-fragmented-message-lost-to-context-expiry"


def post_fn(op, out):
    k = op.split()[0]
    if k == "sizes":
        return out
    if k == "send":
        return out
    if k == "recv":
        return connlib.ev_filter(out, ("dlv", "cb"))
    if k == "tmo":
        return connlib.ev_filter(out, ("cb",))
    if k == "build":
        if out.startswith("pkt"):
            kv = dict(x.split("=", 1) for x in out.split()[1:])
            return "pkt ty=%s count=%s len=%s pt=%s" % (kv["ty"], kv["count"], kv["len"], kv["pt"])
        return out
    if k == "dump":
        return connlib.dump_fields(out, ["out", "prm", "pa", "rf", "ro", "fo", "inc"])
    return None


def sizes_for(mtu):
    mp = mtu - 66
    mf = mp - 6 if mp < 1030 else 1024
    s = set(range(0, 9))
    for L in (mp, mp - 6, mf, 2 * mf, 3 * mf, 4 * mf, mf + mp - 7, 2 * mf + mp - 7):
        s.update(range(max(0, L - 8), L + 9))
    return sorted(s)


def gen_size_case(real, rng, cid, mtu, lengths, loss_plan, later=(), lossy=None, retry=-1, cb=True, start_ss=None):
    """guaranteed sends of the given lengths from a to b; loss_plan(k, direction) -> lost? for emission k; then healed"""
    lines = ["case %s" % cid]
    glog = []
    run = connlib.CaseRun(real, log=glog, snapshots=False)

    def emit(line):
        lines.append(line)
        return run.exec(line)
    try:
        t = connlib.BASE_T
        emit("now %d" % t)
        emit("mtu %d" % mtu)
        emit("new a client")
        emit("new b server")
        for e in "ab":
            emit("set %s key=%s status=2 si=16 ka=96 ot=1024" % (e, connlib.KEY.hex()))
        if start_ss is not None:
            # the datagram sequence numbers of both ends are about to wrap (65535 -> 1): a datagram lost just before the wrap is named
            # - or not named - by acknowledgements that come from beyond it
            for e in "ab":
                emit("set %s ss=%d" % (e, start_ss))
        seed = rng.randint(1, 10 ** 6)
        # warm-up over a perfect link: a connection that has already carried a few messages each way
        for w in range(3):
            t += 17
            for e, p in (("a", "b"), ("b", "a")):
                seed += 1
                emit("send %s len=%d seed=%d retry=0 cb=-" % (e, 9 + w, seed))
                o = emit("build %s t=%d" % (e, t))
                if o and o[0].startswith("pkt"):
                    emit("recv %s t=%d d=@%s:%d" % (p, t, e, len(run.eps[e]["emits"]) - 1))
        t0 = t
        for i, n in enumerate(lengths):
            seed += 1
            emit("send a len=%d seed=%d retry=%d cb=%s" % (n, seed, retry, (i + 1) if cb else "-"))
        k = {"a": 0, "b": 0}
        steps = 0
        lossy_until = t + (rng.choice([600, 1500, 3000]) if lossy is None else lossy)
        while steps < 700:
            steps += 1
            t += 17
            for (when, n) in later:
                if t - 17 - t0 < when <= t - t0:
                    seed += 1
                    emit("send a len=%d seed=%d retry=-1 cb=%d" % (n, seed, 90))
            for e, p in (("a", "b"), ("b", "a")):
                o = emit("build %s t=%d" % (e, t))
                if o and o[0].startswith("pkt"):
                    kk = len(run.eps[e]["emits"]) - 1
                    loss_plan.__dict__["pkt"] = glog[-1]["pkt"]          # for plans that look at what the datagram carries
                    lost = t < lossy_until and loss_plan(kk - 3, e, t - t0, [m[0] - 3 for m in glog[-1]["pkt"]["msgs"]])
                    if not lost:
                        emit("recv %s t=%d d=@%s:%d" % (p, t, e, kk))
                emit("tmo %s t=%d" % (e, t))
            a = run.eps["a"]["conn"]
            if t > lossy_until + 1200 and not a.outgoing_messages and not a.pending_retry_msg and not a.pending_callbacks:
                break
        emit("dump a")
        emit("dump b")
    finally:
        run.close()
    lines.append("end")
    return lines


def gen_overtaken_case(real, rng, cid, mtu, n_other, fault):
    """a guaranteed message whose first datagram is lost (or held back) is overtaken by n_other newer messages that all arrive before
    its retransmission does: however far behind the receiver's newest message number it then is, it has never been delivered and must be"""
    lines = ["case %s" % cid]
    glog = []
    run = connlib.CaseRun(real, log=glog, snapshots=False)

    def emit(line):
        lines.append(line)
        return run.exec(line)
    try:
        t = connlib.BASE_T
        emit("now %d" % t)
        emit("mtu %d" % mtu)
        emit("new a client")
        emit("new b server")
        for e in "ab":
            emit("set %s key=%s status=2 si=16 ka=96 ot=1024" % (e, connlib.KEY.hex()))
        seed = rng.randint(1, 10 ** 6)
        for w in range(2):
            t += 17
            for e, p in (("a", "b"), ("b", "a")):
                seed += 1
                emit("send %s len=%d seed=%d retry=0 cb=-" % (e, 9 + w, seed))
                o = emit("build %s t=%d" % (e, t))
                if o and o[0].startswith("pkt"):
                    emit("recv %s t=%d d=@%s:%d" % (p, t, e, len(run.eps[e]["emits"]) - 1))
        seed += 1
        emit("send a len=%d seed=%d retry=-1 cb=1" % (rng.choice([0, 1, 20, 300]), seed))
        t += 17
        emit("build a t=%d" % t)
        held = len(run.eps["a"]["emits"]) - 1          # the datagram carrying the guaranteed message: lost, or delivered late
        for i in range(n_other):
            seed += 1
            emit("send a len=%d seed=%d retry=0 cb=-" % (rng.choice([0, 1, 2]), seed))
        for _ in range(400):
            t += 17
            for e, p in (("a", "b"), ("b", "a")):
                o = emit("build %s t=%d" % (e, t))
                if o and o[0].startswith("pkt"):
                    emit("recv %s t=%d d=@%s:%d" % (p, t, e, len(run.eps[e]["emits"]) - 1))
                emit("tmo %s t=%d" % (e, t))
            if fault == "reorder" and held is not None and t - connlib.BASE_T > 150:
                emit("recv b t=%d d=@a:%d" % (t, held))
                held = None
            a = run.eps["a"]["conn"]
            if t - connlib.BASE_T > 1500 and not a.outgoing_messages and not a.pending_retry_msg and not a.pending_callbacks:
                break
        emit("dump a")
        emit("dump b")
    finally:
        run.close()
    lines.append("end")
    return lines


def monitor(case, log, ctx):
    sends, delivered, fired = {}, {"a": set(), "b": set()}, {}
    disc = any(r["op"] == "disc" for r in log)
    for rec in log:
        if rec["op"] == "send" and rec["retry"] == -1 and rec["res"] == "ok" and rec["status"] == 2:
            sends[(rec["e"], rec["digest"])] = rec
        elif rec["op"] == "send" and rec["res"] != "ok" and rec["retry"] == -1:
            mp = rec["mtu"] - 66
            mf = mp - 6 if mp < 1030 else 1024
            if rec["len"] <= mf * 8192:
                ctx.failure("guaranteed-send-raised", "send of %d bytes with RETRY_ON_TIMEOUT raised" % rec["len"], {"case": case, "at": len(case) - 2})
                return
        elif rec["op"] in ("recv", "tmo") and "ev" in rec:
            for ev in rec["ev"]:
                p = ev.split(":")
                if p[0] == "dlv":
                    delivered[rec["e"]].add(p[2] + ":" + p[3])
    if disc or not case[-2].startswith("dump"):
        return
    final = {}
    for rec in log:
        if rec["op"] == "dump":
            final[rec["e"]] = rec["dump"]
    # which fragment indices of which fragmented send the peer has accepted in some datagram (the recorded defect needs every fragment to
    # have reached the peer at some time - in contexts that expired in between; a fragment that never arrived and is never sent again
    # is a different failure and is reported as one)
    frag_of = {}           # (sender, emission index) -> [(frag id, index, count)]
    first_fid = {}         # (sender, message seq) -> (frag id, count)
    for rec in log:
        if rec["op"] == "build" and rec.get("pkt") and rec["pkt"].get("frags"):
            lst = frag_of.setdefault((rec["e"], rec["pkt"]["k"]), [])
            for ms, (fid, idx, cnt) in rec["pkt"]["frags"].items():
                lst.append((fid, idx, cnt))
                first_fid.setdefault((rec["e"], int(ms)), (fid, cnt))
    got_idx = {}           # (sender, frag id) -> set of indices accepted by the peer
    for rec in log:
        if rec["op"] == "recv" and rec.get("ret") == "T" and rec.get("spec", "").startswith("@") and not rec.get("muts"):
            src, kk = rec["spec"][1:].split(":")
            for fid, idx, cnt in frag_of.get((src, int(kk)), []):
                got_idx.setdefault((src, fid), set()).add(idx)

    def all_fragments_arrived(e, snd):
        ms = (snd["mseq_before"] % 65535) + 1
        fc = first_fid.get((e, ms))
        if fc is None:
            return False
        fid, cnt = fc
        return got_idx.get((e, fid), set()) >= set(range(1, cnt + 1))
    for (e, dg), snd in sends.items():
        peer = "b" if e == "a" else "a"
        d = final.get(e, "")
        quiet = "pa=[]" in d and "out=[]" in d and "prm=[]" in d
        if dg not in delivered[peer] and snd["len"] >= 1:
            if snd["frag"] and quiet and all_fragments_arrived(e, snd):
                ctx.failure(KNOWN_EXPIRY, "guaranteed %d-byte (fragmented) message from %s never delivered although the sender holds nothing "
                            "pending: the receiver purged its incomplete reassembly context" % (snd["len"], e), {"case": case, "at": len(case) - 2})
            elif quiet or case[0].split()[1].startswith(("z", "k")):
                ctx.failure("guaranteed-message-not-delivered", "guaranteed %d-byte message from %s not delivered after the network healed "
                            "(sender queues: %s)" % (snd["len"], e, " ".join(x for x in d.split() if x.startswith(("out=", "prm=", "pa=")))),
                            {"case": case, "at": len(case) - 2})
                return
        else:
            ctx.count("guaranteed-delivered:%s" % ("fragmented" if snd["frag"] else "single"))


def api_monitor(real, ctx):
    """both APIs reach ConnectionBase.send with RETRY_ON_TIMEOUT and do not raise"""
    C = real.C
    from mpgameserver.client import UdpClient
    cl = UdpClient()
    cl.conn = C.ClientServerConnection(("1.1.1.1", 1))
    cl.conn.status = C.ConnectionStatus.CONNECTED
    problems = []
    try:
        cl.send_guaranteed(b"x" * 10)
        m = cl.conn.outgoing_messages[-1]
        if m.retry != C.RetryMode.RETRY_ON_TIMEOUT or not isinstance(m.callback, C.RetrySender):
            problems.append("UdpClient.send_guaranteed queued retry=%r" % (m.retry,))
    except Exception as e:
        problems.append("UdpClient.send_guaranteed raised %r" % (e,))
    try:
        sc = C.ServerClientConnection(real.server_ctxt("good"), ("2.2.2.2", 2))
        sc.status = C.ConnectionStatus.CONNECTED
        sc.send_guaranteed(b"y" * 3000)
        if not all(isinstance(m.callback, object) for m in sc.outgoing_messages) or not sc.pending_fragments:
            problems.append("ServerClientConnection.send_guaranteed did not fragment/queue")
    except Exception as e:
        problems.append("ServerClientConnection.send_guaranteed raised %r" % (e,))
    for p in problems:
        ctx.failure("guaranteed-api-broken", p, {"api": True})
    ctx.count("api-checked")


def known_finding_case(real):
    """deterministic witness of the recorded finding: a guaranteed 3-fragment message whose first-fragment datagram keeps getting lost
    for 3.5 s while the other fragments arrive: the receiver purges the context, the message never completes although the network heals"""
    def plan(k, e, trel, msgs):
        # the datagrams carrying fragment 1 (message 1) and its re-sends (messages 4, 5, ...) are lost for 2.9 s
        return e == "a" and trel < 2900 and any(m not in (2, 3) for m in msgs) and trel < 2690

    class R:                       # lossy phase of exactly 3000 ticks
        @staticmethod
        def choice(xs):
            return xs[-1]

        @staticmethod
        def randint(a, b):
            return 5
    # a second fragmented message passes by at 2.7 s: any APP_FRAGMENT triggers the purge of expired contexts
    return gen_size_case(real, R, "kf-expiry", 1500, [3000], plan, later=[(2700, 2500)])


def run(ctx):
    real = connlib.Real()
    rng = ctx.rng
    cases = [known_finding_case(real), connlib.sizes_case()]
    mtus = [1500, 512, 1098, 1097, 576, 1280, 1096, 1095, 1090, 1093]
    per = ctx.scale(14, 200)
    for mi, mtu in enumerate(mtus):
        pool = sizes_for(mtu)
        for j in range(per if mi < 3 else max(3, per // 4)):
            lengths = [rng.choice(pool) for _ in range(rng.randint(1, 3))]
            kind = ["blackout", "blackout2", "none", "single", "pair", "burst", "acks"][j % 7] if j < 7 else \
                rng.choice(["none", "single", "pair", "burst", "acks", "blackout", "blackout2"])
            dark = rng.choice([1100, 1300, 2200, 2900])
            lost = set()
            if kind == "single":
                lost = {rng.randint(0, 6)}
            elif kind == "pair":
                lost = {rng.randint(0, 6), rng.randint(0, 8)}
            elif kind == "burst":
                s0 = rng.randint(0, 5)
                lost = set(range(s0, s0 + rng.randint(2, 40)))
            # blackout: every datagram (of the sender / of both sides) is lost for longer than the message time-out
            plan = (lambda k, e, trel, msgs, _l=lost, _k=kind, _d=dark: (e == "b") if _k == "acks" else
                    (e == "a" and trel < _d) if _k == "blackout" else (trel < _d) if _k == "blackout2" else (e == "a" and k in _l))
            # every third case sends without a callback (the default of send_guaranteed)
            cases.append(gen_size_case(real, rng, "z%d_%d" % (mtu, j), mtu, lengths, plan, lossy=3000 if kind.startswith("blackout") else None,
                                       cb=(j % 3 != 2), start_ss=(65535 - 7 - rng.randint(0, 14)) if j % 4 == 1 else None))
    # a fragment datagram lost within the last few sequence numbers before the wrap 65535 -> 1, its predecessor received, the following
    # fragment datagrams - and with them the peer's acknowledgements - already beyond the wrap
    for m in range(0, 6):
        plan = (lambda k, e, trel, msgs: e == "a" and k == 0)
        cases.append(gen_size_case(real, rng, "zw%d" % m, 1500, [3 * 1024 + 10 + m], plan, lossy=600, cb=(m % 2 == 0),
                                   start_ss=65531 - m))
    # overtaken by more newer messages than either receive window is wide
    for j, n_other in enumerate([40, 250, 257, 300, 520][:ctx.scale(5, 5)]):
        for fault in ("loss", "reorder"):
            cases.append(gen_overtaken_case(real, rng, "zo%d_%s" % (n_other, fault), rng.choice([1500, 512]), n_other, fault))
    # mixed traffic under random loss, healed at the end
    for i in range(ctx.scale(20, 400)):
        mtu = rng.choice(mtus)
        cases.append(connlib.gen_two_party(real, rng, "m%d" % i, mtu=mtu, steps=rng.choice([30, 60]), loss=rng.choice([0.1, 0.3, 0.5]), dup=0.1,
                                           delay=0.3, max_delay=300, replay=0.02, sizes=sizes_for(mtu)[::3] + [8, 9, 40], retry_modes=(-1, -1, 0, 1),
                                           send_rate=0.4, heal=True))
    real2 = connlib.Real()

    def nontrivial(case, outs):
        return any("dlv:" in o for o in outs) and sum(1 for l in case if l.startswith("build a")) > 3

    logs, bad = connlib.run_cases(ctx, real2, cases, connlib.make_post(post_fn), "Conn(guaranteed delivery)", RULE, nontrivial, snapshots=False)
    for c in cases:
        if connlib.reassembly_monitor(c, logs.get(core.case_id(c), []), ctx):
            return
        monitor(c, logs.get(core.case_id(c), []), ctx)
        if any(f["kind"] != KNOWN_EXPIRY for f in ctx.failures):
            return
    api_monitor(real2, ctx)
