"""C08 - SeqNum ring + BitField window: correspondence with connection.py + monitors."""
from harness import core, connlib

PROP = "C08"
LEAN_MODULES = ["MpgsModel.Props.C08"]
MODEL_MODULES = ["MpgsModel.Model.SeqNum", "MpgsModel.Model.Conn", "MpgsModel.Model.ToyAead"]
NS = "Mpgs.Seq."
THEOREMS = [
    (NS + "C08_add_ring", "full"),
    (NS + "C08_add_range", "full"),
    (NS + "C08_succ_cycle", "full"),
    (NS + "C08_diff_exact", "full"),
    (NS + "C08_diff_add", "full"),
    (NS + "C08_diff_antisymm", "full"),
    (NS + "C08_newer_iff", "full"),
    (NS + "C08_window_refines_set", "full"),
    (NS + "C08_contains_exact", "full"),
    (NS + "C08_dup_iff_contains", "full"),
    (NS + "C08_ack_fields_exact", "full"),
]
# secondary tie (DESIGN 4.2): kernels regenerated from the source on every run, proved equal to the model (Props/Equiv<Group>.lean)
EQUIV = {"Seq": ["Mpgs.Equiv.gen_new", "Mpgs.Equiv.gen_diff", "Mpgs.Equiv.gen_add", "Mpgs.Equiv.gen_sub", "Mpgs.Equiv.gen_newer_than", "Mpgs.Equiv.gen_lt", "Mpgs.Equiv.gen_gt"], "Window": ["Mpgs.Equiv.gen_insert", "Mpgs.Equiv.gen_contains", "Mpgs.Equiv.gen_stale"], "Ack": ["Mpgs.Equiv.gen_ack_names"]}
ASSUMPTIONS = [
    "window theorems quantify over histories in which every inserted number is within 32767 of the newest "
    "(the property's own half-ring bound); sequence number 0 (never produced by the ring) is excluded from them",
    "Python int arithmetic = Lean Int/Nat arithmetic (unbounded)",
]
RULE = ("op sequences on the real SeqNum/BitField classes: arithmetic and comparisons on boundary-heavy values "
        "(1, 2, 32767..32769, 65534, 65535, random) with offsets around 0, +-32767, +-65535 and far outside; window histories "
        "for widths 8..256 straddling the wrap with gaps, repeats, stale and far-ahead inserts, dump of (current, bits); the "
        "ack predicate through the real _handle_ack_bits; non-trivial = the case crosses the wrap or reports a duplicate/error; plus the "
        "windows as two real connected endpoints use them: a datagram held back and arriving exactly 1..40 behind the newest (edge 32), "
        "also across the wrap, and lossy/reordered two-party histories - accept/drop decisions and the (ack, ack_bits) of every header")

EDGE = [0, 1, 2, 3, 31, 32, 33, 255, 256, 257, 32766, 32767, 32768, 32769, 65533, 65534, 65535]
OFFS = [0, 1, 2, 31, 32, 33, 34, 255, 256, 257, 32766, 32767, 32768, 32769, 65534, 65535, 65536, 131070, 131071, 200000]


def rv(rng):
    return rng.choice(EDGE) if rng.random() < 0.6 else rng.randint(0, 65535)


def ro(rng):
    k = rng.choice(OFFS) if rng.random() < 0.7 else rng.randint(0, 70000)
    return k if rng.random() < 0.5 else -k


def gen_arith(rng, cid):
    lines = ["case %s" % cid]
    for _ in range(rng.randint(5, 40)):
        r = rng.random()
        if r < 0.1:
            lines.append("mk %d" % rng.choice([-2, -1, 0, 1, 65534, 65535, 65536, 65537, rng.randint(-10, 70000)]))
        elif r < 0.4:
            lines.append("%s %d %d" % (rng.choice(["add", "sub"]), rv(rng), ro(rng)))
        else:
            a = rv(rng)
            if rng.random() < 0.5:
                b = rv(rng)
            else:
                b = ((a + ro(rng) - 1) % 65535) + 1
            lines.append("%s %d %d" % (rng.choice(["diff", "newer", "lt", "gt"]), a, b))
    lines.append("end")
    return lines


def gen_window(rng, cid):
    nb = rng.choice([8, 16, 24, 32, 32, 32, 64, 128, 256, 256, 12, 0])
    lines = ["case %s" % cid, "bf new %d" % nb]
    if nb % 8 != 0:
        lines.append("end")
        return lines
    pos = rng.choice([1, 2, 100, 65535 - rng.randint(0, 300), 65535 * 2 - rng.randint(0, 50), rng.randint(1, 200000)])
    newest = None
    for _ in range(rng.randint(5, 80)):
        r = rng.random()
        if newest is None:
            p = pos
        elif r < 0.45:
            p = newest + rng.choice([1, 1, 1, 2, 3, rng.randint(1, nb + 5 if nb else 5)])
        elif r < 0.5:
            p = newest + rng.choice([nb, nb + 1, nb - 1, 300, 1000, 32767])
        elif r < 0.85:
            p = newest - rng.randint(0, (nb + 3) if nb else 3)
        elif r < 0.95:
            p = newest - rng.choice([nb, nb + 1, nb + 2, 300, 5000, 32767])
        else:
            p = newest + rng.choice([-32768, 32768, 40000, -40000, 65535])   # outside the half-ring bound
        if p < 1:
            p = 1
        if newest is None or p > newest:
            if newest is None or p - newest <= 32767:
                newest = p
            else:
                newest = p  # model and code must still agree, monitor ignores from here
        s = (p - 1) % 65535 + 1
        lines.append("bf ins %d" % s)
        if rng.random() < 0.5:
            q = newest - rng.randint(-3, (nb + 3) if nb else 3)
            lines.append("bf has %d" % ((q - 1) % 65535 + 1))
        if rng.random() < 0.2:
            lines.append("bf dump")
    lines.append("bf dump")
    lines.append("end")
    return lines


def gen_ack(rng, cid):
    lines = ["case %s" % cid]
    for _ in range(rng.randint(5, 30)):
        ack = rv(rng)
        bits = rng.choice([0, 1, 0x80000000, 0xFFFFFFFF, rng.getrandbits(32), 1 << rng.randint(0, 31)])
        d = rng.choice([0, 1, 2, 31, 32, 33, 34, 100, -1, -5, 32767, rng.randint(-40, 40)])
        s = (ack - d - 1) % 65535 + 1
        lines.append("ack %d %d %d" % (ack, bits, s))
    lines.append("end")
    return lines


class Impl:
    def __init__(self):
        core.use_repo()
        import mpgameserver.connection as C
        self.C = C

    def ack(self, ack, bits, s):
        C = self.C
        conn = C.ConnectionBase(False, ("0.0.0.0", 1))
        conn.clock = lambda: 1000.0
        conn.last_recv_time = 1000.0
        conn.pending_acks = {C.SeqNum(s): 1000.0}
        hdr = C.PacketHeader()
        hdr.ack = C.SeqNum(ack)
        hdr.ack_bits = bits
        conn._handle_ack_bits(hdr)
        return conn.stats.acked == 1 and not conn.pending_acks

    def run_case(self, case):
        C = self.C
        S = C.SeqNum
        out = []
        bf = C.BitField(32)   # the driver's default, so that minimised cases stay meaningful
        for line in case[1:]:
            w = line.split()
            op = w[0]
            try:
                if op == "mk":
                    out.append("ok:%d" % int(S(int(w[1]))))
                elif op == "add":
                    out.append("ok:%d" % int(S(int(w[1])) + int(w[2])))
                elif op == "sub":
                    out.append("ok:%d" % int(S(int(w[1])) - int(w[2])))
                elif op == "diff":
                    out.append("%d" % S(int(w[1])).diff(S(int(w[2]))))
                elif op == "newer":
                    out.append("T" if S(int(w[1])).newer_than(S(int(w[2]))) else "F")
                elif op == "lt":
                    out.append("T" if S(int(w[1])) < S(int(w[2])) else "F")
                elif op == "gt":
                    out.append("T" if S(int(w[1])) > S(int(w[2])) else "F")
                elif op == "bf":
                    if w[1] == "new":
                        bf = C.BitField(int(w[2]))
                        out.append("ok")
                    elif w[1] == "ins":
                        try:
                            bf.insert(S(int(w[2])))
                            out.append("ok")
                        except C.DuplicationError:
                            out.append("dup")
                    elif w[1] == "has":
                        out.append("T" if bf.contains(S(int(w[2]))) else "F")
                    elif w[1] == "dump":
                        out.append("%d %d" % (int(bf.current_seqnum), bf.bits))
                elif op == "ack":
                    out.append("T" if self.ack(int(w[1]), int(w[2]), int(w[3])) else "F")
            except Exception as e:
                out.append("err:" + type(e).__name__)
        return out


# ----------------------------------------------------------------------------- monitors

def monitor_ring(impl, ctx, n_steps):
    """1..65535 and back to 1, never 0; diff/comparisons across the wrap"""
    S = impl.C.SeqNum
    s = S()
    for n in range(1, n_steps + 1):
        s = s + 1
        exp = (n - 1) % 65535 + 1
        if int(s) != exp or int(s) == 0:
            ctx.failure("ring-successor", "increment %d of a fresh SeqNum gave %d, expected %d" % (n, int(s), exp),
                        {"ops": ["SeqNum()+1 x %d" % n]})
            return
    rng = ctx.rng
    pairs = [(b, k) for b in (1, 2, 3, 32767, 32768, 32769, 65533, 65534, 65535)
             for k in (1, -1, 2, -2, 32, -32, 32766, -32766, 32767, -32767)]
    for _ in range(ctx.scale(3000, 200000)):
        pairs.append((rng.randint(1, 65535), rng.choice([1, -1, 32767, -32767, rng.randint(-32767, 32767)])))
    for b, k in pairs:
        if check_arith(impl, ctx, b, k):
            return


def check_arith(impl, ctx, b, k):
    """the property on one (value, offset): b (+) k and b (-) k stay in 1..65535, diff recovers k, comparisons agree"""
    S = impl.C.SeqNum
    if not (1 <= b <= 65535 and -32767 <= k <= 32767):
        return False
    for name, c, kk in (("+", S(b) + k, k), ("-", S(b) - k, -k)):
        bad = None
        if not (1 <= int(c) <= 65535):
            bad = "SeqNum(%d)%s%d = %d is outside 1..65535" % (b, name, k, int(c))
        elif c.diff(S(b)) != kk:
            bad = "(SeqNum(%d)%s%d).diff(SeqNum(%d)) = %d, expected %d" % (b, name, k, b, c.diff(S(b)), kk)
        elif kk != 0 and (c.newer_than(S(b)) != (kk > 0) or (c > S(b)) != (kk > 0) or (c < S(b)) != (kk < 0)):
            bad = "comparison of SeqNum(%d)%s%d with SeqNum(%d) is wrong" % (b, name, k, b)
        if bad:
            ctx.failure("ring-arith", bad, {"b": b, "k": k})
            return True
    return False


def search(impl, ctx, disagreement):
    """failing-input search around a correspondence disagreement: the property on its operands"""
    for line in disagreement["case"][1:-1]:
        w = line.split()
        try:
            if w[0] in ("add", "sub"):
                check_arith(impl, ctx, int(w[1]), int(w[2]))
            elif w[0] in ("diff", "newer", "lt", "gt"):
                a, b = int(w[1]), int(w[2])
                d = ((a - b + 32767) % 65535) - 32767
                check_arith(impl, ctx, b, d)
        except Exception:
            pass
    if disagreement["case"][1:2] and disagreement["case"][1].startswith("bf"):
        monitor_window(impl, disagreement["case"], ctx)


def monitor_window(impl, case, ctx):
    """BitField vs. a set of absolute positions; only while the half-ring bound is respected"""
    C = impl.C
    S = C.SeqNum
    w1 = case[1].split()
    nb = int(w1[2])
    if nb % 8 != 0 or nb == 0:
        return
    bf = C.BitField(nb)
    acc = set()
    newest = None   # absolute
    for idx, line in enumerate(case[1:]):
        w = line.split()
        if w[0] != "bf" or w[1] not in ("ins", "has"):
            continue
        s = int(w[2])
        if newest is None:
            p = s
        else:
            # the unique absolute position within half a ring of newest whose ring image is s
            base = newest - ((newest - 1) % 65535 + 1)  # multiple of 65535
            cands = [base + s - 65535, base + s, base + s + 65535]
            cands = [c for c in cands if abs(c - newest) <= 32767]
            if not cands:
                return   # outside the property's bound: stop monitoring this history
            p = cands[0]
        if w[1] == "ins":
            if newest is None:
                exp_dup = False
            else:
                exp_dup = (p == newest) or (0 < newest - p <= nb and p in acc)
            try:
                bf.insert(S(s))
                dup = False
            except C.DuplicationError:
                dup = True
            if dup != exp_dup:
                ctx.failure("window-duplicate-flag", "insert(%d) duplicate=%s, expected %s (width %d)" % (s, dup, exp_dup, nb),
                            {"case": case, "at": idx})
                return
            if not dup:
                acc.add(p)
                if newest is None or p > newest:
                    newest = p
        else:
            if newest is None:
                continue
            exp = (0 <= newest - p <= nb) and p in acc
            got = bool(bf.contains(S(s)))
            if got != exp:
                ctx.failure("window-contains", "contains(%d)=%s, expected %s (width %d)" % (s, got, exp, nb),
                            {"case": case, "at": idx})
                return
    # ack fields: what a peer would conclude from (current, bits) for a 32-bit window
    if nb == 32 and newest is not None:
        for d in range(-2, 40):
            q = newest - d
            s = (q - 1) % 65535 + 1
            got = impl.ack(int(bf.current_seqnum), bf.bits, s)
            exp = (0 <= d <= 32) and q in acc
            if got != exp:
                ctx.failure("ack-fields", "header (ack=%d,bits=%08x) names %d: %s, received-in-window: %s"
                            % (int(bf.current_seqnum), bf.bits, s, got, exp), {"case": case, "offset": d})
                return


def run(ctx):
    impl = Impl()
    rng = ctx.rng
    n = ctx.scale(250, 6000)
    cases = []
    for i in range(n):
        cases.append(gen_arith(rng, "a%d" % i))
        cases.append(gen_window(rng, "w%d" % i))
        if i % 3 == 0:
            cases.append(gen_ack(rng, "k%d" % i))
    if ctx.tier == "thorough":
        # exhaustive table: all 65535 values x a fixed offset list, real code vs model
        offs = [1, -1, 2, 32, -33, 32766, 32767, -32767, 32768, -32768, 65534, 65535, -65535]
        for a in range(1, 65536):
            lines = ["case x%d" % a]
            for k in offs:
                b = (a + k - 1) % 65535 + 1
                lines.append("add %d %d" % (a, k))
                lines.append("diff %d %d" % (b, a))
                lines.append("lt %d %d" % (a, b))
            lines.append("end")
            cases.append(lines)
        ctx.notes["exhaustive_table"] = "all 65535 values x %d offsets (add, diff, lt)" % len(offs)

    def nontrivial(case, outs):
        if any(o in ("dup",) or o.startswith("err") for o in outs):
            return True
        vals = [int(x) for l in case[1:-1] for x in l.split()[1:] if x.lstrip("-").isdigit()]
        return any(v >= 65500 for v in vals) and any(0 < v <= 300 for v in vals)

    ctx.correspondence("SeqNum/BitField", "C08", cases, impl.run_case, nontrivial, RULE)
    for d in ctx.disagreements:
        search(impl, ctx, d)
    for c in cases[:3 * n]:
        for l in c[1:-1]:
            ctx.count("op:" + " ".join(l.split()[:2]) if l.startswith("bf") else "op:" + l.split()[0])
        if c[0].startswith("case w"):
            monitor_window(impl, c, ctx)
    monitor_ring(impl, ctx, ctx.scale(70000, 65535 * 4 + 7))
    if ctx.failures:
        return
    # ---- the same windows inside two connected endpoints
    real = connlib.Real()
    ccases = []
    for L in range(1, 41):
        ccases.append(connlib.late_case("late%d" % L, L, held=rng.randint(0, 5),
                                        start={"ss": 65535 - rng.randint(0, L + 4), "sm": 65000} if L % 2 else None))
    for i in range(ctx.scale(20, 300)):
        ccases.append(connlib.gen_two_party(real, rng, "r%d" % i, steps=rng.choice([60, 120]), loss=0.2, dup=0.3, delay=0.6,
                                            max_delay=rng.choice([200, 800, 2000]), replay=0.1, sizes=[8, 20, 60], send_rate=0.3,
                                            si=16, ka=rng.choice([15, 32]), heal=False,
                                            # damaged and forged copies in between (every third case): what does not authenticate must
                                            # leave no mark in the window - the headers emitted afterwards name received datagrams only
                                            attacker=0.3 if i % 3 == 0 else 0.0,
                                            start={"ss": 65535 - rng.randint(0, 40), "sm": 65400, "sf": 1} if i % 2 else None))
    # a retransmitted message that arrives further behind the newest message number than the 256-wide message window is wide and was
    # never received before is NOT a duplicate (the generator is C05's)
    from harness.props import c05 as _c05
    for j, n_other in enumerate(ctx.scale([255, 257, 300], [100, 250, 255, 256, 257, 258, 300, 400, 520])):
        for fault in ("lost", "reorder"):
            ccases.append(_c05.gen_overtaken_case(real, rng, "ov%d%s" % (j, fault[0]), rng.choice([1500, 512]), n_other, fault))
    real2 = connlib.Real()

    def cpost(op, out):
        k = op.split()[0]
        if k == "recv":
            return connlib.ev_filter(out, ("drop",))
        if k == "build" and out.startswith("pkt"):
            kv = dict(x.split("=", 1) for x in out.split()[1:])
            return "pkt seq=%s ack=%s bits=%s" % (kv["seq"], kv["ack"], kv["bits"])
        if k == "dump":
            return connlib.dump_fields(out, ["bp", "bm"])
        return None
    logs, bad = connlib.run_cases(ctx, real2, ccases, connlib.make_post(cpost), "Conn(receive window)", RULE,
                                  lambda c, o: any("drop" in x for x in o), snapshots=False)
    for c in ccases:
        connlib.window_monitor(c, logs.get(core.case_id(c), []), ctx)
        if ctx.failures:
            return
        if connlib.fresh_message_monitor(c, logs.get(core.case_id(c), []), ctx):
            return
