"""C02 - handshake authenticates the server, agrees one key, promotes on proof of key."""
import io

from harness import core, connlib, serverlib

PROP = "C02"
LEAN_MODULES = ["MpgsModel.Props.C02", "MpgsModel.Props.C02Loop", "MpgsModel.Props.C02Key"]
MODEL_MODULES = ["MpgsModel.Model.Handshake", "MpgsModel.Model.ToyAead", "MpgsModel.Model.Server"]
NS = "Mpgs.Conn."
THEOREMS = [
    (NS + "C02_client_key_only_if_verified", "full"),
    (NS + "C02_bad_hello_no_key", "full"),
    (NS + "C02_promote_only_on_token", "full"),
    (NS + "C02_promote_only_on_proof", "full"),
    (NS + "C02_honest_agree", "full"),
    (NS + "C02_server_hello_gate", "full"),
    ("Mpgs.Server.C02_loop_connect_only_on_proof", "full"),
    ("Mpgs.Server.C02_loop_connect_from_datagram", "full"),
    (NS + "C02_server_key_never_changes", "full"),
    (NS + "key_recvDatagram", "full"),
]
ASSUMPTIONS = [
    "one key per connection (C02_server_key_never_changes, key_recvDatagram): over every history of operations - datagrams of any "
    "content, client hellos sealed under the key included, sends, packet constructions, time-outs, disconnects - a server-side connection "
    "that holds a session key holds that same key afterwards (it rests on repair 30a6fe7; the monitor `session-key-changed` states the "
    "same on the emissions of the real objects)",
    "at the level of the server loop (C02_loop_connect_only_on_proof, C02_loop_connect_from_datagram): in every server state, a connect "
    "event for an address is produced only while handling a queued datagram from that very address, typed CHALLENGE_RESP, exactly "
    "header + length + tag long, that AES-GCM opened under the session key of that address's half-open entry and that carries a "
    "CHALLENGE_RESP message decoding to the token issued to that entry; handler.update, the sweeps and the sends produce none",
    "EUF-CMA of ECDSA and secrecy of ECDH/HKDF are assumed outside Lean; the theorems hold for every instantiation of the external "
    "functions (Hs) and say exactly where the code relies on them: the client adopts a key only if `verify(pinned key, signature, payload)` "
    "accepted, the server promotes only on a datagram that AES-GCM opened under the connection's key and that carries the issued token",
    "the signature does not cover the client's ephemeral key: a genuine hello of ANOTHER session of the same server verifies; the client "
    "then holds a key nobody shares (observation recorded in DESIGN, within the statement as written)",
    "decoding of hello bytes (Serializable.loadb) is a parameter here; its safety on hostile bytes is C14; registered application classes "
    "are assumed not to carry fields named token/salt/server_pubkey",
    "real runs use fresh EC keys and randomised signatures, so a case cannot be re-executed bit for bit: the outputs recorded while the "
    "case is generated are the implementation side of the comparison (no minimisation), oracle values travel on the op lines",
]
RULE = ("three-way handshakes between real ClientServerConnection / ServerClientConnection objects (real P-256 keys, ECDSA, ECDH, HKDF, "
        "AES-GCM) under attack scripts: honest; bit flips in the client hello, in the server hello (root key field, signed payload, signature, "
        "CRC recomputed as an attacker would); hello of a server with a foreign root key; hello re-signed with an attacker key; hello of "
        "another session of the same server; wrong / zero / other-session tokens in a challenge sealed under the right key; challenge sealed "
        "under another key; duplication and reordering of all three datagrams; truncation/extension; unauthenticated application datagrams "
        "before any key; hellos with further unauthenticated messages stacked behind them in one datagram (both directions); unanswered connect; a genuine server hello that arrives after the client's connect time-out fired (if the client takes it, it must hold the signer's key); trust-on-first-use and wrongly pinned clients; followed by application traffic both ways; "
        "compared with the model: every recv result, event, status and the final state dumps; non-trivial = the script is not 'honest'; plus "
        "honest clients against the REAL UdpServerThread loop over a network that loses nothing but duplicates datagrams, also one iteration "
        "late (a second copy of the hello after the server hello went out): every client must end CONNECTED with the server holding the same "
        "key and token in its connected pool")


def post_fn(op, out):
    k = op.split()[0]
    if k in ("recv", "cupd", "hello", "send"):
        return out
    if k == "dump":
        return connlib.dump_fields(out, ["st", "key", "ss", "sm", "bp", "bm", "pa", "out", "ctr", "tok", "hs", "inc"])
    if k == "build":
        if out.startswith("pkt"):
            kv = dict(x.split("=", 1) for x in out.split()[1:])
            return "pkt ty=%s seq=%s count=%s len=%s sealed=%s dlen=%s dcrc=%s" % (kv["ty"], kv["seq"], kv["count"], kv["len"], kv["sealed"],
                                                                                    kv["dlen"], kv.get("dcrc", "-"))
        return out
    return None


def verify_hello(real, datagram_hex, pinned_key):
    """independent look at a server hello datagram: does its (payload, signature) verify under the pinned key?"""
    C = real.C
    try:
        d = bytes.fromhex(datagram_hex)
        if len(d) < 28 or d[12] != 2 or d[15] != 1:
            return False
        data = d[22:-4]                      # header(20) + message seq(2) ... crc(4)
        stream = io.BytesIO(data)
        import mpgameserver.serializable as S
        tid = S.struct.unpack(">H", stream.read(2))[0]
        if tid != C.HandshakeServerHelloMessage.type_id:
            return False
        root = S.deserialize_value(stream)
        payload = S.deserialize_value(stream)
        signature = S.deserialize_value(stream)
        key = pinned_key if pinned_key is not None else C.EllipticCurvePublicKey.fromBytes(root)
        key.verify(signature, payload)
        return True
    except Exception:
        return False


def monitor(real, case, log, ctx):
    pinned = {}
    for l in case:
        w = l.split()
        if w[0] == "set" and any(x.startswith("pinned=") for x in w):
            v = [x for x in w if x.startswith("pinned=")][0][7:]
            pinned[w[1]] = {"01": "good", "02": "other"}.get(v)
    idx = [i for i, l in enumerate(case) if l.startswith("recv ")]
    n = -1
    promoted = {}
    keys = {}
    for rec in log:
        if rec["op"] != "recv":
            continue
        n += 1
        if "hdrerr" in rec:
            continue
        at = idx[n] - 1 if n < len(idx) else len(case) - 2
        e = rec["e"]
        keys[e] = rec["key_after"]
        client = e.startswith("c")
        if client:
            adopted = rec["key_after"] != rec["key_before"]
            connected = rec["status_after"] == 2 and rec["status_before"] != 2
            if adopted or connected:
                which = pinned.get(e)
                pk = None if which is None else real.server_ctxt(which).server_root_key.getPublicKey()
                if rec["datagram"] is None or not verify_hello(real, rec["datagram"], pk):
                    ctx.failure("client-adopted-key-from-unverified-hello",
                                "client %s adopted a key / became CONNECTED from a datagram whose server hello does not verify under the "
                                "pinned key (%s)" % (e, rec["spec"][:40]), {"case": case, "at": at})
                    return
                if rec["key_after"] is None or len(bytes.fromhex(rec["key_after"])) != 16:
                    ctx.failure("bad-session-key", "client key after the hello is not 16 bytes", {"case": case, "at": at})
                    return
                # a genuine, unmodified server hello that answers THIS client's hello (c <- s, c2 <- s2): the key the client derives is
                # the key of the server-side connection that signed it - whenever it arrives
                signer = {"c": "s", "c2": "s2"}.get(e)
                if adopted and rec["spec"].startswith("@%s:" % signer) and not rec["muts"] and not rec.get("rekey") and signer in keys \
                        and keys[signer] and rec["key_after"] != keys[signer]:
                    ctx.failure("client-key-differs-from-signer", "client %s took the genuine server hello %s and derived key %s, but the "
                                "server-side connection that signed it holds %s: the ends do not agree on the session key" %
                                (e, rec["spec"], rec["key_after"], keys[signer]), {"case": case, "at": at})
                    return
            if rec.get("hsexc") == "InvalidSignature" and (rec["status_after"] != 4 or rec["key_after"] is not None):
                ctx.failure("invalid-signature-not-disconnected", "client %s after an invalid signature: status %s key %s" %
                            (e, rec["status_after"], rec["key_after"]), {"case": case, "at": at})
                return
        else:
            if "promoted" in rec["ev"]:
                promoted[e] = promoted.get(e, 0) + 1
                # only on a CHALLENGE_RESP that the connection's own key opened and that carries the issued token:
                # the datagram must have been produced by a holder of the key (its client, or the harness crafting with that key)
                ok = rec["keyed"] and rec["ret"] == "T" and rec["hs"] == "_recvChallengeResponse"
                spec = rec["spec"]
                holder = (spec.startswith("@c") and not rec["muts"] and not rec.get("rekey")) or \
                         (spec.startswith("!3,") and spec.endswith(":" + (rec["key_before"] or "?")))
                if ok and holder and rec.get("chal_token") != rec["token"]:
                    ctx.failure("promoted-with-wrong-token", "server connection %s promoted on a challenge carrying token %s, issued token %s" %
                                (e, rec.get("chal_token"), rec["token"]), {"case": case, "at": at})
                    return
                if not ok or not holder or promoted[e] > 1:
                    ctx.failure("promoted-without-proof", "server connection %s promoted (%d times) on datagram %s muts=%s" %
                                (e, promoted[e], spec[:40], rec["muts"]), {"case": case, "at": at})
                    return
                ctx.count("promoted")
    # honest outcome: both ends CONNECTED => same key and token, server promoted exactly once
    final = {}
    for rec in log:
        if rec["op"] == "dump":
            final[rec["e"]] = dict(x.split("=", 1) for x in rec["dump"].split() if "=" in x)
    script = case[0].split()[1].split("-", 1)[1] if "-" in case[0] else ""
    if "c" in final and "s" in final and final["c"]["st"] == "2" and final["s"]["st"] == "2":
        if keys.get("c") != keys.get("s") or final["c"]["tok"] != final["s"]["tok"] or promoted.get("s", 0) != 1:
            if script not in ("other-session",):
                ctx.failure("connected-without-agreement", "both ends CONNECTED but keys %s/%s tokens %s/%s promotions %d" %
                            (keys.get("c"), keys.get("s"), final["c"]["tok"], final["s"]["tok"], promoted.get("s", 0)),
                            {"case": case, "at": len(case) - 2})
                return
        ctx.count("handshake-completed")
    if script == "honest" and not ("c" in final and final["c"]["st"] == "2" and final["s"]["st"] == "2"):
        ctx.failure("honest-handshake-failed", "honest handshake did not end CONNECTED on both sides: %s" %
                    {k: v.get("st") for k, v in final.items()}, {"case": case, "at": len(case) - 2})


def agreement_monitor(case, log, ctx, settle=6):
    """honest clients against the real server loop over a network that only duplicates and delays: a client that has been CONNECTED
    for a few iterations is connected at the server too, under the same key and token"""
    fin = [r for r in log if r.get("op") == "final"]
    if not fin:
        return
    fin = fin[0]
    for cl in fin["clients"]:
        if not cl["current"] or cl["born"] is None or fin["iterations"] - cl["born"] < settle:
            continue
        a = "%s:%d" % tuple(cl["addr"])
        sv = fin["server"].get(a)
        if cl["status"] != 2:
            ctx.failure("honest-handshake-failed", "client %s (hello sent in iteration %d of %d, nothing lost) is in status %d" %
                        (cl["name"], cl["born"], fin["iterations"], cl["status"]), {"case": case, "at": len(case) - 2})
            return
        if sv is None or sv["pool"] != "conns" or sv["key"] != cl["key"] or sv["token"] != cl["token"]:
            ctx.failure("connected-without-agreement", "client %s is CONNECTED (token %d) but the server holds %s for its address" %
                        (cl["name"], cl["token"], "nothing" if sv is None else "a connection in pool %s, token %d, %s key" %
                         (sv["pool"], sv["token"], "the same" if sv["key"] == cl["key"] else "a different")),
                        {"case": case, "at": len(case) - 2})
            return
        ctx.count("server-loop:agreed")


def run(ctx):
    real = connlib.Real()
    rng = ctx.rng
    n = ctx.scale(400, 6000)
    scripts = ["honest", "flip-client-hello", "flip-server-hello", "foreign-root", "resigned", "other-session", "wrong-token",
               "other-key-challenge", "dup-reorder", "tofu", "pinned-other", "trunc-ext", "early-app", "no-answer", "stacked", "early-send",
               "late-hello", "rekey-attempt", "lookalike"]
    cases, outputs, logs = [], {}, {}
    for i in range(n):
        script = scripts[i % len(scripts)] if i < 3 * len(scripts) else rng.choice(scripts + ["flip-server-hello"] * 4)
        cid = "x%d-%s" % (i, script)
        lines, outs, log = connlib.gen_handshake(real, rng, cid, script)
        cases.append(lines)
        outputs[cid] = outs
        logs[cid] = log
        ctx.count("script:" + script)
    connlib.run_recorded(ctx, cases, outputs, connlib.make_post_hs(post_fn), "Handshake", RULE,
                         lambda c, o: "honest" not in c[0])
    for c in cases:
        monitor(real, c, logs[core.case_id(c)], ctx)
        if ctx.failures:
            return
        # a server-side connection answers one hello: its key never changes once it has sealed a datagram under it
        if connlib.key_stability_monitor(c, logs[core.case_id(c)], ctx, endpoints=("s",)):
            return
    # ---- the same handshake through the real server loop: honest clients, a network that duplicates (also one iteration late)
    scases, souts, slogs = [], {}, {}
    for i in range(ctx.scale(40, 600)):
        cid = "sl%d" % i
        lines, outs, recs, log = serverlib.gen_server_case(real, rng, cid, n_iter=rng.choice([14, 20]), n_clients=rng.choice([1, 2, 3]),
                                                           hostile=0.0, act_p=0.0, collide=0.3, silent=0.0, leave=0.0, stop_early=0.0,
                                                           loss=0.0, dup_next=rng.choice([0.3, 0.7]), spawn=0.5, rechal=0.0)
        scases.append(lines)
        souts[cid] = outs
        slogs[cid] = log
    ctx.correspondence("Server(loop, handshakes)", "Conn", scases, lambda case: souts[core.case_id(case)],
                       lambda c, o: "connect:" in " ".join(o), RULE, minimise=False, post=serverlib.post)
    for c in scases:
        agreement_monitor(c, slogs[core.case_id(c)], ctx)
        if ctx.failures:
            return
