"""C09 - wire codec round-trips; datagrams respect the MTU; packing never fails."""
import struct

from harness import core, connlib

PROP = "C09"
LEAN_MODULES = ["MpgsModel.Props.C09"]
MODEL_MODULES = ["MpgsModel.Model.Conn", "MpgsModel.Model.ToyAead"]
NS = "Mpgs.Conn."
THEOREMS = [
    (NS + "C09_header_roundtrip", "full"),
    (NS + "C09_header_refuse", "full"),
    (NS + "C09_packet_roundtrip_crc", "full"),
    (NS + "C09_packet_roundtrip_aead", "full"),
    (NS + "C09_payload_bound", "full"),
    (NS + "C09_mtu_bound", "full"),
    (NS + "C09_conservation", "full"),
    (NS + "C09_idle_keeps_queue", "full"),
    (NS + "C09_pack_together", "full"),
    (NS + "C09_build_total", "full"),
]
# secondary tie (DESIGN 4.2): kernels regenerated from the source on every run, proved equal to the model (Props/Equiv<Group>.lean)
EQUIV = {"Header": ["Mpgs.Equiv.gen_header_to_bytes", "Mpgs.Equiv.gen_total_size", "Mpgs.Equiv.gen_to_bytes_seals", "Mpgs.Equiv.gen_from_bytes_opens"], "Size": ["Mpgs.Equiv.gen_overhead", "Mpgs.Equiv.gen_setMTU"]}
ASSUMPTIONS = [
    "AES-GCM appends a 16-byte tag and opens what it sealed (explicit hypotheses of the encrypted-form theorems)",
    "the decoded header's isServer flag denotes the receiving side (as in PacketHeader.from_bytes); all other fields round-trip",
    "C09_build_total assumes message sequence numbers < 65536 (they come from SeqNum counters) and MTU <= 65535",
]
RULE = ("(codec) headers with every field at 0/1/max-1/max/out-of-range and packets with 0,1,2,3,254,255,256 messages through the real "
        "PacketHeader/Packet encode and decode, plus truncated/extended/bit-flipped CRC datagrams; (packing) two-party histories with "
        "bursts of up to 600 empty/tiny messages per tick, boundary payload sizes, all retry modes, MTU 512..1500; compared: the bytes of "
        "every CRC datagram, every build result (none / header fields / payload digest / datagram length / error) and the queues; "
        "non-trivial = a codec case with an error outcome or a packing case that builds a multi-message packet")

EDGE = {"ct": [0, 1, 4294967295, 4294967296], "seq": [0, 1, 65535, 65536], "ack": [0, 1, 65535, 65536],
        "bits": [0, 1, 0x80000000, 0xFFFFFFFF, 0x100000000]}


def rnd_field(rng, name):
    return rng.choice(EDGE[name]) if rng.random() < 0.4 else rng.randint(0, {"ct": 2 ** 32 - 1, "seq": 65535, "ack": 65535,
                                                                              "bits": 2 ** 32 - 1}[name])


def gen_codec_case(rng, cid):
    lines = ["case %s" % cid]
    for _ in range(rng.randint(4, 14)):
        srv = rng.randint(0, 1)
        f = dict(ct=rnd_field(rng, "ct"), seq=rnd_field(rng, "seq"), ack=rnd_field(rng, "ack"), bits=rnd_field(rng, "bits"))
        ty = rng.randint(0, 7)
        r = rng.random()
        if r < 0.3:
            ln = rng.choice([0, 1, 65535, 65536, rng.randint(0, 70000)])
            cnt = rng.choice([0, 1, 255, 256, rng.randint(0, 300)])
            lines.append("henc srv=%d ct=%d ty=%d seq=%d ack=%d bits=%d len=%d cnt=%d" % (srv, f["ct"], ty, f["seq"], f["ack"], f["bits"], ln, cnt))
        else:
            n = rng.choice([0, 1, 1, 2, 3, 3, 127, 128, 129, 200, 254, 255, 256]) if rng.random() < 0.85 else rng.randint(4, 40)
            msgs = []
            bad_at = rng.randrange(n) if (n and rng.random() < 0.1) else -1      # one out-of-range message number in a tenth of the packets
            for i in range(n):
                ms = rng.choice([0, 1, 65535, rng.randint(0, 65535)])
                if i == bad_at:
                    ms = 65536
                pl = connlib.lcg_bytes(rng.choice([0, 0, 1, 2, 5, 20]) if n > 3 else rng.choice([0, 1, 2, 7, 100, 1434]), rng.randint(1, 9999))
                msgs.append("%d:%d:%s" % (ms, rng.randint(0, 7), pl.hex() or "-"))
            lines.append("penc srv=%d ct=%d ty=%d seq=%d ack=%d bits=%d msgs=%s" % (srv, f["ct"] % 2 ** 32, ty, f["seq"] % 65536, f["ack"] % 65536,
                                                                                     f["bits"] % 2 ** 32, ";".join(msgs) or "-"))
            lines.append("?pdec %d %s" % (1 - srv, rng.choice(["ok", "ok", "ok", "flip", "trunc", "ext", "wrongdir", "count", "length"])))
    lines.append("end")
    return lines


class Codec:
    """real PacketHeader / Packet on the codec ops; expands the '?pdec' placeholders using the real encoder's bytes"""

    def __init__(self, real):
        self.real = real
        self.C = real.C

    def expand(self, case, rng):
        C = self.C
        out = []
        last = None
        for line in case:
            w = line.split()
            if w and w[0] == "penc":
                out.append(line)
                r = self.exec(line)
                last = bytes.fromhex(r.split("d=")[1]) if r.startswith("ok") else None
            elif w and w[0] == "?pdec":
                if last is None:
                    continue
                d = last
                srv, how = int(w[1]), w[2]
                if how == "flip":
                    k = rng.randrange(len(d) * 8)
                    d = d[:k // 8] + bytes([d[k // 8] ^ (1 << (k % 8))]) + d[k // 8 + 1:]
                elif how == "trunc":
                    d = d[:rng.randrange(len(d))]
                elif how == "ext":
                    d = d + bytes(rng.getrandbits(8) for _ in range(rng.randint(1, 8)))
                elif how == "wrongdir":
                    srv = 1 - srv
                elif how == "count" and len(d) >= 20:
                    body = d[:15] + bytes([rng.choice([0, 1, 2, 3, 255])]) + d[16:-4]
                    d = body + struct.pack(">L", self.real.crypto.crc32(body))
                elif how == "length" and len(d) >= 20:
                    body = d[:13] + struct.pack(">H", rng.choice([0, 1, max(0, len(d) - 25), (len(d) - 23) & 0xFFFF, 65535])) + d[15:-4]
                    d = body + struct.pack(">L", self.real.crypto.crc32(body))
                out.append("pdec srv=%d d=%s" % (srv, d.hex() or "-"))
            else:
                out.append(line)
        return out

    def exec(self, line):
        C = self.C
        w = line.split()
        kv = dict(x.split("=", 1) for x in w[1:] if "=" in x)
        try:
            if w[0] == "henc":
                h = C.PacketHeader.create(kv["srv"] == "1", int(kv["ct"]), C.PacketType(int(kv["ty"])), int(kv["seq"]), int(kv["ack"]),
                                          int(kv["bits"]))
                h.length, h.count = int(kv["len"]), int(kv["cnt"])
                return "ok:" + h.to_bytes().hex()
            if w[0] == "hdec":
                h = C.PacketHeader.from_bytes(kv["srv"] == "1", bytes.fromhex(kv["d"]))
                return "ok " + self.show_hdr(h)
            if w[0] == "penc":
                h = C.PacketHeader.create(kv["srv"] == "1", int(kv["ct"]), C.PacketType(int(kv["ty"])), int(kv["seq"]), int(kv["ack"]),
                                          int(kv["bits"]))
                msgs = []
                if kv["msgs"] != "-":
                    for m in kv["msgs"].split(";"):
                        a, b, c = m.split(":")
                        msgs.append(C.PendingMessage(int(a), C.PacketType(int(b)), b"" if c == "-" else bytes.fromhex(c), None, 0))
                p = C.Packet.create(h, msgs)
                d = p.to_bytes(None)
                return "ok len=%d cnt=%d d=%s" % (p.hdr.length, p.hdr.count, d.hex())
            if w[0] == "pdec":
                d = b"" if kv["d"] == "-" else bytes.fromhex(kv["d"])
                try:
                    h = C.PacketHeader.from_bytes(kv["srv"] == "1", d)
                except Exception as e:
                    return "hdrerr:" + type(e).__name__
                p = C.Packet.from_bytes(h, None, d)
                ms = ";".join("%d:%d:%s" % (int(m.seq), m.type.value, m.payload.hex() or "-") for m in p.msgs) or "-"
                return "ok %s msgs=%s" % (self.show_hdr(p.hdr), ms)
        except Exception as e:
            return "err:" + type(e).__name__
        return "bad-op"

    def show_hdr(self, h):
        return "srv=%d ct=%d ty=%d seq=%d ack=%d bits=%d len=%d cnt=%d" % (1 if h.isServer else 0, h.ctime, h.pkt_type.value, int(h.seq),
                                                                            int(h.ack), h.ack_bits, h.length, h.count)

    def run_case(self, case):
        return [self.exec(l) for l in case[1:-1]]


def codec_monitor(codec, case, outs, ctx):
    """from_bytes(to_bytes(p)) returns the same header fields and messages; length/count describe the payload"""
    prev = None
    for i, (line, o) in enumerate(zip(case[1:-1], outs)):
        w = line.split()
        if w[0] == "penc":
            prev = (line, o)
            if o.startswith("ok"):
                kv = dict(x.split("=", 1) for x in w[1:] if "=" in x)
                n = 0 if kv["msgs"] == "-" else len(kv["msgs"].split(";"))
                body = bytes.fromhex(o.split("d=")[1])
                cnt = int(o.split()[2].split("=")[1])
                ln = int(o.split()[1].split("=")[1])
                if cnt != n or ln != len(body) - 24:
                    ctx.failure("length-count-mismatch", "count/length fields %d/%d do not describe %d messages / %d payload bytes" %
                                (cnt, ln, n, len(body) - 24), {"case": case, "at": i})
                    return
        elif w[0] == "pdec" and prev and prev[1].startswith("ok") and ("d=" + prev[1].split("d=")[1]) == w[2]:
            pkv = dict(x.split("=", 1) for x in prev[0].split()[1:] if "=" in x)
            if int(w[1].split("=")[1]) != 1 - int(pkv["srv"]):
                continue
            if not o.startswith("ok"):
                ctx.failure("roundtrip-refused", "decoding an unmodified encoding failed: %s" % o, {"case": case, "at": i})
                return
            dk = dict(x.split("=", 1) for x in o.split()[1:] if "=" in x)
            exp_msgs = pkv["msgs"]
            if exp_msgs != "-" and len(exp_msgs.split(";")) == 1:
                a, b, c = exp_msgs.split(":")
                exp_msgs = "%s:%s:%s" % (a, pkv["ty"], c)
            same = all(dk[k] == pkv[k] for k in ("ct", "ty", "seq", "ack", "bits")) and dk["msgs"] == exp_msgs
            if not same:
                ctx.failure("roundtrip-differs", "decode(encode(p)) != p: %s vs %s" % (o[:200], prev[0][:200]), {"case": case, "at": i})
                return


def post_fn(op, out):
    k = op.split()[0]
    if k == "sizes":
        return out
    if k in ("build", "send"):
        return out
    if k == "dump":
        return connlib.dump_fields(out, ["out", "prm", "ss", "sm"])
    if k == "recv":
        return connlib.ev_filter(out, ("dlv",))
    return None


def packing_monitor(case, log, ctx):
    mtu = 1500
    for l in case:
        if l.startswith("mtu "):
            mtu = int(l.split()[1])
    sent, delivered = {}, {}
    builds = [i for i, l in enumerate(case) if l.startswith("build ")]
    b = -1
    for rec in log:
        if rec["op"] == "build":
            b += 1
            at = builds[b] - 1 if b < len(builds) else len(case) - 2
            if "err" in rec:
                ctx.failure("build-raised", "packet construction raised %s" % rec["err"], {"case": case, "at": at})
                return
            if rec["pkt"] and rec["pkt"]["dlen"] > mtu - 28:
                ctx.failure("datagram-exceeds-mtu", "datagram of %d bytes at MTU %d (limit %d)" % (rec["pkt"]["dlen"], mtu, mtu - 28),
                            {"case": case, "at": at})
                return
        elif rec["op"] == "send" and rec["res"] == "ok" and rec["status"] == 2:
            sent.setdefault(rec["e"], []).append(rec["digest"])
        elif rec["op"] == "recv" and "ev" in rec:
            for e in rec["ev"]:
                if e.startswith("dlv:"):
                    delivered.setdefault(rec["e"], []).append(e.split(":", 2)[2])
    return sent, delivered


def gen_stall_case(real, rng, cid, n, mtu, retry):
    """n empty messages sent with a retry mode while the link is dark, then a stalled frame longer than the keep-alive interval: all of
    them are due for a resend in the same tick - the resend loop, too, must close a datagram at 255 messages"""
    lines = ["case %s" % cid]
    run = connlib.CaseRun(real, log=[], snapshots=False)

    def emit(line):
        lines.append(line)
        return run.exec(line)
    try:
        t = connlib.BASE_T
        emit("now %d" % t)
        emit("mtu %d" % mtu)
        emit("new a client")
        emit("new b server")
        for e in "ab":
            emit("set %s key=%s status=2 si=16 ka=96 ot=4096" % (e, connlib.KEY.hex()))
        seed = rng.randint(1, 10 ** 6)
        for i in range(n):
            emit("send a len=0 seed=%d retry=%d cb=-" % (seed + i, retry))
        for _ in range(3):                      # first transmissions: lost
            t += 17
            emit("build a t=%d" % t)
        t += rng.choice([120, 300])             # the stalled frame
        for _ in range(6):                      # resends: delivered, acknowledged
            o = emit("build a t=%d" % t)
            if o and o[0].startswith("pkt"):
                emit("recv b t=%d d=@a:%d" % (t, len(run.eps["a"]["emits"]) - 1))
            o = emit("build b t=%d" % t)
            if o and o[0].startswith("pkt"):
                emit("recv a t=%d d=@b:%d" % (t, len(run.eps["b"]["emits"]) - 1))
            t += 17
        emit("dump a")
    finally:
        run.close()
    lines.append("end")
    return lines


def run(ctx):
    real = connlib.Real()
    rng = ctx.rng
    codec = Codec(real)
    # ---- codec
    n = ctx.scale(150, 4000)
    ccases = [codec.expand(gen_codec_case(rng, "w%d" % i), rng) for i in range(n)]
    outs = {}

    def impl_codec(case):
        o = codec.run_case(case)
        outs.setdefault(core.case_id(case), o)      # the first run is the full case (minimisation re-runs shortened ones)
        return o
    ctx.correspondence("Wire(codec)", "Conn", ccases, impl_codec,
                       lambda c, o: any(x.startswith("err") or x.startswith("hdrerr") for x in o), RULE)
    for c in ccases:
        o = outs.get(core.case_id(c)) or codec.run_case(c)
        for x in o:
            ctx.count("codec:" + x.split()[0].split(":")[0] + (":" + x.split(":")[1].split()[0] if x.startswith(("err", "hdrerr")) else ""))
        codec_monitor(codec, c, o, ctx)
        if ctx.failures:
            return
    # ---- packing
    m = ctx.scale(40, 700)
    pcases = [connlib.sizes_case()]
    for i in range(m):
        mtu = rng.choice([1500, 1500, 512, 576, 1097, 1098, 1280, 1090, 1093, 1095, 1096])
        kind = i % 4
        if kind == 0:      # hundreds of tiny messages in one tick over a perfect link
            # every other burst consists of empty messages only, at an MTU large enough for 255 of them: the datagram is then closed by
            # the one-byte message count (255), not by its size - the 256th message must stay queued and go out in the next datagram
            empty = (i // 4) % 2 == 0
            pcases.append(connlib.gen_two_party(real, rng, "b%d" % i, mtu=rng.choice([1500, 1400, 1339, 1340]) if empty else mtu, steps=3,
                                                loss=0, dup=0, delay=0, replay=0,
                                                sizes=[0] if empty else [0, 0, 0, 1, 1, 2], retry_modes=(0, 0, 1, -1),
                                                burst=rng.choice([256, 260, 300, 600]), send_rate=0.0, dumps=0.3))
        elif kind == 1:    # boundary sizes, perfect link
            pcases.append(connlib.gen_two_party(real, rng, "s%d" % i, mtu=mtu, steps=25, loss=0, dup=0, delay=0, replay=0, dumps=0.2))
        else:              # everything, lossy
            pcases.append(connlib.gen_two_party(real, rng, "p%d" % i, mtu=mtu, steps=40, dumps=0.2,
                                                sizes=(connlib.size_pool(mtu) + connlib.SMALL * 3)))
    for j, nmsg in enumerate(ctx.scale([256, 300], [255, 256, 257, 300, 511, 600])):
        for retry in (1, -1):
            pcases.append(gen_stall_case(real, rng, "st%d_%d" % (j, retry + 1), nmsg, rng.choice([1500, 1400]), retry))
    real2 = connlib.Real()
    logs, bad = connlib.run_cases(ctx, real2, pcases, connlib.make_post(post_fn), "Conn(build/packing)", RULE,
                                  lambda c, o: any(" count=" in x and int(x.split("count=")[1].split()[0]) > 1 for x in o))
    lost = 0
    for c in pcases:
        log = logs.get(core.case_id(c), [])
        r = packing_monitor(c, log, ctx)
        if ctx.failures:
            return
        if r and c[0].split()[1][0] in "bs":
            # perfect link + healed tail: nothing may be lost on the way from the queue into datagrams
            sent, delivered = r
            for e, peer in (("a", "b"), ("b", "a")):
                # as multisets: equal payloads (hundreds of empty messages) are different messages
                import collections
                miss = collections.Counter(sent.get(e, [])) - collections.Counter(delivered.get(peer, []))
                missing = list(miss.elements())
                if missing:
                    ctx.failure("queued-message-never-sent", "%d of %d message(s) queued by %s over a perfect link never reached the peer "
                                "(first: %s, %d copies short)" % (len(missing), len(sent.get(e, [])), e, missing[0], miss[missing[0]]),
                                {"case": c, "at": len(c) - 2})
                    return
        for rec in log:
            if rec["op"] == "build" and rec.get("pkt"):
                ctx.count("pkt:count=%s" % ("0" if rec["pkt"]["count"] == 0 else "1" if rec["pkt"]["count"] == 1 else "2-254"
                                             if rec["pkt"]["count"] < 255 else "255"))
