"""C14 - deserializing hostile bytes is safe and bounded: correspondence of the decoder of
Model/Serial.lean with mpgameserver deserialize_value / loadb on hostile byte strings (result
class, value, bytes consumed, cost count) and the monitor (time bound, tracemalloc, cost bound,
only-registered-types) on the real code."""
import signal
import struct
import time
import tracemalloc
from io import BytesIO

from harness import core
from harness.props import c13 as base

PROP = "C14"
LEAN_MODULES = ["MpgsModel.Props.C14"]
MODEL_MODULES = ["MpgsModel.Model.Serial"]
NS = "Mpgs.Serial."
THEOREMS = [
    (NS + "C14_total", "full"),
    (NS + "C14_ok_well_typed", "full"),
    (NS + "C14_cost_accounting", "full"),
    (NS + "C14_reparse_zero", "full"),
    (NS + "C14_cost_linear_partial", "partial"),
    (NS + "C14_cost_consumed", "full"),
    (NS + "C14_cost_server", "full"),
    (NS + "C14_server_never_verifies", "full"),
    (NS + "C14_clientHello_fixed_size", "full"),
    (NS + "C14_handshake_server", "full"),
]
ASSUMPTIONS = base.ASSUMPTIONS + [
    "cost model: one unit per deserialize_value call, per byte returned by stream.read and per declared field of "
    "an instance constructed; compared with the same three counters taken on the real code on every run; real "
    "allocation and timing are CPython's and only observed (tracemalloc / process CPU time, reported in notes)",
    "CPython's recursion limit (RecursionError at a few hundred nesting levels) is outside the model; the model "
    "decodes arbitrarily deep input; the nesting-bomb stream is checked on the real code only",
    "cost is linear in input + re-parsed bytes (C14_cost_accounting, every environment); re-parsed = 0 when the decode has "
    "no server_public_key keyword (every server-side decode) or no signature verifies (C14_reparse_zero); a client that "
    "accepts the root key sent in the message re-parses the signed payload of nested ServerHello messages "
    "(cost = bytes x nesting depth, depth <= bytes/170 and <= CPython's recursion limit): linearity in the input alone is partial",
]
RULE = ("byte strings: random, every truncation and every single-bit flip of a corpus of valid encodings (random values of "
        "the grammar, the three handshake messages), crafted maximal / negative / non-integer length fields, unknown type "
        "ids, field-count attacks, key-collision sets and dicts, nesting to depth 100, ServerHello with absent / None / "
        "pre-shared key and nested attacker-signed payloads; real loadb vs Lean decode compared as exception class or "
        "canonical value + bytes consumed + cost count; non-trivial = an error other than a short header, or a value")


class Hang(BaseException):
    pass


def _alarm(signum, frame):
    raise Hang()


def bounded(fn, seconds=10.0):
    """run fn() under a CPU-time bound; raises Hang"""
    # CPU time of this process, not wall-clock time (robust on a loaded machine)
    old = signal.signal(signal.SIGVTALRM, _alarm)
    signal.setitimer(signal.ITIMER_VIRTUAL, seconds)
    try:
        return fn()
    finally:
        signal.setitimer(signal.ITIMER_VIRTUAL, 0)
        signal.signal(signal.SIGVTALRM, old)


# ------------------------------------------------------------------------------------------
# corpus and hostile streams
# ------------------------------------------------------------------------------------------

def i8(n):
    return b"\x00\x03" + struct.pack(">b", n)


def i16(n):
    return b"\x00\x04" + struct.pack(">h", n)


def i32(n):
    return b"\x00\x05" + struct.pack(">l", n)


def i64(n):
    return b"\x00\x06" + struct.pack(">q", n)


def tag(t):
    return struct.pack(">H", t)


NULL = b"\x00\x0f"


def enc_int(n):
    a = abs(n)
    return i64(n) if a > 0x7FFFFFFF else i32(n) if a > 0x7FFF else i16(n) if a > 0x7F else i8(n)


def enc_bytes(b):
    """the documented encoding of a bytes value, built here (independent of the encoder under test)"""
    return tag(14) + enc_int(len(b)) + b


def handshake_corpus(R):
    """valid encodings of the three handshake messages + the keyword each needs"""
    K = R.K
    out = []
    ch = R.hello()
    ch.client_pubkey = K.EllipticCurvePrivateKey.new().getPublicKey()
    ch.client_version = 1
    with base.Instr(R):
        out.append(("clienthello", ch.dumpb(), "k=nokw"))
    root = base.root_key(R)
    sh = R.shello()
    sh.server_pubkey = K.EllipticCurvePrivateKey.new().getPublicKey()
    sh.salt = b"0123456789abcdef"
    sh.token = 0x12345678
    b = sh.dumpb(server_root_key=root)
    out.append(("serverhello-none", b, "k=none"))
    out.append(("serverhello-preshared", b, "k=" + root.getPublicKey().getBytes().hex()))
    out.append(("serverhello-wrongkey", b, "k=" + K.EllipticCurvePrivateKey.new().getPublicKey().getBytes().hex()))
    out.append(("serverhello-nokw", b, "k=nokw"))
    cr = R.chal()
    cr.token = 0x12345678
    out.append(("challenge", cr.dumpb(), "k=nokw"))
    return out


def nested_serverhello(R, depth, signer=None):
    """attacker-signed ServerHello whose payload's first value is again a ServerHello"""
    K = R.K
    key = signer or K.EllipticCurvePrivateKey.new()
    pub = key.getPublicKey().getBytes()
    tid = R.shello.type_id
    inner = enc_bytes(K.EllipticCurvePrivateKey.new().getPublicKey().getBytes())
    for _ in range(depth):
        payload = inner + enc_bytes(b"salt") + enc_int(7)
        sig = key.sign(payload)
        inner = tag(tid) + enc_bytes(pub) + enc_bytes(payload) + enc_bytes(sig)
    return inner


def flood(R, kind, n_keys):
    """a map / set whose keys are chains of nested enum values over the registered enum classes, all ending in the same innermost
    value: every key has the same hash (an enum hashes as its value)"""
    S = R.S
    enums = sorted((c for c in S.SerializableType.registry.values() if isinstance(c, type) and issubclass(c, S.SerializableEnum)),
                   key=lambda c: c.type_id)[:6]
    ids = [tag(c.type_id) for c in enums]
    depth = 1
    while len(ids) ** depth < n_keys:
        depth += 1
    body = b""
    for i in range(n_keys):
        k, x = b"", i
        for _ in range(depth):
            k += ids[x % len(ids)]
            x //= len(ids)
        body += k + i8(1) + (NULL if kind == "map" else b"")
    return tag(17 if kind == "map" else 18) + i16(n_keys) + body


def hello_chain(R, n):
    """a sequence of n client hellos, the first n-2 of them 'greedy': in the place of the integer version they carry a sequence of three
    values - a filler that ends exactly where the padding of that hello would end, and the two values that follow it in the stream (the
    next two hellos) - so that the padding still to be read after the version field is negative.  A decoder that only ever reads forward
    refuses the innermost greedy hello at once; one that seeks backwards by the negative amount decodes every hello again and again"""
    C = R.C
    body_len = C.Packet.MAX_PAYLOAD_SIZE - 2 - C.PacketHeader.SIZE - 2
    der = R.K.EllipticCurvePrivateKey.new().getPublicKey().getBytes()
    hid = tag(R.hello.type_id)
    key = enc_bytes(der)
    plain = key + i8(1)
    plain = hid + plain + b"\xa5" * (body_len - len(plain))
    g = key + tag(16) + i8(3)
    fill = body_len - len(g) - 6
    g = hid + g + tag(14) + i16(fill) + b"\x5a" * fill
    return tag(16) + i16(n) + g * (n - 2) + plain * 2


def scaling_monitor(R, ctx):
    """work grows with the size of the input, not with its square: for crafted families the CPU time of decoding an input of twice the
    size is at most about twice as long (keys with one common hash in maps and sets; long flat sequences as the control)"""
    families = [("flood-map", lambda n: flood(R, "map", n)), ("flood-set", lambda n: flood(R, "set", n)),
                ("flat-seq", lambda n: tag(16) + i16(n) + i8(1) * n)]
    if hasattr(R, "C"):
        # the type id of a registered class that uses the default deserialize, d times over, then a well-formed innermost body: every
        # level finds an OBJECT where its field count should be - refused at once by a decoder that reads forward only
        ctid = R.C.HandshakeClientChallengeResponseMessage.type_id
        families.append(("count-chain", lambda n: tag(ctid) * max(4, n // 125) + i8(1) + i8(7)))      # depth 12, 24 (thorough: 16, 32, 64)
    if hasattr(R, "hello") and hasattr(R, "C"):
        families.append(("hello-chain", lambda n: hello_chain(R, max(4, n // 125))))      # 12, 24 (thorough: 16, 32, 64) hellos
    for name, make in families:
        rows = []
        for n in ctx.scale([1500, 3000], [2000, 4000, 8000]):
            data = make(n)
            t0 = time.process_time()
            try:
                bounded(lambda: R.S.Serializable.loadb(data), 60.0)
            except Hang:
                ctx.failure("hang", "decoding %d bytes (%s, %d keys) did not finish within 60 s of CPU time" % (len(data), name, n),
                            {"case": ["case mon", R.reg_line, "dec big"], "at": 1, "label": name, "bytes": len(data), "keys": n})
                return
            except Exception:
                pass
            rows.append((n, len(data), time.process_time() - t0))
        ctx.count("input:" + name, len(rows))
        for (n1, b1, d1), (n2, b2, d2) in zip(rows, rows[1:]):
            if d2 > 0.6 and d2 > 3.0 * d1 + 0.2:
                ctx.failure("superlinear", "%s: decoding %d keys (%d bytes) took %.2f s of CPU time, %d keys (%d bytes) took %.2f s: doubling the "
                            "input multiplied the work by %.1f - %s" %
                            (name, n1, b1, d1, n2, b2, d2, d2 / max(d1, 1e-9),
                             "the decoder goes over the same bytes again and again (harness/props/c14.py, family %s)" % name if name in ("hello-chain", "count-chain")
                             else "the keys share one hash and every insertion compares with all earlier ones"),
                            {"case": ["case mon", R.reg_line, "dec big"], "at": 1, "label": name, "bytes": b2, "keys": n2,
                             "how": "harness/props/c14.py flood(R, kind, n_keys)"})
                return
        ctx.notes.setdefault("scaling", {})[name] = [{"keys": n, "bytes": b, "cpu_s": round(d, 3)} for n, b, d in rows]


def crafted(R):
    """(label, bytes, kw)"""
    S = R.S
    out = []
    big = [2 ** 14, 2 ** 14 + 1, 2 ** 20, 2 ** 20 + 1, 2 ** 31 - 1, 2 ** 63 - 1]
    for t, name in [(13, "str"), (14, "bytes"), (16, "seq"), (17, "map"), (18, "set")]:
        for n in big:
            enc = i32(n) if n < 2 ** 31 else i64(n)
            out.append(("len-max-%s" % name, tag(t) + enc + b"ab" * 3, ""))
            out.append(("len-max-%s-null" % name, tag(t) + enc + NULL * 40, ""))
        for n in [-1, -2, -128, -2 ** 31, -2 ** 63]:
            enc = i8(n) if n >= -128 else (i32(n) if n >= -2 ** 31 else i64(n))
            out.append(("len-neg-%s" % name, tag(t) + enc + b"hello\x00\x0f", ""))
        # non-integer lengths: null, str, float, bytes, list, bool, enum, unsigned tags
        for lbl, enc in [("null", NULL), ("str", tag(13) + i8(1) + b"3"), ("float", tag(11) + b"\x40\x00\x00\x00"),
                         ("f64", tag(12) + struct.pack(">d", 2.0)), ("bytes", tag(14) + i8(1) + b"\x02"),
                         ("list", tag(16) + i8(1) + i8(2)), ("true", tag(1) + b"\x01"), ("true2", tag(1) + b"\x07"),
                         ("false", tag(1) + b"\x00"), ("u8", tag(8) + b"\x02"), ("u16", tag(9) + b"\x00\x02"),
                         ("u32", tag(10) + b"\x00\x00\x00\x02"), ("u32big", tag(10) + b"\xff\xff\xff\xff"),
                         ("enum", tag(R.enums[0].type_id) + i8(1))]:
            out.append(("len-%s-%s" % (lbl, name), tag(t) + enc + b"ab" + NULL * 3 + b"\xc3\xa9", ""))
    # boundaries of the length checks with the bytes present / absent
    out.append(("seq-16384-present", tag(16) + i16(2 ** 14) + NULL * 2 ** 14, ""))
    out.append(("seq-16384-short", tag(16) + i16(2 ** 14) + NULL * (2 ** 14 - 1), ""))
    out.append(("seq-16385", tag(16) + i16(2 ** 14 + 1) + NULL * (2 ** 14 + 1), ""))
    out.append(("str-2^20-present", tag(13) + i32(2 ** 20) + b"a" * 2 ** 20, ""))
    out.append(("str-2^20+1", tag(13) + i32(2 ** 20 + 1) + b"a" * (2 ** 20 + 1), ""))
    out.append(("bytes-2^20-short", tag(14) + i32(2 ** 20) + b"a" * 100, ""))
    # compressed encodings (what dumpz writes): `loadb` is the decoder the server runs on unauthenticated bytes and must not inflate them -
    # the gzip magic 1f 8b is an unknown type id; the plain text of the last two is a legal 1 MiB value behind about 1 kB of input
    import gzip as _gzip
    for lbl, plain in [("gzip-small", enc_bytes(b"abc")), ("gzip-seq", tag(16) + i8(3) + NULL * 3),
                       ("gzip-bomb-bytes", tag(14) + i32(2 ** 20) + b"\x00" * 2 ** 20),
                       ("gzip-bomb-str", tag(13) + i32(2 ** 20) + b"a" * 2 ** 20)]:
        out.append((lbl, _gzip.compress(plain, mtime=0), ""))
    # unknown / reserved type ids
    for t in [0, 2, 7, 19, 20, 127, 255, 999, 65535, max(t for t in S.SerializableType.registry if t < 60000) + 1]:
        out.append(("unknown-id", tag(t) + b"\x00" * 8, ""))
        out.append(("unknown-id-nested", tag(16) + i8(2) + NULL + tag(t) + b"\x00" * 4, ""))
    # every builtin id with 0..9 bytes of payload
    for t in list(range(0, 20)):
        for n in range(0, 10):
            out.append(("builtin-short", tag(t) + bytes(range(1, n + 1)), ""))
    # UTF-8: overlong, surrogate, truncated, > U+10FFFF, valid 4-byte
    for s in [b"\xc0\x80", b"\xed\xa0\x80", b"\xe2\x82", b"\xf4\x90\x80\x80", b"\xf0\x9f\x98\x80", b"\xff", b"\xc3\xa9",
              b"\xe0\x80\x80", b"\xf0\x80\x80\x80", b"\xef\xbf\xbf", b"\xed\x9f\xbf", b"\xee\x80\x80", b"\xf4\x8f\xbf\xbf",
              b"\xc2", b"a\x80"]:
        out.append(("utf8", tag(13) + i8(len(s)) + s + b"zz", ""))
    # field-count attacks on registered classes
    for cls in R.classes + [R.chal]:
        t = tag(cls.type_id)
        k = len(cls._fields)
        for n in [0, 1, k - 1, k, k + 1, 127, -1]:
            if -128 <= n <= 127:
                out.append(("fields-%d-of-%d" % (n, k), t + i8(n) + i8(5) * (max(n, 0) + 1), ""))
        out.append(("fields-huge", t + i64(2 ** 63 - 1) + i8(5) * (k + 2), ""))
        out.append(("fields-huge-short", t + i64(2 ** 63 - 1) + i8(5), ""))
        out.append(("fields-nonint", t + NULL + i8(5), ""))
        out.append(("fields-bool", t + tag(1) + b"\x01" + i8(5), ""))
        out.append(("fields-float", t + tag(11) + b"\x3f\x80\x00\x00" + i8(5), ""))
    # enums carrying arbitrary values
    for cls in R.enums:
        t = tag(cls.type_id)
        for enc in [i8(1), i8(99), NULL, tag(16) + i8(1) + i8(1), tag(13) + i8(3) + b"red", t + i8(1), b"", b"\x00"]:
            out.append(("enum-any", t + enc, ""))
    # key collisions in sets and dicts
    e1 = tag(R.enums[0].type_id)
    es = tag(R.enums[1].type_id)
    items = {
        "int-bool": [i8(1), tag(1) + b"\x01"], "bool-int": [tag(1) + b"\x01", i8(1)],
        "int-float": [i8(1), tag(11) + b"\x3f\x80\x00\x00"], "float-f64": [tag(11) + b"\x3f\x80\x00\x00", tag(12) + struct.pack(">d", 1.0)],
        "zero-negzero": [tag(11) + b"\x00\x00\x00\x00", tag(11) + b"\x80\x00\x00\x00", i8(0)],
        "nan-nan": [tag(11) + b"\x7f\xc0\x00\x00", tag(11) + b"\x7f\xc0\x00\x00"],
        "inf-314159": [tag(11) + b"\x7f\x80\x00\x00", i32(314159)], "enum-inf-314159": [e1 + tag(11) + b"\x7f\x80\x00\x00", i32(314159)],
        "enum-raw": [e1 + i8(1), i8(1)], "raw-enum": [i8(1), e1 + i8(1)], "enum-enum": [e1 + i8(1), e1 + i8(1)],
        "enum-enum-other": [e1 + i8(1), tag(R.enums[3].type_id) + i8(1)], "enum-other-val": [e1 + i8(1), i8(2)],
        "enum-neg1-neg2": [e1 + i8(-1), i8(-2)], "neg1-neg2": [i8(-1), i8(-2)],
        "enum-0-P61": [e1 + i8(0), i64(2 ** 61 - 1)], "zero-P61": [i8(0), i64(2 ** 61 - 1)],
        "enum-empty-zero": [es + tag(13) + i8(0), i8(0)], "empty-str-bytes": [tag(13) + i8(0), tag(14) + i8(0)],
        "str-bytes": [tag(13) + i8(1) + b"a", tag(14) + i8(1) + b"a"], "enum-str-bytes": [es + tag(13) + i8(1) + b"a", tag(14) + i8(1) + b"a"],
        "enum-none-const": [e1 + NULL, i64(4238894112)], "none-const": [NULL, i64(4238894112)],
        "half-2^60": [tag(11) + b"\x3f\x00\x00\x00", i64(2 ** 60)], "enum-half-2^60": [e1 + tag(11) + b"\x3f\x00\x00\x00", i64(2 ** 60)],
        "nested-enum": [e1 + e1 + i8(1), e1 + i8(1)], "nested-enum-same": [e1 + e1 + i8(1), e1 + e1 + i8(1)],
        "unhashable-list": [i8(1), tag(16) + i8(0)], "unhashable-dict": [tag(17) + i8(0)], "unhashable-set": [tag(18) + i8(0)],
        "enum-unhashable": [e1 + tag(16) + i8(0)], "object-key": [tag(R.classes[0].type_id) + i8(0), tag(R.classes[0].type_id) + i8(0)],
        "dup-str": [tag(13) + i8(2) + b"ab", tag(13) + i8(2) + b"ab", tag(13) + i8(2) + b"ac"],
        "big-floats": [tag(12) + struct.pack(">d", 1e300), tag(12) + struct.pack(">d", 1e300), tag(12) + struct.pack(">d", 2.0 ** 70), i64(2 ** 62)],
        "denormal": [tag(11) + b"\x00\x00\x00\x01", tag(12) + struct.pack(">d", 2.0 ** -149), tag(12) + struct.pack(">d", 5e-324)],
    }
    for lbl, its in items.items():
        out.append(("set-" + lbl, tag(18) + i8(len(its)) + b"".join(its), ""))
        out.append(("map-" + lbl, tag(17) + i8(len(its)) + b"".join(x + i8(i) for i, x in enumerate(its)), ""))
        out.append(("map-short-" + lbl, tag(17) + i8(len(its) + 1) + b"".join(x + i8(i) for i, x in enumerate(its)), ""))
    # nesting (the model has no recursion limit: differential only to depth 100)
    for d in [1, 5, 30, 100]:
        out.append(("nest-seq", (tag(16) + i8(1)) * d + NULL, ""))
        out.append(("nest-seq-open", (tag(16) + i8(1)) * d, ""))
        out.append(("nest-map", (tag(17) + i8(1) + i8(1)) * d + NULL, ""))
        out.append(("nest-set-unhashable", (tag(18) + i8(1)) * d + NULL, ""))
        nest = [c for c in R.classes if c.__name__ == "VgNest"][0]
        out.append(("nest-object", (tag(nest.type_id) + i8(1)) * d + NULL, ""))
        out.append(("nest-enum", tag(R.enums[0].type_id) * d + i8(1), ""))
        out.append(("nest-strlen", tag(13) * d + i8(1) + b"abc", ""))
    # handshake specifics
    ch, sh = tag(R.hello.type_id), tag(R.shello.type_id)
    key = R.K.EllipticCurvePrivateKey.new().getPublicKey().getBytes()
    kenc = enc_bytes(key)
    pad = R.pad_target
    body = kenc + i8(1)
    for kw in ["k=nokw", "k=none"]:
        for delta in [-2, -1, 0, 1, 2]:
            out.append(("ch-pad%+d" % delta, ch + body + b"\xab" * (pad - len(body) + delta), kw))
        out.append(("ch-nopad", ch + body, kw))
        out.append(("ch-key-notbytes", ch + i8(5) + i8(1) + b"\x00" * pad, kw))
        out.append(("ch-key-str", ch + tag(13) + i8(3) + b"abc" + i8(1) + b"\x00" * pad, kw))
        out.append(("ch-key-garbage", ch + tag(14) + i8(4) + b"\x30\x03\x02\x01" + i8(1) + b"\x00" * pad, kw))
        out.append(("ch-version-list", ch + kenc + tag(16) + i8(2) + i8(1) + i8(2) + b"\x00" * pad, kw))
        big_ver = tag(14) + i16(pad + 10) + b"\x01" * (pad + 10)
        out.append(("ch-oversize", ch + kenc + big_ver + b"\x00" * 10, kw))
        out.append(("ch-nested-in-seq", tag(16) + i8(2) + ch + body + b"\xab" * (pad - len(body)) + NULL, kw))
        out.append(("sh-garbage", sh + kenc + tag(14) + i8(3) + b"abc" + tag(14) + i8(2) + b"xx", kw))
        out.append(("sh-payload-notbytes", sh + kenc + i8(3) + tag(14) + i8(2) + b"xx", kw))
        out.append(("sh-sig-notbytes", sh + kenc + tag(14) + i8(3) + b"abc" + NULL, kw))
        out.append(("sh-root-notbytes", sh + NULL + tag(14) + i8(3) + b"abc" + tag(14) + i8(2) + b"xx", kw))
        out.append(("sh-short", sh + kenc, kw))
    return out


def signed_cases(R):
    """ServerHello messages with valid (attacker) signatures: inner payload variants and nesting"""
    K = R.K
    out = []
    key = K.EllipticCurvePrivateKey.new()
    pub = enc_bytes(key.getPublicKey().getBytes())
    sh = tag(R.shello.type_id)
    inner_key = enc_bytes(K.EllipticCurvePrivateKey.new().getPublicKey().getBytes())
    payloads = {
        "ok": inner_key + enc_bytes(b"salt") + i32(77777),
        "empty": b"",
        "short": inner_key,
        "short2": inner_key + enc_bytes(b"salt"),
        "key-notbytes": i8(1) + NULL + NULL,
        "key-garbage": enc_bytes(b"\x30\x00") + NULL + NULL,
        "anything": inner_key + tag(16) + i8(2) + NULL + i8(4) + tag(17) + i8(0),
        "trailing": inner_key + NULL + NULL + b"trailing bytes are ignored",
        "unknown-id": inner_key + tag(999) + NULL,
    }
    for lbl, p in payloads.items():
        sig = key.sign(p)
        msg = sh + pub + enc_bytes(p) + enc_bytes(sig)
        for kw in ["k=none", "k=nokw", "k=" + key.getPublicKey().getBytes().hex()]:
            out.append(("sh-signed-" + lbl, msg, kw))
        out.append(("sh-signed-trunc-" + lbl, msg[:-1], "k=none"))
    for d in [1, 2, 3, 5]:
        out.append(("sh-nested-%d" % d, nested_serverhello(R, d, key), "k=none"))
        out.append(("sh-nested-%d" % d, nested_serverhello(R, d, key), "k=nokw"))
    return out


def mutations(rng, data, max_trunc, max_flip):
    """every truncation and every single-bit flip when small, an even sample otherwise"""
    out = []
    n = len(data)
    cuts = range(n) if n <= max_trunc else sorted(set(list(range(0, min(n, 140))) + rng.sample(range(n), max_trunc - 140)))
    for c in cuts:
        out.append(("trunc", data[:c]))
    bits = n * 8
    idx = range(bits) if bits <= max_flip else sorted(set(list(range(0, min(bits, 960))) + rng.sample(range(bits), max_flip - 960)))
    for b in idx:
        m = bytearray(data)
        m[b // 8] ^= 1 << (7 - b % 8)
        out.append(("flip", bytes(m)))
    return out


# ------------------------------------------------------------------------------------------
# monitor on the real (unpatched) code
# ------------------------------------------------------------------------------------------

class Monitor:
    def __init__(self, R, ctx):
        self.R, self.ctx = R, ctx
        self.max_fields = max([len(c._fields) for c in R.S.SerializableType.registry.values()
                               if isinstance(c, R.S.SerializableType)] + [4])
        self.A = 8 + self.max_fields
        self.worst_time = (0.0, 0, "")
        self.worst_mem = (0.0, 0, "")
        self.worst_cost = (0.0, 0, "")
        self.K_TIME = 200e-6      # seconds per input byte (generous: CPython, crypto calls included)
        self.C_TIME = 1.0
        self.K_MEM = 400          # bytes of peak traced allocation per input byte
        self.C_MEM = 1024 * 1024   # CPython frames of a recursion up to the recursion limit

    def allowed_types(self, v, depth=0):
        """a decoded value consists of builtin types and instances of registered classes only"""
        R = self.R
        S = R.S
        t = type(v)
        if v is None or t in (bool, int, float, str, bytes):
            return True
        if t is list or t is tuple:   # tuples only as untouched class defaults
            return all(self.allowed_types(x, depth + 1) for x in v)
        if t is set:
            return all(self.allowed_types(x, depth + 1) for x in v)
        if t is dict:
            return all(self.allowed_types(k, depth + 1) and self.allowed_types(x, depth + 1) for k, x in v.items())
        if S.SerializableType.registry.get(getattr(t, "type_id", None)) is t:
            if isinstance(v, S.SerializableEnum):
                return self.allowed_types(v.value, depth + 1)
            if isinstance(v, (R.hello, R.shello)):
                return True
            return all(self.allowed_types(getattr(v, f), depth + 1) for f in v._fields)
        return False

    def check(self, label, data, kw, trace_mem):
        """one hostile input on the real code; True if a failure was reported"""
        R, ctx = self.R, self.ctx
        kwargs = {}
        if kw.startswith("k=") and kw != "k=nokw":
            kwargs["server_public_key"] = None if kw == "k=none" else \
                R.K.EllipticCurvePublicKey.fromBytes(bytes.fromhex(kw[2:]))
        rep = {"case": ["case mon", R.reg_line, "dec %s %s" % (base.hx(data) if len(data) < 6000 else "big", kw)], "at": 1,
               "label": label, "bytes": len(data)}
        n = len(data)
        if trace_mem:
            tracemalloc.start()
            tracemalloc.reset_peak()
            base_mem = tracemalloc.get_traced_memory()[0]
        t0 = time.process_time()
        outcome = None
        try:
            v = bounded(lambda: R.S.Serializable.loadb(data, **kwargs), 20.0)
            outcome = ("ok", v)
        except Hang:
            if trace_mem:
                tracemalloc.stop()
            ctx.failure("hang", "decoding %d bytes (%s) did not finish within 20 s of CPU time" % (n, label), rep)
            return True
        except Exception as e:
            outcome = ("err", e)
        except BaseException as e:   # SystemExit, KeyboardInterrupt, GeneratorExit: not ordinary
            if trace_mem:
                tracemalloc.stop()
            ctx.failure("non-ordinary-exception", "decoding raised %r" % (e,), rep)
            return True
        dt = time.process_time() - t0
        if trace_mem:
            peak = tracemalloc.get_traced_memory()[1] - base_mem
            tracemalloc.stop()
            if peak / max(n, 1) > self.worst_mem[0] and n >= 64:
                self.worst_mem = (peak / n, n, label)
            if peak > self.K_MEM * n + self.C_MEM:
                ctx.failure("allocation", "peak allocation %d bytes for %d input bytes (%s)" % (peak, n, label), rep)
                return True
        if dt / max(n, 1) > self.worst_time[0] and n >= 64:
            self.worst_time = (dt / n, n, label)
        if dt > self.K_TIME * n * (4 if trace_mem else 1) + self.C_TIME:
            ctx.failure("time", "decoding %d bytes took %.3f s (%s)" % (n, dt, label), rep)
            return True
        if outcome[0] == "ok":
            ctx.count("monitor:ok")
            if not self.allowed_types(outcome[1]):
                ctx.failure("foreign-type", "decoded value contains a type that is neither builtin nor registered (%s)" % label, rep)
                return True
        else:
            ctx.count("monitor:" + base.ename(R, outcome[1]))
            if isinstance(outcome[1], (MemoryError,)):
                ctx.failure("memory-error", "decoding %d bytes raised MemoryError (%s)" % (n, label), rep)
                return True
        return False

    def check_cost(self, label, data, kw):
        """the theorem's bound, evaluated with the counters on the real code (server-side decodes)"""
        R, ctx = self.R, self.ctx
        kwargs = {}
        if kw.startswith("k=") and kw != "k=nokw":
            kwargs["server_public_key"] = None if kw == "k=none" else \
                R.K.EllipticCurvePublicKey.fromBytes(bytes.fromhex(kw[2:]))
        with base.Instr(R) as ins:
            stream = ins.stream_cls(data)
            try:
                R.S.Serializable.loadb(stream, **kwargs)
            except RecursionError:
                pass
            except Exception:
                pass
            cost = ins.cost()
            re = ins.reparsed
        n = len(data)
        if n >= 16 and cost / n > self.worst_cost[0]:
            self.worst_cost = (cost / n, n, label)
        if not kwargs and re != 0:
            ctx.failure("reparse", "a decode without the server_public_key keyword parsed %d bytes twice (%s)" % (re, label),
                        {"case": ["case mon", R.reg_line, "dec %s %s" % (base.hx(data) if n < 6000 else "big", kw)], "at": 1})
            return True
        if cost > self.A * (n + re) + 1:
            ctx.failure("cost", "decoder requested %d units for %d input bytes + %d re-parsed (bound %d*(n+r)+1) (%s)"
                        % (cost, n, re, self.A, label),
                        {"case": ["case mon", R.reg_line, "dec %s %s" % (base.hx(data) if n < 6000 else "big", kw)], "at": 1})
            return True
        return False


def bombs(R):
    """inputs for the real code only: deep nesting (RecursionError is an ordinary exception), wide
    announcements with nothing behind them, repeated large reads"""
    out = []
    nest = [c for c in R.classes if c.__name__ == "VgNest"][0]
    for d in [301, 1000, 5000, 40000]:
        out.append(("bomb-seq-%d" % d, (tag(16) + i8(1)) * d + NULL))
        out.append(("bomb-map-%d" % d, (tag(17) + i8(1) + i8(1)) * d + NULL))
        out.append(("bomb-object-%d" % d, (tag(nest.type_id) + i8(1)) * d + NULL))
        out.append(("bomb-enum-%d" % d, tag(R.enums[0].type_id) * d + i8(1)))
        out.append(("bomb-strlen-%d" % d, tag(13) * d + i8(1) + b"abc"))
    out.append(("bomb-wide", (tag(16) + i16(2 ** 14)) * 2000))
    out.append(("bomb-wide-sets", (tag(18) + i16(2 ** 14)) * 2000 + NULL * 2 ** 14))
    out.append(("bomb-many-null", tag(16) + i16(2 ** 14) + (tag(16) + i16(2 ** 14)) + NULL * 2 ** 14))
    out.append(("bomb-neg-read", (tag(16) + i8(2) + tag(14) + i8(-1)) + b"x" * 2 ** 20))
    out.append(("bomb-fields", tag(R.classes[0].type_id) + i64(2 ** 63 - 1)))
    return out


# ------------------------------------------------------------------------------------------
# run
# ------------------------------------------------------------------------------------------

def run(ctx):
    R = base.real()
    rng = ctx.rng
    inputs = []   # (label, data, kw)

    # corpus of valid encodings
    corpus = []
    for label, b, kw in handshake_corpus(R):
        corpus.append((label, b, kw))
    nvals = ctx.scale(12, 400)
    while len(corpus) < 6 + nvals:
        v = base.gen_value(R, rng) if rng.random() < 0.8 else base.gen_deep(R, rng, rng.randint(2, 6))
        try:
            b = base.real_encode(R, v)
        except Exception:
            continue
        if 3 < len(b) <= 400:
            corpus.append(("value", b, ""))
    for label, b, kw in corpus:
        inputs.append((label, b, kw))
        small = len(b) <= 400
        for kind, m in mutations(rng, b, ctx.scale(220, 1500) if not small else 10 ** 6,
                                 ctx.scale(1400, 12000) if not small else ctx.scale(1200, 10 ** 6)):
            inputs.append((label + "-" + kind, m, kw))
    # random byte strings (biased towards plausible headers)
    ids = [1, 3, 4, 5, 6, 8, 9, 10, 11, 12, 13, 14, 15, 16, 17, 18] + [t for t in R.S.SerializableType.registry if t < 65536]
    for _ in range(ctx.scale(1500, 300000)):
        n = rng.choice([0, 1, 2, 3, 4, 6, 8, 12, 20, 40, 100])
        if rng.random() < 0.5:
            data = bytes(rng.getrandbits(8) for _ in range(n))
        else:
            data = b""
            while len(data) < n:
                r = rng.random()
                if r < 0.6:
                    data += tag(rng.choice(ids))
                elif r < 0.8:
                    data += i8(rng.randint(-2, 4))
                else:
                    data += bytes([rng.getrandbits(8)])
        inputs.append(("random", data, rng.choice(["", "", "k=none"])))
    for label, b, kw in crafted(R):
        inputs.append((label, b, kw))
    for label, b, kw in signed_cases(R):
        inputs.append((label, b, kw))

    # correspondence: batches of ops per case
    cases = []
    per = 60
    for i in range(0, len(inputs), per):
        ops = ["dec %s %s" % ((base.hx(b[:8]) + "+" + base.hx(b[8:])) if len(b) > 4096 else base.hx(b), kw)
               for _, b, kw in inputs[i:i + per]]
        cases.append(base.make_case(R, "h%d" % (i // per), ops))
    for label, _, _ in inputs:
        ctx.count("input:" + label.split("-")[0])

    def nontrivial(case, outs):
        return any(o.startswith("ok") or (o.startswith("err") and "SerializableHeaderError" not in o) for o in outs)

    base.correspond(ctx, "Serial", cases, nontrivial, RULE)
    for label, b, kw in [x for x in inputs if 4 < len(x[1]) < 60][:400:80]:
        out, line = base.run_dec(R, base.hx(b), [kw] if kw else [])
        ctx.sample({"layer": "Serial", "input": label, "ops": [line[:300]], "out": [out[:300]]})

    # monitor on the real code
    mon = Monitor(R, ctx)
    t0 = time.time()
    stride = ctx.scale(9, 5)
    for i, (label, b, kw) in enumerate(inputs):
        bulk = label == "random" or label.endswith("-trunc") or label.endswith("-flip")
        if mon.check(label, b, kw, trace_mem=(not bulk or i % stride == 0 or len(b) > 4096)):
            break
        if mon.check_cost(label, b, kw):
            break
    if not ctx.failures:
        for label, b in bombs(R):
            ctx.count("input:bomb")
            if mon.check(label, b, "", trace_mem=True):
                break
            if mon.check_cost(label, b, ""):
                break
    if not ctx.failures:
        scaling_monitor(R, ctx)
    if not ctx.failures:
        # client-side nesting of attacker-signed hellos: observed only (see ASSUMPTIONS)
        rows = []
        for d in [1, 4, 8, 16] + ([64, 200] if ctx.tier == "thorough" else []):
            b = nested_serverhello(R, d)
            with base.Instr(R) as ins:
                try:
                    R.S.Serializable.loadb(ins.stream_cls(b), server_public_key=None)
                except Exception:
                    pass
                rows.append({"depth": d, "bytes": len(b), "cost": ins.cost(), "reparsed": ins.reparsed,
                             "cost_per_byte": round(ins.cost() / len(b), 2)})
            if mon.check("nested-hello-%d" % d, b, "k=none", trace_mem=True):
                break
        ctx.notes["client_side_nested_serverhello"] = rows
    ctx.notes["inputs"] = len(inputs)
    ctx.notes["monitor_s"] = round(time.time() - t0, 1)
    ctx.notes["cost_bound_A"] = mon.A
    ctx.notes["worst_time_per_byte_us"] = {"us": round(mon.worst_time[0] * 1e6, 2), "bytes": mon.worst_time[1], "input": mon.worst_time[2]}
    ctx.notes["worst_peak_alloc_per_byte"] = {"ratio": round(mon.worst_mem[0], 1), "bytes": mon.worst_mem[1], "input": mon.worst_mem[2]}
    ctx.notes["worst_cost_per_byte"] = {"ratio": round(mon.worst_cost[0], 2), "bytes": mon.worst_cost[1], "input": mon.worst_cost[2]}
    ctx.notes["monitor_bounds"] = {"time_s": "%g*n + %g" % (mon.K_TIME, mon.C_TIME), "alloc_bytes": "%d*n + %d" % (mon.K_MEM, mon.C_MEM),
                                   "cost": "%d*(n + reparsed) + 1, reparsed = 0 without the keyword" % mon.A}
