"""C11 - hostile datagrams cannot stop the server, hurt other clients or be amplified."""
import struct

from harness import core, connlib, serverlib

PROP = "C11"
LEAN_MODULES = ["MpgsModel.Props.C11", "MpgsModel.Props.C11Run", "MpgsModel.Props.C11Unverified", "MpgsModel.Props.C11Silent"]
MODEL_MODULES = ["MpgsModel.Model.Server", "MpgsModel.Model.ToyAead"]
NS = "Mpgs.Server."
THEOREMS = [
    (NS + "C11_blocklist_first", "full"),
    (NS + "C11_entry_needs_header", "full"),
    (NS + "C11_isolation", "full"),
    (NS + "C11_pool_gating", "full"),
    (NS + "C11_no_keepalive_before_connected", "full"),
    (NS + "C11_hello_reply_once", "full"),
    (NS + "C11_short_hello_not_answered", "full"),
    (NS + "C11_one_hello_per_connection", "full"),
    (NS + "C11_hello_keeps_key", "full"),
    (NS + "C11_update_every_iteration", "full"),
    (NS + "C11_loop_never_stalls", "full"),
    (NS + "C11_no_amplification", "full"),
    (NS + "C11_no_amplification_until_promoted", "full"),
    (NS + "C11_unverified_budget", "full"),
    (NS + "C11_unqueued_address_gets_nothing", "full"),
    (NS + "C11_halfopen_sends_only_replies", "full"),
    (NS + "C11_halfopen_receive", "full"),
]
ASSUMPTIONS = [
    "block list, whole runs (C11_blocklist_first + C11_unqueued_address_gets_nothing): the entry point queues nothing from a block-listed "
    "ip, and over any run of the loop model an address none of whose datagrams was queued is sent no datagram at all - it can neither be "
    "promoted (a connect needs a queued datagram from that very address) nor be owed a reply",
    "whole runs (C11_update_every_iteration, C11_loop_never_stalls): every iteration of the loop model reaches handler.update exactly once "
    "and a run of n iterations delivers n update events, for every batch (any bytes, addresses, number), pool content, handler behaviour "
    "(raising from every event included) and clock: in the model every try/except of the code is a `contained` event and there is no other "
    "exit; that these containment points are the real ones is what the differential run of the unmodified loop checks",
    "'cannot stop the server': the loop model is a total function in which every exception path of the code is an explicit branch "
    "(contained); that the model knows every path is what the differential on hostile streams validates; exceptions raised by C "
    "extensions on inputs the model deems fine, OS errors from sendto and CPU exhaustion by floods of valid hellos are outside",
    "no amplification, whole runs, in BYTES (C11_no_amplification): in any run of the loop model from the empty server the bytes of all "
    "datagrams handed to the socket for an address that is not promoted in that run (no connect event for it) never exceed the bytes of "
    "the datagrams queued from that address - whatever else arrives from it or anybody, whatever the handlers do, for every clock, random "
    "stream, MTU, configuration, AEAD and all handshake externals (key, signature and padding sizes); in datagrams: at most as many as "
    "it sent CLIENT_HELLO datagrams (C11_unverified_budget), each consisting of queued SERVER_HELLO messages that leave the queue - no "
    "keep-alive, no resend (C11_halfopen_sends_only_replies; C11_halfopen_receive: a half-open connection stays 'quiet' under every "
    "datagram that does not promote it). The proofs rest on the two repairs: a connection queues one SERVER_HELLO in its life (30a6fe7: "
    "C11_one_hello_per_connection, C11_hello_keeps_key), no longer than the hello it answers (8599f81: C11_hello_reply_once, "
    "C11_short_hello_not_answered). What ties the model's byte counts to the code: every send event of the differential run carries the "
    "datagram length (compared per iteration), and the monitor measures the same inequality on the real loop after every iteration",
]
RULE = ("the REAL server loop (see C10) with honest echo clients running throughout and hostile streams from many addresses: random bytes of "
        "every length 0..2000, valid headers with garbage bodies, truncated and complete hellos from strangers, everything also from "
        "block-listed ips, damaged/stale/re-typed copies of genuine client datagrams with spoofed source address, peers that hold the session "
        "key without answering the challenge and seal several hellos into one datagram, at MTU 1500, 512 and the band "
        "370..420 in which the padded hello is about as large as the server hello; "
        "compared with the model per iteration (events, sends, pools, entry drops); the second entry point (_UdpServer.run, over a scripted "
        "socket) must queue exactly what TwistedServer.datagramReceived queued, with the block list installed before / after / as a replacement "
        "/ in place; non-trivial = at least 10 hostile datagrams and one "
        "honest message delivered")


def monitor(case, outs, recs, log, ctx, block):
    ops = connlib.answering_ops_srv(case)
    bytes_in, bytes_out, promoted = {}, {}, set()
    for rec in recs:
        for (addr, d, spec), ok in zip(rec["items"], rec["accepted"]):
            if addr[0] in block:
                if ok:
                    ctx.failure("blocklisted-datagram-queued", "a datagram from block-listed %s reached the queue" % (addr,),
                                {"case": case, "at": len(case) - 2})
                    return
                continue
            if ok and d[:4] != b"FSOS":
                ctx.failure("datagram-not-addressed-to-the-server-queued", "a datagram whose header is not a TO_SERVER header (%r...) from %s "
                            "passed the entry point" % (d[:4], addr), {"case": case, "at": len(case) - 2})
                return
            bytes_in[addr] = bytes_in.get(addr, 0) + len(d)
        for e in rec["events"]:
            if e.startswith("connect:"):
                p = e.split(":")
                promoted.add((p[2], int(p[3])))
        for addr, d in rec["sends"]:
            if addr[0] in block:
                ctx.failure("reply-to-blocklisted", "the server sent %d bytes to block-listed %s" % (len(d), addr), {"case": case, "at": len(case) - 2})
                return
            if addr not in promoted:
                bytes_out[addr] = bytes_out.get(addr, 0) + len(d)
                if bytes_out[addr] > bytes_in.get(addr, 0):
                    ctx.failure("amplification", "address %s has not completed the handshake: received %d bytes, was sent %d" %
                                (addr, bytes_in.get(addr, 0), bytes_out[addr]), {"case": case, "at": len(case) - 2})
                    return
        if "update" not in rec["events"]:
            ctx.failure("loop-stalled", "an iteration without the handler update event", {"case": case, "at": len(case) - 2})
            return
    # service to honest clients: every application message of a genuine datagram the server accepted reaches handle_message
    delivered = set()
    for rec in recs:
        for e in rec["events"]:
            if e.startswith("msg:"):
                delivered.add(e.split(":", 3)[3])
    ctx.count("hostile-or-stranger-bytes-in", sum(v for a, v in bytes_in.items() if a not in promoted))
    ctx.count("honest-messages-delivered", len(delivered))


def run(ctx):
    real = connlib.Real()
    rng = ctx.rng
    n = ctx.scale(150, 2500)
    cases, outputs, extra = [], {}, {}
    for i in range(n):
        cid = "z%d" % i
        block = (66, 67) if i % 3 else (66,)
        try:
            lines, outs, recs, log = serverlib.gen_server_case(real, rng, cid, n_iter=rng.choice([40, 80]), n_clients=rng.choice([1, 2, 3]),
                                                               hostile=rng.choice([0.6, 0.85]), act_p=0.05, collide=0.1,
                                                               mtu=rng.choice([1500, 1500, 512, 512, 370, 375, 380, 389, 390, 390, 391, 391, 392, 395, 400, 420]), block=block, silent=0.01, leave=0.02,
                                                               stack=0.3)
        except Exception as e:           # the unmodified loop let an exception escape: that IS the property failing
            import traceback
            ctx.failure("server-loop-died", "an exception escaped the server loop: %s: %s" % (type(e).__name__, e),
                        {"traceback": traceback.format_exc()[-1500:], "seed": ctx.seed, "case_no": i})
            return
        cases.append(lines)
        outputs[cid] = outs
        extra[cid] = (recs, log, set(str(b) for b in block))

    def nontrivial(case, outs):
        hostile = sum(l.count("|") // 3 for l in case if l.startswith("it ")) 
        return hostile >= 10 and any("msg:" in o for o in outs)

    def impl_fn(case):
        return outputs[core.case_id(case)]
    ctx.correspondence("Server(loop/hostile)", "Conn", cases, impl_fn, nontrivial, RULE, minimise=False, post=serverlib.post)
    for c in cases:
        recs, log, block = extra[core.case_id(c)]
        monitor(c, outputs[core.case_id(c)], recs, log, ctx, block)
        if not ctx.failures:
            serverlib.udp_entry_monitor(real, rng, c, recs, block, ctx)
        if not ctx.failures:
            serverlib.honest_monitor(c, recs, log, ctx)
        if not ctx.failures:
            serverlib.silence_monitor(c, recs, ctx)
        if ctx.failures:
            return
