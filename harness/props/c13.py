"""C13 - serializer round trip and self-delimitation: correspondence of Model/Serial.lean with
mpgameserver/serializable.py (+ the handshake codecs of connection.py) and the monitor.

This module also holds the machinery shared with C14 (value tokens, registry line, instrumented
real decoder, oracle recording)."""
import math
import struct
import sys
from io import BytesIO

from harness import core

PROP = "C13"
LEAN_MODULES = ["MpgsModel.Props.C13"]
MODEL_MODULES = ["MpgsModel.Model.Serial"]
NS = "Mpgs.Serial."
THEOREMS = [
    (NS + "C13_decode_encode", "full"),
    (NS + "C13_decode_encode_canonical", "full"),
    (NS + "C13_concat", "full"),
    (NS + "C13_prefix_free", "full"),
    (NS + "C13_int_widths", "full"),
    (NS + "C13_int_boundary_8_16", "full"),
    (NS + "C13_int_boundary_16_32", "full"),
    (NS + "C13_int_boundary_32_64", "full"),
    (NS + "C13_int_boundary_64", "full"),
    (NS + "C13_refuse", "full"),
    (NS + "C13_refuse_deep", "full"),
    (NS + "C13_accepts", "full"),
    (NS + "C13_clientHello_roundtrip", "full"),
    (NS + "C13_serverHello_roundtrip", "full"),
]
# secondary tie (DESIGN 4.2): kernels regenerated from the source on every run, proved equal to the model (Props/Equiv<Group>.lean)
EQUIV = {"Serial": ["Mpgs.Equiv.gen_serialize_int"]}
ASSUMPTIONS = [
    "float32 rounding of struct.pack('>f') is modelled on bit patterns (roundF32) and compared with struct on every run; "
    "NaN payloads are not distinguished (all NaNs print alike)",
    "a Python set is given to the model as the list of its elements in the iteration order of the real run; "
    "decoded sets are compared modulo order",
    "str/bytes hashes never collide with each other or with numbers except where CPython defines them equal "
    "(equal buffers, empty buffer = 0); hash(None) is the CPython 3.12 constant (asserted at start)",
    "Serializable subclasses in the registry use the default codec, except the two handshake classes modelled separately; "
    "their constructors do not raise (asserted while reading the registry)",
    "MAX_BYTES_LENGTH = 2**20, MAX_ARRAY_LENGTH = 2**14 (asserted against the live module)",
    "os.urandom, ECDSA sign/verify and DER key parsing are parameters; the driver uses the values recorded in the real run",
]
RULE = ("values generated from the serializer grammar with the repo's own types (classes and enums created on the fly), "
        "every int width boundary +-1 with both signs, float specials, multi-byte strings, nesting to depth 6, size-limit "
        "boundaries, refusal cases; real serialize_value/deserialize_value/dumpb/loadb vs Lean encode/decode, compared as "
        "exact bytes / canonical value / bytes consumed / exception class / cost count; non-trivial = a container, object, "
        "enum, multi-byte width or an error outcome")

_STATE = {}


# ------------------------------------------------------------------------------------------
# the real modules, the class pool and the registry line
# ------------------------------------------------------------------------------------------

class Real:
    """imports the real code, creates the pool of generated classes once per process"""

    def __init__(self):
        core.use_repo()
        import mpgameserver.serializable as S
        import mpgameserver.connection as C
        import mpgameserver.crypto as K
        from typing import List, Dict
        self.S, self.C, self.K = S, C, K
        assert S.MAX_BYTES_LENGTH == 2 ** 20 and S.MAX_ARRAY_LENGTH == 2 ** 14, "size limits changed"
        assert hash(None) == 4238894112 and hash("") == 0 and hash(b"") == 0 and hash("ab") == hash(b"ab")
        assert hash(-1) == -2 and hash(2 ** 61 - 1) == 0 and hash(0.5) == 2 ** 60
        self.classes = []   # default-codec classes
        self.enums = []
        mk = S.SerializableType
        mod = "verif_generated"
        specs = [
            ("VgEmpty", []),
            ("VgOne", [("a", int, 7)]),
            ("VgTwo", [("x", int, 0), ("y", str, "hi")]),
            ("VgMix", [("i", int, -5), ("f", float, 1.5), ("s", str, ""), ("b", bytes, b"\x00\xff"), ("n", object, None),
                       ("t", bool, True)]),
            ("VgColl", [("l", list, None), ("d", dict, None), ("s", set, None), ("t", tuple, None)]),
            ("VgTyped", [("l", List[int], None), ("d", Dict[str, int], None), ("k", int, S.Default)]),
            ("VgDeflt", [("s", str, S.Default), ("b", bytes, S.Default), ("f", float, S.Default)]),
            ("VgWide", [("f%d" % i, int, i * 1000) for i in range(9)]),
        ]
        for name, fields in specs:
            ns = {"__module__": mod, "__annotations__": {f: t for f, t, _ in fields}}
            for f, t, d in fields:
                ns[f] = d
            self.classes.append(mk(name, (S.Serializable,), ns))
        # nested class fields refer to pool classes
        self.classes.append(mk("VgNest", (S.Serializable,), {
            "__module__": mod, "__annotations__": {"inner": object, "tag": int}, "inner": None, "tag": 3}))
        S.SerializableType.setRootId("verif_generated_big", 70000)
        self.big_cls = mk("VgBigId", (S.Serializable,), {
            "__module__": "verif_generated_big", "__annotations__": {"a": int}, "a": 1})
        mke = S.SerializableEnumType
        self.enums.append(mke("VgEnumI", (S.SerializableEnum,), {"__module__": mod, "A": 1, "B": 2, "C": -300, "Z": 0}))
        self.enums.append(mke("VgEnumS", (S.SerializableEnum,), {"__module__": mod, "RED": "red", "GRN": "grün", "E": ""}))
        self.enums.append(mke("VgEnumB", (S.SerializableEnum,), {"__module__": mod, "K": b"\x00\x01", "L": b"key"}))
        self.enums.append(mke("VgEnumM", (S.SerializableEnum,), {"__module__": mod, "I": 70000, "S": "s", "B": b"b"}))
        self.hello = C.HandshakeClientHelloMessage
        self.shello = C.HandshakeServerHelloMessage
        self.chal = C.HandshakeClientChallengeResponseMessage
        self.pad_target = C.Packet.MAX_PAYLOAD_SIZE - 2 - C.PacketHeader.SIZE - 2
        self.reg_line = self._reg_line()
        assert "U" not in self.reg_line, "a class default is of an unsupported type (RegWT would not hold)"

    def is_default_codec(self, cls):
        S = self.S
        for k in cls.mro():
            if k is S.Serializable:
                return True
            if "serialize" in k.__dict__ or "deserialize" in k.__dict__ or "serialize_header" in k.__dict__ \
                    or "__init__" in k.__dict__:
                return False
        return False

    def _reg_line(self):
        S = self.S
        ents = []
        for tid, cls in S.SerializableType.registry.items():
            if isinstance(cls, S.SerializableEnumType):
                ents.append("%d=E[%s]" % (tid, ",".join(tok(self, k) for k in cls._value2name.keys())))
            elif cls is self.hello:
                ents.append("%d=C" % tid)
            elif cls is self.shello:
                ents.append("%d=H" % tid)
            else:
                assert self.is_default_codec(cls), "class %s has a custom codec the model does not know" % cls
                inst = cls()
                ents.append("%d=O[%s]" % (tid, ",".join(tok(self, getattr(inst, f)) for f in cls._fields)))
        return "reg %d %s" % (self.pad_target, ";".join(ents) or "-")


def real():
    if "real" not in _STATE:
        _STATE["real"] = Real()
    return _STATE["real"]


# ------------------------------------------------------------------------------------------
# tokens <-> Python values
# ------------------------------------------------------------------------------------------

def hx(b):
    """byte expression: hex, `-` for empty, `<n>*<unit>` for long repetitions"""
    if not b:
        return "-"
    if len(b) > 2048:
        for ul in (1, 2, 3, 4):
            if len(b) % ul == 0 and b == b[:ul] * (len(b) // ul):
                return "%d*%s" % (len(b) // ul, b[:ul].hex())
    return b.hex()


def unhx(s):
    out = b""
    for seg in s.split("+"):
        if seg == "-":
            continue
        if "*" in seg:
            n, u = seg.split("*")
            out += bytes.fromhex(u) * int(n)
        else:
            out += bytes.fromhex(seg)
    return out


def digest(b):
    h = 0
    for x in b:
        h = (h * 257 + x + 1) % 2305843009213693951
    return h


def show_bytes(b):
    """output form of bytes: long ones as length + digest + head"""
    if len(b) > 2048:
        return "big:%d:%d:%s" % (len(b), digest(b), b[:16].hex())
    return b.hex() if b else "-"


class Unsupported:
    """stands for a value of a type the serializer does not know"""
    KINDS = ["frozenset", "bytearray", "complex", "object", "intsub", "listsub", "type", "range"]

    def __init__(self, kind):
        self.kind = kind

    def make(self):
        k = self.kind
        if k == "frozenset":
            return frozenset([1])
        if k == "bytearray":
            return bytearray(b"ab")
        if k == "complex":
            return 1j
        if k == "object":
            return object()
        if k == "intsub":
            return type("IntSub", (int,), {})(5)
        if k == "listsub":
            return type("ListSub", (list,), {})([1])
        if k == "type":
            return int
        return range(3)


def is_f32(x):
    if x != x or x in (math.inf, -math.inf):
        return True
    try:
        return struct.unpack(">f", struct.pack(">f", x))[0] == x
    except OverflowError:
        return False


def tok(R, v):
    """input token of a Python value (sets in their real iteration order)"""
    S = R.S
    t = type(v)
    if v is None:
        return "n"
    if t is bool:
        return "T" if v else "F"
    if t is int:
        return "i%d" % v
    if t is float:
        if is_f32(v):
            return "f" + struct.pack(">f", v).hex()
        return "d" + struct.pack(">d", v).hex()
    if t is str:
        return "s" + hx(v.encode("utf-8", "surrogatepass"))
    if t is bytes:
        return "y" + hx(v)
    if t is list or t is tuple:
        return "L[" + ",".join(tok(R, x) for x in v) + "]"
    if t is set:
        return "S[" + ",".join(tok(R, x) for x in v) + "]"
    if t is dict:
        return "M[" + ",".join(tok(R, k) + ":" + tok(R, x) for k, x in v.items()) + "]"
    if isinstance(v, R.hello):
        return "C%d[y%s,%s]" % (v.type_id, hx(v.client_pubkey.getBytes()), tok(R, v.client_version))
    if isinstance(v, R.shello):
        root = v.server_root_pubkey.getBytes() if v.server_root_pubkey is not None else b""
        return "H%d[y%s,y%s,%s,%s]" % (v.type_id, hx(root), hx(v.server_pubkey.getBytes()), tok(R, v.salt), tok(R, v.token))
    if isinstance(v, S.Serializable):
        return "O%d[%s]" % (v.type_id, ",".join(tok(R, getattr(v, f)) for f in v._fields))
    if isinstance(v, S.SerializableEnum):
        return "E%d[%s]" % (v.type_id, tok(R, v.value))
    return "U"


def fcanon(x):
    if x != x:
        return "dnan"
    return "d" + struct.pack(">d", x).hex()


def canon(R, v):
    """canonical output form (floats as doubles, NaNs alike, sets sorted)"""
    S = R.S
    t = type(v)
    if v is None:
        return "n"
    if t is bool:
        return "T" if v else "F"
    if t is int:
        return "i%d" % v
    if t is float:
        return fcanon(v)
    if t is str:
        return "s" + show_bytes(v.encode("utf-8", "surrogatepass"))
    if t is bytes:
        return "y" + show_bytes(v)
    if t is list or t is tuple:
        return "L[" + ",".join(canon(R, x) for x in v) + "]"
    if t is set:
        return "S[" + ",".join(sorted(canon(R, x) for x in v)) + "]"
    if t is dict:
        return "M[" + ",".join(canon(R, k) + ":" + canon(R, x) for k, x in v.items()) + "]"
    if isinstance(v, R.hello):
        return "C%d[y%s,%s]" % (v.type_id, hx(v.client_pubkey.getBytes()), canon(R, v.client_version))
    if isinstance(v, R.shello):
        return "H%d[y%s,y%s,%s,%s]" % (v.type_id, hx(v.server_root_pubkey.getBytes()), hx(v.server_pubkey.getBytes()),
                                       canon(R, v.salt), canon(R, v.token))
    if isinstance(v, S.Serializable):
        return "O%d[%s]" % (v.type_id, ",".join(canon(R, getattr(v, f)) for f in v._fields))
    if isinstance(v, S.SerializableEnum):
        return "E%d[%s]" % (v.type_id, canon(R, v.value))
    return "U"


class TokParser:
    """token -> Python value built from the real classes"""

    def __init__(self, R, s):
        self.R, self.s, self.i = R, s, 0

    def hexrun(self):
        j = self.i
        s = self.s
        while j < len(s) and s[j] in "0123456789abcdef-*+":
            j += 1
        h = s[self.i:j]
        self.i = j
        return unhx(h)

    def num(self):
        j = self.i
        s = self.s
        while j < len(s) and s[j].isdigit():
            j += 1
        n = int(s[self.i:j])
        self.i = j
        return n

    def items(self):
        assert self.s[self.i] == "["
        self.i += 1
        out = []
        if self.s[self.i] == "]":
            self.i += 1
            return out
        while True:
            out.append(self.value())
            c = self.s[self.i]
            self.i += 1
            if c == "]":
                return out
            assert c == ","

    def pairs(self):
        assert self.s[self.i] == "["
        self.i += 1
        out = []
        if self.s[self.i] == "]":
            self.i += 1
            return out
        while True:
            k = self.value()
            assert self.s[self.i] == ":"
            self.i += 1
            v = self.value()
            out.append((k, v))
            c = self.s[self.i]
            self.i += 1
            if c == "]":
                return out
            assert c == ","

    def value(self):
        R = self.R
        S = R.S
        c = self.s[self.i]
        self.i += 1
        if c == "n":
            return None
        if c == "T":
            return True
        if c == "F":
            return False
        if c == "U":
            return Unsupported("object").make()
        if c == "i":
            neg = self.s[self.i] == "-"
            if neg:
                self.i += 1
            n = self.num()
            return -n if neg else n
        if c == "f":
            return struct.unpack(">f", self.hexrun())[0]
        if c == "d":
            return struct.unpack(">d", self.hexrun())[0]
        if c == "s":
            return self.hexrun().decode("utf-8", "surrogatepass")
        if c == "y":
            return self.hexrun()
        if c == "L":
            return self.items()
        if c == "S":
            return set(self.items())
        if c == "M":
            return dict(self.pairs())
        if c == "O":
            tid = self.num()
            cls = S.SerializableType.registry[tid]
            vals = self.items()
            o = cls()
            assert len(vals) == len(cls._fields)
            for f, v in zip(cls._fields, vals):
                setattr(o, f, v)
            return o
        if c == "E":
            tid = self.num()
            cls = S.SerializableType.registry[tid]
            (v,) = self.items()
            e = cls()
            e.value = v
            return e
        if c == "C":
            tid = self.num()
            k, ver = self.items()
            m = R.hello()
            m.client_pubkey = R.K.EllipticCurvePublicKey.fromBytes(k)
            m.client_version = ver
            return m
        if c == "H":
            tid = self.num()
            root, k, salt, token = self.items()
            m = R.shello()
            m.server_root_pubkey = R.K.EllipticCurvePublicKey.fromBytes(root) if root else None
            m.server_pubkey = R.K.EllipticCurvePublicKey.fromBytes(k)
            m.salt, m.token = salt, token
            return m
        raise ValueError("bad token at %d: %r" % (self.i - 1, self.s[max(0, self.i - 10):self.i + 10]))


def parse_tok(R, s):
    p = TokParser(R, s)
    v = p.value()
    assert p.i == len(s), (p.i, len(s))
    return v


def ename(R, e):
    S = R.S
    if isinstance(e, struct.error):
        return "struct.error"
    if type(e) is S.SerializableHeaderError:
        return "SerializableHeaderError"
    if type(e) is S.SerializableError:
        return "SerializableError"
    return type(e).__name__


# ------------------------------------------------------------------------------------------
# instrumented real decoder / encoder (cost counters, oracle recording)
# ------------------------------------------------------------------------------------------

class Instr:
    """patches module globals of the repo (harness side only, restored on exit) to count what the
    decoder requests and to record the crypto oracles"""

    def __init__(self, R):
        self.R = R
        self.calls = 0
        self.bytes = 0
        self.fields = 0
        self.reparsed = 0
        self.oracle = []

    def __enter__(self):
        R, S, C, K = self.R, self.R.S, self.R.C, self.R.K
        me = self
        self.saved = (S.deserialize_value, C.deserialize_value, S.Serializable.__init__, C.BytesIO,
                      K.EllipticCurvePublicKey.__dict__["fromBytes"], K.EllipticCurvePublicKey.verify, C.os)
        orig_dv = S.deserialize_value

        def dv(stream, **kw):
            me.calls += 1
            return orig_dv(stream, **kw)
        S.deserialize_value = dv
        C.deserialize_value = dv
        orig_init = S.Serializable.__init__

        def init(self_, **kw):
            me.fields += len(self_._fields)
            orig_init(self_, **kw)
        S.Serializable.__init__ = init

        class CountingBytesIO(BytesIO):
            def read(self_, n=-1):
                d = BytesIO.read(self_, n)
                me.bytes += len(d)
                return d

        class InnerBytesIO(CountingBytesIO):
            """what connection.py builds around a payload it has already read once"""
            def __init__(self_, initial=b""):
                CountingBytesIO.__init__(self_, initial)
                me.reparsed += len(initial)
        self.stream_cls = CountingBytesIO
        C.BytesIO = InnerBytesIO
        orig_fb = K.EllipticCurvePublicKey.__dict__["fromBytes"].__func__
        orig_vf = K.EllipticCurvePublicKey.verify

        def from_bytes(der):
            try:
                k = orig_fb(der)
            except Exception as e:
                if type(der) is bytes:
                    me.oracle.append("p:%s=err:%s" % (hx(der), ename(R, e)))
                raise
            if type(der) is bytes:
                me.oracle.append("p:%s=ok:%s" % (hx(der), hx(k.getBytes())))
            return k
        K.EllipticCurvePublicKey.fromBytes = staticmethod(from_bytes)

        def verify(self_, signature, data):
            both = type(signature) is bytes and type(data) is bytes
            try:
                orig_vf(self_, signature, data)
            except Exception as e:
                if both:
                    me.oracle.append("v:%s:%s:%s=err:%s" % (hx(self_.getBytes()), hx(signature), hx(data), ename(R, e)))
                raise
            if both:
                me.oracle.append("v:%s:%s:%s=ok" % (hx(self_.getBytes()), hx(signature), hx(data)))
        K.EllipticCurvePublicKey.verify = verify

        class FakeOs:
            @staticmethod
            def urandom(n):
                if n < 0:
                    raise ValueError("negative argument not allowed")
                return b"\xab" * n
        C.os = FakeOs
        return self

    def __exit__(self, *a):
        S, C, K = self.R.S, self.R.C, self.R.K
        (S.deserialize_value, C.deserialize_value, S.Serializable.__init__, C.BytesIO, fb, vf, C.os) = self.saved
        K.EllipticCurvePublicKey.fromBytes = fb
        K.EllipticCurvePublicKey.verify = vf
        return False

    def cost(self):
        return self.calls + self.bytes + self.fields


def real_encode(R, v, **kw):
    s = BytesIO()
    R.S.serialize_value(s, v, **kw)
    return s.getvalue()


def run_enc(R, token, extra):
    """-> (output line, rewritten op line for the model)"""
    v = parse_tok(R, token)
    kw = {}
    oracles = []

    class SigningKey:
        """stands for the server root key: records what it signs"""
        def __init__(self, key):
            self.key = key

        def sign(self, payload):
            sig = self.key.sign(payload)
            oracles.append("sg:%s=ok:%s" % (hx(payload), hx(sig)))
            return sig

        def getPublicKey(self):
            return self.key.getPublicKey()

    for t in extra:
        if t == "rootkey":
            kw["server_root_key"] = SigningKey(root_key(R))
            oracles.append("root=" + hx(root_key(R).getPublicKey().getBytes()))
    with Instr(R):
        try:
            b = real_encode(R, v, **kw)
            out = "ok " + show_bytes(b)
        except RecursionError:
            raise
        except Exception as e:
            out = "err:" + ename(R, e)
    return out, " ".join(["enc", tok(R, v)] + oracles)


def root_key(R):
    if "rootkey" not in _STATE:
        _STATE["rootkey"] = R.K.EllipticCurvePrivateKey.new()
    return _STATE["rootkey"]


class Hang(BaseException):
    pass


def _alarm(signum, frame):
    raise Hang()


def bounded(fn, seconds):
    """fn() under a CPU-time bound (main thread only); raises Hang"""
    import signal
    import threading
    if threading.current_thread() is not threading.main_thread():
        return fn()
    # CPU time of this process, not wall-clock time: a decoder that loops burns CPU, a starved machine does not
    old = signal.signal(signal.SIGVTALRM, _alarm)
    signal.setitimer(signal.ITIMER_VIRTUAL, seconds)
    try:
        return fn()
    finally:
        signal.setitimer(signal.ITIMER_VIRTUAL, 0)
        signal.signal(signal.SIGVTALRM, old)


DEC_BOUND_S = 3.0      # no input of the generators needs more than milliseconds; a decode that runs this long is reported as err:Hang


def run_dec(R, hexs, extra):
    """-> (output line, rewritten op line for the model)"""
    data = unhx(hexs)
    kw = {}
    for t in extra:
        if t.startswith("k="):
            val = t[2:]
            if val == "none":
                kw["server_public_key"] = None
            elif val != "nokw":
                kw["server_public_key"] = R.K.EllipticCurvePublicKey.fromBytes(bytes.fromhex(val))
    with Instr(R) as ins:
        stream = ins.stream_cls(data)
        try:
            v = bounded(lambda: R.S.Serializable.loadb(stream, **kw), DEC_BOUND_S)
            out = "ok %s %d c=%d r=%d" % (canon(R, v), stream.tell(), ins.cost(), ins.reparsed)
        except Hang:
            out = "err:Hang c=0 r=0"
        except RecursionError:
            out = "err:RecursionError c=0 r=0"
        except Exception as e:
            out = "err:%s c=%d r=%d" % (ename(R, e), ins.cost(), ins.reparsed)
        seen = []
        for o in ins.oracle:
            if o not in seen:
                seen.append(o)
    return out, " ".join(["dec", hexs] + [t for t in extra if t.startswith("k=")] + seen)


def run_decs(R, hexs, n, extra=()):
    """-> (output line, rewritten op line for the model)"""
    data = unhx(hexs)
    with Instr(R) as ins:
        stream = BytesIO(data)
        vals = []
        out = None
        for i in range(n):
            try:
                vals.append(canon(R, bounded(lambda: R.S.deserialize_value(stream), DEC_BOUND_S)))
            except Hang:
                out = "err:Hang at=%d" % i
                break
            except Exception as e:
                out = "err:%s at=%d" % (ename(R, e), i)
                break
        if out is None:
            out = "ok " + " ".join(vals) + " %d" % stream.tell()
        seen = []
        for o in ins.oracle:
            if o not in seen:
                seen.append(o)
    return out, " ".join(["decs", hexs, str(n)] + seen)


def run_rnd(R, hexs):
    x = struct.unpack(">d", bytes.fromhex(hexs))[0]
    try:
        b = struct.pack(">f", x)
    except OverflowError:
        return "err:OverflowError"
    if x != x:
        # NaN payloads are platform business; compare the quiet pattern class only
        return "ok " + b.hex()
    return "ok " + b.hex()


class Impl:
    """runs cases on the real code; remembers the op lines as the model must see them
    (set iteration order and crypto oracles recorded from this very run)"""

    def __init__(self, R):
        self.R = R
        self.rewritten = {}

    def run_case(self, case):
        R = self.R
        out = []
        lines = []
        for line in case:
            w = line.split()
            new = line
            if not w:
                pass
            elif w[0] == "enc":
                o, new = run_enc(R, w[1], w[2:])
                out.append(o)
            elif w[0] == "dec":
                o, new = run_dec(R, w[1], w[2:])
                out.append(o)
            elif w[0] == "decs":
                o, new = run_decs(R, w[1], int(w[2]), w[3:])
                out.append(o)
            elif w[0] == "rnd":
                out.append(run_rnd(R, w[1]))
            lines.append(new)
        self.rewritten[core.case_id(case)] = lines
        return out

    def model_lines(self, lines):
        """replace each case by its rewritten form (keyed by the `case <id>` marker)"""
        out = []
        i = 0
        while i < len(lines):
            if lines[i].startswith("case "):
                cid = lines[i].split()[1]
                j = i + 1
                while j < len(lines) and lines[j] != "end":
                    j += 1
                out.extend(self.rewritten.get(cid, lines[i:j + 1]))
                i = j + 1
            else:
                out.append(lines[i])
                i += 1
        return out


def parallel_lean(orig, driver, lines, timeout, workers=4):
    """split the op stream at case boundaries and run several driver processes side by side"""
    starts = [i for i, ln in enumerate(lines) if ln.startswith("case ")]
    if len(starts) < 2 * workers or len(lines) < 1000:
        return orig(driver, lines, timeout)
    from concurrent.futures import ThreadPoolExecutor
    # deal the cases round robin (expensive cases are neighbours); the output is keyed by `#case`
    # markers, so its order does not matter
    chunks = [[] for _ in range(workers)]
    bounds = starts + [len(lines)]
    for i, (a, b) in enumerate(zip(bounds, bounds[1:])):
        chunks[i % workers].extend(lines[a:b])
    chunks = [c for c in chunks if c]
    with ThreadPoolExecutor(max_workers=workers) as ex:
        outs = list(ex.map(lambda c: orig(driver, c, timeout), chunks))
    return [ln for o in outs for ln in o]


def correspond(ctx, layer, cases, nontrivial, rule):
    R = real()
    impl = Impl(R)
    orig = ctx.lean
    ctx.lean = lambda driver, lines, timeout=1500: parallel_lean(orig, driver, impl.model_lines(lines), timeout)
    try:
        return ctx.correspondence(layer, "C13", cases, impl.run_case, nontrivial, rule)
    finally:
        ctx.lean = orig


# ------------------------------------------------------------------------------------------
# generators
# ------------------------------------------------------------------------------------------

INT_EDGES = [0x7F, 0x80, 0x7FFF, 0x8000, 0x7FFFFFFF, 0x80000000, 2 ** 63 - 1, 2 ** 63, 0xFF, 0xFFFF, 0xFFFFFFFF, 2 ** 64]
FLOAT_SPECIALS = [0.0, -0.0, 1.0, -1.5, math.inf, -math.inf, math.nan, 1e-45, 1.4e-45, 1.1754942e-38, 1.17549435e-38,
                  3.4028234663852886e38, 3.4028235677973362e38, 3.4028235677973366e38, 1e39, -1e39, 0.1, 1 / 3, 1e-50,
                  16777217.0, 2.0 ** 127, -2.0 ** -149, 2.0 ** -150, 1.5 * 2.0 ** -149, 2.5 * 2.0 ** -149, 1e308]
STRS = ["", "a", "abc", "é", "grün", "€", "\U0001F600", "aé€\U0001F600", "\x00", "퟿",
        "x" * 127, "y" * 128, "é" * 64]


def boundary_ints():
    out = []
    for e in INT_EDGES:
        for d in (-1, 0, 1):
            for s in (1, -1):
                out.append(s * (e + d))
    out += [0, 1, -1, 2 ** 70, -2 ** 70]
    return out


def gen_int(rng):
    r = rng.random()
    if r < 0.3:
        return rng.choice(boundary_ints())
    if r < 0.6:
        return rng.randint(-300, 300)
    bits = rng.choice([7, 8, 15, 16, 31, 32, 40, 62, 63, 64])
    v = rng.getrandbits(bits)
    return -v if rng.random() < 0.5 else v


def gen_float(rng):
    r = rng.random()
    if r < 0.4:
        return rng.choice(FLOAT_SPECIALS)
    if r < 0.7:
        return struct.unpack(">f", struct.pack(">L", rng.getrandbits(32)))[0]
    if r < 0.85:
        return struct.unpack(">d", struct.pack(">Q", rng.getrandbits(64)))[0]
    return rng.uniform(-1e6, 1e6)


def gen_str(rng):
    if rng.random() < 0.5:
        return rng.choice(STRS)
    n = rng.choice([0, 1, 2, 5, 20, 200])
    alphabet = "abé€\U0001F600 \x7fࠀ￿"
    return "".join(rng.choice(alphabet) for _ in range(n))


def gen_bytes(rng):
    n = rng.choice([0, 1, 2, 3, 16, 127, 128, 300])
    return bytes(rng.getrandbits(8) for _ in range(n))


def gen_scalar(rng):
    k = rng.randrange(7)
    if k == 0:
        return None
    if k == 1:
        return rng.random() < 0.5
    if k == 2:
        return gen_int(rng)
    if k == 3:
        return gen_float(rng)
    if k == 4:
        return gen_str(rng)
    if k == 5:
        return gen_bytes(rng)
    return gen_int(rng)


def gen_enum(R, rng):
    cls = rng.choice(R.enums)
    return cls(rng.choice(list(cls._value2name.keys())))


def gen_hashable(R, rng, depth):
    r = rng.random()
    if r < 0.75:
        v = gen_scalar(rng)
        return v
    if r < 0.9:
        return gen_enum(R, rng)
    return gen_object(R, rng, depth + 1)


def gen_object(R, rng, depth):
    cls = rng.choice(R.classes)
    o = cls()
    for f in cls._fields:
        if rng.random() < 0.7:
            setattr(o, f, gen_value(R, rng, depth + 1))
    return o


def safe_add(container, k, v=None, is_dict=False):
    """sets/dicts mixing enum members with raw values raise AttributeError in Python itself"""
    try:
        if is_dict:
            container[k] = v
        else:
            container.add(k)
    except (AttributeError, TypeError):
        pass


def gen_value(R, rng, depth=0, maxdepth=6):
    r = rng.random()
    if depth >= maxdepth or r < 0.45:
        return gen_scalar(rng)
    n = rng.choice([0, 1, 1, 2, 3, 5])
    if r < 0.60:
        xs = [gen_value(R, rng, depth + 1, maxdepth) for _ in range(n)]
        return xs if rng.random() < 0.7 else tuple(xs)
    if r < 0.70:
        d = {}
        for _ in range(n):
            safe_add(d, gen_hashable(R, rng, depth), gen_value(R, rng, depth + 1, maxdepth), True)
        return d
    if r < 0.78:
        s = set()
        for _ in range(n):
            safe_add(s, gen_hashable(R, rng, depth))
        if rng.random() < 0.2:
            # members that are distinct doubles but equal at float32 precision: the decoded set is smaller
            f = f32round(rng.uniform(-1e6, 1e6))
            s.add(f)
            s.add(math.nextafter(f, math.inf))
            if rng.random() < 0.5:
                s.add(math.nextafter(f, -math.inf))
        return s
    if r < 0.92:
        return gen_object(R, rng, depth)
    return gen_enum(R, rng)


def gen_deep(R, rng, depth):
    v = gen_scalar(rng)
    for i in range(depth):
        k = rng.randrange(4)
        if k == 0:
            v = [v]
        elif k == 1:
            v = {gen_int(rng): v}
        elif k == 2:
            o = [c for c in R.classes if c.__name__ == "VgNest"][0]()
            o.inner = v
            v = o
        else:
            v = (v, gen_scalar(rng))
    return v


def refusal_values(R):
    """(label, value) outside the domain: must be refused with an error"""
    S = R.S
    out = []
    for i in [2 ** 63, -2 ** 63 - 1, 2 ** 64, 2 ** 70, -2 ** 70, 2 ** 200]:
        out.append(("int-out", i))
        out.append(("int-out-nested", [1, {"k": i}]))
    out.append(("float-huge", 1e39))
    out.append(("float-huge", -3.4028235677973366e38))
    out.append(("float-huge-nested", (1.0, 1e300)))
    out.append(("str-long", "a" * (2 ** 20 + 1)))
    out.append(("str-long-mb", "é" * (2 ** 19 + 1)))
    out.append(("bytes-long", b"\x00" * (2 ** 20 + 1)))
    out.append(("seq-long", [None] * (2 ** 14 + 1)))
    out.append(("tuple-long", tuple([1] * (2 ** 14 + 1))))
    out.append(("map-long", {i: None for i in range(2 ** 14 + 1)}))
    out.append(("set-long", set(range(2 ** 14 + 1))))
    for k in Unsupported.KINDS:
        out.append(("unsupported-" + k, Unsupported(k).make()))
        out.append(("unsupported-nested-" + k, [1, Unsupported(k).make()]))
    for cls in R.enums:
        for bad in [None, 99, "nope", b"nope", [1], 1.25]:
            e = cls()
            e.value = bad
            if bad not in [k for k in cls._value2name if type(k) is type(bad)]:
                out.append(("enum-illegal", e))
    out.append(("str-surrogate", "a\ud800b"))
    o = [c for c in R.classes if c.__name__ == "VgOne"][0]()
    o.a = 2 ** 64
    out.append(("object-field-out", o))
    out.append(("big-type-id", R.big_cls()))
    out.append(("big-type-id-nested", [R.big_cls()]))
    o2 = [c for c in R.classes if c.__name__ == "VgNest"][0]()
    o2.inner = R.big_cls()
    out.append(("big-type-id-in-object", o2))
    return out


def limit_values(R):
    """largest accepted sizes"""
    return [
        ("str-max", "a" * 2 ** 20),
        ("str-max-mb", "é" * 2 ** 19),
        ("bytes-max", b"\x01" * 2 ** 20),
        ("seq-max", [None] * 2 ** 14),
        ("tuple-max", tuple([True] * 2 ** 14)),
    ]


def limit_values_slow(R):
    return [
        ("map-max", {i: None for i in range(2 ** 14)}),
        ("set-max", set(range(2 ** 14))),
    ]


# ------------------------------------------------------------------------------------------
# the monitor: the property itself on the real code
# ------------------------------------------------------------------------------------------

def f32round(x):
    return struct.unpack(">f", struct.pack(">f", x))[0]


class OutOfDomain(Exception):
    """late=True: the value is built from supported types but the value the property promises back
    (elements at float32 precision) cannot be built by Python itself - stated, not claimed"""
    def __init__(self, why, late=False):
        Exception.__init__(self, why)
        self.late = late


def expected(R, v, top=True):
    """the value the property promises back (tuples as lists, floats at float32 precision);
    raises OutOfDomain for values the property excludes"""
    S = R.S
    t = type(v)
    if v is None or t is bool:
        return v
    if t is int:
        if not (-2 ** 63 <= v < 2 ** 63):
            raise OutOfDomain("int")
        return v
    if t is float:
        try:
            return f32round(v)
        except OverflowError:
            raise OutOfDomain("float32 overflow")
    if t is str:
        try:
            b = v.encode("utf-8")
        except UnicodeEncodeError:
            raise OutOfDomain("surrogate")
        if len(b) > 2 ** 20:
            raise OutOfDomain("str length")
        return v
    if t is bytes:
        if len(v) > 2 ** 20:
            raise OutOfDomain("bytes length")
        return v
    if t in (list, tuple, set, dict) and len(v) > 2 ** 14:
        raise OutOfDomain("collection length")
    if t is list or t is tuple:
        return [expected(R, x, False) for x in v]
    try:
        if t is set:
            return set(expected(R, x, False) for x in v)
        if t is dict:
            return {expected(R, k, False): expected(R, x, False) for k, x in v.items()}
    except (AttributeError, TypeError):
        raise OutOfDomain("keys collide after float32 rounding", late=True)
    if isinstance(v, (R.hello, R.shello)):
        raise OutOfDomain("handshake message (custom codec, checked separately)")
    if isinstance(v, S.Serializable):
        if not (0 <= v.type_id < 65536):
            raise OutOfDomain("type id")
        o = type(v)()
        for f in v._fields:
            setattr(o, f, expected(R, getattr(v, f), False))
        return o
    if isinstance(v, S.SerializableEnum):
        try:
            ok = v.value in v._value2name
        except (TypeError, AttributeError):
            ok = False
        if not ok:
            raise OutOfDomain("enum value")
        e = type(v)()
        e.value = expected(R, v.value, False)
        return e
    raise OutOfDomain("unsupported type")


def monitor_value(R, ctx, v, label):
    """round trip / exact consumption / refusal for one value; True if a failure was reported"""
    S = R.S
    try:
        exp = expected(R, v)
        indom = True
    except OutOfDomain as e:
        if e.late:
            ctx.count("monitor:late-refusal-not-claimed")
            return False
        indom = False
    except RecursionError:
        return False
    try:
        b = real_encode(R, v)
        raised = None
    except RecursionError:
        return False
    except Exception as e:
        raised = e
    t = tok(R, v)
    rep = {"case": ["case mon", R.reg_line, "enc " + (t if len(t) < 4000 else t[:4000] + "...")], "at": 1, "label": label}
    if not indom:
        ctx.count("monitor:refusal")
        if raised is None:
            ctx.failure("not-refused", "value outside the domain (%s) was encoded to %d bytes instead of being refused"
                        % (label, len(b)), rep)
            return True
        return False
    ctx.count("monitor:roundtrip")
    if raised is not None:
        ctx.failure("in-domain-refused", "in-domain value (%s) refused with %r" % (label, raised), rep)
        return True
    tail = b"\x00\x0f\xaa"
    stream = BytesIO(b + tail)
    try:
        back = S.deserialize_value(stream)
    except Exception as e:
        ctx.failure("decode-raises", "decoding the encoding of an in-domain value raised %r" % (e,), rep)
        return True
    if stream.tell() != len(b):
        ctx.failure("consumption", "decoder consumed %d of %d encoded bytes" % (stream.tell(), len(b)), rep)
        return True
    if canon(R, back) != canon(R, exp):
        ctx.failure("roundtrip-differs", "decode(encode(v)) != v: got %s expected %s"
                    % (canon(R, back)[:300], canon(R, exp)[:300]), rep)
        return True
    # dumpb / loadb agree with serialize_value / deserialize_value
    if isinstance(v, S.Serializable):
        if v.dumpb() != b:
            ctx.failure("dumpb-differs", "dumpb() differs from serialize_value()", rep)
            return True
        if canon(R, S.Serializable.loadb(b)) != canon(R, exp):
            ctx.failure("loadb-differs", "loadb(dumpb(v)) != v", rep)
            return True
    return False


def monitor_concat(R, ctx, vals):
    S = R.S
    try:
        encs = [real_encode(R, v) for v in vals]
        exps = [expected(R, v) for v in vals]
    except Exception:
        return False
    stream = BytesIO(b"".join(encs))
    pos = 0
    for i, (b, e) in enumerate(zip(encs, exps)):
        rep = {"case": ["case mon", R.reg_line, "decs %s %d" % (hx(b"".join(encs)), len(vals))], "at": 1}
        try:
            back = S.deserialize_value(stream)
        except Exception as ex:
            ctx.failure("concat-raises", "value %d of a concatenation raised %r" % (i, ex), rep)
            return True
        pos += len(b)
        if stream.tell() != pos or canon(R, back) != canon(R, e):
            ctx.failure("concat-differs", "value %d of a concatenation decoded wrongly or at the wrong position" % i, rep)
            return True
    ctx.count("monitor:concat")
    return False


# ------------------------------------------------------------------------------------------
# run
# ------------------------------------------------------------------------------------------

def make_case(R, cid, ops):
    return ["case %s" % cid, R.reg_line] + ops + ["end"]


def handshake_values(R, rng):
    K = R.K
    out = []
    for ver in [0, 1, 2 ** 31, -1, 2 ** 63 - 1]:
        m = R.hello()
        m.client_pubkey = K.EllipticCurvePrivateKey.new().getPublicKey()
        m.client_version = ver
        out.append(m)
    return out


def run(ctx):
    R = real()
    rng = ctx.rng
    cases = []
    values = []   # (label, value) for the monitor

    # enumerated boundaries: every width boundary +-1, both signs
    ops = []
    for i in boundary_ints():
        ops.append("enc " + tok(R, i))
        values.append(("int-boundary", i))
    cases.append(make_case(R, "ints", ops))
    ops = []
    for x in FLOAT_SPECIALS:
        ops.append("enc " + tok(R, x))
        ops.append("rnd " + struct.pack(">d", x).hex())
        values.append(("float-special", x))
    for s in STRS:
        ops.append("enc " + tok(R, s))
        values.append(("str", s))
    cases.append(make_case(R, "floats-strs", ops))
    # distinct members / keys that coincide at float32 precision (the decoded collection is smaller than the encoded count)
    ops = []
    for v in [{16777216.0, 16777217.0}, {0.1, 0.10000000149011612}, {1e10, 1e10 + 1, 1e10 + 2}, [{2.5, 2.5000000001}, 3],
              {"k": {1.0e-3, 1.0000000001e-3}}, {16777216.0: "a", 16777217.0: "b"}]:
        ops.append("enc " + tok(R, v))
        values.append(("float32-coincide", v))
    cases.append(make_case(R, "f32-coincide", ops))

    # float rounding kernel against struct
    ops = []
    for _ in range(ctx.scale(300, 40000)):
        r = rng.random()
        if r < 0.5:
            bits = rng.getrandbits(64)
        elif r < 0.8:
            # around float32-representable values: ties and near-ties
            x = struct.unpack(">f", struct.pack(">L", rng.getrandbits(32)))[0]
            if x != x or x in (math.inf, -math.inf):
                bits = rng.getrandbits(64)
            else:
                d = struct.unpack(">Q", struct.pack(">d", x))[0]
                bits = (d + rng.choice([0, 1 << 28, (1 << 28) + 1, (1 << 28) - 1, 1 << 29, (1 << 29) - 1, 3 << 28])) % 2 ** 64
        else:
            # denormal float32 range and overflow edge
            e = rng.choice(list(range(1023 - 152, 1023 - 124)) + [1023 + 126, 1023 + 127, 1023 + 128])
            bits = (rng.getrandbits(1) << 63) | (e << 52) | rng.choice([0, 1, rng.getrandbits(52), 1 << 51, (1 << 52) - 1,
                                                                          ((1 << 24) - 1) << 28, ((1 << 23) - 1) << 29])
        if (bits >> 52) & 0x7FF == 0x7FF and bits & ((1 << 52) - 1):
            continue   # NaN payloads: not compared
        ops.append("rnd %016x" % bits)
    cases.append(make_case(R, "rounding", ops))

    # size limits: largest accepted and smallest refused
    for label, v in limit_values(R):
        ops = ["enc " + tok(R, v)]
        try:
            b = real_encode(R, v)
            ops.append("dec " + hx(b[:8]) + "+" + hx(b[8:]))
        except Exception:
            pass   # the differential and the monitor report it
        cases.append(make_case(R, "limit-" + label, ops))
        values.append((label, v))
    # dict / set at the limit: the model's dict is an association list (quadratic on distinct keys), so the
    # decode side of the boundary is exercised with 2**14 (accepted) and 2**14+1 (refused) announced entries
    # that repeat a few keys, and with 3000 distinct keys; the encode side with 2**14 distinct keys
    for label, v in limit_values_slow(R):
        if ctx.tier == "thorough":
            cases.append(make_case(R, "limit-" + label, ["enc " + tok(R, v)]))
        values.append((label, v))
    one = b"\x00\x03\x01"
    ops = []
    for n in (2 ** 14, 2 ** 14 + 1):
        ops.append("dec 0011+" + hx(struct.pack(">Hh", 4, n)) + "+%d*%s" % (n, (one + one).hex()))
        ops.append("dec 0012+" + hx(struct.pack(">Hh", 4, n)) + "+%d*%s" % (n, one.hex()))
        ops.append("dec 0010+" + hx(struct.pack(">Hh", 4, n)) + "+%d*%s" % (n, one.hex()))
    nbig = ctx.scale(1200, 3000)
    for big in ({i: None for i in range(nbig)}, set(range(nbig))):
        try:
            ops.append("dec " + hx(real_encode(R, big)))
        except Exception:
            pass
    cases.append(make_case(R, "limit-dups", ops))
    ops = []
    for label, v in refusal_values(R):
        values.append((label, v))
        t = tok(R, v)
        if label.startswith("unsupported"):
            t = t.replace("U", "U")
        if "long" in label:
            cases.append(make_case(R, "refuse-" + label, ["enc " + t]))
        else:
            ops.append("enc " + t)
    cases.append(make_case(R, "refusals", ops))

    # handshake messages with custom codecs (client hello incl. padding; server hello signed)
    ops = []
    for m in handshake_values(R, rng):
        ops.append("enc " + tok(R, m))
    sh = R.shello()
    sh.server_pubkey = R.K.EllipticCurvePrivateKey.new().getPublicKey()
    sh.salt = b"0123456789abcdef"
    sh.token = 12345
    ops.append("enc " + tok(R, sh) + " rootkey")
    ops.append("enc " + tok(R, sh))
    ch = R.chal()
    ch.token = 2 ** 31
    ops.append("enc " + tok(R, ch))
    # ... and their encodings decoded again (stream position included), with the keyword each side uses
    hs_pairs = []
    with Instr(R):
        for m in handshake_values(R, rng):
            hs_pairs.append((m, real_encode(R, m), {}, "k=nokw"))
        rk = root_key(R)
        hs_pairs.append((sh, real_encode(R, sh, server_root_key=rk), {"server_public_key": None}, "k=none"))
        hs_pairs.append((sh, real_encode(R, sh, server_root_key=rk), {"server_public_key": rk.getPublicKey()},
                         "k=" + rk.getPublicKey().getBytes().hex()))
        hs_pairs.append((ch, real_encode(R, ch), {}, "k=nokw"))
    for m, b, kw, kwtok in hs_pairs:
        ops.append("dec %s %s" % (hx(b + b"\x00\x0f"), kwtok))
    # a client hello in the middle of a stream: its padding is measured from where it starts
    b_hello = hs_pairs[0][1]
    ops.append("decs %s 3" % hx(b"\x00\x03\x05" + b_hello + b"\x00\x0f"))
    ops.append("decs %s 3" % hx(b"\x00\x0d\x00\x03\x02hi" + b_hello[:-1] + b"\x00\x0f"))
    cases.append(make_case(R, "handshake-enc", ops))

    # random values: encode, decode the encoding, decode concatenations
    n = ctx.scale(250, 60000)
    for ci in range(n):
        ops = []
        vs = []
        for _ in range(rng.randint(1, 4)):
            v = gen_value(R, rng) if rng.random() < 0.9 else gen_deep(R, rng, rng.randint(1, 6))
            vs.append(v)
            values.append(("random", v))
            ops.append("enc " + tok(R, v))
        encs = []
        for v in vs:
            try:
                encs.append(real_encode(R, v))
            except Exception:
                pass
        for b in encs:
            ops.append("dec " + hx(b + bytes(rng.getrandbits(8) for _ in range(rng.choice([0, 0, 1, 5])))))
        if len(encs) >= 2:
            ops.append("decs %s %d" % (hx(b"".join(encs)), len(encs)))
            ops.append("decs %s %d" % (hx(b"".join(encs)), len(encs) + 1))
        cases.append(make_case(R, "r%d" % ci, ops))

    def nontrivial(case, outs):
        return any(o.startswith("err") for o in outs) or any(
            any(c in ln for c in "LSMOECH") or len(ln) > 16 for ln in case[2:-1])

    correspond(ctx, "Serial", cases, nontrivial, RULE)

    # monitor
    for label, v in values:
        ctx.count("value:" + label)
        if monitor_value(R, ctx, v, label):
            break
    if not ctx.failures:
        vals = [v for _, v in values if _ in ("random", "int-boundary", "str", "float-special")]
        for i in range(ctx.scale(300, 5000)):
            k = rng.choice([2, 3])
            if monitor_concat(R, ctx, [rng.choice(vals) for _ in range(k)]):
                break
    # handshake messages: loadb(dumpb(m)) gives the same message and stops at the end of the encoding
    if not ctx.failures:
        for m, b, kw, kwtok in hs_pairs:
            ctx.count("monitor:handshake")
            stream = BytesIO(b + b"\x00\x0f\xaa")
            rep = {"case": ["case mon", R.reg_line, "dec %s %s" % (hx(b), kwtok)], "at": 1}
            try:
                back = R.S.Serializable.loadb(stream, **kw)
            except Exception as e:
                ctx.failure("handshake-decode-raises", "decoding an encoded %s raised %r" % (type(m).__name__, e), rep)
                break
            if isinstance(m, R.shello):
                # the root key that comes back is the signing key's, not an attribute of the sent object
                same = (type(back) is type(m) and back.server_pubkey.getBytes() == m.server_pubkey.getBytes()
                        and back.salt == m.salt and back.token == m.token
                        and back.server_root_pubkey.getBytes() == root_key(R).getPublicKey().getBytes())
            else:
                same = canon(R, back) == canon(R, m)
            if stream.tell() != len(b) or not same:
                ctx.failure("handshake-roundtrip", "loadb(dumpb(m)) differs or stopped at %d of %d bytes for %s"
                            % (stream.tell(), len(b), type(m).__name__), rep)
                break
    ctx.notes["values_monitored"] = len(values)
    ctx.notes["registry_classes"] = len(R.S.SerializableType.registry)
