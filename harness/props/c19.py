"""C19 - password hashing: correspondence of Model/Auth.lean with mpgameserver/auth.py + monitor.

Every op is stateless (one call of Auth.hash_password / Auth.verify_password).  The real call is
made first, with `auth.scrypt` / `auth.os` replaced by recording shims around the real scrypt and
the real os.urandom; what scrypt was asked (`kq=`) and what it answered (`kv=`), the salt drawn
and SHA-256 of the password are written on the op line as oracle values.  The Lean driver answers
the same line from the model: its kdf/sha are one-row tables built from those values, and it
prints *whether and with what* the model consults the KDF (`q=`).
"""
import base64
import binascii
import hashlib
import signal
import struct
import types

from harness import core

PROP = "C19"
LEAN_MODULES = ["MpgsModel.Props.C19"]
MODEL_MODULES = ["MpgsModel.Model.Auth"]
NS = "Mpgs.Auth."
THEOREMS = [
    (NS + "C19_b64_roundtrip", "full"),
    (NS + "C19_hash_total", "full"),
    (NS + "C19_verify_own", "full"),
    (NS + "C19_reject_other", "full"),
    (NS + "C19_reject_other_iff", "full"),
    (NS + "C19_salt_injective", "full"),
    (NS + "C19_malformed", "full"),
    (NS + "C19_type_errors", "full"),
    (NS + "C19_zero_length_digest_refused", "full"),
    (NS + "C19_field_count", "full"),
    (NS + "C19_field_removal", "full"),
    (NS + "C19_truncated", "full"),
    (NS + "C19_verify_record", "full"),
    (NS + "C19_b64_invalid_char", "full"),
    (NS + "C19_b64_ignores_non_alphabet", "full"),
    (NS + "C19_unrepaired_truncated_witness", "witness"),
    (NS + "C19_unrepaired_zero_length_witness", "witness"),
]
ASSUMPTIONS = [
    "scrypt and SHA-256 are arbitrary functions in every theorem; that different passwords give different "
    "digests (collision resistance) is the explicit hypothesis of C19_reject_other, one-wayness is outside Lean",
    "os.urandom(16) returns 16 bytes (asserted on every hash op); that two draws differ is probabilistic and "
    "outside Lean - C19_salt_injective turns 'salts differ' into 'hashes differ'",
    "scrypt returns exactly `length` bytes (asserted on every recorded derive); hypothesis hk of C19_verify_own",
    "base64.b64decode is modelled as CPython 3.12's non-strict a2b_base64 state machine; "
    "str.encode('utf-8') as a full UTF-8 encoder with surrogates rejected",
    "Scrypt's constructor checks (n power of two > 1, r >= 1, p >= 1 -> ValueError) are modelled; parameter "
    "sets that make scrypt allocate more than the defaults are excluded from the generator and the claim "
    "(MemoryError depends on the host)",
    "'malformed' is read as in DESIGN C19: a string that does not decode (leniently, as b64decode does) to a "
    "four-field scrypt/1 record with six parameter bytes, |data| = salt_length + length, length >= 1 and a "
    "matching digest; non-canonical spellings of a well-formed record (ignored non-alphabet bytes, spare "
    "trailing bits) verify like the canonical string",
]
TRUSTED_EXTRA = [
    "recording shims: mpgameserver.auth.scrypt / .os are replaced by wrappers around the real Scrypt and the real "
    "os.urandom; Scrypt.verify is performed in the wrapper as derive + constant_time.bytes_eq + InvalidKey so that "
    "the derived value can be recorded (cross-checked against the real Scrypt.verify whenever N*r*p <= 4096)",
    "hashlib.sha256 / hashlib.scrypt and the base64 module as independent oracles of the monitor and of the "
    "generator (cheap-parameter hashes); CPython's base64/struct/str.encode are modelled by hand and compared "
    "directly in the AuthLib correspondence layer",
]
RULE = ("stateless hash/verify ops on the real Auth with real scrypt: real hash_password outputs (empty/NUL/10kB/"
        "random passwords) and cheap-parameter hashes built with hashlib.scrypt; right, near-identical and wrong "
        "passwords; every truncation position, field removal/emptying/extra fields, every base64 character replaced "
        "by an invalid byte / '=' / another alphabet character, insert/delete, every parameter byte edited, "
        "boundary values (field count 3/4/5, params 5/6/7 bytes, length 0/1/2, |data| +-1), method/version edits, "
        "random base64-ish fields, unicode and surrogates, wrong argument types; non-trivial = a case with at "
        "least one exception and at least one KDF consultation")

RULE_LIB = ("library models against the real functions: b64decode on enumerated padding shapes, every byte value in "
            "every quad position, mutated encodings and random text; b64encode; str.encode('utf-8') incl. range "
            "boundaries and surrogates; bytes.split(b':'); struct.unpack('>HBBBB'); Scrypt.__init__ argument checks")

AL = "ABCDEFGHIJKLMNOPQRSTUVWXYZabcdefghijklmnopqrstuvwxyz0123456789+/"
INVALID = ["!", "-", "_", " ", "\n", "\x00", "é", "€", "*", ".", "\U0001f600", "\t", "~"]
PAD_SHAPES = ["", "Q", "QQ", "QQ=", "QQ==", "QQ===", "QQ=\n=", "QQ=!=", "QQ=A", "QQ=A=", "QQ=AA", "Q=Q=", "Q=Q==",
              "=QQ==", "==QQ==", "QUI", "QUI=", "QUI==", "QU=I", "QU=I=", "QU==I", "QUJD", "QUJD=", "QUJD====",
              "QUJDQQ==QUJD", "QQ==QQ==", "QQ==!", "QQ==:", "====", "=", "Q===", "A=AA", "AA=A", "A=A=A=A=",
              "QQ= =", "QQ\n==", "Q\nQ==", "QR==", "QUK=", "Q-Q_", "QQ=\u00e9=", "QQ\x00=="]
DEFAULT = (16384, 16, 1, 16, 24)
MEM_LIMIT = 128 * 16384 * 16          # what the defaults need; nothing above is generated
WORK_LIMIT = 16384 * 16 * 4
FULL_COST = 16384 * 16 // 4           # derives at or above this N*r*p are counted as expensive


def b64e(b):
    return base64.b64encode(b).decode("ascii")


def sha256(b):
    return hashlib.sha256(b).digest()


def hexd(b):
    if b is None:
        return "none"     # e.g. the code derived but never handed scrypt an expected digest
    return b.hex() or "-"


def enc_arg(x):
    if isinstance(x, bytes):
        return "b:" + hexd(x)
    if isinstance(x, str):
        return "s:" + (".".join("%x" % ord(c) for c in x) or "-")
    if x is None:
        return "o:none"
    return "o:" + type(x).__name__


def dec_arg(tok):
    if tok.startswith("b:"):
        return b"" if tok == "b:-" else bytes.fromhex(tok[2:])
    if tok.startswith("s:"):
        return "" if tok == "s:-" else "".join(chr(int(w, 16)) for w in tok[2:].split("."))
    kind = tok[2:]
    return {"none": None, "int": 5, "bytearray": bytearray(b"scrypt:1:QAAQARAY:AAAA"), "list": [1],
            "memoryview": memoryview(b"pw"), "float": 1.5}.get(kind)


def exc_name(e):
    t = type(e)
    if t is binascii.Error:
        return "binascii.Error"
    if t is struct.error:
        return "struct.error"
    return t.__name__


def lenient_record(h):
    """independent reading of a hash string (no auth.py involved): -> (N, r, p, sl, ln, data) or None"""
    if not isinstance(h, str):
        return None
    try:
        enc = h.encode("utf-8")
    except UnicodeEncodeError:
        return None
    parts = enc.split(b":")
    if len(parts) != 4 or parts[0] != b"scrypt" or parts[1] != b"1":
        return None
    try:
        params = base64.b64decode(parts[2])
        data = base64.b64decode(parts[3])
    except binascii.Error:
        return None
    if len(params) != 6:
        return None
    N, r, p, sl, ln = struct.unpack(">HBBBB", params)
    return (N, r, p, sl, ln, data)


def scrypt_params_valid(N, r, p):
    return N >= 2 and (N & (N - 1)) == 0 and r >= 1 and p >= 1


def affordable(h):
    """False when verifying h could make scrypt work/allocate more than the defaults allow for.
    Looks at *any* field that decodes to six bytes (so that unpatched / mutated code cannot be
    driven into a huge derive either)."""
    if not isinstance(h, str):
        return True
    try:
        enc = h.encode("utf-8")
    except UnicodeEncodeError:
        return True
    for f in enc.split(b":"):
        try:
            params = base64.b64decode(f)
        except binascii.Error:
            continue
        if len(params) != 6:
            continue
        N, r, p, _sl, _ln = struct.unpack(">HBBBB", params)
        if scrypt_params_valid(N, r, p) and (128 * N * r > MEM_LIMIT or 128 * r * p > MEM_LIMIT
                                             or N * r * p > WORK_LIMIT):
            return False
    return True


def well_formed_and_matching(pw, h):
    """the only circumstances under which the property lets verify_password return True;
    digest recomputed with hashlib.scrypt (independent of the `cryptography` path auth.py uses)"""
    if not isinstance(pw, bytes):
        return False
    rec = lenient_record(h)
    if rec is None:
        return False
    N, r, p, sl, ln, data = rec
    if ln < 1 or len(data) != sl + ln or not scrypt_params_valid(N, r, p):
        return False
    d = hashlib.scrypt(sha256(pw), salt=data[:sl], n=N, r=r, p=p, dklen=ln, maxmem=2 ** 31 - 1)
    return d == data[sl:]


class _Timeout(Exception):
    pass


def _alarm(_sig, _frm):
    raise _Timeout()


class Impl:
    """drives the real Auth; records scrypt consultations and salts"""

    def __init__(self):
        core.use_repo()
        import mpgameserver.auth as A
        from cryptography.exceptions import InvalidKey
        from cryptography.hazmat.primitives import constant_time
        self.A = A
        self.log = []            # [N, r, p, length, salt, km, out, expected|None] per derive of the current call
        self.salts = []
        self.inject = None
        self.derives = 0
        self.full_derives = 0
        self.cache = {}
        real_scrypt = A.scrypt.Scrypt
        self.real_scrypt = real_scrypt
        real_urandom = A.os.urandom
        impl = self

        class RecScrypt(object):
            def __init__(s, salt, length, n, r, p, backend=None):
                s.args = (n, r, p, length, bytes(salt))
                s.mk = lambda: real_scrypt(salt, length, n, r, p)
                s.k = s.mk()      # the real constructor: raises what the real one raises

            def derive(s, km):
                out = s.k.derive(km)
                n, r, p, length, salt = s.args
                assert len(out) == length, ("scrypt returned %d bytes for length %d" % (len(out), length))
                impl.log.append([n, r, p, length, salt, bytes(km), out, None])
                impl.derives += 1
                if n * r * p >= FULL_COST:
                    impl.full_derives += 1
                return out

            def verify(s, km, expected):
                # cryptography's Scrypt.verify = derive + constant_time.bytes_eq, raising InvalidKey;
                # done here so that the derived value can be recorded (cross-checked against the real
                # verify() below whenever that is cheap)
                out = s.derive(km)
                impl.log[-1][7] = bytes(expected)
                same = constant_time.bytes_eq(out, expected)
                n, r, p, _length, _salt = s.args
                if n * r * p <= 4096:
                    try:
                        s.mk().verify(km, expected)
                        real_same = True
                    except InvalidKey:
                        real_same = False
                    assert real_same == same, "recording shim disagrees with Scrypt.verify"
                if not same:
                    raise InvalidKey("Keys do not match.")

        def rec_urandom(n):
            v = impl.inject if impl.inject is not None else real_urandom(n)
            assert len(v) == n == 16, "os.urandom(%r) gave %d bytes" % (n, len(v))
            impl.salts.append(v)
            return v

        A.scrypt = types.SimpleNamespace(Scrypt=RecScrypt)
        A.os = types.SimpleNamespace(urandom=rec_urandom)

    # ---------------------------------------------------------------- one real call
    def _call(self, fn, *args):
        del self.log[:]
        del self.salts[:]
        old = signal.signal(signal.SIGALRM, _alarm)
        signal.alarm(120)
        try:
            try:
                r = fn(*args)
                if r is True or r is False:
                    out = str(r)
                elif isinstance(r, str):
                    out = "ok " + r
                else:
                    out = "ret:" + type(r).__name__
            except _Timeout:
                out = "err:timeout"
            except Exception as e:
                out = "err:" + exc_name(e)
        finally:
            signal.alarm(0)
            signal.signal(signal.SIGALRM, old)
        return out

    def _oracle(self):
        if not self.log:
            return "kq=none kv=-", None
        n, r, p, length, salt, km, kv, _exp = self.log[0]
        return "kq=%d,%d,%d,%d,%s,%s kv=%s" % (n, r, p, length, hexd(salt), hexd(km), hexd(kv)), self.log[0]

    def hash_op(self, pw, salt=None):
        """-> (op line, output line, hash string or None)"""
        self.inject = salt
        out = self._call(self.A.Auth.hash_password, pw)
        self.inject = None
        used = self.salts[0] if self.salts else (salt if salt is not None else bytes(16))
        orc, _ = self._oracle()
        line = "hash P=%s salt=%s sha=%s %s" % (enc_arg(pw), hexd(used),
                                                hexd(sha256(pw)) if isinstance(pw, bytes) else "-", orc)
        self.cache[line] = out
        return line, out, (out[3:] if out.startswith("ok ") else None)

    def verify_op(self, pw, h):
        key = "verify P=%s H=%s" % (enc_arg(pw), enc_arg(h))
        out = self._call(self.A.Auth.verify_password, pw, h)
        orc, rec = self._oracle()
        if rec is None:
            q = "q=none"
        else:
            n, r, p, length, salt, km, _kv, exp = rec
            q = "q=%d,%d,%d,%d,%s,%s,%s" % (n, r, p, length, hexd(salt), hexd(km), hexd(exp))
        line = "%s sha=%s %s" % (key, hexd(sha256(pw)) if isinstance(pw, bytes) else "-", orc)
        out = out + " " + q
        self.cache[line] = out
        return line, out

    # ---------------------------------------------------------------- replaying lines
    def run_line(self, line):
        if line in self.cache:
            return self.cache[line]
        w = line.split()
        if w[0] == "hash":
            salt = bytes.fromhex(w[2][5:]) if w[2] != "salt=-" else b""
            l2, out, _ = self.hash_op(dec_arg(w[1][2:]), salt)
            return out
        if w[0] == "verify":
            l2, out = self.verify_op(dec_arg(w[1][2:]), dec_arg(w[2][2:]))
            return out
        return None

    def run_case(self, case):
        outs = []
        for line in case[1:]:
            w = line.split()
            if not w or w[0] in ("end",):
                continue
            o = self.run_line(line)
            if o is not None:
                outs.append(o)
        return outs


# ------------------------------------------------------------------------------ generator

def make_hash(params, salt, digest, method="scrypt", version="1"):
    return "%s:%s:%s:%s" % (method, version, b64e(struct.pack(">HBBBB", *params)), b64e(salt + digest))


def synth(rng, pw, N, r, p, sl, ln):
    """a well-formed hash of pw under cheap parameters, made without auth.py"""
    salt = rng.randbytes(sl)
    d = hashlib.scrypt(sha256(pw), salt=salt, n=N, r=r, p=p, dklen=ln, maxmem=2 ** 30)
    return make_hash((N, r, p, sl, ln), salt, d), salt, d


def near_passwords(rng, pw, k):
    c = []
    if pw:
        i = rng.randrange(len(pw))
        c.append(pw[:i] + bytes([pw[i] ^ (1 << rng.randrange(8))]) + pw[i + 1:])   # one bit
        c.append(pw[:-1])                                                          # last byte dropped
        c.append(pw[:-1] + bytes([(pw[-1] + 1) % 256]))                            # last byte +1
        c.append(pw.swapcase() if pw.swapcase() != pw else pw + b"x")
    c.append(pw + b"\x00")
    c.append(b"\x00" + pw)
    c.append(pw + b" ")
    c.append(pw + pw if pw else b"\x00\x00")
    c = [q for q in c if q != pw]
    rng.shuffle(c)
    return c[:k]


def corruptions(rng, h, exhaustive):
    """(tag, corrupted string) for a valid hash string h (ASCII)"""
    out = []
    parts = h.split(":")
    # truncation at every position (the empty string included, the full string excluded)
    for i in range(len(h)):
        out.append(("trunc", h[:i]))
    # fields
    for i in range(4):
        out.append(("field-removed", ":".join(parts[:i] + parts[i + 1:])))
        out.append(("field-emptied", ":".join(parts[:i] + [""] + parts[i + 1:])))
        out.append(("field-doubled", ":".join(parts[:i] + [parts[i], parts[i]] + parts[i + 1:])))
    out.append(("no-colons", "".join(parts)))
    out.append(("extra-field", h + ":"))
    out.append(("extra-field", h + ":" + parts[3]))
    out.append(("extra-field", ":" + h))
    out.append(("fields-swapped", ":".join([parts[0], parts[1], parts[3], parts[2]])))
    out.append(("fields-swapped", ":".join([parts[1], parts[0], parts[2], parts[3]])))
    for i, c in enumerate(h):
        if c == ":":
            out.append(("colon-replaced", h[:i] + rng.choice([";", " ", "=", "A", "："]) + h[i + 1:]))
            out.append(("colon-doubled", h[:i] + "::" + h[i + 1:]))
    # method / version
    for m in ["Scrypt", "SCRYPT", "scrypt ", " scrypt", "scryp", "scryptt", "", "bcrypt", "scrypt\x00", "sсrypt"]:
        out.append(("method", ":".join([m] + parts[1:])))
    for v in ["2", "0", "01", "1 ", " 1", "", "1\n", "11", "1.0", "١"]:
        out.append(("version", ":".join([parts[0], v] + parts[2:])))
    # base64 damage: every character of the two base64 fields
    off = len(parts[0]) + len(parts[1]) + 2
    positions = [i for i in range(off, len(h)) if h[i] != ":"]
    if not exhaustive:
        positions = sorted(rng.sample(positions, min(len(positions), 12)))
    for n, i in enumerate(positions):
        out.append(("b64-invalid", h[:i] + INVALID[(n + i) % len(INVALID)] + h[i + 1:]))
        out.append(("b64-pad", h[:i] + "=" + h[i + 1:]))
        other = rng.choice([c for c in AL if c != h[i]])
        out.append(("b64-other", h[:i] + other + h[i + 1:]))
        if h[i] in AL:
            k = AL.index(h[i])
            out.append(("b64-lowbit", h[:i] + AL[k ^ 1] + h[i + 1:]))
        out.append(("b64-deleted", h[:i] + h[i + 1:]))
        out.append(("b64-inserted-junk", h[:i] + INVALID[(n * 7 + i) % len(INVALID)] + h[i:]))
        out.append(("b64-inserted-valid", h[:i] + rng.choice(AL) + h[i:]))
    out.append(("b64-appended", h + "\n"))
    out.append(("b64-appended", h + "="))
    out.append(("b64-appended", h + "A"))
    out.append(("b64-appended", h + "AAAA"))
    out.append(("b64-urlsafe", h.replace("+", "-").replace("/", "_")))
    out.append(("b64-unpadded", h.rstrip("=")))
    # parameter edits
    params = bytearray(base64.b64decode(parts[2]))
    data = base64.b64decode(parts[3])
    N, r, p, sl, ln = struct.unpack(">HBBBB", bytes(params))
    for j in range(6):
        vals = {0, 1, 2, 255, 128, (params[j] - 1) % 256, (params[j] + 1) % 256, params[j] ^ 0x80, params[j] // 2}
        if exhaustive:
            vals |= {rng.randrange(256) for _ in range(4)}
        for v in sorted(vals):
            if v == params[j]:
                continue
            q = bytearray(params)
            q[j] = v
            out.append(("param-byte%d" % j, ":".join(parts[:2] + [b64e(bytes(q)), parts[3]])))
    for q in [params[:5], params + b"\x00", b"", params[:3], params + params, params[1:]]:
        out.append(("param-size", ":".join(parts[:2] + [b64e(bytes(q)), parts[3]])))
    # consistent re-packing: (length = k, data = salt + digest[:k]) and (salt_length = k)
    for k in sorted({0, 1, 2, ln - 1, ln + 1, ln // 2}):
        if 0 <= k <= 255:
            pk = struct.pack(">HBBBB", N, r, p, sl, k)
            out.append(("digest-len=%s" % ("0" if k == 0 else "k"),
                        ":".join(parts[:2] + [b64e(pk), b64e(data[:sl + k] + b"\x00" * max(0, k - ln))])))
            out.append(("digest-len-only", ":".join(parts[:2] + [b64e(pk), parts[3]])))
    for k in sorted({0, 1, sl - 1, sl + 1, sl + ln, sl + ln - 1, 255}):
        if 0 <= k <= 255:
            pk = struct.pack(">HBBBB", N, r, p, k, ln)
            out.append(("salt-len", ":".join(parts[:2] + [b64e(pk), parts[3]])))
    # data one byte short / long, data = salt only, data empty
    for d2 in [data[:-1], data + b"\x00", data[:sl], b"", data[1:], data[:sl] + data[sl:][::-1]]:
        out.append(("data-size" if len(d2) != len(data) else "digest-reversed",
                    ":".join(parts[:3] + [b64e(d2)])))
    # unicode
    out.append(("unicode", h + "é"))
    out.append(("unicode", "﻿" + h))
    out.append(("surrogate", h + "\ud800"))
    out.append(("surrogate", "\udfff" + h))
    out.append(("surrogate", h[:off] + "\udc80" + h[off:]))
    return [(t, s) for t, s in out if s != h]


PASSWORDS_FIXED = [b"", b"\x00", b"a\x00b", b"pass\x00", b"hunter2", b"\xff\xfe\x00\x80", "päss".encode("utf-8")]


def random_password(rng):
    r = rng.random()
    if r < 0.1:
        return b""
    if r < 0.3:
        return rng.randbytes(rng.randint(1, 4))
    if r < 0.6:
        return bytes(rng.choice(b"abcXYZ019 \x00") for _ in range(rng.randint(1, 24)))
    return rng.randbytes(rng.randint(5, 80))


def cheap_params(rng):
    N = 2 ** rng.randint(1, 6)
    r = rng.randint(1, 4)
    p = rng.randint(1, 3)
    sl = rng.choice([0, 1, 2, 8, 15, 16, 16, 16, 17, 32, 64])
    ln = rng.choice([1, 2, 3, 16, 23, 24, 24, 24, 25, 32, 64])
    return N, r, p, sl, ln


def b64ish(rng, n):
    """random text over the alphabet, '=' and junk, for the decoder's state machine"""
    pool = AL * 3 + "====" + "!-_ \n"
    return "".join(rng.choice(pool) for _ in range(n))


class Gen:
    """builds cases; every op is executed on the real code when it is generated (to record the
    oracle values that go on the line); metadata for the monitor is kept beside the line"""

    def __init__(self, ctx, impl):
        self.ctx, self.impl, self.rng = ctx, impl, ctx.rng
        self.cases = []
        self.cur = None
        self.meta = {}      # line -> list of dicts(tag, pw, h, expect)
        self.skipped = 0

    def begin(self, name):
        self.cur = ["case %s%d" % (name, len(self.cases))]

    def finish(self):
        if self.cur is not None and len(self.cur) > 1:
            self.cur.append("end")
            self.cases.append(self.cur)
        self.cur = None

    def _roll(self, name, limit=40):
        if self.cur is None:
            self.begin(name)
        elif len(self.cur) > limit:
            self.finish()
            self.begin(name)

    def verify(self, name, tag, pw, h, expect, base=None):
        """expect: 'own' | 'other' | 'malformed' | 'none'"""
        if not affordable(h):
            self.skipped += 1
            self.ctx.count("skipped-unaffordable")
            return None
        self._roll(name)
        line, out = self.impl.verify_op(pw, h)
        self.cur.append(line)
        self.meta.setdefault(line, []).append({"tag": tag, "pw": pw, "h": h, "expect": expect, "base": base,
                                               "case": self.cur[0]})
        self.ctx.count("tag:" + tag.split("=")[0].rstrip("0123456789"))
        self.ctx.count("out:" + out.split()[0])
        self.ctx.count("kdf:" + ("consulted" if "q=none" not in out else "not-consulted"))
        if tag in ("b64-random", "b64-padshape", "garbage"):
            self.ctx.count("%s:%s" % (tag, out.split()[0] + ("+kdf" if "q=none" not in out else "")))
        return out

    def hash(self, name, pw, salt=None):
        self._roll(name)
        line, out, h = self.impl.hash_op(pw, salt)
        self.cur.append(line)
        self.meta.setdefault(line, []).append({"tag": "hash", "pw": pw, "h": h, "expect": "hash",
                                               "case": self.cur[0]})
        self.ctx.count("tag:hash")
        self.ctx.count("out:" + out.split()[0])
        return h


def generate(ctx, impl):
    g = Gen(ctx, impl)
    rng = ctx.rng
    thorough = ctx.tier == "thorough"
    ctx.notes["corpus_ops"] = load_corpus(g)

    # ---- F1: real hash_password outputs, right / near-identical / wrong passwords, fresh salts
    pws = list(PASSWORDS_FIXED) + [rng.randbytes(10240)] + [random_password(rng) for _ in range(ctx.scale(2, 30))]
    real = []
    for pw in pws:
        h = g.hash("real", pw)
        if h is None:
            continue
        real.append((pw, h))
        g.verify("real", "own", pw, h, "own")
        for q in near_passwords(rng, pw, ctx.scale(2, 6)):
            g.verify("real", "near-identical", q, h, "other")
    # same password twice: fresh salt each time (monitor compares the two strings)
    fresh = []
    for pw, h1 in real[:ctx.scale(2, 8)]:
        h2 = g.hash("real", pw)
        fresh.append((pw, h1, h2, g.cur[-1]))
    # chosen salts (all base64 characters incl. '+', '/', both paddings are reached through the digest anyway)
    for salt in [bytes(16), b"\xff" * 16, bytes(range(0xf0, 0x100)), b":" * 16, b"\xfb\xef\xbe" * 5 + b"\xfb"]:
        pw = random_password(rng)
        h = g.hash("real", pw, salt)
        if h is not None:
            real.append((pw, h))
            g.verify("real", "own", pw, h, "own")
    g.finish()
    # wrong types
    some_h = real[0][1] if real else "scrypt:1:QAAQARAY:AAAA"
    for pw in ["password", None, bytearray(b"pw"), 5, [1]]:
        g.hash("types", pw)
        g.verify("types", "type-password", pw, some_h, "malformed")
    for h in [some_h.encode(), None, 5, bytearray(b"x")]:
        g.verify("types", "type-hash", b"pw", h, "malformed")
    g.verify("types", "type-both", None, None, "malformed")
    g.finish()

    # ---- F2-F4: corruptions of one real (full-cost) hash; the ones that reach the KDF are rationed
    if real:
        pw, h = real[rng.randrange(min(len(real), 4))] if not thorough else real[0]
        budget = ctx.scale(60, 400)
        cors = corruptions(rng, h, thorough)
        rng.shuffle(cors)
        start = impl.full_derives
        for tag, s in cors:
            # a string that still reads as a record may cost a full scrypt derive (0.1 s): rationed
            if lenient_record(s) is not None and impl.full_derives - start >= budget:
                ctx.count("skipped-budget")
                continue
            g.verify("realcor", tag, pw, s, "malformed", base=h)
            if tag == "digest-len=0":
                g.verify("realcor", tag, b"some other password", s, "malformed", base=h)
        g.finish()

    # ---- F5: cheap-parameter hashes (built with hashlib.scrypt), the full corruption catalogue each
    nbase = ctx.scale(10, 250)
    for i in range(nbase):
        pw = rng.choice(PASSWORDS_FIXED) if i < len(PASSWORDS_FIXED) and i % 2 == 0 else random_password(rng)
        params = cheap_params(rng) if i else (2, 1, 1, 16, 24)
        h, salt, d = synth(rng, pw, *params)
        g.verify("synth", "own-synth", pw, h, "none")
        for q in near_passwords(rng, pw, 3):
            g.verify("synth", "near-identical-synth", q, h, "malformed")   # never True
        exhaustive = thorough or i < 2
        for tag, s in corruptions(rng, h, exhaustive):
            use = pw if rng.random() < 0.8 else random_password(rng)
            g.verify("synth", tag, use, s, "malformed", base=h)
        g.finish()

    # ---- F6: the decoder's state machine: enumerated padding shapes, mutated encodings, random text;
    #          parameters chosen so that the decoded data has the right size and shows up in `q=`
    def b64_case(tag, f3, junk_params=False):
        try:
            n = len(base64.b64decode(f3.encode("utf-8", "surrogatepass")))
        except binascii.Error:
            n = None
        if n and rng.random() < 0.9:
            sl = rng.randint(0, n - 1)
            ln = n - sl
            if rng.random() < 0.1:
                ln = max(0, ln + rng.choice([-1, 1]))
        else:
            sl, ln = rng.randint(0, 3), rng.randint(0, 3)
        pk = b64e(struct.pack(">HBBBB", 2 ** rng.randint(1, 3), 1, 1, sl % 256, ln % 256))
        if junk_params:      # junk / padding inside the parameter field as well
            j = rng.randrange(len(pk) + 1)
            pk = pk[:j] + rng.choice(["=", "==", "\n", "!", "A", "="]) + pk[j:]
        g.verify("b64", tag, random_password(rng) if rng.random() < 0.5 else b"pw",
                 "scrypt:1:%s:%s" % (pk, f3), "malformed")

    for f3 in PAD_SHAPES:
        b64_case("b64-padshape", f3)
        b64_case("b64-padshape", f3 + f3)
        b64_case("b64-padshape", "QUJD" + f3)
    for i in range(ctx.scale(4000, 120000)):
        r = rng.random()
        if r < 0.5:
            t = list(b64e(rng.randbytes(rng.randint(0, 14))))
            for _ in range(rng.choice([0, 1, 1, 2, 3])):
                k = rng.random()
                j = rng.randrange(len(t) + 1)
                if k < 0.3:
                    t.insert(j, rng.choice(INVALID))
                elif k < 0.5:
                    t.insert(j, "=")
                elif k < 0.65 and t:
                    del t[min(j, len(t) - 1)]
                elif k < 0.8 and t:
                    t[min(j, len(t) - 1)] = rng.choice(AL + "=")
                elif k < 0.9:
                    t = t[:j]
                else:
                    t.append(rng.choice(["=", "==", "A", "AA=", "QQ=="]))
            f3 = "".join(t)
        else:
            f3 = b64ish(rng, rng.choice([0, 2, 3, 4, 4, 7, 8, 8, 11, 12, 12, 16, rng.randint(0, 24)]))
        b64_case("b64-random", f3, rng.random() < 0.25)
    g.finish()

    # ---- F7: garbage, boundary counts of fields
    for i in range(ctx.scale(1200, 12000)):
        r = rng.random()
        if r < 0.3:
            s = "".join(rng.choice("scrypt1:=AQ \n") for _ in range(rng.randint(0, 30)))
        elif r < 0.5:
            s = ":".join(b64ish(rng, rng.randint(0, 9)) for _ in range(rng.randint(1, 7)))
        elif r < 0.7:
            s = ":".join(["scrypt", "1"] + [b64ish(rng, rng.randint(0, 12)) for _ in range(rng.randint(0, 4))])
        elif r < 0.85:
            s = "".join(chr(rng.choice([rng.randrange(0x80), rng.randrange(0x800), rng.randrange(0x10000),
                                        rng.randrange(0x110000), 0x3a, 0xd800 + rng.randrange(0x800)]))
                        for _ in range(rng.randint(0, 12)))
        else:
            s = "scrypt:1:" + b64e(rng.randbytes(rng.choice([5, 6, 6, 6, 7]))) + ":" + b64e(rng.randbytes(rng.randint(0, 40)))
        g.verify("garbage", "garbage", random_password(rng), s, "malformed")
    g.finish()
    ctx.notes["skipped_unaffordable"] = g.skipped
    return g, real, fresh


# ------------------------------------------------------------------------------ library layer

def lib_impl(line, real_scrypt):
    """the real library function for a `lib <op> <arg>` line"""
    _, op, arg = line.split()
    try:
        if op == "b64d":
            return "ok " + hexd(base64.b64decode(b"" if arg == "-" else bytes.fromhex(arg)))
        if op == "b64e":
            return "ok " + hexd(base64.b64encode(b"" if arg == "-" else bytes.fromhex(arg)))
        if op == "utf8":
            return "ok " + hexd(dec_arg("s:" + arg).encode("utf-8"))
        if op == "split":
            return "ok " + "|".join(hexd(f) for f in (b"" if arg == "-" else bytes.fromhex(arg)).split(b":"))
        if op == "unpack":
            return "ok %d,%d,%d,%d,%d" % struct.unpack(">HBBBB", b"" if arg == "-" else bytes.fromhex(arg))
        if op == "sinit":
            n, r, p = (int(x) for x in arg.split(","))
            real_scrypt(b"salt", 8, n, r, p)
            return "ok"
    except Exception as e:
        return "err:" + exc_name(e)
    return "bad-op"


def lib_cases(ctx):
    """base64 / utf-8 / split / struct / Scrypt.__init__ models against the real library"""
    rng = ctx.rng
    cases, cur = [], []

    def add(line):
        cur.append(line)
        if len(cur) >= 50:
            flush()

    def flush():
        if cur:
            cases.append(["case lib%d" % len(cases)] + cur[:] + ["end"])
            del cur[:]

    for f in PAD_SHAPES:
        add("lib b64d " + hexd(f.encode("utf-8")))
    for n in range(0, 20):
        add("lib b64e " + hexd(rng.randbytes(n)))
    for b in range(256):          # every byte value in each quad position of the decoder
        for pre in ("", "Q", "QU", "QUJ"):
            add("lib b64d " + hexd(pre.encode() + bytes([b]) + b"QQ=="))
    for i in range(ctx.scale(6000, 200000)):
        r = rng.random()
        if r < 0.35:
            add("lib b64d " + hexd(b64ish(rng, rng.randint(0, 20)).encode()))
        elif r < 0.6:
            t = bytearray(base64.b64encode(rng.randbytes(rng.randint(0, 12))))
            for _ in range(rng.randint(0, 3)):
                j = rng.randrange(len(t) + 1)
                k = rng.random()
                if k < 0.4:
                    t.insert(j, rng.choice(b"=\n!-_ \x00\xff:"))
                elif k < 0.6 and t:
                    del t[min(j, len(t) - 1)]
                elif k < 0.8 and t:
                    t[min(j, len(t) - 1)] = rng.randrange(256)
                else:
                    t = t[:j]
            add("lib b64d " + hexd(bytes(t)))
        elif r < 0.7:
            add("lib b64e " + hexd(rng.randbytes(rng.randint(0, 40))))
        elif r < 0.8:
            cps = [rng.choice([rng.randrange(0x80), rng.randrange(0x800), rng.randrange(0x10000),
                               rng.randrange(0x110000), 0x7f, 0x80, 0x7ff, 0x800, 0xd7ff, 0xd800, 0xdfff, 0xe000,
                               0xffff, 0x10000, 0x10ffff]) for _ in range(rng.randint(0, 6))]
            add("lib utf8 " + (".".join("%x" % c for c in cps) or "-"))
        elif r < 0.9:
            add("lib split " + hexd(bytes(rng.choice(b"::ab=") for _ in range(rng.randint(0, 10)))))
        elif r < 0.95:
            add("lib unpack " + hexd(rng.randbytes(rng.choice([0, 1, 5, 6, 6, 6, 7, 12]))))
        else:
            n = rng.choice([0, 1, 2, 3, 4, 5, 6, 7, 8, 255, 256, 257, 1023, 1024, 16383, 16384, 16385, 32768, 65535,
                            rng.randrange(65536)])
            add("lib sinit %d,%d,%d" % (n, rng.choice([0, 1, 2, 16, 255]), rng.choice([0, 1, 2, 255])))
    flush()
    return cases


# ------------------------------------------------------------------------------ monitor

def monitor(ctx, impl, g, fresh):
    """the property, on the real outputs recorded above"""
    for pw, h1, h2, line in fresh:
        # both strings come from the real os.urandom (no injected salt)
        if h1 is not None and h1 == h2:
            ctx.failure("hashes-equal", "two hash_password() calls for one password returned the same string",
                        {"case": ["case fresh", line, "end"], "at": 0, "password_hex": pw.hex(), "hash": h1})
        ctx.count("monitor:fresh-pairs")
    for case in g.cases:
        for idx, line in enumerate(case[1:-1]):
            out = impl.cache[line]
            res = out.split()[0] if not out.startswith("ok ") else "ok"
            for m in g.meta.get(line, []):
                if m["case"] != case[0]:
                    continue
                replay = {"case": [case[0], line, "end"], "at": 0, "tag": m["tag"], "observed": out,
                          "password_hex": m["pw"].hex() if isinstance(m["pw"], bytes) else repr(m["pw"]),
                          "hash": m["h"] if isinstance(m["h"], str) else repr(m["h"]), "derived_from": m.get("base")}
                ex = m["expect"]
                if ex == "hash":
                    if isinstance(m["pw"], bytes) and res != "ok":
                        ctx.failure("hash-raises", "hash_password(bytes) gave %s" % out, replay)
                elif ex == "own":
                    if res != "True":
                        ctx.failure("own-password-rejected",
                                    "verify_password(p, hash_password(p)) gave %s" % out, replay)
                elif ex == "other":
                    if res != "False":
                        ctx.failure("other-password-" + ("accepted" if res == "True" else "raises"),
                                    "verify_password(q, hash_password(p)), q != p, gave %s" % out, replay)
                elif ex == "malformed":
                    if res == "True":
                        if not well_formed_and_matching(m["pw"], m["h"]):
                            ctx.failure("malformed-hash-verifies/" + _group(m["tag"]),
                                        "verify_password returned True for a hash string that is not a well-formed "
                                        "record with the password's digest (%s)" % m["tag"], replay)
                        else:
                            ctx.count("monitor:true-on-equivalent-record")
                    elif res == "False":
                        pass
                    elif res.startswith("err:"):
                        name = res[4:]
                        if name not in ("ValueError", "TypeError", "binascii.Error", "UnicodeEncodeError"):
                            ctx.failure("malformed-hash-raises-%s/%s" % (name, _group(m["tag"])),
                                        "verify_password raised %s (neither ValueError nor TypeError) for a "
                                        "malformed hash (%s)" % (name, m["tag"]), replay)
                    else:
                        ctx.failure("unexpected-result", "verify_password gave %s" % out, replay)


def _group(tag):
    """coarse class of a corruption, so that different defects get different replay files"""
    if tag.startswith("digest-len=0"):
        return "zero-length-digest"
    if tag in ("extra-field", "field-doubled", "colon-doubled"):
        return "extra-field"
    if tag in ("trunc", "field-removed", "no-colons", "colon-replaced"):
        return "missing-field"
    return tag.split("=")[0].rstrip("0123456789")


def load_corpus(g):
    """harness/corpus/C19/*.ops: past disagreements / defect witnesses as `verify P=<arg> H=<arg>` lines
    (oracle values are re-recorded from the real run); run before the generated cases"""
    import glob
    import os
    d = os.path.join(core.HERE, "corpus", "C19")
    n = 0
    for path in sorted(glob.glob(os.path.join(d, "*.ops"))):
        name = "corpus-" + os.path.splitext(os.path.basename(path))[0] + "-"
        for line in open(path, encoding="utf-8"):
            w = line.split()
            if len(w) >= 3 and w[0] == "verify" and w[1].startswith("P=") and w[2].startswith("H="):
                g.verify(name, "corpus", dec_arg(w[1][2:]), dec_arg(w[2][2:]), "malformed")
                n += 1
        g.finish()
    return n


def run(ctx):
    impl = Impl()
    g, real, fresh = generate(ctx, impl)
    cases = g.cases

    def nontrivial(case, outs):
        return any(o.startswith("err") for o in outs) and any("q=none" not in o and not o.startswith("ok ")
                                                              and not o.startswith("err:TypeError") for o in outs)

    ctx.correspondence("Auth", "C19", cases, impl.run_case, nontrivial, RULE)
    real_scrypt = impl.real_scrypt
    lcases = lib_cases(ctx)
    ctx.correspondence("AuthLib", "C19", lcases,
                       lambda case: [lib_impl(l, real_scrypt) for l in case[1:-1]],
                       lambda case, outs: any(o.startswith("err") for o in outs), RULE_LIB)
    ctx.notes["lib_op_lines"] = sum(len(c) - 2 for c in lcases)
    monitor(ctx, impl, g, fresh)
    ctx.notes["op_lines"] = sum(len(c) - 2 for c in cases)
    ctx.notes["scrypt_derives"] = impl.derives
    ctx.notes["scrypt_full_cost_derives"] = impl.full_derives
    ctx.notes["real_hash_password_outputs"] = len(real)


def replay_case(ctx, obj):
    """--replay: run the recorded op on the real code and on the model, print both"""
    impl = Impl()
    rep = obj.get("replay", obj)
    case = rep.get("case") if isinstance(rep, dict) else None
    if not case:
        for d in obj.get("disagreements", []):
            case = d.get("case")
            break
    if not case:
        print("no case in replay file")
        return 0
    impl.cache.clear()
    outs = impl.run_case(case)
    print("implementation:", outs)
    try:
        print("model:         ", core.split_cases(ctx.lean("C19", case)).get(core.case_id(case)))
    except core.LeanUnavailable as e:
        print("model unavailable:", e)
    return 0
