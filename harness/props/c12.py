"""C12 - keep-alives and time-outs: idle links stay up, dead peers are detected, settings take effect."""
import itertools
import signal

from harness import core, connlib

PROP = "C12"
LEAN_MODULES = ["MpgsModel.Props.C12"]
MODEL_MODULES = ["MpgsModel.Model.Client", "MpgsModel.Model.Handshake", "MpgsModel.Model.ToyAead", "MpgsModel.Model.ConnStep"]
NS = "Mpgs.Conn."
THEOREMS = [
    (NS + "C12_keepalive_emits", "full"),
    (NS + "C12_keepalive_emits_total", "full"),
    (NS + "C12_keepalive_cadence", "full"),
    (NS + "C12_keepalive_cadence_max", "full"),
    (NS + "xstep_typed", "full"),
    (NS + "C12_keepalive_emits_typed", "full"),
    (NS + "C12_keepalive_cadence_typed", "full"),
    (NS + "C12_no_false_timeout", "full"),
    (NS + "C12_no_false_drop", "full"),
    (NS + "C12_never_timed_out", "full"),
    (NS + "C12_never_dropped", "full"),
    (NS + "C12_idle_pair_stays_up", "full"),
    (NS + "C12_dead_peer_detected_server", "full"),
    (NS + "C12_dead_peer_detected_client", "full"),
    (NS + "C12_connect_timeout_step", "full"),
    (NS + "C12_connect_timeout", "full"),
    (NS + "C12_connect_timeout_status", "full"),
    (NS + "C12_settings_effective", "full"),
    (NS + "C12_last_value_wins", "full"),
    (NS + "C12_connect_state", "full"),
    (NS + "C12_server_settings_effective", "full"),
    (NS + "C12_server_last_value", "full"),
    (NS + "C12_update_drains", "full"),
    (NS + "C12_update_is_history", "full"),
]
ASSUMPTIONS = [
    "time is integer ticks of 1/1024 s; every interval of a differential case is a whole number of ticks so the float comparisons of "
    "the code are exact; the library's non-dyadic defaults (.1 s, 1/60 s) are parameters of the model's constructors and appear in the "
    "comparison only rounded to ticks, where they are merely copied",
    "hypotheses of the cadence theorem (C12_keepalive_cadence_typed): the build calls come at most tau apart, the connection is CONNECTED "
    "at each of them and packing does not raise (C09_build_total); that every message held for sending carries a real packet type is an "
    "invariant (Typed: true of a fresh connection, kept by every operation - xstep_typed), not an assumption",
    "both send times agree at the start of a history (fresh connection: both -1 s; every emission sets both)",
    "'unanswered' connect = no server hello that parses and verifies is processed (Role.KeepsHc; proved for the client role under "
    "Hs.NoValidHello and for the base role); 'silent peer' = no datagram is accepted (rejected garbage may still arrive)",
    "C12_idle_pair_stays_up composes the sender's cadence with the receiver's liveness clock over a link given as a hypothesis: every "
    "emission is delivered in order after a delay of at most delta (transit + wait for the receiver's next tick) and the receiver accepts "
    "exactly these datagrams (that a genuine fresh sealed datagram is accepted is C01/C04's subject; the world monitor counts datagrams a "
    "peer rejected on the perfect link: the number is in the evidence notes); there is no separate Net model with loss/reordering here",
    "the server loop is modelled only where it reads the configuration (new connection, the two sweeps); thread scheduling and the real "
    "tick length are outside the model - the world monitor drives the real loop under a virtual clock",
    "UdpClient.update is modelled whole (clientUpdateFull: conn.update, drain loop as repaired by 3918c48, send half) and proved to be a "
    "history of XOps at one clock value; in the differential its receive half only sees datagrams anybody can build (CRC form, garbage, "
    "junk hellos) because the model driver seals with a toy AEAD - sealed traffic through update() is covered by the world monitor (real "
    "code only) and by the Conn-layer recv ops; the liveness clock is the time a datagram is PROCESSED, so the 5 s / connection_timeout "
    "deadlines count from the update / loop iteration that read the peer's last datagram",
]
RULE = ("(a) Conn layer, native model driver: pairs of real connection objects (client side a ClientServerConnection) over a perfect link with "
        "delay, keep-alive 16..2048 ticks, send interval 8..32, tick spacings 8..110 per side, time-outs 256..20480 with keep-alive + spacing "
        "+ delay below them; idle for up to thousands of keep-alive periods, then the link is cut (both or one direction) at a random "
        "phase of the keep-alive cycle; extra calls exactly at last+keepalive, +1, last_recv+5 s, +1 tick, last_recv+timeout-1, +0; "
        "unanswered connects with and without callback under forged/garbage datagrams with update calls at hello+timeout-1,+0,+1; compared: "
        "every build result (none / packet type / count), every update() result and event, recv results, time-out scans, status, counters and "
        "the three clock fields of the dumps. (b) C12 model driver: UdpClient setter/connect sequences in every order (all 24 permutations, "
        "repeated setters, setters after connect) on the real UdpClient with a fake socket; ServerContext setter sequences, the connection "
        "object the REAL server loop creates for a real client hello, and the sweep decisions of one real loop iteration for connections "
        "placed in either pool with last_recv at the boundary; ServerClientConnection.update / UdpClient.update / timedout on states given "
        "field by field at the boundaries of send interval, keep-alive and message time-out; the whole UdpClient.update with 0..9 forged / garbage "
        "/ junk-hello datagrams waiting on the socket (results per datagram, exception class, datagrams left unread). (c) world monitor: real UdpClient (fake socket, "
        "select patched) against the real UdpServerThread loop under one virtual clock. "
        "non-trivial = the case contains a keep-alive emission and a detection (DROPPED / time-out / connect time-out), or a setter after connect, "
        "or a boundary probe")

TICK = connlib.TICK
KEY = connlib.KEY


# ============================================================================================ (a) Conn-layer scenarios

def post_fn(op, out):
    k = op.split()[0]
    if k == "build":
        if out.startswith("pkt"):
            kv = dict(x.split("=", 1) for x in out.split()[1:])
            return "pkt ty=%s count=%s sealed=%s" % (kv["ty"], kv["count"], kv["sealed"])
        return out
    if k in ("cupd", "recv", "tmo", "send", "hello"):
        return out
    if k == "dump":
        return connlib.dump_fields(out, ["st", "key", "ss", "bp", "ctr", "last", "hs", "inc"])
    return None


def draw_cfg(rng, long_idle=False):
    ka = rng.choice([16, 17, 31, 32, 33, 64, 96, 102, 200, 512, 1024, 2048])
    kb = rng.choice([16, 17, 31, 32, 33, 64, 96, 102, 200, 512, 1024, 2048])
    if long_idle:
        ka, kb = rng.choice([16, 17, 32]), rng.choice([16, 32, 96])
    cfg = {"ka_a": ka, "ka_b": kb, "si_a": rng.choice([16, 16, 17, 8, 32]), "si_b": rng.choice([16, 16, 17, 8, 32]),
           "tau_a": rng.randint(8, 110), "tau_b": rng.randint(8, 110), "delta": rng.choice([1, 1, 5, 20, 60])}
    need = cfg["ka_a"] + cfg["tau_a"] + cfg["tau_b"] + cfg["delta"] + max(cfg["si_a"], cfg["si_b"]) + 2
    pool = [x for x in (256, 300, 512, 1000, 1024, 2048, 3000, 5120, 8000, 20480) if x > need]
    cfg["ct"] = rng.choice(pool)
    return cfg


class Obs:
    """what the monitors need, recorded while the case runs on the real objects"""

    def __init__(self, cfg):
        self.cfg = cfg
        self.emits = {"a": [], "b": []}      # emission times while the endpoint was in service
        self.builds = {"a": [], "b": []}     # build call times while in service
        self.sweeps = []                     # (t, last_recv ticks, timedout(ct))
        self.cupds = []                      # (t, last_recv ticks before, status before, status after)
        self.cut = None
        self.at = {}                         # line index of interesting records


def gen_idle_cut(real, rng, cid, cfg, idle_ticks, cut_mode):
    """two endpoints exchange keep-alives over a perfect link, then the link is cut; executed on the real objects while generated"""
    lines = ["case %s" % cid]
    run = connlib.CaseRun(real)
    obs = Obs(cfg)

    def emit(line):
        o = run.exec(line)
        lines.append(run.last_line)
        return o
    try:
        emit("mtu 1500")
        emit("new a csc")
        emit("new b server")
        emit("set a key=%s status=2 si=%d ka=%d ot=1024" % (KEY.hex(), cfg["si_a"], cfg["ka_a"]))
        emit("set b key=%s status=2 si=%d ka=%d ot=1024" % (KEY.hex(), cfg["si_b"], cfg["ka_b"]))
        t0 = connlib.BASE_T + rng.randint(0, 3000)
        emit("now %d" % t0)
        ca, cb = run.eps["a"]["conn"], run.eps["b"]["conn"]
        # the connection exists because datagrams were exchanged: one each way before the clocks start to matter
        emit("build a t=%d" % t0)
        emit("recv b t=%d d=@a:0" % t0)
        emit("build b t=%d" % t0)
        emit("recv a t=%d d=@b:0" % t0)
        obs.emits["a"].append(t0)
        obs.emits["b"].append(t0)
        obs.builds["a"].append(t0)
        obs.builds["b"].append(t0)
        guard = 0
        nxt = {"a": t0 + rng.randint(1, cfg["tau_a"]), "b": t0 + rng.randint(1, cfg["tau_b"])}
        tau = {"a": cfg["tau_a"], "b": cfg["tau_b"]}
        ka = {"a": cfg["ka_a"], "b": cfg["ka_b"]}
        inflight = []                         # (due, dst, src, k)
        t_cut = t0 + idle_ticks + rng.randint(0, max(ka["a"], ka["b"]))
        obs.cut = t_cut
        # whatever the code does, the case ends: both detections are due long before this instant
        t_hard = t_cut + 2 * (max(cfg["ct"], 5120) + 2 * max(cfg["tau_a"], cfg["tau_b"])) + 300
        in_service = {"a": True, "b": True}
        after = {"a": 0, "b": 0}              # ticks after detection
        seed = rng.randint(1, 10 ** 6)
        extra = {"a": [], "b": []}            # forced call instants (boundary probes)
        t_end = None
        last_tick = {"a": t0, "b": t0}
        while True:
            e = "a" if nxt["a"] <= nxt["b"] else "b"
            t = nxt[e]
            conn = ca if e == "a" else cb
            peer = "b" if e == "a" else "a"
            cut_now = t >= t_cut
            if (t_end is not None and t > t_end) or t > t_hard:
                break
            if e == "a":
                lr0, st0 = real.ticks(ca.last_recv_time), ca.status.value
                o = emit("cupd a t=%d" % t)
                st1 = int(o[0].split()[0][3:])
                obs.cupds.append((t, lr0, st0, st1, len(lines) - 1))
                if st1 == 5:
                    in_service["a"] = False
            else:
                real.now = t
                to = bool(cb.timedout(cfg["ct"] / TICK))
                obs.sweeps.append((t, real.ticks(cb.last_recv_time), to, len(lines) - 1))
                if to:
                    in_service["b"] = False       # the server loop would remove the connection here
            if in_service[e]:
                inflight.sort(key=lambda x: x[0])
                keep = []
                for item in inflight:
                    if item[1] == e and item[0] <= t:
                        emit("recv %s t=%d d=@%s:%d" % (e, t, item[2], item[3]))
                    else:
                        keep.append(item)
                inflight[:] = keep
                if rng.random() < 0.01:
                    seed += 1
                    emit("send %s len=%d seed=%d retry=%d cb=-" % (e, rng.choice([0, 5, 40]), seed, rng.choice([0, 0, 1, -1])))
                o = emit("build %s t=%d" % (e, t))
                obs.builds[e].append(t)
                if o and o[0].startswith("pkt"):
                    obs.emits[e].append(t)
                    kk = len(run.eps[e]["emits"]) - 1
                    lost = cut_now and (cut_mode == "both" or cut_mode == e + ">")
                    if not lost:
                        inflight.append((t + cfg["delta"], peer, e, kk))
                if rng.random() < 0.03:
                    emit("tmo %s t=%d" % (e, t))
                if rng.random() < 0.002:
                    emit("take %s" % e)
            else:
                after[e] += 1
            # next call instant of e: regular spacing, or a boundary probe if one lies before it
            step = rng.randint(max(1, tau[e] // 2), tau[e]) if rng.random() < 0.3 else tau[e]
            cand = t + step
            probes = []
            if in_service[e]:
                lk = real.ticks(conn.last_send_keep_alive_time)
                probes += [lk + ka[e], lk + ka[e] + 1]
                if cut_now:
                    lr = real.ticks(conn.last_recv_time)
                    probes += ([lr + 5120, lr + 5121] if e == "a" else [lr + cfg["ct"] - 1, lr + cfg["ct"]])
            probes = [p for p in probes if t < p < cand]
            if probes and rng.random() < (0.9 if cut_now else 0.15):
                cand = min(probes)
            nxt[e] = cand
            last_tick[e] = t
            if t_end is None and not in_service["a"] and not in_service["b"]:
                t_end = t + 3 * max(tau.values())
            if t_end is None and cut_now and cut_mode != "both":
                # one direction still works: the side that still hears its peer stays in service; stop when the deaf side
                # has been detected and a while has passed
                deaf = "b" if cut_mode == "a>" else "a"
                if not in_service[deaf]:
                    t_end = t + (5300 if deaf == "a" else 3 * max(tau.values()))
            guard += 1
            if len(lines) > 60000 or guard > 400000:
                break
        emit("dump a")
        emit("dump b")
    finally:
        run.close()
    lines.append("end")
    return lines, obs


def monitor_idle_cut(ctx, case, obs, cut_mode):
    cfg = obs.cfg
    cut = obs.cut
    # 1. cadence: consecutive emissions of an endpoint in service at most max(keepalive, send interval) + call spacing apart
    for e in "ab":
        b = obs.builds[e]
        if len(b) < 2:
            continue
        spacing = max(y - x for x, y in zip(b, b[1:]))
        bound = max(cfg["ka_" + e], cfg["si_" + e]) + spacing
        em = obs.emits[e]
        for x, y in zip(em, em[1:]):
            if y - x > bound:
                ctx.failure("keepalive-gap", "endpoint %s: %d ticks between consecutive datagrams (keep-alive %d, send interval %d, call spacing "
                            "<= %d)" % (e, y - x, cfg["ka_" + e], cfg["si_" + e], spacing),
                            {"case": case, "at": len(case) - 2, "cfg": cfg, "from": x, "to": y})
                return
        if em and b[-1] - em[-1] > bound:
            ctx.failure("keepalive-gap", "endpoint %s: no datagram for %d ticks up to its last call" % (e, b[-1] - em[-1]),
                        {"case": case, "at": len(case) - 2, "cfg": cfg})
            return
        ctx.count("a:max-gap/bound>=0.9" if em and len(em) > 1 and max(y - x for x, y in zip(em, em[1:])) >= 0.9 * bound else "a:max-gap/bound<0.9")
    # 2./3. client: DROPPED exactly when update() runs later than 5 s after the last accepted datagram
    for (t, lr, st0, st1, at) in obs.cupds:
        should = lr > 0 and t > lr + 5120
        if st0 == 5:
            continue
        if (st1 == 5) != should:
            kind = "client-dropped-early" if st1 == 5 else "client-not-dropped"
            if st1 == 5 and t < cut:
                kind = "client-dropped-while-traffic-flows"
            ctx.failure(kind, "update() at %d, last datagram accepted at %d (%d ticks ago): status %d -> %d" % (t, lr, t - lr, st0, st1),
                        {"case": case, "at": at, "cfg": cfg})
            return
        if st1 == 5:
            ctx.count("a:client-dropped@+%s" % ("1" if t == lr + 5121 else "more"))
    # server: timedout(connection_timeout) exactly from last_recv + connection_timeout on; never while traffic flows
    for (t, lr, to, at) in obs.sweeps:
        should = t - lr >= cfg["ct"]
        if to != should:
            ctx.failure("server-timeout-early" if to else "server-timeout-missed",
                        "timedout(%d) at %d with last datagram accepted at %d (%d ticks ago) returned %s" % (cfg["ct"], t, lr, t - lr, to),
                        {"case": case, "at": at, "cfg": cfg})
            return
        if to and t < cut:
            ctx.failure("server-timeout-while-traffic-flows", "timedout(%d) true at %d before the link was cut (%d)" % (cfg["ct"], t, cut),
                        {"case": case, "at": at, "cfg": cfg})
            return
        if to:
            ctx.count("a:server-timeout@+%s" % ("0" if t - lr == cfg["ct"] else "more"))
    # while traffic flowed nobody was detected
    if any(st1 == 5 and t < cut for (t, lr, st0, st1, at) in obs.cupds):
        ctx.failure("client-dropped-while-traffic-flows", "DROPPED before the cut", {"case": case, "at": len(case) - 2, "cfg": cfg})


def gen_connect_timeout(real, rng, cid, tt, ccb, tau, garbage):
    lines = ["case %s" % cid]
    run = connlib.CaseRun(real)
    rec = {"tt": tt, "ccb": ccb, "upd": [], "hello": None}

    def emit(line):
        o = run.exec(line)
        lines.append(run.last_line)
        return o
    try:
        emit("mtu 1500")
        emit("new c csc")
        emit("set c ccb=%d si=%d ka=%d ot=%d tt=%d pinned=%s" % (ccb, rng.choice([16, 17, 8]), rng.choice([16, 96, 512]),
                                                              rng.choice([512, 1024]), tt, rng.choice(["none", "01"])))
        t = connlib.BASE_T + rng.randint(0, 3000)
        emit("now %d" % t)
        t += rng.randint(1, 50)
        emit("hello c t=%d" % t)
        th = t
        rec["hello"] = th
        conn = run.eps["c"]["conn"]
        done_for = 0
        while done_for < 6 and len(lines) < 5000:
            step = tau if rng.random() < 0.7 else rng.randint(1, tau)
            cand = t + step
            probes = [p for p in (th + tt - 1, th + tt, th + tt + 1) if t < p < cand]
            if probes:
                cand = min(probes)
            t = cand
            st0 = conn.status.value
            o = emit("cupd c t=%d" % t)
            st1 = int(o[0].split()[0][3:])
            rec["upd"].append((t, st0, st1, o[0].split("ev=")[1], len(lines) - 1, conn.last_recv_time > 0))
            if garbage and rng.random() < 0.3:
                # datagrams an off-path sender can produce: CRC form, any type; a server hello with junk inside
                ty = rng.choice([2, 2, 4, 5, 6, 3, 1])
                body = bytes([0, rng.randint(1, 9)]) + connlib.lcg_bytes(rng.choice([0, 5, 40, 120]), rng.randint(1, 999))
                emit("recv c t=%d d=!%d,%d,0,0,%d,1:%s:none" % (t, ty, rng.randint(1, 30), t // 1024, body.hex()))
            emit("build c t=%d" % t)
            if rng.random() < 0.2:
                emit("tmo c t=%d" % t)
            if t - th > tt:
                done_for += 1
        emit("dump c")
    finally:
        run.close()
    lines.append("end")
    return lines, rec


def monitor_connect_timeout(ctx, case, rec):
    th, tt = rec["hello"], rec["tt"]
    fired = 0
    first_due = True
    for (t, st0, st1, ev, at, heard) in rec["upd"]:
        due = t - th > tt
        evs = [] if ev == "-" else ev.split(",")
        if "ccb:1" in evs:
            ctx.failure("connect-callback-true-without-server", "connect callback reported True although no server answered", {"case": case, "at": at})
            return
        n = evs.count("ccb:0")
        if not due:
            # (a forged, CRC-valid 'server hello' is accepted as a datagram before its content is rejected: it starts the 5 s rule, so a
            # connecting client under such traffic can pass through DROPPED before the connect time-out ends it - counted, not a failure:
            # the property speaks about the end state and the callback)
            if st1 == 5:
                ctx.count("a:connecting client DROPPED by forged hello traffic before the connect time-out")
            if n or st1 == 4:
                ctx.failure("connect-timeout-early", "update() %d ticks after the hello (time-out %d): status %d, events %s" % (t - th, tt, st1, ev),
                            {"case": case, "at": at})
                return
            continue
        fired += n
        if not first_due and heard and st1 == 5:
            # outside the property's quantifier (forged datagrams): the 5 s rule re-applies to the ended attempt
            ctx.count("a:ended connect attempt back to DROPPED under forged hello traffic")
            continue
        first_due = False
        if st1 != 4:
            ctx.failure("connect-timeout-missed", "update() %d ticks after the hello (time-out %d, callback %s): status still %d" %
                        (t - th, tt, "given" if rec["ccb"] else "none", st1), {"case": case, "at": at})
            return
        want = 1 if rec["ccb"] else 0
        if fired != want:
            ctx.failure("connect-callback-count", "connect callback called %d times with False (callback %s)" % (fired, "given" if rec["ccb"] else "none"),
                        {"case": case, "at": at})
            return
    ctx.count("a:connect-timeout ccb=%d" % rec["ccb"])


# ============================================================================================ (b) settings wrapper, context, sweeps

class FakeSock:
    def __init__(self):
        self.sent = []
        self.inbox = []

    def sendto(self, d, addr):
        self.sent.append((d, addr))

    def recvfrom(self, n):
        return self.inbox.pop(0)

    def close(self):
        pass

    def setblocking(self, *a):
        pass


class VTimeMod:
    """stand-in for the `time` module inside server.py / client.py"""

    def __init__(self, real):
        self.real = real

    def time(self):
        return self.real.now / TICK

    monotonic = time
    perf_counter = time

    def sleep(self, *_a):
        pass


class Alarm:
    def __init__(self, seconds):
        self.seconds = seconds

    def __enter__(self):
        def h(*_a):
            raise TimeoutError("real code did not return within %d s" % self.seconds)
        self.old = signal.signal(signal.SIGALRM, h)
        signal.alarm(self.seconds)

    def __exit__(self, *_a):
        signal.alarm(0)
        signal.signal(signal.SIGALRM, self.old)


class CvStub:
    """replaces UdpServerThread.cv_queue: the loop calls wait() holding lk_queue when it has neither connections nor datagrams"""

    def __init__(self, thread, on_block):
        self.thread = thread
        self.on_block = on_block

    def wait(self, timeout=None):
        self.thread.lk_queue.release()
        try:
            self.on_block()
        finally:
            self.thread.lk_queue.acquire()

    def notify_all(self):
        pass


class RealB:
    """executes the op lines of Driver/C12.lean on the real UdpClient / ServerContext / server loop / connection classes"""

    def __init__(self, real):
        self.real = real
        import mpgameserver.client as CL
        import mpgameserver.server as SV
        import mpgameserver.context as CX
        from mpgameserver.handler import EventHandler
        self.CL, self.SV, self.CX = CL, SV, CX
        self.EventHandler = EventHandler
        vt = VTimeMod(real)
        SV.time = vt
        SV.sleep = lambda *a, **k: None
        CL.time = vt
        self.readable = []                      # sockets select reports readable
        rb = self

        class Sel:
            @staticmethod
            def select(r, w, x, timeout=None):
                return ([s for s in r if getattr(s, "inbox", None)], list(w), [])
        CL.select = Sel

    def r(self, v):
        return int(round(v * TICK))

    # ------------------------------------------------------------ the real server loop, a bounded number of iterations
    def make_ctxt(self):
        rec = {"connect": [], "disconnect": []}

        class H(self.EventHandler):
            def connect(self, client):
                rec["connect"].append(client.addr)

            def disconnect(self, client):
                rec["disconnect"].append(client.addr)
        ctxt = self.CX.ServerContext(H())
        ctxt._v_rec = rec
        return ctxt

    def loop(self, ctxt, items, iterations):
        """run UdpServerThread.run for `iterations` iterations; returns the snapshots taken where the loop sends"""
        thread = self.SV.UdpServerThread(FakeSock(), ctxt)
        thread.queue.extend(items)
        snaps = []
        n = [0]

        def upd(_dt):
            n[0] += 1
            if n[0] >= iterations:
                ctxt._active = False
        ctxt.handler.update = upd

        def send(seq):
            snaps.append({"sending": list(seq), "conns": dict(ctxt.connections), "temps": dict(ctxt.temp_connections),
                          "disc": list(ctxt._v_rec["disconnect"])})
        thread.send = send

        def blocked():
            ctxt._active = False
        thread.cv_queue = CvStub(thread, blocked)
        ctxt._active = True
        with Alarm(300):
            thread.run()
        return snaps

    def light(self, conn):
        """event capture without touching the settings"""
        conn._v_events = []
        ev = conn._v_events
        oa, ot = conn._handle_ack, conn._handle_timeout

        def h_ack(seq):
            ev.append("res:%d:1" % int(seq))
            return oa(seq)

        def h_tmo(seq):
            ev.append("res:%d:0" % int(seq))
            return ot(seq)
        conn._handle_ack, conn._handle_timeout = h_ack, h_tmo

    def show_pkt(self, pkt):
        if pkt is None:
            return "none"
        h = pkt.hdr
        return "pkt ty=%d seq=%d count=%d" % (h.pkt_type.value, int(h.seq), h.count)

    def settings(self, conn):
        return "ka=%d tt=%d ot=%d" % (self.r(conn.send_keep_alive_interval), self.r(conn.temp_connection_timeout), self.r(conn.outgoing_timeout))

    def run_case(self, case):
        real = self.real
        C = real.C
        out = []
        cl = None
        ctxt = None
        eps = {}
        for line in case[1:]:
            w = line.split()
            if not w or w[0] == "end":
                continue
            op = w[0]
            kv = dict(x.split("=", 1) for x in w[1:] if "=" in x)
            try:
                if op == "ucnew":
                    cl = self.CL.UdpClient()
                    cl._make_socket = lambda addr: FakeSock()
                elif op == "ucall":
                    what = w[1]
                    try:
                        if what == "setka":
                            cl.setKeepAliveInterval(int(kv["v"]) / TICK)
                        elif what == "settt":
                            cl.setConnectionTimeout(int(kv["v"]) / TICK)
                        elif what == "setot":
                            cl.setMessageTimeout(int(kv["v"]) / TICK)
                        elif what == "connect":
                            real.now = int(kv["t"])
                            cb = None
                            if kv.get("cb") == "1":
                                cb = lambda ok: None
                            cl.connect(("10.1.1.1", 7), cb) if cb else cl.connect(("10.1.1.1", 7))
                        else:
                            raise KeyError(what)
                        out.append("ok")
                    except Exception as e:
                        out.append("err:" + type(e).__name__)
                elif op == "udump":
                    s = "w ka=%d tt=%d ot=%d" % (self.r(cl.keep_alive_interval), self.r(cl.temp_connection_timeout), self.r(cl.outgoing_timeout))
                    if cl.conn is None:
                        out.append(s + " conn=-")
                    else:
                        c = cl.conn
                        out.append(s + " conn %s ccb=%d st=%d hs=%d out=%d" % (self.settings(c), 1 if c.connection_callback else 0, c.status.value,
                                                                              self.r(c.time_client_hello_sent), len(c.outgoing_messages)))
                elif op == "xnew":
                    ctxt = self.make_ctxt()
                elif op == "xcall":
                    v = int(kv["v"]) / TICK
                    try:
                        {"setka": ctxt.setKeepAliveInterval, "setct": ctxt.setConnectionTimeout, "settt": ctxt.setTempConnectionTimeout,
                         "setot": ctxt.setMessageTimeout, "setiv": ctxt.setInterval}[w[1]](v)
                        out.append("ok")
                    except Exception as e:
                        out.append("err:" + type(e).__name__)
                elif op == "xdump":
                    out.append("ct=%d tt=%d ka=%d ot=%d iv=%d" % (self.r(ctxt.connection_timeout), self.r(ctxt.temp_connection_timeout),
                                                                 self.r(ctxt.keep_alive_interval), self.r(ctxt.outgoing_timeout), self.r(ctxt.interval)))
                elif op == "xconn":
                    # a real client hello from a new address, through the real loop
                    cli = C.ClientServerConnection(("10.2.2.2", 9))
                    cli._sendClientHello()
                    d = cli._encode_packet(cli._build_packet())
                    hdr = C.PacketHeader.from_bytes(True, d)
                    addr = ("10.2.2.%d" % (len(eps) + 3), 9)
                    ctxt.temp_connections.pop(addr, None)
                    self.loop(ctxt, [(addr, hdr, d)], 2)
                    conn = ctxt.temp_connections.get(addr) or ctxt.connections.get(addr)
                    if conn is None:
                        out.append("no-connection-created")
                    else:
                        out.append("ka=%d ot=%d" % (self.r(conn.send_keep_alive_interval), self.r(conn.outgoing_timeout)))
                        ctxt.temp_connections.pop(addr, None)
                elif op == "new":
                    addr = ("10.3.3.%d" % (len(eps) + 1), 5)
                    role = w[2]
                    if role == "csc":
                        conn = C.ClientServerConnection(addr)
                    elif role == "scc":
                        if ctxt is None:
                            ctxt = self.make_ctxt()
                        conn = C.ServerClientConnection(ctxt, addr)
                    else:
                        conn = C.ConnectionBase(role == "server", addr)
                    conn.send_interval = 16 / TICK
                    conn.send_keep_alive_interval = 96 / TICK
                    conn.last_recv_time = conn.last_send_time = conn.last_send_keep_alive_time = -1.0
                    self.light(conn)
                    eps[w[1]] = conn
                elif op == "set":
                    conn = eps[w[1]]
                    for k, v in kv.items():
                        if k == "key":
                            conn.session_key_bytes = None if v == "none" else bytes.fromhex(v)
                        elif k == "status":
                            conn.status = C.ConnectionStatus(int(v))
                        elif k == "ccb":
                            conn.connection_callback = (lambda ok, _c=conn: _c._v_events.append("ccb:%d" % (1 if ok else 0))) if v == "1" else None
                        else:
                            attr = {"si": "send_interval", "ka": "send_keep_alive_interval", "ot": "outgoing_timeout", "tt": "temp_connection_timeout",
                                    "lr": "last_recv_time", "ls": "last_send_time", "lk": "last_send_keep_alive_time", "hs": "time_client_hello_sent"}[k]
                            setattr(conn, attr, int(v) / TICK)
                elif op == "send":
                    conn = eps[w[1]]
                    try:
                        conn.send(bytes([7]) * int(kv["len"]), retry=int(kv["retry"]))
                        out.append("ok")
                    except Exception as e:
                        out.append("err:" + type(e).__name__)
                elif op == "tout":
                    real.now = int(kv["t"])
                    out.append("1" if eps[w[1]].timedout(int(kv["T"]) / TICK) else "0")
                elif op == "build":
                    real.now = int(kv["t"])
                    try:
                        out.append(self.show_pkt(eps[w[1]]._build_packet()))
                    except Exception as e:
                        out.append("err:" + type(e).__name__)
                elif op == "supd":
                    conn = eps[w[1]]
                    real.now = int(kv["t"])
                    del conn._v_events[:]
                    try:
                        r = conn.update()
                        s = self.show_pkt(r[0] if r else None)
                    except Exception as e:
                        s = "err:" + type(e).__name__
                    out.append(s + " ev=" + (",".join(conn._v_events) or "-"))
                elif op == "uupd":
                    # the whole of UdpClient.update() with datagrams waiting on the (fake) socket
                    conn = eps[w[1]]
                    real.now = int(kv["t"])
                    del conn._v_events[:]
                    shell = self.CL.UdpClient()
                    shell.conn, shell.sock, shell.addr = conn, FakeSock(), conn.addr
                    shell.sock.inbox = [(bytes.fromhex(x), conn.addr) for x in kv["rx"].split(",")] if kv["rx"] != "-" else []
                    mark = {"hs": False}
                    o_recv, o_hello = conn._recv_datagram, getattr(conn, "_recvServerHello", None)

                    def recv(hdr, d, _o=o_recv, _c=conn):
                        try:
                            r = _o(hdr, d)
                        except Exception:
                            _c._v_events.append("E")
                            raise
                        _c._v_events.append("T" if r else "F")
                        return r

                    def hello(data, _o=o_hello):
                        try:
                            return _o(data)
                        except Exception:
                            mark["hs"] = True
                            raise
                    conn._recv_datagram = recv
                    if o_hello is not None:
                        conn._recvServerHello = hello
                    outs = None
                    try:
                        shell.update()
                        outs = list(conn._v_events)
                        for (d, _a) in shell.sock.sent:
                            h = C.PacketHeader.from_bytes(True, d)
                            outs.append("pkt ty=%d seq=%d count=%d" % (h.pkt_type.value, int(h.seq), h.count))
                    except Exception as e:
                        outs = list(conn._v_events) + ["err:" + ("hs" if mark["hs"] else type(e).__name__)]
                    finally:
                        conn._recv_datagram = o_recv
                        if o_hello is not None:
                            conn._recvServerHello = o_hello
                    out.append("st=%d unread=%d %s" % (conn.status.value, len(shell.sock.inbox), ",".join(outs) or "-"))
                elif op == "cupd":
                    conn = eps[w[1]]
                    real.now = int(kv["t"])
                    del conn._v_events[:]
                    conn.update()
                    out.append("st=%d ev=%s" % (conn.status.value, ",".join(conn._v_events) or "-"))
                elif op == "sweep":
                    conn = eps[w[1]]
                    real.now = int(kv["t"])
                    ctxt = conn.ctxt
                    ctxt.connections.clear()
                    ctxt.temp_connections.clear()
                    pool = ctxt.temp_connections if kv.get("pool") == "t" else ctxt.connections
                    pool[conn.addr] = conn
                    del ctxt._v_rec["disconnect"][:]
                    snaps = self.loop(ctxt, [], 1)
                    snap = snaps[0]
                    still = conn.addr in (snap["temps"] if kv.get("pool") == "t" else snap["conns"])
                    pk = [x for x in snap["sending"] if x[2] == conn.addr]
                    s = self.show_pkt(pk[0][0] if pk else None)
                    if kv.get("pool") != "t" and (not still) != (conn.addr in snap["disc"]):
                        s += " ondisconnect-mismatch"
                    out.append("rm=%d st=%d %s" % (0 if still else 1, conn.status.value, s))
                    ctxt.connections.clear()
                    ctxt.temp_connections.clear()
                elif op == "cdump":
                    c = eps[w[1]]
                    out.append("st=%d %s si=%d last=%d,%d,%d hs=%d ccb=%d srv=%d out=%d pa=%d" % (
                        c.status.value, self.settings(c), self.r(c.send_interval), self.r(c.last_recv_time), self.r(c.last_send_time),
                        self.r(c.last_send_keep_alive_time), self.r(getattr(c, "time_client_hello_sent", 0) or 0),
                        1 if getattr(c, "connection_callback", None) else 0, 1 if c.isServer else 0, len(c.outgoing_messages), len(c.pending_acks)))
                else:
                    out.append("bad-op")
            except TimeoutError:
                out.append("hang")
        return out


def gen_settings_cases(rng, rb, n_random):
    """UdpClient: every order of the three setters and connect, repeated setters, setters after connect"""
    cl = rb.CL.UdpClient()
    d = (rb.r(cl.keep_alive_interval), rb.r(cl.temp_connection_timeout), rb.r(cl.outgoing_timeout))
    cases = []
    vals = [16, 17, 33, 96, 200, 256, 512, 1000, 2048, 5120, 20480]
    base_t = connlib.BASE_T

    def mk(cid, calls):
        lines = ["case %s" % cid, "ucnew ka=%d tt=%d ot=%d" % d, "udump"]
        t = base_t
        for c in calls:
            if c == "connect":
                t += 7
                lines.append("ucall connect t=%d cb=%d" % (t, rng.randint(0, 1)))
            else:
                lines.append("ucall %s v=%d" % (c, rng.choice(vals)))
            lines.append("udump")
        lines.append("end")
        return lines
    k = 0
    for perm in itertools.permutations(["setka", "settt", "setot", "connect"]):
        cases.append(mk("p%d" % k, list(perm)))
        k += 1
    for sub in (["connect"], ["connect", "setka"], ["connect", "settt"], ["connect", "setot"], ["setka", "connect"], ["settt", "connect"],
                ["setot", "connect"], ["setka"], ["settt"], ["setot"], ["connect", "connect"], ["connect", "settt", "connect", "settt"]):
        cases.append(mk("q%d" % k, sub))
        k += 1
    for _ in range(n_random):
        calls = [rng.choice(["setka", "settt", "setot", "setka", "settt", "setot", "connect"]) for _ in range(rng.randint(1, 9))]
        cases.append(mk("r%d" % k, calls))
        k += 1
    return cases


def gen_ctxt_cases(rng, rb, n):
    ctxt = rb.make_ctxt()
    d = (rb.r(ctxt.connection_timeout), rb.r(ctxt.temp_connection_timeout), rb.r(ctxt.keep_alive_interval), rb.r(ctxt.outgoing_timeout),
         rb.r(ctxt.interval))
    vals = [16, 17, 33, 96, 200, 256, 512, 1000, 2048, 5120, 20480]
    cases = []
    for i in range(n):
        lines = ["case x%d" % i, "xnew ct=%d tt=%d ka=%d ot=%d iv=%d" % d, "xdump"]
        for _ in range(rng.randint(0, 6)):
            lines.append("xcall %s v=%d" % (rng.choice(["setka", "setct", "settt", "setot", "setiv"]), rng.choice(vals)))
        lines.append("xdump")
        lines.append("xconn n1")
        if rng.random() < 0.5:
            lines.append("xcall %s v=%d" % (rng.choice(["setka", "setot"]), rng.choice(vals)))
            lines.append("xconn n2")
        # sweep decisions with the configured time-outs, last_recv at the boundary
        ct, tt = rng.choice(vals[3:]), rng.choice(vals[3:])
        lines.append("xcall setct v=%d" % ct)
        lines.append("xcall settt v=%d" % tt)
        t = connlib.BASE_T + rng.randint(0, 5000)
        for j in range(rng.randint(1, 4)):
            pool = rng.choice("ct")
            T = ct if pool == "c" else tt
            name = "s%d" % j
            st = rng.choice([2, 2, 2, 3, 4, 1]) if pool == "c" else rng.choice([1, 1, 1, 4, 2])
            lr = t - T + rng.choice([-1, 0, 1, 1, 2, -40, 40, T // 2])
            ls = t - rng.choice([1, 16, 17, 18, 40, 97, 200])
            lines.append("new %s scc" % name)
            lines.append("set %s key=%s status=%d ka=%d lr=%d ls=%d lk=%d" % (name, KEY.hex(), st, rng.choice([16, 96, 512]), lr, ls, ls))
            if rng.random() < 0.3:
                lines.append("send %s len=%d retry=%d" % (name, rng.choice([0, 5, 100]), rng.choice([0, 1, -1])))
            lines.append("sweep %s t=%d pool=%s" % (name, t, pool))
            lines.append("cdump %s" % name)
            if rng.random() < 0.5:
                t2 = t + rng.choice([1, 16, 17, 200])
                lines.append("sweep %s t=%d pool=%s" % (name, t2, pool))
                lines.append("cdump %s" % name)
        lines.append("end")
        cases.append(lines)
    return cases


def gen_state_cases(rng, n):
    """update() of both connection classes, UdpClient.update, timedout on states given field by field at the boundaries"""
    cases = []
    for i in range(n):
        role = rng.choice(["scc", "csc"])
        si, ka, ot = rng.choice([8, 16, 17, 32]), rng.choice([16, 17, 33, 96, 512]), rng.choice([256, 512, 1024])
        t0 = connlib.BASE_T + rng.randint(0, 4000)
        lines = ["case s%d" % i, "new e %s" % role,
                 "set e key=%s status=%d si=%d ka=%d ot=%d lr=%d ls=%d lk=%d" % (KEY.hex(), rng.choice([2, 2, 2, 2, 1, 4, 3]), si, ka, ot, t0, t0, t0)]
        t = t0
        upd = "supd" if role == "scc" else "uupd"
        last_emit = t0
        for _ in range(rng.randint(3, 25)):
            r = rng.random()
            if r < 0.35:
                t = max(t, last_emit + rng.choice([si - 1, si, si + 1, ka - 1, ka, ka + 1, ka + 2]))
            elif r < 0.5:
                t = max(t, last_emit + ot + rng.choice([-1, 0, 1]))
            elif r < 0.6 and role == "csc":
                t = max(t, t0 + 5120 + rng.choice([-1, 0, 1, 2]))
            else:
                t += rng.randint(1, 120)
            k = rng.random()
            if k < 0.1:
                lines.append("send e len=%d retry=%d" % (rng.choice([0, 3, 50]), rng.choice([0, 1, -1])))
            if k < 0.75:
                lines.append("%s e t=%d%s" % (upd, t, " rx=-" if upd == "uupd" else ""))
            elif k < 0.85:
                lines.append("build e t=%d" % t)
            elif k < 0.95:
                T = rng.choice([256, 1024, 5120])
                lines.append("tout e t=%d T=%d" % (rng.choice([t0 + T - 1, t0 + T, t0 + T + 1, t]), T))
            else:
                lines.append("set e lr=%d" % t)
                t0 = t
            lines.append("cdump e")
            # the harness does not know whether the call emitted; the next boundary is taken from the last call time (good enough to hit both sides)
            if rng.random() < 0.6:
                last_emit = t
        if role == "csc" and rng.random() < 0.5:
            # an unanswered connect on a state given field by field
            th = t + 5
            tt = rng.choice([256, 1000, 2048])
            lines.append("set e status=1 hs=%d tt=%d ccb=%d lr=-1024" % (th, tt, rng.randint(0, 1)))
            for dt in (tt - 1, tt, tt + 1, tt + 2, tt + 500):
                lines.append(rng.choice(["cupd e t=%d", "uupd e t=%d rx=-"]) % (th + dt))
            lines.append("cdump e")
        lines.append("end")
        cases.append(lines)
    return cases


def gen_rx_cases(real, rng, n):
    """UdpClient.update() with several datagrams waiting: everything is read, in order, at this call; an exception stops the reading"""
    cases = []
    for i in range(n):
        keyed = rng.random() < 0.3
        t0 = connlib.BASE_T + rng.randint(0, 4000)
        lines = ["case d%d" % i, "new e csc"]
        if keyed:
            lines.append("set e key=%s status=2 si=16 ka=%d lr=%d ls=%d lk=%d" % (KEY.hex(), rng.choice([16, 96, 512]), t0, t0, t0))
        else:
            lines.append("set e status=1 hs=%d tt=%d ccb=%d si=16" % (t0, rng.choice([512, 2048]), rng.randint(0, 1)))
        t = t0
        seq = 0
        for _ in range(rng.randint(1, 5)):
            t += rng.choice([5, 17, 60, 110, 600, 2500, 5200])
            rx = []
            for _k in range(rng.choice([0, 1, 2, 3, 5, 9])):
                r = rng.random()
                seq += 1
                if r < 0.5:
                    # CRC-valid datagram anybody can build; type 2 = the hello an unkeyed client expects (junk inside: the handler raises)
                    ty = rng.choice([2, 4, 4, 5, 6, 3, 1]) if not keyed else rng.choice([4, 6, 5])
                    if ty == 2 and rng.random() < 0.6:
                        ty = 4
                    body = connlib.lcg_bytes(rng.choice([0, 3, 30]), seq)
                    d = connlib.forge_plain(real, rng, False, ty, [(seq, ty, body)], seq, 0, 0, t // 1024)
                elif r < 0.65:
                    d = bytes(rng.getrandbits(8) for _ in range(rng.choice([0, 3, 19, 20, 24, 40])))
                elif r < 0.8:
                    d = b"FSOC" + bytes(rng.getrandbits(8) for _ in range(rng.choice([16, 20, 36])))
                    d = d[:12] + bytes([rng.choice([4, 6, 9, 200])]) + d[13:]
                elif r < 0.9:
                    d = b"FSOS" + bytes(20)
                else:
                    d = connlib.forge_plain(real, rng, False, 4, [], seq, 0, 0, t // 1024)
                rx.append(d.hex() or "00")
            lines.append("uupd e t=%d rx=%s" % (t, ",".join(rx) if rx else "-"))
            lines.append("cdump e")
        lines.append("end")
        cases.append(lines)
    return cases


def nontrivial_b(case, outs):
    j = " ".join(case)
    if case[0].split()[1].startswith("d"):
        return any(("F," in o or "T," in o or ",F" in o) for o in outs)
    if "ucall connect" in j:
        i = [k for k, l in enumerate(case) if l.startswith("ucall connect")][0]
        return any(l.startswith("ucall set") for l in case[i:])
    return "rm=1" in " ".join(outs) or "pkt ty=4" in " ".join(outs) or "st=5" in " ".join(outs) or "ccb:0" in " ".join(outs)


# ============================================================================================ (c) world monitor

CLIENT_ADDR = ("10.9.9.9", 4242)
SERVER_ADDR = ("10.8.8.8", 1474)


class World:
    """the REAL UdpClient (fake socket, select patched) against the REAL UdpServerThread.run loop, one thread, one virtual clock.
    The loop is entered once; the world advances where the loop sends (end of an iteration) and where it would block."""

    def __init__(self, rb, rng, sc):
        self.rb, self.real, self.rng, self.sc = rb, rb.real, rng, sc
        C = self.real.C
        self.C = C
        self.trace = []                 # human-readable replay of what happened
        self.problems = []              # (kind, what)
        self.net = {"c>s": [], "s>c": []}
        self.sent = {"c": [], "s": []}  # emission times per side
        self.client_ticks = []          # (t, status value, conn exists)
        self.sweeps = []                # server iteration times
        self.ccb = []                   # (t, value)
        self.finished = False
        self.srv_events = []            # (t, "connect"/"disconnect")
        self.ka_changes = []            # (t, new keep-alive) on the client
        self.expect = {}                # last value given to each client setter
        self.last_arrival = 0           # arrival time of the last datagram that reached the client's socket
        self.backlog = []               # datagrams left unread on the client's socket after each update
        w = self

        ctxt = rb.make_ctxt()
        self.ctxt = ctxt
        h = ctxt.handler
        h.connect = lambda client: w.srv_events.append((w.real.now, "connect", client)) if not w.finished else None
        h.disconnect = lambda client: w.srv_events.append((w.real.now, "disconnect", client)) if not w.finished else None
        for name, fn, key in (("setKeepAliveInterval", ctxt.setKeepAliveInterval, "ka_s"), ("setConnectionTimeout", ctxt.setConnectionTimeout, "ct"),
                              ("setTempConnectionTimeout", ctxt.setTempConnectionTimeout, "tt_s"), ("setMessageTimeout", ctxt.setMessageTimeout, "ot_s"),
                              ("setInterval", ctxt.setInterval, "tau_s")):
            try:
                fn(sc[key] / TICK)
            except Exception as e:
                self.problems.append(("setter-raised", "ServerContext.%s raised %s" % (name, type(e).__name__)))
        self.ssock = FakeSock()
        self.ssock.sendto = lambda d, addr: w.wire("s>c", d)
        self.thread = rb.SV.UdpServerThread(self.ssock, ctxt)
        self.thread.cv_queue = CvStub(self.thread, self.blocked)
        orig_send = self.thread.send

        def send(seq):
            orig_send(seq)                   # the real encoder + the (fake) socket
            w.sweeps.append(w.real.now)
            w.advance()
        self.thread.send = send

        self.client = rb.CL.UdpClient(ctxt.server_root_key.getPublicKey() if sc.get("pin", True) else None)
        self.csock = FakeSock()
        self.csock.sendto = lambda d, addr: w.wire("c>s", d)
        self.client._make_socket = lambda addr: w.csock
        self.next_c = None
        self.calls = list(sc["calls"])   # (when, name, value): when = "pre" | ticks after connect
        self.t_connect = None

    # ------------------------------------------------------------------ network
    def up(self, direction, t):
        for (d, a, b) in self.sc.get("cuts", []):
            if d in (direction, "both") and a <= t < b:
                return False
        return True

    def wire(self, direction, d):
        t = self.real.now
        self.sent[direction[0]].append(t)
        if self.up(direction, t - self.t0):
            self.net[direction].append((t + self.sc["delta"], d))

    # ------------------------------------------------------------------ client side
    def setter(self, name, v):
        fn = {"ka": self.client.setKeepAliveInterval, "tt": self.client.setConnectionTimeout, "ot": self.client.setMessageTimeout}[name]
        self.trace.append("t=%d client.set %s=%d" % (self.real.now, name, v))
        try:
            fn(v / TICK)
        except Exception as e:
            self.problems.append(("setter-raised", "UdpClient setter %s(%d ticks) %s connect raised %s" %
                                  (name, v, "after" if self.client.conn else "before", type(e).__name__)))
            return
        self.expect[name] = v
        if name == "ka" and self.client.conn is not None:
            self.ka_changes.append((self.real.now, v))
        conn = self.client.conn
        if conn is not None:
            got = {"ka": conn.send_keep_alive_interval, "tt": conn.temp_connection_timeout, "ot": conn.outgoing_timeout}[name]
            if got != v / TICK:
                self.problems.append(("setting-not-effective", "after set %s=%d on a connected client the connection has %r s" % (name, v, got)))

    def client_tick(self, t):
        self.real.now = t
        for call in [c for c in self.calls if c[0] != "pre" and self.t_connect is not None and t >= self.t_connect + c[0]]:
            self.calls.remove(call)
            self.setter(call[1], call[2])
        keep = []
        for (due, d) in self.net["s>c"]:
            if due <= t:
                self.csock.inbox.append((d, SERVER_ADDR))
                self.last_arrival = max(self.last_arrival, due)
            else:
                keep.append((due, d))
        self.net["s>c"] = keep
        try:
            self.client.update()
        except Exception as e:
            self.problems.append(("client-update-raised", "UdpClient.update raised %s at %d" % (type(e).__name__, t)))
        conn = self.client.conn
        self.client_ticks.append((t, conn.status.value if conn else 0, self.rb.r(conn.last_recv_time) if conn else 0))
        self.backlog.append(len(self.csock.inbox))

    def connect(self, t):
        self.real.now = t
        for call in [c for c in self.calls if c[0] == "pre"]:
            self.calls.remove(call)
            self.setter(call[1], call[2])
        cb = None
        if self.sc["ccb"]:
            cb = lambda ok: self.ccb.append((self.real.now, bool(ok)))
        self.trace.append("t=%d client.connect callback=%s" % (t, bool(cb)))
        try:
            self.client.connect(SERVER_ADDR, cb) if cb else self.client.connect(SERVER_ADDR)
        except Exception as e:
            self.problems.append(("connect-raised", "UdpClient.connect raised %s" % type(e).__name__))
            return
        self.t_connect = t
        conn = self.client.conn
        if self.sc.get("si_c"):
            conn.send_interval = self.sc["si_c"] / TICK
        for name, attr in (("ka", "send_keep_alive_interval"), ("tt", "temp_connection_timeout"), ("ot", "outgoing_timeout")):
            if name in self.expect and getattr(conn, attr) != self.expect[name] / TICK:
                self.problems.append(("setting-not-effective", "%s=%d set before connect; the connection has %r s" %
                                      (name, self.expect[name], getattr(conn, attr))))

    # ------------------------------------------------------------------ time
    def advance(self):
        """from the current server iteration to the next one"""
        now = self.real.now
        nxt = now + (self.sc["tau_s"] if self.rng.random() < 0.8 else self.rng.randint(max(1, self.sc["tau_s"] // 2), self.sc["tau_s"]))
        while self.next_c is not None and self.next_c <= nxt:
            t = self.next_c
            if self.t_connect is None:
                self.connect(t)
            self.client_tick(t)
            self.next_c = t + (self.sc["tau_c"] if self.rng.random() < 0.8 else self.rng.randint(max(1, self.sc["tau_c"] // 2), self.sc["tau_c"]))
        keep = []
        for (due, d) in self.net["c>s"]:
            if due <= nxt:
                try:
                    hdr = self.C.PacketHeader.from_bytes(True, d)
                    self.thread.queue.append((CLIENT_ADDR, hdr, d))
                except Exception:
                    pass
            else:
                keep.append((due, d))
        self.net["c>s"] = keep
        self.real.now = nxt
        if nxt - self.t0 >= self.sc["duration"]:
            self.finished = True
            self.ctxt._active = False

    def blocked(self):
        # the loop has neither connections nor datagrams and would sleep on its condition variable
        if self.sc.get("noise") and not self.finished:
            # other traffic keeps the loop awake: a stranger's datagram (not a hello: logged and dropped) per server tick
            self.advance()
            if not self.finished:
                C = self.C
                hdr = C.PacketHeader.create(False, int(self.real.now // 1024), C.PacketType.APP, C.SeqNum(1), C.SeqNum(0), 0)
                hdr.length, hdr.count = 4, 1
                d = hdr.to_bytes() + b"noise-noise-noise-20"
                self.thread.queue.append((("203.0.113.77", 9), C.PacketHeader.from_bytes(True, d), d))
            return
        n = 0
        while not self.finished and not self.thread.queue:
            self.advance()
            n += 1
            if n > 10 ** 6:
                raise RuntimeError("world stuck")

    def run(self):
        self.t0 = connlib.BASE_T + self.rng.randint(0, 5000)
        self.real.now = self.t0
        self.next_c = self.t0 + self.rng.randint(1, self.sc["tau_c"])
        self.ctxt._active = True
        with Alarm(600):
            self.thread.run()
        self.finished = True


def draw_world(rng, kind):
    ka_c = rng.choice([16, 17, 32, 33, 64, 96, 102, 200, 512, 1024, 2048])
    ka_s = rng.choice([16, 17, 32, 33, 64, 96, 102, 200, 512, 1024, 2048])
    tau_c, tau_s = rng.randint(8, 110), rng.randint(8, 110)
    delta = rng.choice([1, 1, 5, 20, 60])
    need = max(ka_c, ka_s) + tau_c + tau_s + delta + 40
    ct = rng.choice([x for x in (256, 300, 512, 1000, 1024, 2048, 3000, 5120, 8000, 20480) if x > need])
    sc = {"kind": kind, "ka_s": ka_s, "ct": ct, "tt_s": rng.choice([256, 512, 1000, 2048]), "ot_s": rng.choice([512, 1024]),
          "tau_c": tau_c, "tau_s": tau_s, "delta": delta, "ccb": rng.randint(0, 1), "pin": rng.random() < 0.8,
          "si_c": rng.choice([None, 16, 16, 8, 32])}
    tt_c = rng.choice([256, 300, 512, 1000, 2048, 3000, 5120, 8000])
    ot_c = rng.choice([512, 1024, 2048])
    # every setter is called before connect, after connect, both, or not at all (the keep-alive always: the default is not a tick value)
    calls = []
    final = {}
    for name, v in (("ka", ka_c), ("tt", tt_c), ("ot", ot_c)):
        mode = rng.choice(["pre", "post", "both", "pre"]) if name != "ot" else rng.choice(["pre", "post", "both", "none"])
        other = rng.choice([16, 96, 256, 1000, 2048])
        if mode == "pre":
            calls.append(("pre", name, v))
        elif mode == "post":
            calls.append((rng.choice([0, 0, 50, 300]) if name != "tt" else 0, name, v))
            if name == "ka":
                calls.append(("pre", name, rng.choice([16, 96])))    # something tick-valued before
        elif mode == "both":
            calls.append(("pre", name, other))
            calls.append((rng.choice([0, 0, 50, 300]) if name != "tt" else 0, name, v))
        if mode != "none":
            final[name] = v
    rng.shuffle(calls)
    sc["calls"] = calls
    # the property's side condition keep-alive < time-out holds for EVERY keep-alive value in force at some time
    ka_max = max([ka_s] + [c[2] for c in calls if c[1] == "ka"])
    need = ka_max + tau_c + tau_s + delta + 40
    if ct <= need:
        ct = sc["ct"] = rng.choice([x for x in (1000, 1024, 2048, 3000, 5120, 8000, 20480) if x > need])
    sc["final"] = final
    sc["ka_c"], sc["tt_c"] = ka_c, tt_c
    if kind == "idle-cut":
        idle = rng.choice([3, 10, 40, 150]) * max(ka_c, ka_s)
        idle = min(idle, 60000)
        cut = 400 + idle + rng.randint(0, max(ka_c, ka_s))
        mode = rng.choice(["both", "both", "c>s", "s>c"])
        sc["cuts"] = [(mode, cut, 10 ** 9)]
        sc["cut"], sc["cut_mode"] = cut, mode
        sc["duration"] = cut + max(ct, 5120) + 5120 + 6 * max(tau_c, tau_s) + 600
    elif kind == "unreachable":
        sc["cuts"] = [("c>s", 0, 10 ** 9)]
        sc["duration"] = tt_c + 8 * tau_c + 300
    else:   # half-open: the hello gets through, nothing after it
        sc["cuts"] = [("c>s", tau_c + 1, 10 ** 9), ("s>c", 0, 10 ** 9)]
        sc["duration"] = max(tt_c, sc["tt_s"]) + 8 * max(tau_c, tau_s) + 400
        sc["noise"] = True          # the loop only sweeps while something keeps it awake
    return sc


def monitor_world(ctx, w):
    sc = w.sc
    rb = w.rb
    replay = {"scenario": {k: v for k, v in sc.items()}, "trace": w.trace[:40]}

    def fail(kind, what, **extra):
        ctx.failure(kind, what, dict(replay, **extra))
    for kind, what in w.problems:
        fail(kind, what)
        return
    ticks = w.client_ticks
    if not ticks:
        fail("world-did-not-run", "no client update was executed")
        return
    tc = w.t_connect
    connects = [e for e in w.srv_events if e[1] == "connect"]
    disconnects = [e for e in w.srv_events if e[1] == "disconnect"]
    spacing_c = max([y[0] - x[0] for x, y in zip(ticks, ticks[1:])] or [0])
    spacing_s = max([y - x for x, y in zip(w.sweeps, w.sweeps[1:])] or [0])
    if sc["kind"] == "idle-cut":
        cut = w.t0 + sc["cut"]
        t_up = next((t for (t, st, lr) in ticks if st == 2), None)
        if t_up is None or not connects:
            fail("handshake-did-not-complete", "client status never CONNECTED / server never promoted (client %s, server events %d)" %
                 (t_up, len(connects)))
            return
        # no false time-out while traffic flows
        bad = [(t, st) for (t, st, lr) in ticks if t_up <= t < cut and st != 2]
        if bad:
            fail("client-dropped-while-traffic-flows", "client status %d at %d, link cut only at %d" % (bad[0][1], bad[0][0], cut))
            return
        early = [e for e in disconnects if e[0] < cut]
        if early:
            fail("server-timeout-while-traffic-flows", "server disconnected the client at %d, link cut only at %d" % (early[0][0], cut))
            return
        # cadence per direction while both ends are in service
        sconn = connects[0][2]
        # the documented send interval of a connection (1/60 s), not whatever the connection object under test says: the bound is the
        # property's "keep-alive interval plus one send tick", and a connection that paces itself more slowly must be seen to break it
        si_s = 18
        if rb.r(sconn.send_interval) + 1 != si_s:
            ctx.count("c:server connection send_interval differs from 1/60 s")
        si_c = sc["si_c"] or 18
        ka_hist = [(tc, sc["final"]["ka"])] if not w.ka_changes else None
        t_drop = next((t for (t, st, lr) in ticks if t >= cut and st == 5), None)
        t_disc = disconnects[0][0] if disconnects else None
        for side, times, start, stop, ka, si, spacing in (
                ("client", w.sent["c"], t_up, t_drop if t_drop is not None else ticks[-1][0], None, si_c, spacing_c),
                ("server", w.sent["s"], connects[0][0], t_disc if t_disc is not None else w.sweeps[-1], sc["ka_s"], si_s, spacing_s)):
            seq = [t for t in times if start <= t <= stop]
            for x, y in zip(seq, seq[1:] + [stop]):
                changed_at = None
                if side == "client":
                    # the keep-alive interval in force at y: the last value set at or before y. A setter call inside (x, y] takes effect
                    # at the next update: the datagram is due max(ka, send interval) after x or at the moment of the change, whichever
                    # is later - a lowered interval is not allowed to wait for the old one to run out
                    hist = [(tt_, v) for (tt_, v) in [(tc, w.ka_at_connect)] + w.ka_changes if tt_ <= y]
                    ka = hist[-1][1]
                    if hist[-1][0] > x:
                        changed_at = hist[-1][0]
                bound = max(ka, si) + spacing
                if changed_at is not None:
                    bound = max(x + max(ka, si), changed_at) + spacing - x
                if y - x > bound:
                    fail("keepalive-gap", "%s: %d ticks without a datagram (keep-alive %d, send interval %d, update spacing <= %d)" %
                         (side, y - x, ka, si, spacing), frm=x, to=y)
                    return
            ctx.count("c:cadence checked %s" % side)
        # detection
        if sc["cut_mode"] in ("both", "s>c"):
            # the peer's last datagram reached the socket at last_arrival; the update at or after that instant reads it
            heard = next((t for (t, st, l) in ticks if t >= w.last_arrival), None)
            first = next((t for (t, st, l) in ticks if heard is not None and t > heard + 5120), None)
            if t_drop is None or t_drop != first:
                # datagrams still unread after the update that should have read the last one
                waiting = max([w.backlog[i] for i, (t, st, l) in enumerate(ticks) if heard is not None and t >= heard] or [0])
                if waiting > 0 and (t_drop is None or (first is not None and t_drop > first)):
                    fail("client-drop-delayed-by-receive-backlog",
                         "the server's last datagram reached the client's socket at %d; 5 s later the client is not DROPPED (reported at %s, due at "
                         "%s): UdpClient.update reads one datagram per call and %d unread datagrams were waiting when the link died (server "
                         "keep-alive %d ticks, client update every %d)" % (w.last_arrival, t_drop, first, waiting, sc["ka_s"], sc["tau_c"]))
                    return
                fail("client-drop-time", "last datagram from the server arrived at %d (read at %s); DROPPED reported at %s, first update later "
                     "than 5 s after it at %s" % (w.last_arrival, heard, t_drop, first))
                return
            ctx.count("c:client DROPPED at the first update after 5 s")
        if sc["cut_mode"] in ("both", "c>s") or t_drop is not None:
            lr = rb.r(sconn.last_recv_time)
            first = next((t for t in w.sweeps if t >= lr + sc["ct"]), None)
            if t_disc is None or t_disc != first or len(disconnects) != 1:
                fail("server-drop-time", "server accepted the last datagram at %d, connection_timeout %d: disconnect at %s (%d calls), first sweep "
                     "at or after the deadline at %s" % (lr, sc["ct"], t_disc, len(disconnects), first))
                return
            ctx.count("c:server disconnect at the first sweep at/after connection_timeout")
    else:
        # unanswered connect: DISCONNECTED at the first update later than the configured time-out after the hello, callback once with False
        tt = sc["final"].get("tt", rb.r(2.0))
        first = next((t for (t, st, lr) in ticks if t - tc > tt), None)
        for (t, st, lr) in ticks:
            want = 1 if (first is None or t < first) else 4
            if st != want:
                fail("connect-timeout-missed" if want == 4 else "connect-timeout-early",
                     "connect at %d, time-out %d (callback %s): status %d at %d (+%d)" % (tc, tt, "given" if sc["ccb"] else "none", st, t, t - tc))
                return
        want_cb = [(first, False)] if (sc["ccb"] and first is not None) else []
        if w.ccb != want_cb:
            fail("connect-callback-count", "connect callback calls %s, expected %s" % (w.ccb, want_cb))
            return
        if connects or disconnects:
            fail("handler-event-without-connection", "server handler events %s for a connection that never completed" %
                 [(e[0], e[1]) for e in w.srv_events])
            return
        ctx.count("c:connect time-out ccb=%d (%s)" % (sc["ccb"], sc["kind"]))
        if sc["kind"] == "half-open":
            # the server created a half-open connection and removes it at the first sweep at/after temp_connection_timeout
            rm = getattr(w, "temp_removed", None)
            seen = getattr(w, "temp_seen", None)
            if seen is not None:
                first_s = next((t for t in w.sweeps if t >= seen[1] + sc["tt_s"]), None)
                if rm != first_s:
                    fail("temp-connection-drop-time", "half-open connection accepted its hello at %d, temp time-out %d: removed at %s, first sweep "
                         "at/after the deadline %s" % (seen[1], sc["tt_s"], rm, first_s))
                    return
                if first_s is None:
                    fail("half-open-scenario-vacuous", "no sweep ran at/after the deadline: the scenario checked nothing")
                    return
                ctx.count("c:half-open connection removed at temp_connection_timeout")


def run_worlds(ctx, rb, n):
    rng = ctx.rng
    for i in range(n):
        kind = ["idle-cut", "idle-cut", "unreachable", "half-open"][i % 4]
        sc = draw_world(rng, kind)
        w = World(rb, rng, sc)
        # what connect copies: recorded for the cadence bound
        w.ka_at_connect = None
        orig_connect = w.connect

        def connect(t, _w=w, _o=orig_connect):
            _o(t)
            if _w.client.conn is not None:
                _w.ka_at_connect = rb.r(_w.client.conn.send_keep_alive_interval)
        w.connect = connect
        if kind == "half-open":
            # observe the temp pool at every sweep
            orig_adv = w.advance

            def adv(_w=w, _o=orig_adv):
                tc_ = _w.ctxt.temp_connections.get(CLIENT_ADDR)
                now = _w.real.now
                if tc_ is not None and getattr(_w, "temp_seen", None) is None:
                    _w.temp_seen = (now, rb.r(tc_.last_recv_time))
                if tc_ is None and getattr(_w, "temp_seen", None) is not None and getattr(_w, "temp_removed", None) is None:
                    _w.temp_removed = now
                _o()
            w.advance = adv
        try:
            w.run()
        except TimeoutError:
            ctx.failure("world-hang", "real client/server did not finish", {"scenario": sc})
            return
        monitor_world(ctx, w)
        ctx.count("c:world " + kind)
        if ctx.failures:
            return
        ctx.notes["c_client_updates"] = ctx.notes.get("c_client_updates", 0) + len(w.client_ticks)
        ctx.notes["c_server_iterations"] = ctx.notes.get("c_server_iterations", 0) + len(w.sweeps)
        ctx.notes["c_datagrams"] = ctx.notes.get("c_datagrams", 0) + len(w.sent["c"]) + len(w.sent["s"])
        if kind == "idle-cut":
            # the link hypothesis of C12_idle_pair_stays_up on the real code: nothing a peer sent over the perfect link was rejected
            srv = [e[2] for e in w.srv_events if e[1] == "connect"]
            rej = (w.client.conn.stats.dropped if w.client.conn else 0) + sum(c.stats.dropped for c in srv)
            ctx.notes["c_genuine_datagrams_rejected"] = ctx.notes.get("c_genuine_datagrams_rejected", 0) + rej


# ============================================================================================ run

def run(ctx):
    real = connlib.Real()
    rng = ctx.rng
    # ---------------------------------------------------------------- (a)
    cases, monitors = [], []
    n_cut = ctx.scale(120, 1500)
    for i in range(n_cut):
        cfg = draw_cfg(rng)
        mode = rng.choice(["both", "both", "a>", "b>"])
        periods = rng.choice([3, 10, 40, 120])
        idle = periods * max(cfg["ka_a"], cfg["ka_b"])
        lines, obs = gen_idle_cut(real, rng, "i%d" % i, cfg, min(idle, 40000), mode)
        cases.append(lines)
        monitors.append((lines, obs, mode))
        ctx.count("a:cut-mode " + mode)
    for i in range(ctx.scale(2, 6)):
        # long idle: thousands of keep-alive periods
        cfg = draw_cfg(rng, long_idle=True)
        periods = ctx.scale(1500, 6000)
        lines, obs = gen_idle_cut(real, rng, "L%d" % i, cfg, periods * min(cfg["ka_a"], cfg["ka_b"]), "both")
        cases.append(lines)
        monitors.append((lines, obs, "both"))
        ctx.count("a:long-idle keep-alive periods", periods)
    conn_cases = []
    for i in range(ctx.scale(150, 2000)):
        tt = rng.choice([256, 257, 512, 1000, 2048, 5120, 20480])
        lines, rec = gen_connect_timeout(real, rng, "u%d" % i, tt, i % 2, rng.randint(8, 110) if tt < 5000 else rng.randint(60, 400), rng.random() < 0.5)
        cases.append(lines)
        conn_cases.append((lines, rec))

    def nontrivial(case, outs):
        j = " ".join(outs)
        ka = "pkt ty=4" in j
        return (ka and ("st=5" in j)) or ("st=4" in j and case[0].split()[1].startswith("u")) or j.count("pkt ty=4") >= 50

    real2 = connlib.Real()
    connlib.run_cases(ctx, real2, cases, connlib.make_post(post_fn), "Conn(keep-alive/time-outs)", RULE, nontrivial, snapshots=False)
    for lines, obs, mode in monitors:
        monitor_idle_cut(ctx, lines, obs, mode)
    for lines, rec in conn_cases:
        monitor_connect_timeout(ctx, lines, rec)
    ctx.notes["a_ops"] = sum(len(c) - 2 for c in cases)
    ctx.notes["a_keepalives"] = sum(len(o.emits["a"]) + len(o.emits["b"]) for _l, o, _m in monitors)

    # ---------------------------------------------------------------- (b)
    rb = RealB(real2)
    bcases = gen_settings_cases(rng, rb, ctx.scale(150, 2000)) + gen_ctxt_cases(rng, rb, ctx.scale(80, 1000)) + \
        gen_state_cases(rng, ctx.scale(600, 8000)) + gen_rx_cases(real2, rng, ctx.scale(300, 4000))

    def impl_fn(case):
        return rb.run_case(case)
    for k in range(0, len(bcases), 400):
        ctx.correspondence("Client/ServerContext/sweeps", "C12", bcases[k:k + 400], impl_fn, nontrivial_b, RULE)
    # monitor (property itself) on the wrapper: no setter raises, the live connection carries the last value
    for case in bcases:
        if not case[1].startswith("ucnew"):
            continue
        outs = rb.run_case(case)
        last = {}
        k = 0
        for idx, line in enumerate(case[1:-1]):
            w = line.split()
            if w[0] == "ucnew":
                continue
            o = outs[k]
            k += 1
            if w[0] == "ucall":
                if o != "ok":
                    ctx.failure("setter-raised", "%s raised %s" % (" ".join(w[1:]), o[4:]), {"case": case, "at": idx})
                    break
                if w[1] != "connect":
                    last[{"setka": "ka", "settt": "tt", "setot": "ot"}[w[1]]] = w[2].split("=")[1]
                    ctx.count("b:setter %s connect" % ("after" if any(l.startswith("ucall connect") for l in case[1:idx + 1]) else "before"))
            elif w[0] == "udump" and " conn " in o:
                kvs = dict(x.split("=", 1) for x in o.split(" conn ")[1].split())
                wrong = [f for f, v in last.items() if kvs.get(f) != v]
                if wrong:
                    ctx.failure("setting-not-effective", "after %s the live connection has %s" % (last, {f: kvs.get(f) for f in wrong}),
                                {"case": case, "at": idx})
                    break
    ctx.notes["b_cases"] = len(bcases)
    # monitor: update() leaves nothing unread unless an exception escaped or the connection is DROPPED
    for case in bcases:
        if not case[0].split()[1].startswith("d"):
            continue
        outs = rb.run_case(case)
        for idx, o in enumerate(outs):
            if o.startswith("st=") and " unread=" in o:
                kvs = dict(x.split("=", 1) for x in o.split()[:2])
                if int(kvs["unread"]) > 0 and kvs["st"] != "5" and "err:" not in o:
                    ctx.failure("client-drop-delayed-by-receive-backlog", "UdpClient.update returned normally and left %s datagrams unread" %
                                kvs["unread"], {"case": case, "at": 2 * (idx // 2) + 2})
                    break
                ctx.count("b:update with %s waiting datagrams" % ("0" if " - " in o + " " and "unread=0 -" in o else ">=1"))
    if ctx.failures:
        return
    # ---------------------------------------------------------------- (c)
    run_worlds(ctx, rb, ctx.scale(200, 3000))
