"""C03 - AES-GCM nonces never repeat; nothing but the hellos travels in clear."""
from harness import core, connlib

PROP = "C03"
LEAN_MODULES = ["MpgsModel.Props.C03"]
MODEL_MODULES = ["MpgsModel.Model.Conn", "MpgsModel.Model.ToyAead", "MpgsModel.Model.ConnStep"]
NS = "Mpgs.Conn."
THEOREMS = [
    (NS + "C03_sealed_after_key", "full"),
    (NS + "C03_clear_is_prekey_or_server_hello", "full"),
    (NS + "C03_nonce_fields", "full"),
    (NS + "emitLog_chain", "full"),
    (NS + "emitLog_valid", "full"),
    (NS + "C03_nonce_never_repeats", "full"),
    (NS + "C03_directions_disjoint", "full"),
]
# secondary tie (DESIGN 4.2): kernels regenerated from the source on every run, proved equal to the model (Props/Equiv<Group>.lean)
EQUIV = {"Header": ["Mpgs.Equiv.gen_header_to_bytes", "Mpgs.Equiv.gen_total_size", "Mpgs.Equiv.gen_to_bytes_seals", "Mpgs.Equiv.gen_from_bytes_opens"]}
ASSUMPTIONS = [
    "non-decreasing clock is NOT needed for the theorem: the send-rate guard (t - last_send >= send_interval) is what spaces "
    "emissions; the hypothesis is 65535 * send_interval >= 1 s (default 1/60 s) and clock values >= 0",
    "no _build_packet call raised in the history (guaranteed by C09_build_total; monitored on every run)",
    "confidentiality of AES-GCM itself is assumed outside Lean; 'in clear' is decided by the sealed form of the datagram bytes",
    "that an endpoint without a key only ever queues hello messages is part of the handshake model (C02)",
]
RULE = ("two-party histories under loss/duplication/delay with all message sizes and retry modes, counters started near the 16-bit wrap, "
        "idle periods (keep-alives), plus a long soak per run that wraps the datagram sequence number several times at the protocol's "
        "send-rate cap; compared with the model: every emission's header bytes (nonce), type, sealed flag, length and CRC form; "
        "the harness opens every sealed datagram with the real AES-GCM using nonce = bytes 0..11 and AAD = bytes 0..19; "
        "non-trivial = the case emits at least 20 datagrams and crosses a sequence wrap or contains keep-alives")


def post_fn(op, out):
    k = op.split()[0]
    if k == "build":
        if out.startswith("pkt"):
            kv = dict(x.split("=", 1) for x in out.split()[1:])
            return "pkt ty=%s seq=%s ack=%s sealed=%s ct=%s len=%s dlen=%s hdr=%s dcrc=%s" % (
                kv["ty"], kv["seq"], kv["ack"], kv["sealed"], kv["ct"], kv["len"], kv["dlen"], kv["hdr"], kv.get("dcrc", "-"))
        return out
    return None


def nonce_monitor(case, log, ctx, seen=None):
    """no two sealed datagrams of a session share a nonce; everything emitted with a key (except SERVER_HELLO) is sealed"""
    seen = {} if seen is None else seen
    builds = [i for i, l in enumerate(case) if l.startswith("build ")]
    b = -1
    si = {}
    for l in case:
        w = l.split()
        if w[0] == "set":
            for x in w[2:]:
                if x.startswith("si="):
                    si[w[1]] = int(x[3:])
    last_emit = {}
    had_key = {}
    for rec in log:
        if rec["op"] != "build":
            continue
        b += 1
        at = builds[b] - 1 if b < len(builds) else len(case) - 2
        p = rec.get("pkt")
        if "err" in rec:
            ctx.failure("build-raised", "packet construction raised %s" % rec["err"], {"case": case, "at": at})
            return seen
        if not p:
            continue
        if p["key"] and p["ty"] != 2 and not p["sealed"]:
            ctx.failure("clear-after-key", "datagram of type %d emitted in clear although a key is set" % p["ty"], {"case": case, "at": at})
            return seen
        if p["key"]:
            had_key[rec["e"]] = True
        elif had_key.get(rec["e"]) and p["ty"] != 2 and not p["sealed"]:
            # the session key is gone from the object but the session is not: what is sent now still belongs to it
            ctx.failure("clear-after-key", "%s emitted a datagram of type %d in clear (CRC only) after it had sent under a session key: the key "
                        "was dropped before the session's last datagrams went out%s" %
                        (rec["e"], p["ty"], "; it carries application messages" if any(t in (6, 7) for (_s, t, _d) in p["msgs"]) else ""),
                        {"case": case, "at": at})
            return seen
        if not p["sealed"] and any(t in (6, 7) for (_s, t, _d) in p["msgs"]):
            ctx.failure("application-bytes-in-clear", "application message emitted in an unsealed datagram", {"case": case, "at": at})
            return seen
        # the protocol's send-rate cap (the lemma the nonce argument rests on): emissions of one endpoint are at
        # least send_interval apart
        e = rec["e"]
        if e in last_emit and e in si and rec["t"] - last_emit[e] < si[e]:
            ctx.failure("send-rate-cap-broken", "%s emitted two datagrams %d ticks apart (send interval %d): a sequence wrap can then fit into "
                        "one clock second and repeat a nonce" % (e, rec["t"] - last_emit[e], si[e]), {"case": case, "at": at})
            return seen
        last_emit[e] = rec["t"]
        if p.get("late") and p["late"].get("same_bytes_as_this"):
            ctx.count("late-encode-equals-the-next-datagram (same plaintext, harmless)")
        elif p.get("late"):
            lt = p["late"]
            ctx.failure("nonce-reuse" if lt.get("same_nonce_as_this") else "packet-changed-after-build",
                        "%s: emission %s, encoded after the next packet was built (as TwistedServer.sendPackets does: the Packet objects are "
                        "encoded on the reactor thread), no longer gives the datagram it gave when it was built: nonce then %s, nonce now %s%s" %
                        (rec["e"], lt.get("k"), lt.get("nonce_then"), lt.get("nonce_late") or lt.get("err"),
                         " = the nonce of emission %d, whose plaintext differs: two datagrams sealed under one (key, nonce)" % p["k"]
                         if lt.get("same_nonce_as_this") else ""), {"case": case, "at": at})
            return seen
        if p["sealed"]:
            k = (p["key"], p["nonce"])
            if k in seen:
                ctx.failure("nonce-reuse", "nonce %s used for two sealed datagrams (emissions %s and %s)" % (p["nonce"], seen[k], (rec["e"], p["k"])),
                            {"case": case, "at": at, "first": seen[k]})
                return seen
            seen[k] = (rec["e"], p["k"])
    return seen


def soak_case(rng, cid, wraps, si):
    """endpoint a emits on every send tick over a perfect link (keep-alive interval = send interval): wraps its
    datagram sequence number `wraps` times; b answers every 8th tick; nothing accumulates"""
    lines = ["case %s" % cid, "mtu 1500", "new a client", "new b server"]
    for e in "ab":
        lines.append("set %s key=%s status=2 si=%d ka=%d ot=1024" % (e, connlib.KEY.hex(), si, si - 1))
    t = connlib.BASE_T
    seed = 77
    n = int(65535 * wraps) + 50
    kb = 0
    for i in range(n):
        t += si
        if i % 5 == 0:
            seed += 1
            lines.append("send a len=%d seed=%d retry=0 cb=-" % (rng.choice([0, 3, 40]), seed))
        lines.append("build a t=%d" % t)
        lines.append("recv b t=%d d=@a:%d" % (t, i))
        if i % 8 == 0:
            lines.append("build b t=%d" % t)
            lines.append("recv a t=%d d=@b:%d" % (t, kb))
            kb += 1
        if i % 64 == 0:
            lines.append("take b")
            lines.append("tmo a t=%d" % t)
    lines.append("dump a")
    lines.append("end")
    return lines


def slow_soak_case(cid, extra=200):
    """both endpoints emit once per second for a little more than 65536 s: the datagram sequence numbers of both wrap once while the
    clock's low 16 bits of seconds wrap once - emission j and emission j + 65535 (j a multiple of 64) are exactly 65536 s apart with the same
    seq and ack: only the upper half of the 32-bit send-time field keeps their nonces apart"""
    lines = ["case %s" % cid, "mtu 1500", "new a client", "new b server"]
    for e in "ab":
        lines.append("set %s key=%s status=2 si=16 ka=96 ot=1024" % (e, connlib.KEY.hex()))
    t = connlib.BASE_T
    lines.append("now %d" % t)
    for i in range(65535 + extra):
        t += 1024 + (1 if i % 64 == 0 else 0)
        lines.append("build a t=%d" % t)
        lines.append("recv b t=%d d=@a:%d" % (t, i))
        lines.append("build b t=%d" % t)
        lines.append("recv a t=%d d=@b:%d" % (t, i))
    lines.append("dump a")
    lines.append("end")
    return lines


def run(ctx):
    real = connlib.Real()
    rng = ctx.rng
    n = ctx.scale(40, 600)
    cases = []
    for i in range(n):
        cases.append(connlib.gen_two_party(real, rng, "n%d" % i, mtu=rng.choice([1500, 1500, 512]), steps=rng.choice([40, 80]),
                                           start={"ss": 65535 - rng.randint(0, 60), "sm": 65400, "sf": 65530} if i % 2 == 0 else None,
                                           ka=rng.choice([16, 32, 96]), si=rng.choice([16, 16, 17, 32]), send_rate=rng.choice([0.1, 0.5]),
                                           disc=0.01 if i % 5 == 0 else 0.0))
    # soak: several wraps at the rate cap (quick: a bit more than one wrap; thorough: four)
    cases.append(soak_case(rng, "soak", ctx.scale(1.05, 4.2), 16))
    # slow soak: one datagram per second and side across a wrap of the sequence numbers AND of the low 16 bits of the clock's seconds
    cases.append(slow_soak_case("slowsoak"))
    real2 = connlib.Real()

    def nontrivial(case, outs):
        pk = [o for o in outs if o.startswith("pkt")]
        return len(pk) >= 20 and (any(" ty=4 " in o for o in pk) or any(" seq=65535 " in o for o in pk))

    logs, bad = connlib.run_cases(ctx, real2, cases, connlib.make_post(post_fn), "Conn(emissions)", RULE, nontrivial,
                                  snapshots=False)
    total = sealed = 0
    for c in cases:
        log = logs.get(core.case_id(c), [])
        if connlib.sealing_monitor(c, log, ctx):
            return
        seen = nonce_monitor(c, log, ctx)
        if ctx.failures:
            return
        for rec in log:
            if rec["op"] == "build" and rec.get("pkt"):
                total += 1
                sealed += 1 if rec["pkt"]["sealed"] else 0
                ctx.count("emit:ty=%d" % rec["pkt"]["ty"])
    # ---- the handshake itself: nothing but the two hellos leaves in clear, also when the application calls send() while it is in flight
    hcases, houts, hlogs = [], {}, {}
    for i in range(ctx.scale(40, 600)):
        script = ("early-send", "honest", "rekey-attempt")[i % 3]
        cid = "hs%d-%s" % (i, script)
        lines, outs, log = connlib.gen_handshake(real, rng, cid, script)
        hcases.append(lines)
        houts[cid] = outs
        hlogs[cid] = log
    connlib.run_recorded(ctx, hcases, houts, connlib.make_post_hs(post_fn), "Handshake(emissions)", RULE, lambda c, o: "early-send" in c[0] or "rekey-attempt" in c[0])
    for c in hcases:
        log = hlogs[core.case_id(c)]
        if connlib.sealing_monitor(c, log, ctx):
            return
        if connlib.key_stability_monitor(c, log, ctx):
            return
        nonce_monitor(c, log, ctx)
        if ctx.failures:
            return
        for rec in log:
            if rec["op"] == "build" and rec.get("pkt"):
                total += 1
                sealed += 1 if rec["pkt"]["sealed"] else 0
                ctx.count("emit:ty=%d" % rec["pkt"]["ty"])
    ctx.notes["emissions"] = total
    ctx.notes["sealed_and_opened_with_real_aesgcm"] = sealed
    ctx.notes["soak_wraps"] = ctx.scale(1.05, 4.2)
