"""C20 - dispatcher: correspondence of Model/Dispatch.lean with mpgameserver/dispatch.py + monitor."""
from harness import core

PROP = "C20"
LEAN_MODULES = ["MpgsModel.Props.C20"]
MODEL_MODULES = ["MpgsModel.Model.Dispatch"]
NS = "Mpgs.Dispatch."
THEOREMS = [
    (NS + "C20_one_binding_per_class", "full"),
    (NS + "C20_dispatch_exact", "full"),
    (NS + "C20_handler_outcome_unchanged", "full"),
    (NS + "C20_duplicate_refused", "full"),
    (NS + "C20_duplicate_refused_resource", "full"),
    (NS + "C20_unregister_unbinds", "full"),
    (NS + "C20_unregister_then_register", "full"),
    (NS + "C20_register_then_unregister", "full"),
    (NS + "C20_unregister_function", "full"),
    (NS + "C20_self_collision", "witness"),
]
ASSUMPTIONS = [
    "dir(resource) lists attributes in sorted name order (CPython); handlers are identified by (resource, method name)",
    "class annotations and string annotations are both normalised to the class name, as register_function does",
    "handlers themselves do not re-enter the dispatcher; a handler may return or raise any exception (KeyError and DispatchError of its "
    "own included): the very exception object must reach the caller of dispatch()",
]
RULE = ("random op sequences (register/unregister/regfn/unregfn/dispatch/keys, a third of the dispatches to handlers that raise one of ten "
        "exception classes) over 1-4 generated resources with "
        "0-4 decorated methods, class or string annotations, overlapping event classes, on the server and the client "
        "dispatcher; non-trivial = at least one error outcome and one successful dispatch in the case")

EVENTS = ["EvA", "EvB", "EvC", "EvD", "EvE"]
# what a handler may raise: the exception (the very object) must reach the caller of dispatch()
EXCS = ["KeyError", "LookupError", "IndexError", "AttributeError", "TypeError", "ValueError", "RuntimeError", "StopIteration",
        "Exception", "DispatchError"]


def gen_case(rng, cid):
    nres = rng.randint(1, 4)
    lines = ["case %s" % cid]
    kind = rng.choice(["server", "client"])
    lines.append("kind %s" % kind)
    resources = {}
    for rid in range(1, nres + 1):
        nm = rng.choice([0, 1, 1, 2, 2, 3, 4])
        # distinct events inside a resource most of the time; sometimes a self-collision
        evs = rng.sample(EVENTS, min(nm, len(EVENTS))) if rng.random() < 0.85 else [rng.choice(EVENTS) for _ in range(nm)]
        style = rng.choice(["class", "string", "mixed"])
        methods = []
        for i, ev in enumerate(evs):
            st = style if style != "mixed" else rng.choice(["class", "string"])
            methods.append(("m%d_%s" % (i, ev.lower()), ev, st))
        methods.sort()
        resources[rid] = methods
        lines.append("res %d %s %s" % (rid, ",".join("%s:%s" % (m, e) for m, e, _ in methods) or "-",
                                         ",".join(s[0] for _, _, s in methods) or "-"))
    for _ in range(rng.randint(3, 40)):
        r = rng.random()
        rid = rng.randint(1, nres)
        if r < 0.25:
            lines.append("register %d" % rid)
        elif r < 0.45:
            lines.append("unregister %d" % rid)
        elif r < 0.52:
            lines.append("regfn %s %d %s" % (rng.choice(EVENTS), 9, "free%d" % rng.randint(0, 2)))
        elif r < 0.6:
            lines.append("unregfn %s" % rng.choice(EVENTS))
        elif r < 0.9:
            args = ",".join(str(rng.randint(0, 99)) for _ in range(2))
            if rng.random() < 0.35:
                lines.append("dispatch %s %s %s" % (rng.choice(EVENTS), args, rng.choice(EXCS)))
            else:
                lines.append("dispatch %s %s" % (rng.choice(EVENTS), args))
        else:
            lines.append("keys")
    lines.append("keys")
    lines.append("end")
    return lines


class Impl:
    """drives the real dispatchers"""

    def __init__(self):
        core.use_repo()
        import mpgameserver.dispatch as D
        self.D = D
        # message classes as applications define them: at module level, nested in a namespace class (`Msg.EvB`) or local to a function -
        # a class is routed by its NAME, wherever it was defined
        class Msg:
            pass
        self.classes = {}
        for i, ev in enumerate(EVENTS):
            qual = {0: ev, 1: "Msg." + ev, 2: "make_messages.<locals>." + ev}[i % 3]
            # every other class derives from an earlier message class (`class MoveFast(Move)`): a handler bound to the base class
            # is NOT a handler for the derived one - routing is by the message's own class
            bases = (self.classes[EVENTS[i - 1]],) if i % 2 == 1 else ()
            self.classes[ev] = type(ev, bases, {"__qualname__": qual})
            if i % 3 == 1:
                setattr(Msg, ev, self.classes[ev])
        self.raise_next = None      # the exception object the next invoked handler raises (after logging the call)

    def make_exc(self, name):
        if name == "DispatchError":
            return self.D.DispatchError("raised by the handler itself")
        import builtins
        return getattr(builtins, name)("raised by the handler")

    def _after_call(self):
        if self.raise_next is not None:
            raise self.raise_next

    def make_resource(self, rid, spec, styles, kind, log):
        D = self.D
        ns = {}
        self_impl = self
        def mk_server(mname):
            def h(self, client, seqnum, msg):
                log.append((rid, mname, (client, seqnum)))
                self_impl._after_call()
            return h

        def mk_client(mname):
            def h(self, seqnum, msg):
                log.append((rid, mname, (seqnum,)))
                self_impl._after_call()
            return h

        for (mname, ev), st in zip(spec, styles):
            ann = self.classes[ev] if st == "c" else ev
            h = mk_server(mname) if kind == "server" else mk_client(mname)
            h.__annotations__ = {"msg": ann}
            h.__name__ = mname
            ns[mname] = D.server_event(h) if kind == "server" else D.client_event(h)
        return type("Res%d" % rid, (), ns)()

    def run_case(self, case):
        D = self.D
        out = []
        disp = None
        kind = "server"
        res = {}
        log = []
        for line in case[1:]:
            w = line.split()
            if not w:
                continue
            op = w[0]
            if op == "res":
                spec = [] if w[2] == "-" else [tuple(x.split(":")) for x in w[2].split(",")]
                styles = [] if w[3] == "-" else w[3].split(",")
                res[int(w[1])] = self.make_resource(int(w[1]), spec, styles, kind, log)
                continue
            try:
                if op == "kind":
                    kind = w[1]
                    disp = D.ServerMessageDispatcher() if kind == "server" else D.ClientMessageDispatcher()
                elif op == "register":
                    disp.register(res[int(w[1])])
                    out.append("ok")
                elif op == "unregister":
                    disp.unregister(res[int(w[1])])
                    out.append("ok")
                elif op == "regfn":
                    rid, m = int(w[2]), w[3]
                    if kind == "server":
                        fn = lambda client, seqnum, msg, _r=rid, _m=m: (log.append((_r, _m, (client, seqnum))), self._after_call())
                    else:
                        fn = lambda seqnum, msg, _r=rid, _m=m: (log.append((_r, _m, (seqnum,))), self._after_call())
                    # alternate class / string form of the key
                    key = self.classes[w[1]] if (len(out) % 2 == 0) else w[1]
                    disp.register_function(key, fn)
                    out.append("ok")
                elif op == "unregfn":
                    key = self.classes[w[1]] if (len(out) % 2 == 0) else w[1]
                    disp.unregister_function(key)
                    out.append("ok")
                elif op == "dispatch":
                    a = [int(x) for x in w[2].split(",")]
                    msg = self.classes[w[1]]()
                    del log[:]
                    self.raise_next = self.make_exc(w[3]) if len(w) > 3 and w[3] != "-" else None
                    try:
                        if kind == "server":
                            disp.dispatch(a[0], a[1], msg)
                        else:
                            disp.dispatch((a[0], a[1]), msg)
                        if self.raise_next is not None and log:
                            out.append("called-but-exception-swallowed")
                            continue
                    except BaseException as e:
                        if e is not self.raise_next:
                            raise
                        rid, m, args = log[0]
                        flat = args if kind == "server" else args[0]
                        out.append("called %d %s %s raised:%s" % (rid, m, ",".join(str(x) for x in flat), w[3]))
                        continue
                    finally:
                        self.raise_next = None
                    if len(log) != 1:
                        out.append("calls=%d" % len(log))
                    else:
                        rid, m, args = log[0]
                        flat = args if kind == "server" else args[0]
                        out.append("called %d %s %s" % (rid, m, ",".join(str(x) for x in flat)))
                elif op == "keys":
                    ks = sorted(disp.registered_events.keys())
                    out.append("keys " + (",".join(ks) if ks else "-"))
                elif op == "end":
                    pass
            except D.DispatchError:
                out.append("err:dispatchError" if not log or op != "dispatch" else "err:dispatchError+called")
            except Exception as e:  # the code raises bare Exception for (un)registration errors
                out.append("err:exception" if type(e) is Exception else "err:" + type(e).__name__)
        return out


def model_case(case):
    """strip the columns the Lean driver does not need (annotation styles, dispatcher kind)"""
    out = []
    for line in case:
        w = line.split()
        if w and w[0] == "kind":
            continue
        if w and w[0] == "res":
            out.append(" ".join(w[:3]))
        else:
            out.append(line)
    return out


def monitor(impl, case, ctx):
    """the property itself, on the real code, with an independent bookkeeping of who is bound"""
    D = impl.D
    kind = "server"
    disp = None
    res, spec_of = {}, {}
    log = []
    bound = {}   # event name -> (rid, method)
    for idx, line in enumerate(case[1:]):
        w = line.split()
        if not w:
            continue
        op = w[0]
        if op == "kind":
            kind = w[1]
            disp = D.ServerMessageDispatcher() if kind == "server" else D.ClientMessageDispatcher()
        elif op == "res":
            spec = [] if w[2] == "-" else [tuple(x.split(":")) for x in w[2].split(",")]
            styles = [] if w[3] == "-" else w[3].split(",")
            res[int(w[1])] = impl.make_resource(int(w[1]), spec, styles, kind, log)
            spec_of[int(w[1])] = spec
        elif op == "register":
            rid = int(w[1])
            before = dict(bound)
            try:
                disp.register(res[rid])
                raised = False
            except Exception:
                raised = True
            dup = any(ev in before for _, ev in spec_of[rid]) or len({e for _, e in spec_of[rid]}) < len(spec_of[rid])
            if dup and not raised:
                ctx.failure("duplicate-accepted", "register() of a second handler for a bound class was not refused",
                            {"case": case, "at": idx})
                return
            for m, ev in spec_of[rid]:
                if ev not in bound:
                    bound[ev] = (rid, m)
                else:
                    break
        elif op == "unregister":
            rid = int(w[1])
            try:
                disp.unregister(res[rid])
            except Exception as e:
                ctx.failure("unregister-raises", "unregister(resource) raised %s" % type(e).__name__,
                            {"case": case, "at": idx})
                return
            for m, ev in spec_of[rid]:
                bound.pop(ev, None)
            # the property: the resource's handlers are no longer invoked ...
            for m, ev in spec_of[rid]:
                del log[:]
                try:
                    if kind == "server":
                        disp.dispatch(0, 0, impl.classes[ev]())
                    else:
                        disp.dispatch(0, impl.classes[ev]())
                    ctx.failure("handler-invoked-after-unregister",
                                "after unregister(resource) dispatch still invoked %r" % (log[:1],),
                                {"case": case, "at": idx, "event": ev})
                    return
                except D.DispatchError:
                    if log:
                        ctx.failure("call-with-dispatcherror", "DispatchError raised but a handler ran",
                                    {"case": case, "at": idx})
                        return
            # ... and can be registered again (checked on a copy of the table)
            if len({e for _, e in spec_of[rid]}) == len(spec_of[rid]):
                saved = dict(disp.registered_events)
                try:
                    disp.register(res[rid])
                except Exception as e:
                    ctx.failure("reregister-refused", "register after unregister raised %r" % (e,),
                                {"case": case, "at": idx})
                    return
                finally:
                    disp.registered_events = saved
        elif op == "regfn":
            # same key-form alternation as Impl.run_case is irrelevant for the monitor: use the name
            ev = w[1]
            try:
                disp.register_function(ev, (lambda *a, _r=int(w[2]), _m=w[3]: (log.append((_r, _m, a[:-1])), impl._after_call())))
                if ev in bound:
                    ctx.failure("duplicate-accepted", "register_function for a bound class was not refused",
                                {"case": case, "at": idx})
                    return
                bound[ev] = (int(w[2]), w[3])
            except Exception:
                pass
        elif op == "unregfn":
            try:
                disp.unregister_function(w[1])
                bound.pop(w[1], None)
            except Exception:
                if w[1] in bound:
                    ctx.failure("unregister-function-refused", "unregister_function of a bound class raised",
                                {"case": case, "at": idx})
                    return
        elif op == "dispatch":
            a = [int(x) for x in w[2].split(",")]
            ev = w[1]
            del log[:]
            exc = impl.make_exc(w[3]) if len(w) > 3 and w[3] != "-" else None
            impl.raise_next = exc
            try:
                try:
                    if kind == "server":
                        disp.dispatch(a[0], a[1], impl.classes[ev]())
                    else:
                        disp.dispatch((a[0], a[1]), impl.classes[ev]())
                finally:
                    impl.raise_next = None
                if exc is not None and log:
                    ctx.failure("handler-exception-swallowed", "the handler of %s raised %s but dispatch() returned normally" % (ev, w[3]),
                                {"case": case, "at": idx})
                    return
                exp = bound.get(ev)
                got = [(r, m) for r, m, _ in log]
                if exp is None or got != [exp]:
                    ctx.failure("wrong-handler", "dispatch(%s) ran %r, expected exactly %r" % (ev, got, exp),
                                {"case": case, "at": idx})
                    return
            except BaseException as e:
                if e is exc:
                    got = [(r, m) for r, m, _ in log]
                    if got != [bound.get(ev)]:
                        ctx.failure("wrong-handler", "dispatch(%s) ran %r, expected exactly %r" % (ev, got, bound.get(ev)),
                                    {"case": case, "at": idx})
                        return
                elif isinstance(e, D.DispatchError):
                    if log:
                        ctx.failure("handler-exception-replaced", "the handler bound to %s ran and raised %s, but the caller of dispatch() got "
                                    "DispatchError(%s) - 'no handler registered' - instead of the handler's exception" % (ev, w[3] if len(w) > 3 else "nothing", e),
                                    {"case": case, "at": idx})
                        return
                    if ev in bound:
                        ctx.failure("dispatcherror-for-bound-class", "DispatchError although %s is bound" % ev,
                                    {"case": case, "at": idx})
                        return
                else:
                    ctx.failure("handler-exception-replaced", "dispatch(%s) raised %s: %s, which is neither DispatchError nor what the handler raised" %
                                (ev, type(e).__name__, e), {"case": case, "at": idx})
                    return


def run(ctx):
    impl = Impl()
    n = ctx.scale(400, 20000)
    cases = [gen_case(ctx.rng, "g%d" % i) for i in range(n)]

    def nontrivial(case, outs):
        return any(o.startswith("err") for o in outs) and any(o.startswith("called") for o in outs)

    # the model sees the same ops minus annotation style / dispatcher kind (which must not matter)
    def impl_fn(case):
        return impl.run_case(case)

    # correspondence wants identical lines for both sides: feed the model the stripped form by
    # wrapping the driver call
    orig_lean = ctx.lean
    ctx.lean = lambda driver, lines, timeout=900: orig_lean(driver, model_case(lines), timeout)
    try:
        ctx.correspondence("Dispatch", "C20", cases, impl_fn, nontrivial, RULE)
    finally:
        ctx.lean = orig_lean
    for c in cases:
        for o in impl_fn(c):
            ctx.count("out:" + o.split()[0])
        monitor(impl, c, ctx)
        if ctx.failures:
            break
    ctx.notes["op_lines"] = sum(len(c) - 3 for c in cases)
