"""C17 - path_join_safe containment: correspondence of Model/Path.lean with mpgameserver.http_server.path_join_safe
and with posixpath.join / normpath / abspath / splitroot, str.split / str.replace (each tied by its own op),
plus the containment monitor on the real code."""
import glob
import itertools
import os
import posixpath
import shutil
import signal
import tempfile

from harness import core

PROP = "C17"
LEAN_MODULES = ["MpgsModel.Props.C17"]
MODEL_MODULES = ["MpgsModel.Model.Path"]
NS = "Mpgs.Path."
THEOREMS = [
    (NS + "C17_contained", "full"),
    (NS + "C17_components", "full"),
    (NS + "C17_result_is_fixpoint_of_normpath", "full"),
    (NS + "C17_error_is_valueError", "full"),
    (NS + "C17_every_name", "full"),
    (NS + "C17_clean_relative_accepted", "full"),
    (NS + "C17_root_normalised", "full"),
    (NS + "C17_backslash_is_separator", "full"),
    (NS + "C17_leading_separator_refused", "full"),
    (NS + "C17_dot_segments_refused", "full"),
    (NS + "C17_unrepaired_escapes", "witness"),
]
ASSUMPTIONS = [
    "POSIX only: os.path is posixpath (the check runs on Linux); ntpath (drive letters, UNC) is not modelled",
    "strings are sequences of Unicode scalar values (what decoding a UTF-8 request path yields); lone surrogates "
    "are outside the model",
    "os.getcwd() returns an absolute path (starts with '/'); it is the parameter cwd of the model",
    "containment is lexical (normalised string / component prefix), as the function's own contract is; symbolic "
    "links under the root are outside the property",
    "the root directory is read the way the function reads it: backslashes in root_directory are separators",
    "a :name* capture that is absent (URL equal to the route prefix, capture None) is not a str and not a name; "
    "path_join_safe(root, None) raises AttributeError - counted in the histogram, not part of the property",
]
RULE = ("(cwd, root, name) triples: names = exhaustive sequences over the adversarial segment alphabet joined by "
        "'/', '\\\\' or '//' under absolute / drive-like prefixes, random mixed-separator sequences of up to 6 segments, control "
        "characters (LF, CR, NUL, TAB, VT, FF, NEL, U+2028/9) inside segments before and after dot segments, "
        "random NUL-free unicode strings, and the captures the real Router yields for random URLs on "
        "'/static/:path*' and '/:path*'; roots from a fixed adversarial list + generated; cwd = real chdir "
        "directories and patched os.getcwd values; every triple runs fixsep/split/join/splitroot/normpath/abspath/"
        "path_join_safe as separate ops; non-trivial = path_join_safe refused, or normpath changed the joined path")

SEGS = ["..", ".", "", "a", "b c", "C:", "~", "%2e%2e", "\u00e9\u4e2d", "...", ".a", "\U0001f600x"]
SEPS = ["/", "\\", "//"]
PREFIXES = ["", "/", "//", "///", "////", "\\", "\\\\", "C:/", "C:\\", "/./", "./", "../"]
ROOTS = ["/srv/www", "/srv/www/", "/", "//", "///", "", ".", "..", "www", "www/", "./www", "../www",
         "/srv/../www", "//srv", "//srv/", "///srv", "/srv//www", "a/b/../c", "/a b/\u00e9", "C:\\www",
         "\\srv\\www", "/srv/www/.", "/srv/www/..", "~", "/..", "/../..", "//..", "a/..", "../..", "/srv/www//",
         "/.", "//.", "./", "/a/./b/", "\\", "\\\\"]
PATCHED_CWDS = ["/", "//", "/x", "/x/", "//x", "///x", "/x/../y", "/x/./y", "/x//y", "/\u00e9 \u4e2d", "/..",
                "/x/y/z", "//x/..", "/x/y/"]


def hx(s):
    b = s.encode("utf-8")
    return b.hex() if b else "-"


def unhx(w):
    return "" if w == "-" else bytes.fromhex(w).decode("utf-8")


class Impl:
    def __init__(self):
        core.use_repo()
        import mpgameserver.http_server as H
        self.H = H
        self.real_getcwd = os.getcwd

        class Static(H.Resource):
            @H.get("/static/:path*")
            def static(self, request):
                return H.JsonResponse({})

        class Root(H.Resource):
            @H.get("/:path*")
            def root(self, request):
                return H.JsonResponse({})

        self.router_static = H.Router()
        self.router_static.registerRoutes(Static())
        self.router_root = H.Router()
        self.router_root.registerRoutes(Root())

    # os.getcwd is what posixpath.abspath consults; `cwd` on the op line is the value it must see
    def with_cwd(self, cwd, fn):
        if self.real_getcwd() == cwd:
            return fn()
        posixpath.os.getcwd, saved = (lambda: cwd), posixpath.os.getcwd
        try:
            return fn()
        finally:
            posixpath.os.getcwd = saved

    def pjs(self, cwd, root, name):
        return self.with_cwd(cwd, lambda: self.H.path_join_safe(root, name))

    def run_op(self, w):
        op = w[0]
        a = [unhx(x) for x in w[1:]]
        if op == "join":
            return "s " + hx(os.path.join(a[0], a[1]))
        if op == "normpath":
            return "s " + hx(os.path.normpath(a[0]))
        if op == "abspath":
            return "s " + hx(self.with_cwd(a[0], lambda: os.path.abspath(a[1])))
        if op == "split":
            return "l " + ",".join(hx(c) for c in a[0].split("/"))
        if op == "splitroot":
            _, r, t = posixpath.splitroot(a[0])
            return "r %s %s" % (hx(r), hx(t))
        if op == "fixsep":
            return "s " + hx(a[0].replace("\\", "/"))
        if op == "pjs":
            try:
                return "ok " + hx(self.pjs(a[0], a[1], a[2]))
            except Exception as e:
                return "err:" + type(e).__name__
        return "bad-op"

    def run_case(self, case):
        out = []
        for line in case[1:]:
            w = line.split()
            if not w or w[0] == "end":
                continue
            out.append(self.run_op(w))
        return out

    def capture(self, uri):
        """what the real request path / router make of a raw request URI (bytes); None = no str capture"""
        H = self.H
        try:
            path, _q, _f = H.parse_url(uri)
            path = path.decode("utf-8")
        except Exception:
            return ("undecodable", None)
        for router in (self.router_static, self.router_root):
            res = router.getRoute("GET", path)
            if res is not None:
                v = res[1].get("path")
                if v is None:
                    return ("capture-none", None)
                return ("capture", v)
        return ("no-route", None)


def make_case(cid, cwd, root, name):
    froot = root.replace("\\", "/")
    fname = name.replace("\\", "/")
    joined = os.path.join(froot, fname)
    return ["case %s" % cid,
            "fixsep %s" % hx(root),
            "fixsep %s" % hx(name),
            "split %s" % hx(fname),
            "join %s %s" % (hx(froot), hx(fname)),
            "join %s %s" % (hx(cwd), hx(joined)),
            "splitroot %s" % hx(joined),
            "normpath %s" % hx(joined),
            "normpath %s" % hx(name),
            "abspath %s %s" % (hx(cwd), hx(joined)),
            "abspath %s %s" % (hx(cwd), hx(froot)),
            "pjs %s %s %s" % (hx(cwd), hx(root), hx(name)),
            "end"]


def triple_of(case):
    w = case[-2].split()
    assert w[0] == "pjs"
    return unhx(w[1]), unhx(w[2]), unhx(w[3])


# ------------------------------------------------------------------ generators

def rand_char(rng):
    r = rng.random()
    if r < 0.45:
        return rng.choice("/\\..aab C:~%2e-_")
    if r < 0.6:
        return chr(rng.randint(1, 0x7f))
    if r < 0.8:
        while True:
            c = rng.randint(0x80, 0xffff)
            if not 0xd800 <= c <= 0xdfff:
                return chr(c)
    if r < 0.9:
        return chr(rng.randint(0x10000, 0x10ffff))
    return rng.choice(["\u2215", "\uff0f", "\u2024", "\uff0e", "\u202e", "\n", "\r", "\t", "\x7f", "\u0085"])


def rand_unicode(rng):
    return "".join(rand_char(rng) for _ in range(rng.choice([0, 1, 2, 3, 4, 6, 8, 12, 20])))


def rand_segname(rng):
    k = rng.randint(0, 6)
    if k == 0:
        return rng.choice(PREFIXES)
    parts = [rng.choice(SEGS) for _ in range(k)]
    s = rng.choice(PREFIXES) if rng.random() < 0.5 else ""
    for i, p in enumerate(parts):
        if i:
            s += rng.choice(SEPS)
        s += p
    if rng.random() < 0.2:
        s += rng.choice(SEPS)
    return s


def rand_root(rng):
    r = rng.random()
    if r < 0.6:
        return rng.choice(ROOTS)
    if r < 0.9:
        return rand_segname(rng)
    return rand_unicode(rng)


URL_PIECES = [b"/", b"//", b"..", b".", b"a", b"b%20c", b"%2e%2e", b"%2f", b"%5c", b"\\", b"etc/passwd", b"C:",
              b"~", b"?q=1", b"#f", b";x", "\u00e9\u4e2d".encode(), b"\xff", b"\n", b"static", b"/static",
              b"/static/", b"/static//", b"...", b"%00", b" "]


def rand_uri(rng):
    s = rng.choice([b"/static", b"/static/", b"/static//", b"/", b"//", b"/static/../", b""])
    for _ in range(rng.randint(0, 7)):
        s += rng.choice(URL_PIECES)
    return s


def exhaustive_names(maxseg):
    for k in range(0, maxseg + 1):
        for t in itertools.product(SEGS, repeat=k):
            for sp in SEPS:
                body = sp.join(t)
                for pre in PREFIXES:
                    yield pre + body
                    if k:
                        yield pre + body + sp


def small_alphabet(maxlen, alphabet="/.a"):
    """every string over a three-letter alphabet up to maxlen: all slash / dot / name patterns"""
    for k in range(0, maxlen + 1):
        for t in itertools.product(alphabet, repeat=k):
            yield "".join(t)


def classify(ctx, root, name, out):
    """distribution of the generated triples over the branches of the anchored code / model"""
    fr, fn = root.replace("\\", "/"), name.replace("\\", "/")
    parts = fn.split("/")
    ctx.count("root:" + ("empty" if not fr else "two-slash" if fr.startswith("//") and not fr.startswith("///")
                         else "absolute" if fr.startswith("/") else "relative"))
    if ".." in fr.split("/"):
        ctx.count("root:has-dotdot")
    if fr.endswith("/"):
        ctx.count("root:trailing-slash")
    if fn.startswith("/"):
        ctx.count("name:leading-separator")
    if ".." in parts:
        ctx.count("name:dotdot-segment")
    if "." in parts:
        ctx.count("name:dot-segment")
    if "" in parts[1:] and fn:
        ctx.count("name:empty-segment")
    if "\\" in name:
        ctx.count("name:backslash")
    if not fn:
        ctx.count("name:empty")
    if any(".." in p and p != ".." for p in parts):
        ctx.count("name:dotdot-inside-a-name")
    ctx.count("pjs:" + out.split()[0])


# ------------------------------------------------------------------ monitor

def monitor(impl, case, ctx):
    """the property on the real code: ValueError, or a normalised path that is the root or beneath it"""
    cwd, root, name = triple_of(case)
    at = len(case) - 3
    info = {"case": case, "at": at, "cwd": cwd, "root_directory": root, "filename": name}
    try:
        p = impl.pjs(cwd, root, name)
    except ValueError:
        ctx.count("monitor:ValueError")
        return
    except Exception as e:
        ctx.failure("wrong-exception", "path_join_safe(%r, %r) raised %s, not ValueError" % (root, name, type(e).__name__),
                    info)
        return
    info["result"] = p
    froot = root.replace("\\", "/")
    if p.startswith("/") or froot.startswith("/"):
        R = impl.with_cwd(cwd, lambda: os.path.abspath(froot))
    else:
        # a relative result for a relative root is judged in the same (relative) frame; the real function
        # never gets here (it returns abspath), only a drifted version could
        R = os.path.normpath(froot)
        ctx.count("monitor:relative-result")
    info["abspath_root"] = R
    if R == ".":                # relative frame only: everything that does not climb is beneath "."
        beneath = not (p == ".." or p.startswith("../") or p.startswith("/"))
    else:
        beneath = (p == R) or p.startswith(R if R.endswith("/") else R + "/")
    # commonpath drops the implementation-defined second leading slash, so compare with commonpath([R])
    try:
        common = os.path.commonpath([R, p]) == os.path.commonpath([R])
    except ValueError:          # absolute / relative mix: no common path
        common = False
    if not (beneath and common):
        ctx.failure("escapes-root", "path_join_safe(%r, %r) returned %r which is not %r or beneath it (cwd %r)"
                    % (root, name, p, R, cwd), info)
        return
    comps = p.lstrip("/").split("/") if p.strip("/") else []
    if os.path.normpath(p) != p or (p.startswith("/") and any(c in ("", ".", "..") for c in comps)):
        ctx.failure("not-normalised", "path_join_safe(%r, %r) returned %r which is not normalised" % (root, name, p), info)
        return
    ctx.count("monitor:" + ("is-root" if p == R else "beneath"))


# ------------------------------------------------------------------ run

def load_corpus():
    cases = []
    d = os.path.join(core.HERE, "corpus", PROP)
    for f in sorted(glob.glob(os.path.join(d, "*.ops"))):
        cur = None
        for line in open(f, encoding="utf-8"):
            line = line.rstrip("\n")
            if not line or line.startswith("#"):
                continue
            if line.startswith("case "):
                cur = [line]
            elif cur is not None:
                cur.append(line)
                if line == "end":
                    cases.append(cur)
                    cur = None
    return cases


def run(ctx):
    impl = Impl()
    rng = ctx.rng
    signal.signal(signal.SIGALRM, lambda *_: (_ for _ in ()).throw(TimeoutError("real code call hung")))
    signal.alarm(ctx.scale(600, 3000))

    start_dir = os.getcwd()
    tmp = None
    real_dirs = ["/", start_dir, os.path.dirname(start_dir)]
    try:
        tmp = tempfile.mkdtemp(prefix="c17-")
        odd = os.path.join(tmp, "b c \u00e9")
        os.makedirs(os.path.join(odd, "deep", "er"))
        real_dirs += [tmp, odd, os.path.join(odd, "deep", "er")]
    except OSError:
        ctx.notes["tmpdir"] = "no temporary directory available: real-chdir runs use existing directories only"

    try:
        _run(ctx, impl, rng, real_dirs)
    finally:
        signal.alarm(0)
        os.chdir(start_dir)
        if tmp:
            shutil.rmtree(tmp, ignore_errors=True)


def _run(ctx, impl, rng, real_dirs):
    # 0. corpus (the defect witnesses) first: correspondence + monitor
    corpus = load_corpus()
    ctx.count("gen:corpus", len(corpus))
    if corpus:
        ctx.correspondence("Path", "C17", corpus, impl.run_case, None, RULE, minimise=False)
        for c in corpus:
            monitor(impl, c, ctx)
            if ctx.failures:
                return
    cases = []
    triples = []

    # 1. boundary: every listed root x the defect-shaped and edge names, cwd patched
    edge_names = ["", "/", "//", "///", "\\", "/etc/passwd", "\\etc\\passwd", "//etc/passwd", "a", "a/", "a//b", "a/b/",
                  "..", ".", "a/..", "a/./b", "...", "..a", "a..", ". ", " ..", "C:", "C:/x", "C:\\x", "~", "~/x",
                  "%2e%2e", "%2e%2e/x", "a\\..\\b", "a/\\b", "\u2024\u2024/x", "\uff0e\uff0e/x", "..\u2215x"]
    for root in ROOTS:
        for name in edge_names:
            triples.append(("boundary", rng.choice(PATCHED_CWDS), root, name))

    # 2. exhaustive short sequences over the segment alphabet (uniform separator, all prefixes)
    for name in exhaustive_names(ctx.scale(1, 3)):
        triples.append(("exhaustive", rng.choice(PATCHED_CWDS), rand_root(rng), name))

    # 2b. every string over {'/', '.', 'a'} up to a length, as name (and, rotated, as root)
    small = list(small_alphabet(ctx.scale(6, 9)))
    for i, name in enumerate(small):
        root = small[(i * 7919) % len(small)] if i % 3 == 0 else rng.choice(ROOTS)
        triples.append(("small-alphabet", rng.choice(PATCHED_CWDS), root, name))

    # 3. random sequences up to 6 segments with mixed separators; random unicode
    for _ in range(ctx.scale(2500, 120000)):
        triples.append(("segments", rng.choice(PATCHED_CWDS), rand_root(rng), rand_segname(rng)))
    for _ in range(ctx.scale(800, 40000)):
        triples.append(("unicode", rng.choice(PATCHED_CWDS), rand_root(rng), rand_unicode(rng)))

    # 3a. control characters inside a segment that precedes / follows dot segments (line feed, carriage return, NUL, tab,
    #     unicode line separators): a name is one string, whatever it contains
    ctrl = ["\n", "\r", "\r\n", "\t", "\x00", "\x0b", "\x0c", "\x1c", "\x85", "\u2028", "\u2029"]
    tails = ["..", "../..", "../../..", "../../../etc/passwd", ".", "./x", "x/..", "x/../..", "..\\..", ""]
    for c in ctrl:
        for head in ["a" + c + "b", c, "a" + c, c + "b", "a" + c + "/b", "..", "x"]:
            for tail in tails:
                for name in (head + "/" + tail, head + tail, tail + "/" + head, head + "\\" + tail, c + tail + c):
                    triples.append(("control-chars", rng.choice(PATCHED_CWDS), rng.choice(ROOTS), name))

    # 3b. long names (hundreds of segments): nothing in the function depends on length
    for _ in range(ctx.scale(6, 60)):
        k = rng.choice([200, 500, 1000])
        name = rng.choice(SEPS).join(rng.choice(["a", "b c", "", "\u00e9", "...", rng.choice(SEGS)]) for _ in range(k))
        triples.append(("long", rng.choice(PATCHED_CWDS), rand_root(rng), name))

    # 4. captures of the real router for random request URIs
    want = ctx.scale(800, 40000)
    tries = 0
    got = 0
    while got < want and tries < want * 20:
        tries += 1
        uri = rand_uri(rng)
        kind, v = impl.capture(uri)
        ctx.count("uri:" + kind)
        if kind == "capture":
            got += 1
            if v.startswith("/"):
                ctx.count("uri:capture-leading-slash")
            triples.append(("capture", rng.choice(PATCHED_CWDS), rand_root(rng), v))
        elif kind == "capture-none" and ctx.hist.get("uri:capture-none", 0) == 1:
            try:
                impl.H.path_join_safe("/srv/www", None)
                ctx.notes["capture_none"] = "accepted"
            except Exception as e:
                ctx.notes["capture_none"] = "path_join_safe(root, None) raises " + type(e).__name__

    for i, (src, cwd, root, name) in enumerate(triples):
        ctx.count("gen:" + src)
        cases.append(make_case("g%d" % i, cwd, root, name))

    def nontrivial(case, outs):
        # outs: [fixsep, fixsep, split, join, join, splitroot, normpath, normpath, abspath, abspath, pjs]
        if len(outs) < 11:
            return True
        joined = case[7].split()[1]
        return outs[-1].startswith("err") or outs[6] != "s " + joined

    # 5. the same ops under REAL working directories (no patching of os.getcwd): a slice of the cases per dir
    real_cases = []
    per_dir = ctx.scale(150, 3000)
    for k, d in enumerate(real_dirs):
        try:
            os.chdir(d)
        except OSError:
            continue
        cwd = os.getcwd()
        picks = [triples[rng.randrange(len(triples))] for _ in range(per_dir)]
        batch = [make_case("r%d_%d" % (k, i), cwd, root, name) for i, (_s, _c, root, name) in enumerate(picks)]
        ctx.count("gen:real-chdir", len(batch))
        bad = ctx.correspondence("Path", "C17", batch, impl.run_case, nontrivial, RULE)
        for c in batch:
            monitor(impl, c, ctx)
            if ctx.failures:
                break
        real_cases.extend(batch)
        if bad or ctx.failures:
            break

    if not ctx.failures:
        chunk = 20000
        for i in range(0, len(cases), chunk):
            part = cases[i:i + chunk]
            ctx.correspondence("Path", "C17", part, impl.run_case, nontrivial, RULE)
            for c in part:
                monitor(impl, c, ctx)
                if ctx.failures:
                    break
            if ctx.failures or ctx.disagreements:
                break

    for c in cases[:: max(1, len(cases) // 20000)]:
        o = impl.run_case(c)
        _cwd, root, name = triple_of(c)
        classify(ctx, root, name, o[-1])
    ctx.notes["triples"] = len(triples)
    ctx.notes["real_dirs"] = len(real_dirs)
    ctx.notes["python"] = "posixpath.normpath is %s" % ("posix._path_normpath (C)" if hasattr(__import__("posix"), "_path_normpath") else "pure Python")


def replay_case(ctx, obj):
    """--replay: run the recorded case on the real code and on the model, print both and the monitor verdict"""
    rep = obj.get("replay", obj)
    case = rep.get("case") if isinstance(rep, dict) else None
    if not case:
        for d in obj.get("disagreements", []):
            case = d.get("case")
            break
    if not case:
        print("replay: no case recorded")
        return 0
    impl = Impl()
    io = impl.run_case(case)
    try:
        mo = core.split_cases(ctx.lean("C17", case)).get(core.case_id(case))
    except core.LeanUnavailable as e:
        mo = ["<model unavailable: %s>" % e]
    for line, a, b in zip(case[1:], io, mo or []):
        w = line.split()
        print("%-9s %-60s impl=%-30s model=%-30s %s" % (w[0], " ".join(repr(unhx(x)) for x in w[1:]), a, b,
                                                      "" if a == b else "<-- DIFFER"))
    if case[-2].startswith("pjs "):
        monitor(impl, case, ctx)
        for f in ctx.failures:
            print("monitor: %s: %s" % (f["kind"], f["what"]))
        if not ctx.failures:
            print("monitor: property holds on this input")
    return 1 if (ctx.failures or io != mo) else 0
