"""C01 - only datagrams authenticated under the session key can affect a connection."""
from harness import core, connlib, serverlib

PROP = "C01"
LEAN_MODULES = ["MpgsModel.Props.C01", "MpgsModel.Props.C01Loop"]
MODEL_MODULES = ["MpgsModel.Model.Conn", "MpgsModel.Model.ToyAead", "MpgsModel.Model.Server"]
NS = "Mpgs.Conn."
THEOREMS = [
    (NS + "C01_undecodable_noop", "full"),
    (NS + "C01_keyed_decode_needs_open", "full"),
    (NS + "C01_keyed_unauthentic_noop", "full"),
    (NS + "C01_prekey_single_hello", "full"),
    (NS + "C01_history_noninterference", "full"),
    (NS + "C01_roles_do_not_read_dropped", "full"),
    ("Mpgs.Server.C01_loop_halfopen_untouched", "full"),
]
# secondary tie (DESIGN 4.2): kernels regenerated from the source on every run, proved equal to the model (Props/Equiv<Group>.lean)
EQUIV = {"Header": ["Mpgs.Equiv.gen_header_to_bytes", "Mpgs.Equiv.gen_total_size", "Mpgs.Equiv.gen_to_bytes_seals", "Mpgs.Equiv.gen_from_bytes_opens"]}
ASSUMPTIONS = [
    "at the server loop (C01_loop_halfopen_untouched): a datagram from an address that has a half-open connection and that does not decode "
    "under that connection's key - a complete CRC-valid CLIENT_HELLO forged in the name of a connecting client included - does not "
    "replace, re-key or alter that connection (same identity, key, token, status; at most the dropped counter moves), produces no event "
    "and leaves the connected pool alone; the monitor `halfopen-connection-replaced` states the same on the real loop",
    "INT-CTXT of AES-GCM (a datagram not produced with the key does not open) is assumed outside Lean; the theorems "
    "state that an endpoint's state changes only if `aopen` accepts bytes 20.. under the session key with nonce = "
    "bytes 0..11 and AAD = bytes 0..19 of exactly this datagram",
    "the driver instantiates the AEAD parameter with a toy MAC so that histories run inside the model; the real runs use "
    "the real AES-GCM; datagram lengths and header bytes coincide, so byte-level mutations are applied identically",
    "header parse errors (PacketHeader.from_bytes) happen before _recv_datagram and change no state",
    "history level (C01_history_noninterference): for every history and every marking of datagram arrivals that the endpoint - in the state it "
    "has without them - does not authenticate, erasing the marked operations changes the final state only in stats.dropped and changes no "
    "output of any other operation; rests on 'dropped is write-only' (every operation of the model commutes with adding to the counter, "
    "Lemmas/Bump.lean), proved for the base class and both handshake roles for every instantiation of the external functions",
]
RULE = ("two-party histories (client a, server b, shared key) generated against the real code under loss/duplication/delay, "
        "with an attacker stream injected at random points towards both endpoints: CRC-valid forged plaintext of every packet "
        "type x count {0,1,2,3} x inner types with ack fields naming pending datagrams; every kind of mutation of genuine "
        "datagrams (single-bit flips in header and body, truncations, extensions, rewrites of type/count/length/ack/bits/seq/"
        "ctime/magic), re-sealing under another key, random bytes; the same towards endpoints that hold no key; compared: "
        "every recv result (return value, events) and the final full state dumps; non-trivial = the case contains at least "
        "one attacker datagram and one accepted genuine datagram")


def post_fn(op, out):
    k = op.split()[0]
    if k in ("recv", "dump", "send", "tmo"):
        return out
    if k == "build":
        return " ".join(out.split()[:4])     # none | pkt ty seq ack
    return None


def strip_dropped(dump):
    parts = dump.split()
    res = []
    for p in parts:
        if p.startswith("ctr="):
            v = p[4:].split(",")
            v[2] = "*"
            p = "ctr=" + ",".join(v)
        res.append(p)
    return " ".join(res)


def dropped_of(dump):
    for p in dump.split():
        if p.startswith("ctr="):
            return int(p[4:].split(",")[2])
    return -1


def monitor(case, log, ctx):
    """the property on the real code: an unauthentic datagram towards a keyed endpoint changes nothing but
    stats.dropped (+1); an endpoint without a key never delivers and only reacts to its single hello"""
    idx_of_recv = [i for i, l in enumerate(case) if l.startswith("recv ")]
    n = -1
    for rec in log:
        if rec["op"] != "recv":
            continue
        n += 1
        if "hdrerr" in rec:
            continue
        at = idx_of_recv[n] - 1 if n < len(idx_of_recv) else len(case) - 2
        genuine = rec["spec"].startswith("@") and ((not rec["muts"] and not rec.get("rekey")) or rec.get("identity"))
        if rec["keyed"]:
            if genuine:
                continue
            # forged / mutated / re-keyed / random: must be a no-op apart from dropped+1
            same = strip_dropped(rec["before"]) == strip_dropped(rec["after"])
            d1 = dropped_of(rec["after"]) - dropped_of(rec["before"])
            if rec["ret"] != "F" or rec["ev"] != ["drop"] or not same or d1 != 1:
                changed = [a for a, b in zip(rec["before"].split(), rec["after"].split()) if a != b]
                ctx.failure("unauthentic-datagram-affected-keyed-endpoint",
                            "datagram %s %s towards keyed endpoint %s: ret=%s events=%s changed=%s" %
                            (rec["spec"][:60], rec["muts"] or rec.get("rekey") or "", rec["e"], rec["ret"], rec["ev"], changed[:6]),
                            {"case": case, "at": at})
                return
        else:
            if any(e.startswith("dlv") for e in rec["ev"]):
                ctx.failure("delivery-without-key", "endpoint %s holds no key but delivered %s" % (rec["e"], rec["ev"]),
                            {"case": case, "at": at})
                return
            if strip_dropped(rec["before"]) != strip_dropped(rec["after"]) or rec["ret"] != "F":
                ok = single_hello(rec, case)
                if ok is False:
                    ctx.failure("unkeyed-endpoint-processed-non-hello",
                                "endpoint %s holds no key and processed a datagram that is not its single hello (%s %s)" %
                                (rec["e"], rec["spec"][:60], rec["muts"]), {"case": case, "at": at})
                    return


def single_hello(rec, case):
    """for a literal datagram: is it typed as a hello with count 1? (None when unknown)"""
    spec = rec["spec"]
    if spec.startswith("@"):
        return None
    try:
        d = bytes.fromhex(spec)
    except ValueError:
        return None
    if len(d) < 20:
        return False
    return d[15] == 1 and d[12] in (1, 2)


def run(ctx):
    real = connlib.Real()
    rng = ctx.rng
    n = ctx.scale(70, 1500)
    # the server-loop histories are recorded first (the unmodified loop runs while they are generated, before any other layer has
    # touched the process); they are compared with the model at the end
    scases, souts, sextra = [], {}, {}
    for i in range(ctx.scale(40, 600)):
        cid = "sl%d" % i
        lines, outs, recs, slog = serverlib.gen_server_case(real, rng, cid, n_iter=rng.choice([30, 60]), n_clients=rng.choice([2, 3]),
                                                            hostile=rng.choice([0.7, 0.9]), act_p=0.0, collide=0.1,
                                                            mtu=rng.choice([1500, 512]), silent=0.05, leave=0.05, spawn=0.5)
        scases.append(lines)
        souts[cid] = outs
        sextra[cid] = recs
    cases = []
    for i in range(n):
        mtu = rng.choice([1500, 1500, 1500, 512, 1098])
        if i % 5 == 4:
            cases.append(connlib.gen_two_party(real, rng, "u%d" % i, mtu=mtu, attacker=0.6, keyed=False, steps=25,
                                               sizes=connlib.SMALL, heal=False))
        else:
            cases.append(connlib.gen_two_party(real, rng, "k%d" % i, mtu=mtu, attacker=0.5, steps=rng.choice([20, 40, 60]),
                                               sizes=connlib.SMALL if i % 2 else None, heal=(i % 3 == 0),
                                               start={"ss": 65520, "sm": 65500, "sf": 65530} if i % 7 == 0 else None))
    real2 = connlib.Real()

    def nontrivial(case, outs):
        att = sum(1 for l in case if l.startswith("recv") and ("mut=" in l or "rekey=" in l or "d=@" not in l))
        return att > 0 and any(o.startswith("ret=T") for o in outs)

    logs, bad = connlib.run_cases(ctx, real2, cases, connlib.make_post(post_fn), "Conn(recv/attacker)", RULE, nontrivial)
    att_total = acc_total = 0
    for c in cases:
        log = logs.get(core.case_id(c), [])
        if connlib.sealing_monitor(c, log, ctx):
            return
        # mark identity mutations: re-run bytes comparison through the real objects' emission lists is not kept in the
        # log, so flag them from the op line: 'set' of the magic to its own value etc. are accepted as genuine
        for rec in log:
            if rec["op"] == "recv" and "hdrerr" not in rec:
                if rec["spec"].startswith("@") and not rec["muts"] and not rec.get("rekey"):
                    acc_total += 1 if rec["ret"] == "T" else 0
                else:
                    att_total += 1
                    ctx.count("attacker:" + ("rekey" if rec.get("rekey") else (rec["muts"][0].split(":")[0] if rec["muts"] else "literal")))
        monitor(c, log, ctx)
        if ctx.failures:
            break
    ctx.notes["attacker_datagrams"] = att_total
    ctx.notes["genuine_accepted"] = acc_total
    if ctx.failures:
        return
    # ---- the same at the server loop: which object a datagram is handed to is decided by the loop (connected pool / half-open pool /
    # new connection); forged datagrams - complete CRC-valid hellos included - in the name of clients whose handshake is in flight

    def snontrivial(case, outs):
        return sum(l.count("|") // 3 for l in case if l.startswith("it ")) >= 10 and any("connect:" in o for o in outs)
    ctx.correspondence("Server(loop/forged)", "Conn", scases, lambda case: souts[core.case_id(case)], snontrivial,
                       "the REAL server loop with honest clients connecting and leaving throughout and hostile datagrams - random bytes, valid "
                       "headers with garbage bodies, damaged/stale/re-typed copies of genuine datagrams from spoofed addresses, complete "
                       "CRC-valid hellos forged in the name of clients whose handshake is in flight - compared with the model per iteration "
                       "(events, sends, both pools with object identity, status and token)", minimise=False, post=serverlib.post)
    for c in scases:
        if serverlib.halfopen_monitor(c, sextra[core.case_id(c)], ctx):
            return
