"""C10 - server handler lifecycle: connect once, then messages, then disconnect once."""
import threading
import time

from harness import core, connlib, serverlib

PROP = "C10"
LEAN_MODULES = ["MpgsModel.Props.C10", "MpgsModel.Props.C10Run", "MpgsModel.Props.C10Kick", "MpgsModel.Props.C10Due"]
MODEL_MODULES = ["MpgsModel.Model.Server", "MpgsModel.Model.ToyAead"]
NS = "Mpgs.Server."
THEOREMS = [
    (NS + "C10_tokens_distinct", "full"),
    (NS + "C10_new_token_fresh", "full"),
    (NS + "C10_item_events", "full"),
    (NS + "C10_shutdown_disconnects_all", "full"),
    (NS + "C10_lifecycle_whole_run", "full"),
    (NS + "C10_lifecycle_with_shutdown", "full"),
    (NS + "C10_connect_and_disconnect_once", "full"),
    (NS + "C10_kick_ends_the_round", "full"),
    (NS + "C10_due_client_dropped", "full"),
    (NS + "due_of_silence", "full"),
    (NS + "due_of_closed", "full"),
]
ASSUMPTIONS = [
    "a client that is due is dropped at once (C10_due_client_dropped, due_of_silence, due_of_closed): if, after the iteration's queued "
    "datagrams and handler.update, a connected client's connection is closed (by the handler or by the peer) or nothing authentic has "
    "arrived from it for connection_timeout at the sweep clock, then after that very iteration it is not in the connected pool and its "
    "identity has had its disconnect event - for every batch, handler behaviour and other client; the monitor "
    "`silent-client-not-disconnected` states the same on the real loop",
    "server-initiated end of the round (C10_kick_ends_the_round): when handler.update disconnects every connected client, the sweep of that "
    "very iteration reports each of them with a disconnect event and the connected pool is empty afterwards, whatever was queued and "
    "whatever the other handlers do; in the runs the scripted update handler does this in about 2 % of the iterations, and in the shutdown "
    "phase a disconnect handler may kick the other clients",
    "per-step theorems about the loop model for every pool content, datagram, handler behaviour and random stream (messages only for "
    "entries of the connected pool and with their identity, connect only on promotion (C02), never a disconnect from datagram handling, "
    "shutdown disconnects every connected client once, tokens fresh)",
    "whole runs (C10_lifecycle_whole_run / _with_shutdown / C10_connect_and_disconnect_once): from an empty server, for every number of "
    "iterations, every batch of datagrams, every handler behaviour, clock and random stream, the handler events read in order are legal - "
    "connect only for an identity never seen before, message and disconnect only for an identity between its connect and its disconnect, "
    "at most one of each per identity - and after the shutdown sweep no identity is left live; proved by an invariant tying both pools "
    "(unique addresses, unique identities, identities of the connected pool = live identities) to the reading (Lemmas/Lifecycle.lean)",
    "'all handler events run on one thread' is a fact about the Python runtime: structural in the model (every handler call site is "
    "inside the loop function), observed in a threaded smoke run of the real server thread on every check",
    "handler.connect runs inside _onConnect, i.e. before the remaining messages of the challenge datagram (serverRoleOn)",
]
RULE = ("the REAL UdpServerThread.run executed deterministically on the harness thread (virtual clock, condition variable stub, "
        "TwistedServer.datagramReceived as entry point) with up to four real client connections per case that connect, send, disconnect, "
        "go silent and reconnect from the same address, mixed with lost/duplicated/stale/garbage/spoofed datagrams and strangers' hellos; "
        "the handler raises, echoes or disconnects on a seeded subset of events; the token generator's random source is forced to repeat "
        "tokens in use; shutdown at the end; compared with the model per iteration: the ordered handler events (event, connection identity, "
        "token), the datagrams handed to the socket, both pools; non-trivial = at least one connect and one disconnect")


def lifecycle_monitor(case, outs, ctx, crun_tokens=None):
    """per connection object: connect . message* . disconnect, events only in between, complete after shutdown; distinct tokens"""
    state = {}      # id -> "connected" | "done"
    ops = connlib.answering_ops_srv(case)
    for idx, (op, o) in enumerate(zip(ops, outs)):
        k = op.split()[0]
        if k not in ("it", "stop"):
            continue
        head = o.split(" conns=")[0]
        evs = head[3:].split(",") if head[3:] != "-" else []
        at = case.index(op) - 1
        if k == "it" and "update" not in evs:
            ctx.failure("update-missing", "an iteration ran without the handler's update event", {"case": case, "at": at})
            return
        # the handler's script: the j-th handler event of the iteration consumed the j-th act
        acts = []
        for x in op.split():
            if x.startswith("acts="):
                acts = x[5:].split(",") if x[5:] != "-" else []
        kicked = set()
        j = 0
        for e in evs:
            p = e.split(":")
            if p[0] in ("connect", "msg", "update", "disc"):
                a = acts[j] if j < len(acts) else "ok"
                j += 1
                if p[0] in ("connect", "msg") and a.startswith("disc"):
                    kicked.add(int(p[1]))
        for e in evs:
            p = e.split(":")
            if p[0] == "connect":
                cid = int(p[1])
                if cid in state:
                    ctx.failure("connect-twice", "connect seen twice for connection object %d" % cid, {"case": case, "at": at})
                    return
                state[cid] = "connected"
            elif p[0] == "msg":
                cid = int(p[1])
                if state.get(cid) != "connected":
                    ctx.failure("message-outside-lifecycle", "message event for connection %d which is %s" % (cid, state.get(cid, "not connected")),
                                {"case": case, "at": at})
                    return
            elif p[0] == "disc":
                cid = int(p[1])
                if state.get(cid) != "connected":
                    ctx.failure("disconnect-outside-lifecycle", "disconnect event for connection %d which is %s" % (cid, state.get(cid, "not connected")),
                                {"case": case, "at": at})
                    return
                state[cid] = "done"
        undone = [cid for cid in kicked if state.get(cid) != "done"]
        if k == "it" and undone:
            ctx.failure("server-initiated-disconnect-undone", "the handler called client.disconnect() on connection(s) %s in this iteration but "
                        "the sweep of the same iteration did not report their disconnect" % undone, {"case": case, "at": at})
            return
        if " conns=" in o:
            pools = o.split(" conns=")[1]
            conns = pools.split(" temps=")[0].strip("[]")
            ents = [x for x in conns.split(";") if x]
            ids = [int(x.split(">")[1].split(":")[0]) for x in ents]
            toks = [x.split(":")[-1] for x in ents]
            live = sorted(i for i, s in state.items() if s == "connected")
            if sorted(ids) != live:
                ctx.failure("pool-differs-from-lifecycle", "connected pool holds %s, connections between connect and disconnect are %s" %
                            (sorted(ids), live), {"case": case, "at": at})
                return
            temps = pools.split(" temps=")[1].strip("[]")
            ttoks = [x.split(":")[-1] for x in temps.split(";") if x and x.split(":")[-1] != "0"]
            if len(set(toks + ttoks)) != len(toks + ttoks):
                ctx.failure("token-collision", "two simultaneously connected clients carry the same token: %s" % (toks + ttoks),
                            {"case": case, "at": at})
                return
            for tk in toks:
                v = int(tk)
                if v == 0 or v >= 2 ** 31 or not (v & 0x40000000):
                    ctx.failure("token-malformed", "token %d is zero, negative as int32 or lacks bit 30" % v, {"case": case, "at": at})
                    return
        if k == "stop":
            left = [i for i, s in state.items() if s == "connected"]
            if left or not evs or evs[-1] != "shutdown":
                ctx.failure("shutdown-incomplete", "after shutdown connections %s never got a disconnect / no shutdown event" % left,
                            {"case": case, "at": at})
                return
    ctx.count("connections", len(state))


def thread_smoke(real, ctx):
    """the real thread started for real: every handler event runs on that one thread"""
    core.use_repo()
    import mpgameserver.server as S
    from mpgameserver.context import ServerContext
    from mpgameserver.handler import EventHandler
    C = real.C
    idents = []

    class H(EventHandler):
        def starting(self): idents.append(("starting", threading.get_ident()))
        def connect(self, client): idents.append(("connect", threading.get_ident()))
        def handle_message(self, client, seqnum, msg=b""): idents.append(("message", threading.get_ident()))
        def disconnect(self, client): idents.append(("disconnect", threading.get_ident()))
        def update(self, dt): idents.append(("update", threading.get_ident()))
        def shutdown(self): idents.append(("shutdown", threading.get_ident()))

    ctxt = ServerContext(H(), real.server_ctxt("good").server_root_key)
    out = []

    class Sock:
        def sendto(self, d, a): out.append((a, d))
    saved_sleep, saved_time = S.sleep, S.time
    S.sleep = lambda *a, **k: time.sleep(0.0005)
    import types
    S.time = types.SimpleNamespace(time=lambda: real.now / connlib.TICK, monotonic=lambda: real.now / connlib.TICK,
                                   perf_counter=time.perf_counter, sleep=time.sleep)
    th = S.UdpServerThread(Sock(), ctxt)
    real.now = connlib.BASE_T
    cl = C.ClientServerConnection(("127.0.0.1", 7))
    cl.clock = lambda: real.now / connlib.TICK
    cl.send_interval = 16 / connlib.TICK
    try:
        th.start()
        addr = ("9.9.9.9", 9)
        for _ in range(6000):              # the thread has announced itself (robust on a loaded machine)
            if idents:
                break
            time.sleep(0.01)

        def pump(feeder=False):
            real.now += 32
            pkt = cl._build_packet()
            if pkt is not None:
                d = cl._encode_packet(pkt)
                th.append(addr, C.PacketHeader.from_bytes(True, d), d)
            time.sleep(0.01)
            while out:
                a, d = out.pop(0)
                try:
                    cl._recv_datagram(C.PacketHeader.from_bytes(False, d), d)
                except Exception:
                    pass
        cl._sendClientHello()
        for i in range(12):
            if i == 6:
                cl.send(b"hello from the smoke test")
            pump()
        # a second feeder thread injects garbage concurrently
        def feeder():
            for _ in range(20):
                th.append(("8.8.8.8", 8), C.PacketHeader(), b"")
                time.sleep(0.001)
        f = threading.Thread(target=feeder)
        f.start()
        for _ in range(5):
            pump()
        f.join()
    finally:
        ctxt._active = False
        for _ in range(120):
            th._wake()
            th.join(1)
            if not th.is_alive():
                break
        S.sleep, S.time = saved_sleep, saved_time
    tids = {t for _, t in idents}
    kinds = {k for k, _ in idents}
    ctx.notes["thread_smoke"] = {"events": len(idents), "kinds": sorted(kinds), "threads": len(tids), "alive_after_join": th.is_alive()}
    if th.is_alive():
        ctx.failure("server-thread-did-not-stop", "the server thread did not exit after shutdown was requested", {"smoke": True})
    elif len(tids) > 1 or threading.get_ident() in tids:
        ctx.failure("handler-events-on-several-threads", "handler events ran on %d threads" % len(tids), {"smoke": True})
    elif not {"connect", "message", "disconnect", "shutdown"} <= kinds:
        ctx.notes["thread_smoke"]["incomplete"] = True


def run(ctx):
    real = connlib.Real()
    rng = ctx.rng
    n = ctx.scale(150, 2500)
    cases, outputs, extra = [], {}, {}
    for i in range(n):
        cid = "v%d" % i
        lines, outs, recs, log = serverlib.gen_server_case(real, rng, cid, n_iter=rng.choice([40, 80, 120]), n_clients=rng.choice([2, 3, 4]),
                                                           hostile=rng.choice([0.1, 0.4]), act_p=rng.choice([0.1, 0.3]),
                                                           collide=0.5, silent=0.05, leave=0.05, stack=rng.choice([0.0, 0.2]),
                                                           mtu=rng.choice([1500, 1500, 512, 400]))
        cases.append(lines)
        outputs[cid] = outs
        extra[cid] = (recs, log)

    def nontrivial(case, outs):
        j = " ".join(outs)
        return "connect:" in j and "disc:" in j

    def impl_fn(case):
        return outputs[core.case_id(case)]
    ctx.correspondence("Server(loop)", "Conn", cases, impl_fn, nontrivial, RULE, minimise=False, post=serverlib.post)
    for c in cases:
        lifecycle_monitor(c, outputs[core.case_id(c)], ctx)
        if not ctx.failures:
            # events keep flowing: nothing a handler does with one event (raise, send, disconnect) costs the client another event
            serverlib.honest_monitor(c, extra[core.case_id(c)][0], extra[core.case_id(c)][1], ctx)
        if not ctx.failures:
            serverlib.silence_monitor(c, extra[core.case_id(c)][0], ctx)
        if ctx.failures:
            return
    thread_smoke(connlib.Real(), ctx)
