"""
Driving the REAL ConnectionBase objects of /repo on the Conn line protocol (DESIGN appendix A),
scenario generators shared by C01/C03/C04/C05/C06/C07/C09/C12, and a structured log for monitors.

Virtual time: integer ticks of 1/1024 s; every clock the code reads (conn.clock, and time.time
inside connection.py used by FragmentReceiver.expired) is the harness clock.
"""
import binascii
import struct

from harness import core

TICK = 1024.0
KEY = bytes(range(0x41, 0x51))
KEY2 = bytes(range(0x61, 0x71))


def lcg_bytes(n, seed):
    out = bytearray(n)
    s = seed
    for i in range(n):
        s = (s * 1103515245 + 12345) % 4294967296
        out[i] = (s >> 16) & 255
    return bytes(out)


def digest(b):
    return "%d:%d" % (len(b), binascii.crc32(b) & 0xFFFFFFFF)


class Real:
    """executes cases on the real classes; one instance per check run"""

    def __init__(self):
        core.use_repo()
        import mpgameserver.connection as C
        from mpgameserver import crypto
        self.C = C
        self.crypto = crypto
        self.now = 0
        real = self
        # record creation order of the callback objects (identity in the canonical dump); the classes call
        # super(ClassName, self) by global name, so wrap __init__ in place instead of subclassing
        if not getattr(C.RetrySender, "_verif_wrapped", False):
            rs_init, fs_init = C.RetrySender.__init__, C.FragmentSender.__init__

            def rs(self, conn, *a, **k):
                rs_init(self, conn, *a, **k)
                if hasattr(conn, "_v_retry"):
                    conn._v_retry.append(self)

            def fs(self, conn, *a, **k):
                fs_init(self, conn, *a, **k)
                if hasattr(conn, "_v_frag"):
                    conn._v_frag.append(self)
            C.RetrySender.__init__ = rs
            C.FragmentSender.__init__ = fs
            C.RetrySender._verif_wrapped = True
        # what the server side computed while it handled a client hello (observed, for the oracle lines): the derived key, the
        # signed server hello and the token - also when the reply is then NOT sent (hello shorter than the reply)
        if not getattr(C.HandshakeServerHelloMessage, "_verif_cap", False):
            from mpgameserver.context import ServerContext
            d0, e0, g0 = C.HandshakeServerHelloMessage.dumpb, crypto.ecdh_server, ServerContext.get_token
            cap = Real.capture = {"sh": None, "key": None, "tok": None}

            def dumpb(self, *a, **k):
                r = d0(self, *a, **k)
                cap["sh"] = r
                return r

            def ecdh_server(*a, **k):
                r = e0(*a, **k)
                cap["key"] = r[1]
                return r

            def get_token(self, *a, **k):
                r = g0(self, *a, **k)
                cap["tok"] = r
                return r
            C.HandshakeServerHelloMessage.dumpb = dumpb
            crypto.ecdh_server = ecdh_server
            ServerContext.get_token = get_token
            C.HandshakeServerHelloMessage._verif_cap = True
        # one clock for everything connection.py reads
        self.bind_clock()
        self.default_mtu = 1500

    def bind_clock(self):
        """connection.py reads the module-level `time`: make it THIS instance's clock (a later Real() instance rebinds it to its own,
        so whoever drives real objects with this instance binds it again first)"""
        real = self
        self.C.time = type("VTime", (), {"time": staticmethod(lambda: real.now / TICK),
                                         "monotonic": staticmethod(lambda: real.now / TICK)})

    # ------------------------------------------------------------------ endpoints
    def server_ctxt(self, which="good"):
        """real ServerContext objects (one per root key identity), created once per Real instance"""
        from mpgameserver.context import ServerContext
        from mpgameserver.handler import EventHandler
        if not hasattr(self, "_ctxts"):
            self._ctxts = {}
        if which not in self._ctxts:
            real = self

            class H(EventHandler):
                def connect(self, client):
                    if hasattr(client, "_v_events"):
                        client._v_events.append("promoted")
            self._ctxts[which] = ServerContext(H())
        return self._ctxts[which]

    def new_endpoint(self, name, role):
        C = self.C
        if role == "csc":
            conn = C.ClientServerConnection((name, 1))
        elif role.startswith("scc"):
            ctxt = self.server_ctxt("other" if role == "scc2" else "good")
            conn = C.ServerClientConnection(ctxt, (name, 1))
            ctxt.temp_connections[conn.addr] = conn
            ctxt.connections.pop(conn.addr, None)
        else:
            conn = C.ConnectionBase(role == "server", (name, 1))
        self.instrument(conn)
        conn._v_role = "csc" if role == "csc" else ("scc" if role.startswith("scc") else "base")
        if conn._v_role != "base":
            # tag exceptions that escape the hello handlers (compared as one class, see Driver/Conn.lean)
            for nm in ("_recvClientHello", "_recvServerHello", "_recvChallengeResponse"):
                orig = getattr(conn, nm)

                def wrapped(data, _o=orig, _c=conn, _n=nm):
                    _c._v_hs_called = _n
                    _c._v_hs_exc = None
                    if _n == "_recvChallengeResponse":
                        other = _c.ctxt.temp_connections.get(_c.addr)
                        _c._v_temptok = other.token if other is not None else None
                        try:
                            _c._v_chal_token = int(C.Serializable.loadb(data).token)
                        except Exception:
                            _c._v_chal_token = None
                    try:
                        return _o(data)
                    except Exception as e:
                        _c._v_hs_exc = e
                        raise
                setattr(conn, nm, wrapped)
        return conn

    def instrument(self, conn):
        real = self
        conn.clock = lambda: real.now / TICK
        conn.send_interval = 16 / TICK
        conn.send_keep_alive_interval = 96 / TICK
        conn._v_retry = []
        conn._v_frag = []
        conn._v_events = []
        ev = conn._v_events
        oa, ot, orr = conn._handle_ack, conn._handle_timeout, conn._recvApp

        def h_ack(seq):
            ev.append("res:%d:1" % int(seq))
            return oa(seq)

        def h_tmo(seq):
            ev.append("res:%d:0" % int(seq))
            return ot(seq)

        def h_app(msgseq, msg):
            ev.append("dlv:%d:%s" % (int(msgseq), digest(msg)))
            return orr(msgseq, msg)
        conn._handle_ack, conn._handle_timeout, conn._recvApp = h_ack, h_tmo, h_app

    def user_cb(self, conn, cid):
        def cb(ok):
            conn._v_events.append("cb:%d:%d" % (cid, 1 if ok else 0))
        cb._v_user = cid
        return cb

    # ------------------------------------------------------------------ canonical dump
    def cb_repr(self, conn, cb):
        C = self.C
        if cb is None:
            return "-"
        if isinstance(cb, C.RetrySender):
            return "r%d" % conn._v_retry.index(cb)
        if hasattr(cb, "_v_user"):
            return "u%d" % cb._v_user
        if getattr(cb, "_v_disc", False):
            return "d"
        clo = getattr(cb, "__closure__", None)
        if clo:
            for cell in clo:
                try:
                    v = cell.cell_contents
                except ValueError:
                    continue
                if isinstance(v, C.FragmentSender):
                    return "f%d.%d" % (conn._v_frag.index(v), cb.__defaults__[0])
        name = getattr(cb, "__name__", "")
        if name == "_ClientHelloTimeout":
            return "h"
        if name == "_ChallengeResponseTimeout":
            return "c"
        return "?"

    def ticks(self, v):
        return int(round(v * TICK))

    def dump(self, conn):
        C = self.C

        def lst(xs):
            return "[" + ";".join(xs) + "]"

        def rv(r):
            return r.value if hasattr(r, "value") else int(r)
        pa = lst("%d@%d" % (int(s), self.ticks(t)) for s, t in conn.pending_acks.items())
        pc = lst("%d:%s" % (int(s), "|".join(self.cb_repr(conn, c) for c in cbs)) for s, cbs in conn.pending_callbacks.items())
        pr = lst("%d:%s" % (int(s), ",".join(str(int(m)) for m in ms)) for s, ms in conn.pending_retry.items())
        prm = lst("%d@%d/%d" % (int(s), self.ticks(m.assembled_time), rv(m.retry)) for s, m in conn.pending_retry_msg.items())
        out = lst("%d/%d/%d/%d/%s" % (int(m.seq), m.type.value, len(m.payload), rv(m.retry), self.cb_repr(conn, m.callback))
                  for m in conn.outgoing_messages)
        rf = lst("%d/%d/%s/%d/%d" % (int(k), r.frag_count, "".join("0" if f is None else "1" for f in r.fragments),
                                     self.ticks(r.ctime), int(r.msgseq)) for k, r in conn.received_fragments.items())
        pf = lst("%d>%d" % (int(k), conn._v_frag.index(v)) for k, v in conn.pending_fragments.items())
        ro = lst("%d/%d/%s" % (int(r.seq_message), 1 if getattr(r, "done", False) else 0, self.cb_repr(conn, r.callback))
                 for r in conn._v_retry)
        fo = lst("%d/%d/%s" % (int(f.frag_id), rv(f.retry), "".join("n" if a is None else ("t" if a else "f") for a in f.acks))
                 for f in conn._v_frag)
        s = conn.stats
        base = ("st=%d key=%d ss=%d sm=%d sf=%d bp=%d:%d bm=%d:%d pa=%s pc=%s pr=%s prm=%s out=%s rf=%s pf=%s ro=%s fo=%s "
                "ctr=%d,%d,%d,%d,%d,%d last=%d,%d,%d inc=%d") % (
            conn.status.value, 1 if conn.session_key_bytes else 0, int(conn.seq_sending), int(conn.seq_message),
            int(conn.seq_fragment), int(conn.bitfield_pkt.current_seqnum), conn.bitfield_pkt.bits,
            int(conn.bitfield_msg.current_seqnum), conn.bitfield_msg.bits, pa, pc, pr, prm, out, rf, pf, ro, fo,
            s.assembled, s.sent, s.dropped, s.received, s.acked, s.timeouts,
            self.ticks(conn.last_recv_time), self.ticks(conn.last_send_time), self.ticks(conn.last_send_keep_alive_time),
            len(conn.incoming_messages))
        return base + " tok=%d hs=%d" % (getattr(conn, "token", 0) or 0,
                                         self.ticks(getattr(conn, "time_client_hello_sent", 0) or 0))

    # ------------------------------------------------------------------ datagram operands
    def apply_mut(self, d, m):
        p = m.split(":")
        if p[0] == "set":
            off, b = int(p[1]), (b"" if p[2] == "-" else bytes.fromhex(p[2]))
            return d[:off] + b + d[off + len(b):]
        if p[0] == "trunc":
            return d[:int(p[1])]
        if p[0] == "ext":
            return d + (b"" if p[1] == "-" else bytes.fromhex(p[1]))
        if p[0] == "flip":
            k = int(p[1])
            i = k // 8
            if i >= len(d):
                return d
            return d[:i] + bytes([d[i] ^ (1 << (k % 8))]) + d[i + 1:]
        raise ValueError(m)

    def craft(self, spec, to_server):
        """d=!<ty>,<seq>,<ack>,<bits>,<ct>,<count>:<plaintext hex>:<key hex|none> - a datagram built from scratch by someone who
        holds `key` (or nobody's key: CRC form); both drivers build it from the same fields"""
        C = self.C
        f, pt, key = spec[1:].split(":")
        ty, seq, ack, bits, ct, count = [int(x) for x in f.split(",")]
        pt = b"" if pt == "-" else bytes.fromhex(pt)
        hdr = C.PacketHeader.create(not to_server, ct, C.PacketType(ty), C.SeqNum(seq), C.SeqNum(ack), bits)
        hdr.length, hdr.count = len(pt), count
        hb = hdr.to_bytes()
        if key == "none":
            d = hb + pt
            return d + struct.pack(">L", self.crypto.crc32(d))
        return hb + self.crypto.encrypt_gcm(bytes.fromhex(key), hb[:12], hb, pt)

    def datagram_of(self, eps, kvs, muts, key_of, to_server=True):
        spec = kvs["d"]
        if spec.startswith("!"):
            d = self.craft(spec, to_server)
        elif spec.startswith("@"):
            e, k = spec[1:].split(":")
            d = eps[e]["emits"][int(k)]
            if "rekey" in kvs:
                # open with the sender's key, re-seal with the attacker's / other session's key
                hb = d[:20]
                pt = eps[e]["plain"][int(k)]          # the plaintext of that emission (kept when it was built)
                d = hb + self.crypto.encrypt_gcm(bytes.fromhex(kvs["rekey"]), hb[:12], hb, pt)
        else:
            d = b"" if spec == "-" else bytes.fromhex(spec)
        for m in muts:
            d = self.apply_mut(d, m)
        return d

    # ------------------------------------------------------------------ run one case
    def run_case(self, case, log=None, snapshots=True):
        """returns output lines; `log` (list) receives structured records for the monitors"""
        run = CaseRun(self, log, snapshots)
        out = []
        try:
            for line in case[1:]:
                out.extend(run.exec(line))
        finally:
            run.close()
        return out


class CaseRun:
    """incremental executor of one case on the real code (also used by the generators, which must
    know whether a build emitted before they can schedule its delivery)"""

    def __init__(self, real, log=None, snapshots=True):
        self.real = real
        self.log = log
        self.snapshots = snapshots
        self.eps = {}
        self.key_of = {}
        real.bind_clock()
        real.C.Packet.setMTU(real.default_mtu)

    def close(self):
        self.real.C.Packet.setMTU(1500)

    def exec(self, line):
        real = self.real
        C = real.C
        log = self.log
        eps = self.eps
        out = []
        self.last_line = line
        w = line.split()
        if not w:
            return out
        op = w[0]
        kvs = dict(x.split("=", 1) for x in w[2:] if "=" in x and not x.startswith("mut="))
        muts = [x[4:] for x in w[2:] if x.startswith("mut=")]
        if op == "mtu":
            C.Packet.setMTU(int(w[1]))
        elif op == "sizes":
            cur = C.Packet.MTU
            C.Packet.setMTU(int(w[1]))
            out.append("sizes maxSize=%d maxPayload=%d maxFragment=%d" % (C.Packet.MAX_SIZE, C.Packet.MAX_PAYLOAD_SIZE, C.Packet.MAX_FRAGMENT_SIZE))
            C.Packet.setMTU(cur)
        elif op == "now":
            real.now = int(w[1])        # clock value before the first timed operation of the case
        elif op == "new":
            eps[w[1]] = {"conn": real.new_endpoint(w[1], w[2]), "emits": []}
        elif op == "set":
            conn = eps[w[1]]["conn"]
            if "key" in kvs:
                conn.session_key_bytes = None if kvs["key"] == "none" else bytes.fromhex(kvs["key"])
            if "status" in kvs:
                conn.status = C.ConnectionStatus(int(kvs["status"]))
            if "si" in kvs:
                conn.send_interval = int(kvs["si"]) / TICK
            if "ka" in kvs:
                conn.send_keep_alive_interval = int(kvs["ka"]) / TICK
            if "ot" in kvs:
                conn.outgoing_timeout = int(kvs["ot"]) / TICK
            if "ss" in kvs:
                conn.seq_sending = C.SeqNum(int(kvs["ss"]))
            if "sm" in kvs:
                conn.seq_message = C.SeqNum(int(kvs["sm"]))
            if "sf" in kvs:
                conn.seq_fragment = C.SeqNum(int(kvs["sf"]))
            if "bp" in kvs:
                conn.bitfield_pkt.current_seqnum = C.SeqNum(int(kvs["bp"]))
                conn.bitfield_pkt.bits = 0
            if "bm" in kvs:
                conn.bitfield_msg.current_seqnum = C.SeqNum(int(kvs["bm"]))
                conn.bitfield_msg.bits = 0
            if "tt" in kvs:
                conn.temp_connection_timeout = int(kvs["tt"]) / TICK
            if "ccb" in kvs:
                if kvs["ccb"] == "1":
                    conn.connection_callback = lambda ok, _c=conn: _c._v_events.append("ccb:%d" % (1 if ok else 0))
                else:
                    conn.connection_callback = None
            if "pinned" in kvs:
                which = {"01": "good", "02": "other"}.get(kvs["pinned"])
                conn.setServerPublicKey(None if which is None else real.server_ctxt(which).server_root_key.getPublicKey())
        elif op == "send":
            conn = eps[w[1]]["conn"]
            n, seed, retry = int(kvs["len"]), int(kvs["seed"]), int(kvs["retry"])
            cb = None if kvs.get("cb", "-") == "-" else real.user_cb(conn, int(kvs["cb"]))
            payload = lcg_bytes(n, seed)
            del conn._v_events[:]
            mseq0 = int(conn.seq_message)
            try:
                conn.send(payload, retry=retry, callback=cb)
                out.append("ok")
                res = "ok"
            except Exception as e:
                out.append("err:" + type(e).__name__)
                res = "err"
            if log is not None:
                log.append({"op": "send", "e": w[1], "t": real.now, "len": n, "digest": digest(payload), "retry": retry,
                            "cb": kvs.get("cb", "-"), "res": res, "status": conn.status.value,
                            "frag": n > C.Packet.MAX_PAYLOAD_SIZE, "mtu": C.Packet.MTU,
                            "mseq_before": mseq0, "mseq_after": int(conn.seq_message)})
        elif op == "disc":
            conn = eps[w[1]]["conn"]
            cb = None
            if kvs.get("cb") == "1":
                def cb(ok, _c=conn):
                    _c._v_events.append("dcb")
                cb._v_disc = True
            conn.disconnect(cb) if cb else conn.disconnect()
            out.append("ok")
            if log is not None:
                log.append({"op": "disc", "e": w[1], "t": real.now})
        elif op == "build":
            ep = eps[w[1]]
            conn = ep["conn"]
            real.now = int(kvs["t"])
            del conn._v_events[:]
            try:
                pkt = conn._build_packet()
                if pkt is None:
                    out.append("none")
                    if log is not None:
                        log.append({"op": "build", "e": w[1], "t": real.now, "pkt": None})
                else:
                    d = conn._encode_packet(pkt)
                    key = conn.session_key_bytes
                    sealed = bool(key) and pkt.hdr.pkt_type != C.PacketType.SERVER_HELLO
                    aad_ok = True
                    if sealed:
                        # "opens under the session key with nonce = bytes 0..11 and AAD = bytes 0..19" (stated by the C01/C03 monitors)
                        try:
                            aad_ok = real.crypto.decrypt_gcm(key, d[:12], d[:20], d[20:]) == pkt.msg
                        except Exception:
                            aad_ok = False
                    h = pkt.hdr
                    line = ("pkt ty=%d seq=%d ack=%d bits=%d count=%d len=%d sealed=%d ct=%d pt=%s dlen=%d hdr=%s" % (
                        h.pkt_type.value, int(h.seq), int(h.ack), h.ack_bits, h.count, h.length, 1 if sealed else 0,
                        h.ctime, digest(pkt.msg), len(d), d[:20].hex()))
                    if not sealed:
                        line += " dcrc=%d" % (binascii.crc32(d) & 0xFFFFFFFF)
                    out.append(line)
                    # a sender may encode later than it builds (TwistedServer.sendPackets hands the Packet objects to the reactor thread):
                    # the previous packet object, encoded only now, must still give the bytes it gave right after it was built
                    late = None
                    prev = ep.get("last_pkt")
                    if prev is not None and prev[2] == key:
                        try:
                            d_late = prev[0].to_bytes(key)
                            if d_late != prev[1]:
                                late = {"k": len(ep["emits"]) - 1, "nonce_then": prev[1][:12].hex(), "nonce_late": d_late[:12].hex(),
                                        "same_nonce_as_this": d_late[:12] == d[:12], "same_bytes_as_this": d_late == d}
                        except Exception as e:
                            late = {"k": len(ep["emits"]) - 1, "err": type(e).__name__}
                    ep["last_pkt"] = (pkt, d, key)
                    self.key_of[(w[1], len(ep["emits"]))] = key
                    ep.setdefault("plain", []).append(pkt.msg)
                    ep["emits"].append(d)
                    if log is not None:
                        log.append({"op": "build", "e": w[1], "t": real.now, "pkt": {
                            "k": len(ep["emits"]) - 1, "ty": h.pkt_type.value, "seq": int(h.seq), "ack": int(h.ack),
                            "bits": h.ack_bits, "count": h.count, "dlen": len(d), "sealed": sealed, "nonce": d[:12].hex(),
                            "key": key.hex() if key else None, "mtu": C.Packet.MTU, "aad_ok": aad_ok, "late": late,
                            "msgs": [(int(m.seq), m.type.value, digest(m.payload)) for m in pkt.msgs],
                            "frags": {int(m.seq): struct.unpack(">HHH", m.payload[:6]) for m in pkt.msgs
                                      if m.type.value == 7 and len(m.payload) >= 6},
                            # the first six bytes of every large message read as a fragment header, whatever its type says
                            "heads": [struct.unpack(">HHH", m.payload[:6]) if len(m.payload) > 300 else None for m in pkt.msgs]}})
            except Exception as e:
                out.append("err:" + type(e).__name__)
                if log is not None:
                    log.append({"op": "build", "e": w[1], "t": real.now, "err": type(e).__name__})
        elif op == "recv":
            ep = eps[w[1]]
            conn = ep["conn"]
            real.now = int(kvs["t"])
            try:
                d = real.datagram_of(eps, kvs, muts, self.key_of, conn.isServer)
                identity = False
                if kvs["d"].startswith("@") and (muts or "rekey" in kvs):
                    e0, k0 = kvs["d"][1:].split(":")
                    identity = (d == eps[e0]["emits"][int(k0)])
            except (IndexError, KeyError):
                return ["noemit"]
            try:
                hdr = C.PacketHeader.from_bytes(conn.isServer, d)
            except Exception as e:
                out.append("hdrerr:" + type(e).__name__)
                if log is not None:
                    log.append({"op": "recv", "e": w[1], "t": real.now, "hdrerr": type(e).__name__, "spec": kvs["d"],
                                "muts": muts})
                return out
            del conn._v_events[:]
            before = real.dump(conn) if (log is not None and self.snapshots) else None
            dropped0 = conn.stats.dropped
            role = getattr(conn, "_v_role", "base")
            conn._v_hs_called = None
            Real.capture.update(sh=None, key=None, tok=None)
            conn._v_hs_exc = None
            nout0 = len(conn.outgoing_messages)
            key_before = conn.session_key_bytes
            status_before = conn.status.value
            try:
                r = conn._recv_datagram(hdr, d)
                ret = "T" if r else "F"
            except Exception as e:
                ret = "err:" + type(e).__name__
                if role != "base" and conn._v_hs_exc is e:
                    ret = "err:InvalidSignature" if type(e).__name__ == "InvalidSignature" else "err:hs"
            if role != "base":
                # oracle values for the model, observed from this very execution (keys, signatures and tokens are random)
                called, exc = conn._v_hs_called, conn._v_hs_exc
                orc = ""
                if called == "_recvServerHello":
                    if exc is None:
                        orc = " orc=sh:ok:%s:%d:%s" % (conn.session_key_bytes.hex(), conn.token, conn.outgoing_messages[-1].payload.hex())
                    elif type(exc).__name__ == "InvalidSignature":
                        orc = " orc=sh:badsig"
                    else:
                        orc = " orc=sh:err"
                elif called == "_recvClientHello":
                    if exc is not None:
                        orc = " orc=ch:err"
                    elif Real.capture["sh"] is not None:
                        # the reply was computed (sent or - hello too short - withheld: the model decides that itself)
                        orc = " orc=ch:ok:%s:%s tok=%d" % (Real.capture["key"].hex(), Real.capture["sh"].hex(), Real.capture["tok"])
                    else:
                        orc = " orc=ch:ver:2"
                elif called == "_recvChallengeResponse":
                    tt = getattr(conn, "_v_temptok", None)
                    ct = getattr(conn, "_v_chal_token", None)
                    orc = " orc=cr:%s temptok=%s" % ("err" if ct is None else str(ct), "none" if tt is None else str(tt))
                self.last_line = line.split(" orc=")[0] + orc
            evs = list(conn._v_events)
            if conn.stats.dropped != dropped0:
                evs = ["drop"] * (conn.stats.dropped - dropped0) + evs
            out.append("ret=%s ev=%s" % (ret, ",".join(evs) if evs else "-"))
            if log is not None:
                log.append({"op": "recv", "e": w[1], "t": real.now, "ret": ret, "ev": evs, "spec": kvs["d"], "muts": muts,
                            "rekey": kvs.get("rekey"), "identity": identity, "before": before, "after": real.dump(conn) if self.snapshots else None,
                            "hdrseq": int(hdr.seq), "keyed": bool(key_before), "hs": conn._v_hs_called,
                            "hsexc": type(conn._v_hs_exc).__name__ if conn._v_hs_exc is not None else None,
                            "key_before": key_before.hex() if key_before else None,
                            "key_after": conn.session_key_bytes.hex() if conn.session_key_bytes else None,
                            "status_before": status_before, "status_after": conn.status.value,
                            "token": getattr(conn, "token", 0), "chal_token": getattr(conn, "_v_chal_token", None),
                            "datagram": d.hex() if len(d) < 4000 else None})
        elif op == "hello":
            conn = eps[w[1]]["conn"]
            real.now = int(kvs["t"])
            conn._sendClientHello()
            hello = conn.outgoing_messages[-1].payload
            self.last_line = "hello %s t=%d d=%s" % (w[1], real.now, hello.hex())
            out.append("ok")
            if log is not None:
                log.append({"op": "hello", "e": w[1], "t": real.now})
        elif op == "cupd":
            conn = eps[w[1]]["conn"]
            real.now = int(kvs["t"])
            del conn._v_events[:]
            conn.update()
            evs = list(conn._v_events)
            out.append("st=%d ev=%s" % (conn.status.value, ",".join(evs) if evs else "-"))
            if log is not None:
                log.append({"op": "cupd", "e": w[1], "t": real.now, "ev": evs, "status": conn.status.value})
        elif op == "tmo":
            conn = eps[w[1]]["conn"]
            real.now = int(kvs["t"])
            del conn._v_events[:]
            conn._check_timeout(real.now / TICK)
            evs = list(conn._v_events)
            out.append("ev=%s" % (",".join(evs) if evs else "-"))
            if log is not None:
                log.append({"op": "tmo", "e": w[1], "t": real.now, "ev": evs})
        elif op == "take":
            conn = eps[w[1]]["conn"]
            out.append("took=%d" % len(conn.incoming_messages))
            conn.incoming_messages = []
        elif op == "dump":
            out.append(real.dump(eps[w[1]]["conn"]))
            if log is not None:
                log.append({"op": "dump", "e": w[1], "t": real.now, "dump": out[-1]})
        elif op == "end":
            pass
        else:
            out.append("bad-op")
        return out


# ======================================================================= scenario generators

def size_pool(rng, mtu):
    mp = mtu - 28 - 20 - 16 - 2
    mf = mp - 6 if mp < 1030 else 1024
    pool = [0, 1, 2, 3, 5, 17, 100, 500, mp - 8, mp - 3, mp - 2, mp - 1, mp, mp + 1, mp + 2, mp + 7,
            mf - 1, mf, mf + 1, 2 * mf - 1, 2 * mf, 2 * mf + 1, mf + mp - 8, mf + mp - 7, mf + mp - 6, mf + mp - 5,
            2 * mf + mp - 7, 3 * mf, 3 * mf + 5, 5000]
    return [x for x in pool if x >= 0]


# ======================================================================= scenario generators

def size_pool(mtu):
    mp = mtu - 28 - 20 - 16 - 2
    mf = mp - 6 if mp < 1030 else 1024
    pool = [0, 1, 2, 3, 5, 17, 100, 500, mp - 8, mp - 3, mp - 2, mp - 1, mp, mp + 1, mp + 2, mp + 7,
            mf - 1, mf, mf + 1, 2 * mf - 1, 2 * mf, 2 * mf + 1, mf + mp - 8, mf + mp - 7, mf + mp - 6, mf + mp - 5,
            2 * mf + mp - 7, 3 * mf, 3 * mf + 5, 5000]
    return [x for x in pool if x >= 0]


SMALL = [0, 0, 1, 2, 5, 17, 40, 100, 300]
BASE_T = 1024 * 1000000


def forge_plain(real, rng, to_server, ptype, msgs, seq, ack, bits, ctime):
    """a CRC-valid plaintext datagram anybody can build (no key)"""
    C = real.C
    hdr = C.PacketHeader.create(not to_server, ctime, C.PacketType(ptype), C.SeqNum(seq), C.SeqNum(ack), bits)
    pm = [C.PendingMessage(C.SeqNum(s), C.PacketType(t), p, None, 0) for (s, t, p) in msgs]
    return C.Packet.create(hdr, pm).to_bytes(None)


def attacker_recv(real, rng, run, dst, t, emitted):
    """one attacker datagram towards endpoint dst; returns the recv op line"""
    conn = run.eps[dst]["conn"]
    to_server = conn.isServer
    src = "b" if dst == "a" else "a"
    n_src = len(run.eps[src]["emits"])
    r = rng.random()
    if r < 0.35 or n_src == 0:
        # forged plaintext with a valid CRC: every type x count x inner types
        ptype = rng.randint(0, 7)
        count = rng.choice([0, 1, 1, 2, 3])
        near = int(conn.bitfield_pkt.current_seqnum)
        seq = ((near + rng.choice([1, 2, 5, 40, -3, 0]) - 1) % 65535) + 1
        mnear = int(conn.bitfield_msg.current_seqnum)
        msgs = []
        for i in range(count):
            ms = ((mnear + rng.randint(1, 9) + i - 1) % 65535) + 1
            ity = rng.choice([6, 6, 7, 5, 4, 3, 2, 1]) if count > 1 else ptype
            body = lcg_bytes(rng.choice([0, 3, 8, 20]), rng.randint(1, 999))
            msgs.append((ms, ity, body))
        pend = list(conn.pending_acks)
        ack = int(pend[-1]) if pend and rng.random() < 0.8 else rng.randint(0, 65535)
        d = forge_plain(real, rng, to_server, ptype, msgs, seq, ack, rng.choice([0, 0xFFFFFFFF, rng.getrandbits(32)]),
                        t // 1024)
        return "recv %s t=%d d=%s" % (dst, t, d.hex())
    if r < 0.45:
        n = rng.choice([0, 1, 4, 19, 20, 21, 24, 36, 40, 64, rng.randint(0, 200)])
        d = bytes(rng.getrandbits(8) for _ in range(n))
        if rng.random() < 0.6 and n >= 4:
            d = (b"FSOS" if to_server else b"FSOC") + d[4:]
            if n >= 13:
                d = d[:12] + bytes([rng.randint(0, 9)]) + d[13:]
        return "recv %s t=%d d=%s" % (dst, t, d.hex() or "-")
    # mutation of a genuine datagram (recent ones mostly, also fresh = never delivered)
    k = rng.randrange(n_src) if rng.random() < 0.3 else max(0, n_src - 1 - rng.randint(0, 3))
    dlen = len(run.eps[src]["emits"][k])
    r2 = rng.random()
    if r2 < 0.3:
        bit = rng.randrange(160) if rng.random() < 0.6 else rng.randrange(dlen * 8)
        mut = "mut=flip:%d" % bit
    elif r2 < 0.45:
        mut = "mut=trunc:%d" % rng.choice([0, 1, 19, 20, 21, dlen - 17, dlen - 16, dlen - 1, rng.randrange(dlen + 1)])
    elif r2 < 0.6:
        mut = "mut=ext:%s" % bytes(rng.getrandbits(8) for _ in range(rng.choice([1, 2, 4, 16, 32]))).hex()
    elif r2 < 0.9:
        field = rng.choice(["type", "count", "length", "ack", "bits", "seq", "ctime", "magic"])
        if field == "type":
            mut = "mut=set:12:%02x" % rng.randint(0, 8)
        elif field == "count":
            mut = "mut=set:15:%02x" % rng.choice([0, 1, 2, 3, 255])
        elif field == "length":
            mut = "mut=set:13:%04x" % rng.choice([0, 1, max(0, dlen - 36 - 1), (dlen - 36 + 1) & 0xFFFF, 65535])
        elif field == "ack":
            mut = "mut=set:10:%04x" % rng.randint(0, 65535)
        elif field == "bits":
            mut = "mut=set:16:%08x" % rng.choice([0, 0xFFFFFFFF, rng.getrandbits(32)])
        elif field == "seq":
            mut = "mut=set:8:%04x" % rng.randint(0, 65535)
        elif field == "ctime":
            mut = "mut=set:4:%08x" % rng.getrandbits(32)
        else:
            mut = "mut=set:0:%s" % rng.choice([b"FSOS", b"FSOC", b"XSOS"]).hex()
    elif run.key_of.get((src, k)):
        return "recv %s t=%d d=@%s:%d rekey=%s" % (dst, t, src, k, KEY2.hex())
    else:
        mut = "mut=flip:%d" % rng.randrange(dlen * 8)
    return "recv %s t=%d d=@%s:%d %s" % (dst, t, src, k, mut)


def gen_two_party(real, rng, cid, mtu=1500, steps=50, loss=0.15, dup=0.1, delay=0.25, replay=0.05, attacker=0.0,
                  sizes=None, retry_modes=(0, 0, 1, -1), heal=True, ot=1024, ka=96, si=16, send_rate=0.5,
                  start=None, keyed=True, max_delay=400, disc=0.0, take=0.1, dumps=0.05, burst=0):
    """generate one two-party case while executing it on the real code"""
    lines = ["case %s" % cid]
    run = CaseRun(real)

    def emit(line):
        lines.append(line)
        return run.exec(line)
    try:
        emit("mtu %d" % mtu)
        emit("new a client")
        emit("new b server")
        k = KEY.hex() if keyed else "none"
        for e in "ab":
            emit("set %s key=%s status=2 si=%d ka=%d ot=%d" % (e, k, si, ka, ot))
            if start:
                # a connection that has been running for a while: counters near the wrap, and each side has received the
                # peer's latest datagram and message (a header with ack = 0 next to sequence numbers near 65535 cannot occur)
                emit("set %s ss=%d sm=%d sf=%d bp=%d bm=%d" % (e, start.get("ss", 0), start.get("sm", 0), start.get("sf", 0),
                                                               max(1, start.get("ss", 0)), max(1, start.get("sm", 0))))
        sizes = sizes or size_pool(mtu)
        t = BASE_T + rng.randint(0, 3000)
        emit("now %d" % t)
        seed = rng.randint(1, 10 ** 6)
        cbid = 0
        inflight = []   # [due, dst, src, k]

        def deliver_due(now):
            inflight.sort(key=lambda x: x[0])
            while inflight and inflight[0][0] <= now:
                due, dst, src, kk = inflight.pop(0)
                # stamped with the current time: the clock the code reads never runs backwards
                emit("recv %s t=%d d=@%s:%d" % (dst, now, src, kk))

        def do_build(e, lossy=True):
            o = emit("build %s t=%d" % (e, t))
            if o and o[0].startswith("pkt"):
                kk = len(run.eps[e]["emits"]) - 1
                dst = "b" if e == "a" else "a"
                if lossy and rng.random() < loss:
                    return
                d = rng.randint(1, max_delay) if (lossy and rng.random() < delay) else 1
                inflight.append([t + d, dst, e, kk])
                if lossy and rng.random() < dup:
                    inflight.append([t + rng.randint(1, max_delay), dst, e, kk])

        for step in range(steps):
            # also polls faster than the send interval: the rate cap itself must hold the second build back
            t += rng.choice([1, max(1, si // 2), si - 1, si, si, si + 1, 2 * si, 3 * si, 100, 300]) if not burst else si
            deliver_due(t)
            for e in rng.sample("ab", 2):
                nsend = rng.choice([0, 1, 1, 2, 3]) if rng.random() < send_rate else 0
                if burst and step == 0:
                    nsend = burst
                for _ in range(nsend):
                    seed += 1
                    cbid += 1
                    cb = str(cbid) if rng.random() < 0.8 else "-"
                    emit("send %s len=%d seed=%d retry=%d cb=%s" % (e, rng.choice(sizes), seed, rng.choice(retry_modes), cb))
                do_build(e)
                if rng.random() < 0.5:
                    emit("tmo %s t=%d" % (e, t))
                if rng.random() < take:
                    emit("take %s" % e)
                if rng.random() < dumps:
                    emit("dump %s" % e)
                if rng.random() < replay:
                    src = "b" if e == "a" else "a"
                    n = len(run.eps[src]["emits"])
                    if n:
                        emit("recv %s t=%d d=@%s:%d" % (e, t, src, rng.randrange(n)))
                if rng.random() < attacker:
                    emit(attacker_recv(real, rng, run, e, t, None))
                if disc and rng.random() < disc:
                    emit("disc %s cb=%d" % (e, 1 if e == "a" else 0))
                    if rng.random() < 0.4:
                        # an application that says goodbye from two places: the second call finds the connection already closing,
                        # with the farewell datagram (and whatever is still waiting for an acknowledgement) not yet sent
                        emit("disc %s cb=0" % e)
        if heal:
            # healed network: everything in flight and everything built from now on is delivered promptly
            for _ in range(int(4 * ot / max(si, 1)) + 40 if ot <= 2048 else 300):
                t += 2 * si
                deliver_due(t)
                for e in "ab":
                    do_build(e, lossy=False)
                    emit("tmo %s t=%d" % (e, t))
                if not inflight and not any(run.eps[e]["conn"].outgoing_messages or run.eps[e]["conn"].pending_retry_msg
                                            or run.eps[e]["conn"].pending_callbacks for e in "ab"):
                    break
            deliver_due(t + max_delay + 1)
        emit("dump a")
        emit("dump b")
    finally:
        run.close()
    lines.append("end")
    return lines


def sizes_case(cid="sizes", lo=100, hi=1600):
    """the size constants Packet.setMTU derives, for every MTU (model: Wire.Sizes)"""
    return ["case %s" % cid] + ["sizes %d" % m for m in range(lo, hi + 1)] + ["end"]


def late_case(cid, late, held=3, si=16, start=None, mtu=1500):
    """a emits on every tick over a perfect link except that emission `held` is held back and arrives when the receiver's newest is
    exactly `late` datagrams ahead of it; afterwards b reports its window in a header"""
    lines = ["case %s" % cid, "mtu %d" % mtu, "new a client", "new b server"]
    for e in "ab":
        lines.append("set %s key=%s status=2 si=%d ka=%d ot=8192" % (e, KEY.hex(), si, si - 1))
        if start:
            lines.append("set %s ss=%d sm=%d sf=%d bp=%d bm=%d" % (e, start["ss"], start["sm"], 1, max(1, start["ss"]), max(1, start["sm"])))
    t = BASE_T
    lines.append("now %d" % t)
    kb = 0
    for i in range(held + late + 6):
        t += si
        if i % 2 == 0:
            lines.append("send a len=%d seed=%d retry=0 cb=-" % (10 + i % 7, 1000 + i))
        lines.append("build a t=%d" % t)
        if i != held:
            lines.append("recv b t=%d d=@a:%d" % (t, i))
        if i == held + late:
            lines.append("recv b t=%d d=@a:%d" % (t, held))
            lines.append("recv b t=%d d=@a:%d" % (t, held))          # and a true duplicate of it
        if i % 4 == 0 or i >= held + late:
            lines.append("build b t=%d" % t)
            lines.append("recv a t=%d d=@b:%d" % (t, kb))
            kb += 1
    lines += ["dump a", "dump b", "end"]
    return lines


def window_monitor(case, log, ctx):
    """endpoint level statement of the receive window: a genuine datagram arriving for the first time at most 32 behind the newest
    accepted one is accepted, further behind it is dropped; every emitted header's (ack, ack_bits) names exactly the datagrams accepted
    among the newest 33"""
    idx = [i for i, l in enumerate(case) if l.startswith(("recv ", "build "))]
    n = -1
    acc = {"a": set(), "b": set()}       # receiver -> accepted emission indices of its peer
    seq_of = {"a": {}, "b": {}}          # sender -> emission index -> datagram seq
    tainted = set()
    for l in case:
        w = l.split()
        if w[0] == "set" and w[1] in acc and any(x.startswith("bp=") and x != "bp=0" for x in w[2:]):
            acc[w[1]].add(-1)            # a start state that has already received the peer's latest datagram (index -1)
    for rec in log:
        if rec["op"] not in ("recv", "build"):
            continue
        n += 1
        at = idx[n] - 1 if n < len(idx) else len(case) - 2
        e = rec.get("e")
        if e not in acc:
            return
        peer = "b" if e == "a" else "a"
        if rec["op"] == "build":
            p = rec.get("pkt")
            if not p:
                continue
            seq_of[e][p["k"]] = p["seq"]
            if e in tainted or not acc[e]:
                continue
            newest = max(acc[e])
            exp_ack = seq_of[peer].get(newest)
            exp_bits = 0
            for d in range(1, 33):
                if (newest - d) in acc[e]:
                    exp_bits |= 1 << (32 - d)
            if exp_ack is not None and (p["ack"] != exp_ack or p["bits"] != exp_bits):
                ctx.failure("ack-fields-misreport-window", "%s emitted ack=%d bits=%08x; accepted among the newest 33 of its peer: ack=%d bits=%08x" %
                            (e, p["ack"], p["bits"], exp_ack, exp_bits), {"case": case, "at": at})
                return
            ctx.count("window:header-checked")
            continue
        if "hdrerr" in rec:
            continue
        genuine = rec["spec"].startswith("@" + peer + ":") and not rec["muts"] and not rec.get("rekey")
        if not genuine:
            if rec.get("ret") != "F":
                tainted.add(e)
            continue
        if e in tainted:
            continue
        k = int(rec["spec"].split(":")[1])
        newest = max(acc[e]) if acc[e] else None
        if k in acc[e]:
            exp = "F"
        elif newest is None or k > newest or newest - k <= 32:
            exp = "T"
        else:
            exp = "F"
        if rec["ret"] in ("T", "F") and rec["ret"] != exp:
            ctx.failure("window-accepts-wrongly" if rec["ret"] == "T" else "fresh-datagram-inside-window-dropped",
                        "datagram %s arriving at %s %s behind the newest accepted one (first arrival: %s) returned %s, expected %s" %
                        (rec["spec"], e, "-" if newest is None else str(newest - k), k not in acc[e], rec["ret"], exp),
                        {"case": case, "at": at})
            return
        if rec["ret"] != "F":
            acc[e].add(k)
            ctx.count("window:late=%s" % ("new" if newest is None or k > newest else "1-31" if newest - k < 32 else "32" if newest - k == 32 else ">32"))


# ======================================================================= model-side helpers

def model_lines(case):
    return case


def add_set_extras():
    pass


# ======================================================================= projections and shared runner

ANSWERING = ("send", "disc", "build", "recv", "tmo", "take", "dump", "hello", "cupd", "supd", "sizes")


def answering_ops_srv(case):
    return [l for l in case[1:] if l.split() and l.split()[0] in ANSWERING + ("it", "stop")]


def answering_ops(case):
    return [l for l in case[1:] if l.split() and l.split()[0] in ANSWERING]


def make_post(fn):
    """fn(op_line, out_line) -> projected line or None; applied to impl and model output alike"""
    def post(case, outs):
        ops = answering_ops(case)
        res = []
        for i, o in enumerate(outs):
            op = ops[i] if i < len(ops) else "?"
            r = fn(op, o)
            if r is not None:
                res.append(r)
        if len(outs) != len(ops):
            res.append("#outputs=%d ops=%d" % (len(outs), len(ops)))
        return res
    return post


def make_post_hs(fn):
    return make_post(fn)


def ev_filter(line, kinds):
    """keep only the events of the given kinds in a 'ret=.. ev=..' / 'ev=..' line"""
    head, _, evs = line.rpartition("ev=")
    keep = [e for e in evs.split(",") if e.split(":")[0] in kinds]
    return head + "ev=" + (",".join(keep) if keep else "-")


def dump_fields(line, fields):
    parts = dict(x.split("=", 1) for x in line.split() if "=" in x)
    return " ".join("%s=%s" % (f, parts.get(f, "?")) for f in fields)


def run_cases(ctx, real, cases, post, layer, rule, nontrivial=None, snapshots=True):
    """correspondence + collection of the structured logs of the real runs (for the monitors)"""
    logs = {}

    def impl_fn(case):
        log = []
        out = real.run_case(case, log, snapshots)
        # keep the log of the ORIGINAL case only (minimisation re-runs shortened variants under the same id)
        logs.setdefault((core.case_id(case), len(case)), log)
        logs.setdefault(core.case_id(case), log)
        return out
    bad = ctx.correspondence(layer, "Conn", cases, impl_fn, nontrivial, rule, post=post)
    return logs, bad


# ======================================================================= handshake scenarios (recorded runs)

def run_recorded(ctx, cases, outputs, post, layer, rule, nontrivial=None):
    """correspondence for cases whose real execution cannot be repeated bit for bit (fresh EC keys, random signatures):
    the outputs recorded while the case was generated are the implementation side"""
    def impl_fn(case):
        return outputs[core.case_id(case)]
    return ctx.correspondence(layer, "Conn", cases, impl_fn, nontrivial, rule, minimise=False, post=post)


def resigned_hello(real, genuine_payload_msg, attacker_root):
    """a server hello an active attacker can produce: own ephemeral key, genuine salt/token, signed with the attacker's root key"""
    C = real.C
    m = C.HandshakeServerHelloMessage()
    m.server_pubkey = C.EllipticCurvePrivateKey.new().getPublicKey()
    m.salt = genuine_payload_msg.salt if genuine_payload_msg is not None else b"\x00" * 16
    m.token = genuine_payload_msg.token if genuine_payload_msg is not None else 0x40000001
    return m.dumpb(server_root_key=attacker_root)


def gen_handshake(real, rng, cid, script=None):
    """one or two client/server connection pairs running the three-way handshake under an attack script; executed on the
    real classes while it is generated; returns (case lines with oracle values, outputs, log)"""
    C = real.C
    lines = ["case %s" % cid]
    outs = []
    log = []
    run = CaseRun(real, log)
    t = BASE_T + rng.randint(0, 3000)
    script = script or rng.choice(["honest", "honest", "flip-client-hello", "flip-server-hello", "foreign-root", "resigned", "other-session",
                                    "wrong-token", "other-key-challenge", "dup-reorder", "tofu", "pinned-other", "trunc-ext", "early-app",
                                    "no-answer", "stacked", "early-send", "late-hello", "rekey-attempt", "lookalike"])

    def emit(line):
        o = run.exec(line)
        lines.append(run.last_line)
        outs.extend(o)
        return o

    def built(e):
        nonlocal t
        t += 20
        o = emit("build %s t=%d" % (e, t))
        return len(run.eps[e]["emits"]) - 1 if (o and o[0].startswith("pkt")) else None

    def deliver(dst, src, k, extra=""):
        nonlocal t
        t += 3
        return emit("recv %s t=%d d=@%s:%d%s" % (dst, t, src, k, (" " + extra) if extra else ""))

    try:
        emit("now %d" % t)
        emit("mtu %d" % rng.choice([1500, 1500, 512, 420]))
        emit("new c csc")
        emit("new s scc")
        pinned = {"tofu": "none", "pinned-other": "02"}.get(script, "01")
        ccb = rng.choice(["0", "1"])
        emit("set c pinned=%s ccb=%s si=16 ka=96 ot=1024 tt=2048" % (pinned, ccb))
        emit("set s si=16 ka=96 ot=1024")
        if script in ("other-session", "foreign-root"):
            emit("new c2 csc")
            emit("new s2 %s" % ("scc2" if script == "foreign-root" else "scc"))
            emit("set c2 pinned=none ccb=0 si=16 ka=96 ot=1024 tt=2048")
            emit("set s2 si=16 ka=96 ot=1024")
        t += 5
        emit("hello c t=%d" % t)
        if script == "early-send":
            # the application calls send() while the handshake is in flight: nothing of it may leave before a key exists
            emit("send c len=%d seed=%d retry=%d cb=-" % (rng.choice([5, 11, 14, 40, 200]), rng.randint(1, 9999), rng.choice([0, 1, -1])))
        kc = built("c")
        dlen = len(run.eps["c"]["emits"][kc])
        if script == "no-answer":
            for _ in range(rng.randint(20, 40)):
                t += rng.choice([100, 200, 300])
                emit("cupd c t=%d" % t)
                built("c")
            emit("dump c")
            lines.append("end")
            return lines, outs, log
        # ---- client hello -> server
        if script == "flip-client-hello":
            deliver("s", "c", kc, "mut=flip:%d" % rng.randrange(dlen * 8))
        elif script == "trunc-ext":
            deliver("s", "c", kc, rng.choice(["mut=trunc:%d" % rng.choice([dlen - 1, dlen - 5, 60, 24]), "mut=ext:00", "mut=ext:0102030405060708"]))
        if script == "early-app":
            # application data and other types before any key exists: forged plaintext towards both ends
            for dst, ty in (("s", 6), ("c", 6), ("s", 3), ("c", 5), ("s", 4)):
                t += 1
                emit("recv %s t=%d d=!%d,%d,0,0,%d,1:%s:none" % (dst, t, ty, rng.randint(1, 9), t // 1024, (b"\x00\x07" + b"evil").hex()))
        if script == "stacked":
            # one unauthenticated datagram typed CLIENT_HELLO that carries MORE than the hello: a hello (unsupported version, or the
            # genuine one) followed by a challenge response / application message nobody authenticated
            raw = run.eps["c"]["emits"][kc]
            v = rng.choice(["v2+chal0", "v2+chal0", "hello+chal", "hello+app"])
            if v == "v2+chal0":
                h = C.HandshakeClientHelloMessage()
                h.client_pubkey = real.crypto.EllipticCurvePrivateKey.new().getPublicKey()
                h.client_version = 2
                p1 = h.dumpb()
            else:
                p1 = raw[22:-4]
            chal = C.HandshakeClientChallengeResponseMessage()
            chal.token = 0 if v == "v2+chal0" else rng.choice([0, 0x40000000, rng.getrandbits(31)])
            p2, ty2 = (b"evil", 6) if v == "hello+app" else (chal.dumpb(), 3)
            pt = struct.pack(">HHB", len(p1), 1, 1) + p1 + struct.pack(">HHB", len(p2), 2, ty2) + p2
            t += 2
            emit("recv s t=%d d=!1,1,0,0,%d,2:%s:none" % (t, t // 1024, pt.hex()))
            emit("dump s")
        deliver("s", "c", kc)
        if script == "dup-reorder":
            deliver("s", "c", kc)
        if script == "early-send":
            # ... and on the server side between the client hello and the datagram that carries the server hello
            emit("send s len=%d seed=%d retry=%d cb=-" % (rng.choice([5, 40, 200]), rng.randint(1, 9999), rng.choice([0, 1, -1])))
            for _ in range(rng.randint(0, 2)):
                emit("send c len=%d seed=%d retry=0 cb=-" % (rng.choice([5, 40, 300]), rng.randint(1, 9999)))
                kx = built("c")
                if kx is not None:
                    deliver("s", "c", kx)
        ks = built("s")
        if script == "stacked" and ks is not None:
            # the genuine server hello followed by an unauthenticated application message, towards the client
            raw = run.eps["s"]["emits"][ks]
            p1 = raw[22:-4]
            pt = struct.pack(">HHB", len(p1), 1, 2) + p1 + struct.pack(">HHB", 4, 2, 6) + b"evil"
            t += 2
            emit("recv c t=%d d=!2,1,0,0,%d,2:%s:none" % (t, t // 1024, pt.hex()))
            emit("dump c")
        if script in ("other-session", "foreign-root"):
            t += 5
            emit("hello c2 t=%d" % t)
            kc2 = built("c2")
            deliver("s2", "c2", kc2)
            ks2 = built("s2")
        if script == "late-hello":
            # the genuine server hello is slow: the client polls past its connect time-out (callback False) before the hello arrives.
            # If the client then takes it, it must end up with the key of the connection that signed it
            t_end = t + rng.choice([2048, 2100, 2600, 4000])
            while t < t_end:
                t += rng.choice([100, 200, 300])
                emit("cupd c t=%d" % t)
                built("c")
        # ---- server hello -> client
        if ks is not None:
            slen = len(run.eps["s"]["emits"][ks])
            if script == "flip-server-hello":
                # root key field (bytes 24..), signed payload, signature: flip anywhere behind the 20 header bytes + CRC fix is
                # impossible for a plain flip (CRC fails) - so rebuild the CRC as an attacker would
                raw = run.eps["s"]["emits"][ks]
                pos = rng.randrange(20, slen - 4)
                body = bytearray(raw[:-4])
                body[pos] ^= 1 << rng.randrange(8)
                forged = bytes(body) + struct.pack(">L", real.crypto.crc32(bytes(body)))
                t += 3
                emit("recv c t=%d d=%s" % (t, forged.hex()))
            elif script == "resigned":
                raw = run.eps["s"]["emits"][ks]
                try:
                    gen = C.Serializable.loadb(raw[22:-4], server_public_key=None)
                except Exception:
                    gen = None
                payload = resigned_hello(real, gen, real.server_ctxt("other").server_root_key)
                # the forgery arrives once, or several times in fresh datagrams (a rejected attempt must not weaken the next check)
                for j in range(rng.choice([1, 2, 3])):
                    t += 3
                    emit("recv c t=%d d=!2,%d,0,0,%d,1:%s:none" % (t, j + 1, t // 1024, (struct.pack(">H", j + 1) + payload).hex()))
            elif script == "lookalike":
                # the body of a SERVER_HELLO that is not a server hello: an object of ANOTHER registered class. Classes whose instances
                # carry the attributes the client reads (server_pubkey, salt, token) are filled with the attacker's values - nothing but
                # a HandshakeServerHelloMessage verified under the pinned key may give the client a key
                import mpgameserver.serializable as S
                att = C.EllipticCurvePrivateKey.new()
                bodies = []
                for tid, cls in sorted(S.SerializableType.registry.items(), key=lambda kv: str(kv[0])):
                    if not isinstance(cls, type) or cls is C.HandshakeServerHelloMessage or not issubclass(cls, S.Serializable):
                        continue
                    try:
                        obj = cls()
                        if all(hasattr(obj, a) for a in ("server_pubkey", "salt", "token")):
                            obj.server_pubkey, obj.salt, obj.token = att.getPublicKey(), bytes(16), 0x40001234
                            bodies.insert(0, obj.dumpb())
                        elif cls in (C.HandshakeClientChallengeResponseMessage,):
                            bodies.append(obj.dumpb())
                    except Exception:
                        continue
                for j, payload in enumerate(bodies[:3]):
                    t += 3
                    emit("recv c t=%d d=!2,%d,0,0,%d,1:%s:none" % (t, j + 1, t // 1024, (struct.pack(">H", j + 1) + payload).hex()))
            elif script in ("other-session", "foreign-root") and ks2 is not None:
                deliver("c", "s2", ks2)
            elif script == "trunc-ext":
                deliver("c", "s", ks, rng.choice(["mut=trunc:%d" % (slen - 1), "mut=ext:00"]))
            deliver("c", "s", ks)
            if script == "dup-reorder":
                deliver("c", "s", ks)
        t += 5
        emit("cupd c t=%d" % t)
        kch = built("c")
        # ---- challenge -> server
        ckey = run.eps["c"]["conn"].session_key_bytes
        if kch is not None and ckey:
            tok = run.eps["c"]["conn"].token
            chal = C.HandshakeClientChallengeResponseMessage()
            if script == "wrong-token":
                chal.token = (tok + 1) & 0x7fffffff
                t += 3
                emit("recv s t=%d d=!3,9,0,0,%d,1:%s:%s" % (t, t // 1024, (b"\x00\x09" + chal.dumpb()).hex(), ckey.hex()))
            elif script == "other-key-challenge":
                deliver("s", "c", kch, "rekey=%s" % KEY2.hex())
            if script == "dup-reorder" and rng.random() < 0.5:
                pass
            deliver("s", "c", kch)
            if script == "dup-reorder":
                deliver("s", "c", kch)
                chal.token = tok
                t += 3
                # a second, freshly built challenge with the right token after promotion
                emit("recv s t=%d d=!3,12,0,0,%d,1:%s:%s" % (t, t // 1024, (b"\x00\x0c" + chal.dumpb()).hex(), ckey.hex()))
        if script == "rekey-attempt" and ckey and run.eps["s"]["conn"].status.value == 2:
            # the CONNECTED client sends CLIENT_HELLO messages sealed under the session key while the server has retried messages in
            # flight and large ones queued: the server must not answer (no second hello, no new key, nothing of the application behind
            # a clear SERVER_HELLO)
            mp = C.Packet.MAX_PAYLOAD_SIZE
            emit("send s len=40 seed=%d retry=-1 cb=-" % rng.randint(1, 9999))
            built("s")                                    # lost
            for _ in range(2):
                emit("send s len=%d seed=%d retry=-1 cb=-" % (mp, rng.randint(1, 9999)))
            cc = run.eps["c"]["conn"]
            hm = C.HandshakeClientHelloMessage()
            hm.client_pubkey = cc.session_key.getPublicKey()
            hm.client_version = cc.version
            hp = hm.dumpb()
            ss, sm = (int(cc.seq_sending) % 65535) + 1, (int(cc.seq_message) % 65535) + 1
            sm2 = (sm % 65535) + 1
            emit("set c ss=%d sm=%d" % (ss, sm2))
            body = b"".join(struct.pack(">HHB", len(hp), q, 1) + hp for q in (sm, sm2))
            t += 3
            emit("recv s t=%d d=!1,%d,%d,%d,%d,2:%s:%s" % (t, ss, int(cc.bitfield_pkt.current_seqnum), cc.bitfield_pkt.bits, t // 1024,
                                                        body.hex(), ckey.hex()))
            t += rng.choice([990, 1010, 1030])
            for _ in range(8):
                built("s")
                emit("tmo s t=%d" % t)
            emit("dump s")
        # ---- afterwards: traffic both ways
        for e in ("c", "s"):
            emit("send %s len=%d seed=%d retry=0 cb=-" % (e, rng.choice([5, 40]), rng.randint(1, 9999)))
        for _ in range(3):
            for e, p in (("c", "s"), ("s", "c")):
                k = built(e)
                if k is not None:
                    deliver(p, e, k)
            t += 100
            emit("cupd c t=%d" % t)
        emit("dump c")
        emit("dump s")
    finally:
        run.close()
    lines.append("end")
    return lines, outs, log

def fresh_message_monitor(case, log, ctx):
    """the message window, stated on the endpoints: a message is flagged duplicate only if it was received before - an application
    message carried by an accepted datagram whose message number no earlier accepted datagram of that sender carried is handed on
    (a `dlv` event in that very step), however far behind the newest message number it is"""
    carried = {}                       # sender -> emission index -> [(mseq, type, digest)]
    seen = {}                          # receiver -> set of message numbers carried by datagrams it accepted
    tainted = set()
    recvs = [i for i, l in enumerate(case) if l.startswith("recv ")]
    n = -1
    for rec in log:
        if rec["op"] == "build" and rec.get("pkt"):
            carried.setdefault(rec["e"], {})[rec["pkt"]["k"]] = rec["pkt"]["msgs"]
        elif rec["op"] == "recv":
            n += 1
            if rec.get("ret") == "T" and (not rec.get("spec", "").startswith("@") or rec.get("muts") or rec.get("rekey")):
                # an accepted datagram that is not a plain copy of an emission (re-sealed under the real key by the attacker stream, or
                # forged towards an unkeyed endpoint): which message numbers it consumed is not known here - the receiver is out of scope
                tainted.add(rec["e"])
                continue
            if rec.get("ret") != "T" or not rec.get("spec", "").startswith("@") or rec["e"] in tainted:
                continue
            src, kk = rec["spec"][1:].split(":")
            got = set()
            for ev in rec.get("ev", []):
                p = ev.split(":")
                if p[0] == "dlv":
                    got.add(int(p[1]))
            mine = seen.setdefault(rec["e"], set())
            for mseq, ty, _dg in carried.get(src, {}).get(int(kk), []):
                if ty == 6 and mseq not in mine and mseq not in got:          # 6 = PacketType.APP
                    ctx.failure("fresh-message-flagged-duplicate", "endpoint %s accepted datagram %s carrying application message %d, which "
                                "it had never received before, and did not hand it on" % (rec["e"], rec["spec"], mseq),
                                {"case": case, "at": (recvs[n] - 1) if n < len(recvs) else len(case) - 2})
                    return True
                mine.add(mseq)
    return False


def key_stability_monitor(case, log, ctx, endpoints=None):
    """one session key per connection: once an endpoint has emitted a datagram under a key, every later datagram it emits is under
    that same key (a server-side connection answers one hello; nothing re-keys an established connection)"""
    builds = [i for i, l in enumerate(case) if l.startswith("build ")]
    first = {}
    b = -1
    for rec in log:
        if rec["op"] != "build":
            continue
        b += 1
        p = rec.get("pkt")
        if not p or not p.get("key"):
            continue
        e = rec["e"]
        if endpoints is not None and not e.startswith(endpoints):
            continue
        if e in first and first[e][0] != p["key"]:
            ctx.failure("session-key-changed", "endpoint %s emitted datagram %d under key %s after having emitted datagram %d under key %s: "
                        "the connection was re-keyed after its handshake" % (e, p["k"], p["key"], first[e][1], first[e][0]),
                        {"case": case, "at": (builds[b] - 1) if b < len(builds) else len(case) - 2})
            return True
        first.setdefault(e, (p["key"], p["k"]))
    return False


def sealing_monitor(case, log, ctx):
    """every datagram emitted while a key is held (other than the server hello) opens under that key with nonce = its bytes 0..11 and the
    whole 20-byte header as associated data: no header field travels unauthenticated"""
    builds = [i for i, l in enumerate(case) if l.startswith("build ")]
    b = -1
    for rec in log:
        if rec["op"] != "build":
            continue
        b += 1
        p = rec.get("pkt")
        if p and p.get("sealed") and p.get("aad_ok") is False:
            ctx.failure("header-not-authenticated", "datagram %d of %s (type %d) was emitted under the session key but does not open with "
                        "nonce = bytes 0..11 and AAD = bytes 0..19: part of the header is not covered by the tag" % (p["k"], rec["e"], p["ty"]),
                        {"case": case, "at": (builds[b] - 1) if b < len(builds) else len(case) - 2})
            return True
    return False

def reassembly_monitor(case, log, ctx):
    """reference reading of FragmentReceiver on what each endpoint accepted: a fragment goes into the context of its id (created on the
    first fragment, keeping that arrival time), a complete context is delivered and removed, and only THEN contexts older than
    1 + 0.5*count s are purged - so a late fragment still completes its own context.  The real endpoint must deliver at least as many
    reassembled messages as this reading does."""
    emitted = {}       # (endpoint, emission index) -> {mseq: (frag id, index, count)}
    for rec in log:
        if rec["op"] == "build" and rec.get("pkt"):
            emitted[(rec["e"], rec["pkt"]["k"])] = rec["pkt"].get("frags", {})
    big = {r["digest"] for r in log if r["op"] == "send" and r.get("frag")}
    ctxs, seen, ref, got = {}, {}, {}, {}
    pos = [i for i, l in enumerate(case) if l.startswith("recv ")]
    n = -1
    for rec in log:
        if rec["op"] != "recv":
            continue
        n += 1
        if "hdrerr" in rec:
            continue
        e = rec["e"]
        for ev in rec.get("ev", []):
            q = ev.split(":")
            if q[0] == "dlv" and (q[2] + ":" + q[3]) in big:
                got[e] = got.get(e, 0) + 1
        if rec.get("ret") != "T" or not rec["spec"].startswith("@") or rec.get("muts") or rec.get("rekey"):
            continue
        src, k = rec["spec"][1:].split(":")
        for mseq, (fid, idx, cnt) in sorted(emitted.get((src, int(k)), {}).items()):
            if mseq in seen.setdefault(e, set()):
                continue
            seen[e].add(mseq)
            c = ctxs.setdefault(e, {})
            if fid not in c:
                c[fid] = {"t": rec["t"], "cnt": cnt, "have": set()}
            if 1 <= idx <= c[fid]["cnt"]:
                c[fid]["have"].add(idx)
            if len(c[fid]["have"]) == c[fid]["cnt"]:
                ref[e] = ref.get(e, 0) + 1
                del c[fid]
            for f2 in [f for f, x in c.items() if rec["t"] - x["t"] > 1024 + 512 * x["cnt"]]:
                del c[f2]
        if ref.get(e, 0) > got.get(e, 0):
            ctx.failure("complete-message-not-reassembled",
                        "endpoint %s has accepted every fragment of %d fragmented message(s) within the lifetime of their reassembly contexts "
                        "but delivered only %d" % (e, ref[e], got.get(e, 0)),
                        {"case": case, "at": (pos[n] - 1) if n < len(pos) else len(case) - 2})
            return True
    ctx.count("reassembly:reference-deliveries", sum(ref.values()))
    return False
